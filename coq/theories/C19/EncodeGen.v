(* GENERATED on every run by harness/props/c19.py from the working tree of the repository:
   - bs_block / ps_block: the array literals of Beamsplitter/Phaseshifter._get_passive_block
     (piquasso/instructions/gates.py), by a fail-closed ast translator;
   - emitted: the instruction lists returned by dual_rail_encoding._map_qiskit_instr_to_pq for each
     supported gate name, called with symbolic parameters and sentinel modes;
   - klm_theta*_turns: the two decimal literals of _cz_on_two_bosonic_qubits, divided by 180.
   Do not edit. *)
From Coq Require Import ZArith QArith List Bool String.
From PV Require Import C19.DRBase.
Import ListNotations.
Open Scope string_scope.

Section Blocks.
  Context {A : Type} (O : ops A).
  Definition bs_block (cos_theta sin_theta : A) (exp_phi expc_phi : @cplx A) : @mat2 A :=
    (((cre O cos_theta), (copp O (cmul O expc_phi (cre O sin_theta)))), ((cmul O exp_phi (cre O sin_theta)), (cre O cos_theta))).
  Definition ps_block (exp_phi expc_phi : @cplx A) : @cplx A := exp_phi.
End Blocks.

Definition klm_theta1_turns : Q := ((2737) # 9000)%Q.
Definition klm_theta2_turns : Q := ((1763) # 18000)%Q.

Definition emitted_h : list einstr := [EPS 1 (ATurn ((1) # 1)%Q); EBS 0 1 (ATurn ((1) # 4)%Q) (ATurn ((0) # 1)%Q)].
Definition emitted_x : list einstr := [EPS 1 (ATurn ((1) # 1)%Q); EBS 0 1 (ATurn ((1) # 2)%Q) (ATurn ((0) # 1)%Q)].
Definition emitted_y : list einstr := [EBS 0 1 (ATurn ((-1) # 2)%Q) (ATurn ((1) # 2)%Q); EPS 1 (ATurn ((1) # 1)%Q)].
Definition emitted_z : list einstr := [EPS 1 (ATurn ((1) # 1)%Q)].
Definition emitted_rx : list einstr := [EBS 0 1 (APar 0 ((1) # 2)%Q) (ATurn ((-1) # 2)%Q)].
Definition emitted_ry : list einstr := [EBS 0 1 (APar 0 ((1) # 2)%Q) (ATurn ((0) # 1)%Q)].
Definition emitted_rz : list einstr := [EPS 0 (APar 0 ((-1) # 2)%Q); EPS 1 (APar 0 ((1) # 2)%Q)].
Definition emitted_u : list einstr := [EPS 1 (APar 2 ((1) # 1)%Q); EBS 0 1 (APar 0 ((1) # 2)%Q) (ATurn ((0) # 1)%Q); EPS 1 (APar 1 ((1) # 1)%Q)].
Definition emitted_u3 : list einstr := [EPS 1 (APar 2 ((1) # 1)%Q); EBS 0 1 (APar 0 ((1) # 2)%Q) (ATurn ((0) # 1)%Q); EPS 1 (APar 1 ((1) # 1)%Q)].
Definition emitted_p : list einstr := [EPS 1 (APar 0 ((1) # 1)%Q)].
Definition emitted_cz : list einstr := [EPS 0 (ATurn ((1) # 1)%Q); EPS 1 (ATurn ((1) # 1)%Q); EBS 0 2 (AK1 false) (ATurn ((0) # 1)%Q); EBS 1 3 (AK1 false) (ATurn ((0) # 1)%Q); EBS 0 1 (AK1 true) (ATurn ((0) # 1)%Q); EBS 2 3 (AK2 false) (ATurn ((0) # 1)%Q); EPost 2 3 1 1].
Definition emitted_cx : list einstr := [EPS 3 (ATurn ((1) # 1)%Q); EBS 2 3 (ATurn ((1) # 4)%Q) (ATurn ((0) # 1)%Q); EPS 1 (ATurn ((1) # 1)%Q); EPS 3 (ATurn ((1) # 1)%Q); EBS 1 4 (AK1 false) (ATurn ((0) # 1)%Q); EBS 3 5 (AK1 false) (ATurn ((0) # 1)%Q); EBS 1 3 (AK1 true) (ATurn ((0) # 1)%Q); EBS 4 5 (AK2 false) (ATurn ((0) # 1)%Q); EPost 4 5 1 1; EPS 3 (ATurn ((1) # 1)%Q); EBS 2 3 (ATurn ((1) # 4)%Q) (ATurn ((0) # 1)%Q)].
Definition emitted_measure : list einstr := [EMeas 0 1].
Definition emitted_p_zero : list einstr := [].

Definition emitted (name : string) : option (list einstr) :=
  if String.eqb name "h" then Some emitted_h else
  if String.eqb name "x" then Some emitted_x else
  if String.eqb name "y" then Some emitted_y else
  if String.eqb name "z" then Some emitted_z else
  if String.eqb name "rx" then Some emitted_rx else
  if String.eqb name "ry" then Some emitted_ry else
  if String.eqb name "rz" then Some emitted_rz else
  if String.eqb name "u" then Some emitted_u else
  if String.eqb name "u3" then Some emitted_u3 else
  if String.eqb name "p" then Some emitted_p else
  if String.eqb name "cz" then Some emitted_cz else
  if String.eqb name "cx" then Some emitted_cx else
  if String.eqb name "measure" then Some emitted_measure else
  None.
