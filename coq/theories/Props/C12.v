(* C12 - Execution never modifies what the caller passed in, even on failure.
   Only statements closed by [exact]; proofs live in C12/. *)
From Coq Require Import ZArith QArith List.
From PV Require Import C12.ExecModel C12.ExecProofs C12.HeapModel C12.HeapProofs
  C12.BufferModel C12.BufferProofs.
Import ListNotations.
Open Scope Z_scope.

(* dict.update twice: resolved values in, the dict's own entries back: identity *)
Theorem C12_update_restore : forall ps rs os,
  NoDup (map fst ps) -> map fst rs = map fst os -> (forall kv, In kv os -> In kv ps) ->
  update (update ps rs) os = ps.
Proof. exact update_restore. Qed.
Print Assumptions C12_update_restore.

(* Instruction.__init__ establishes the invariant the theorems assume *)
Theorem C12_constructor_wf : forall k kn nm mid none modes ps c,
  NoDup (map fst ps) -> wf_instr (mk_instr k kn nm mid none modes ps c).
Proof. exact wf_mk_instr. Qed.
Print Assumptions C12_constructor_wf.

(* repaired code: the instruction objects left behind equal those passed in, for every
   program, simulator setting, shots, initial state and history (every fault position,
   stage and outcome history), whether execute returns or raises *)
Theorem C12_exec_restores : forall validate sim_d shots init prog h,
  wf_prog prog ->
  snd (fst (execute repaired validate sim_d shots init prog h)) = prog.
Proof. exact exec_restores. Qed.
Print Assumptions C12_exec_restores.

(* hence a second execution on the same objects behaves as on fresh ones *)
Theorem C12_reexec_same :
  forall validate sim_d shots init prog h1 validate2 sim_d2 shots2 init2 h2,
  wf_prog prog ->
  execute repaired validate2 sim_d2 shots2 init2
     (snd (fst (execute repaired validate sim_d shots init prog h1))) h2
  = execute repaired validate2 sim_d2 shots2 init2 prog h2.
Proof. exact reexec_same. Qed.
Print Assumptions C12_reexec_same.

(* the tree as it is restores on success when no parameter is a string ... *)
Theorem C12_current_restores_ok_except_str :
  forall validate sim_d shots init prog h r prog' tr,
  wf_prog prog -> prog_no_str prog ->
  execute current validate sim_d shots init prog h = (inr r, prog', tr) -> prog' = prog.
Proof. exact current_restores_ok_except_str. Qed.
Print Assumptions C12_current_restores_ok_except_str.

(* ... and try/finally alone settles everything but string parameters *)
Theorem C12_finally_only_restores_except_str : forall up validate sim_d shots init prog h,
  wf_prog prog -> prog_no_str prog ->
  snd (fst (execute (mkV true false up) validate sim_d shots init prog h)) = prog.
Proof. exact finally_only_restores_except_str. Qed.
Print Assumptions C12_finally_only_restores_except_str.

(* the three ways in which the full statement is false of the tree as it is *)
Theorem C12_str_param_becomes_expr_refuted_on_current :
  exists prog h r prog' tr, wf_prog prog /\
    execute current true (Some 3) (Some 1) None prog h = (inr r, prog', tr) /\ prog' <> prog.
Proof. exact str_param_becomes_expr_refuted_on_current. Qed.
Print Assumptions C12_str_param_becomes_expr_refuted_on_current.

Theorem C12_modes_left_remapped_refuted_on_current :
  exists prog h, wf_prog prog /\ prog_no_str prog /\
    map i_modes (snd (fst (execute current true (Some 3) (Some 1) None prog h)))
    <> map i_modes prog.
Proof. exact modes_left_remapped_refuted_on_current. Qed.
Print Assumptions C12_modes_left_remapped_refuted_on_current.

Theorem C12_params_left_resolved_refuted_on_current :
  exists prog h, wf_prog prog /\ prog_no_str prog /\
    map i_params (snd (fst (execute current true (Some 3) (Some 1) None prog h)))
    <> map i_params prog.
Proof. exact params_left_resolved_refuted_on_current. Qed.
Print Assumptions C12_params_left_resolved_refuted_on_current.

(* ---- the caller's Config, initial_state and the `random` module (heap of cells) *)
(* the caller's Config object keeps every attribute and its Generator object, for every
   sequence of things the steps do (writes, draws, sub-branch copies), on both trees *)
Theorem C12_caller_config_untouched : forall fx c ui ur evs h0,
  (c < h_ncfg h0)%nat ->
  (forall s, ui = Some s -> (s < h_nst h0)%nat) ->
  h_cfg (exec_heap fx (Some c) ui ur evs h0) c = h_cfg h0 c.
Proof. exact caller_config_untouched. Qed.
Print Assumptions C12_caller_config_untouched.

(* the caller's initial_state keeps its arrays, its Config and - unless they are the very
   objects the simulator shares with the caller's Config - the states of its generators *)
Theorem C12_initial_state_untouched : forall fx uc s ur evs h0,
  (forall c, uc = Some c -> (c < h_ncfg h0)%nat) ->
  (s < h_nst h0)%nat -> (s_cfg (h_st h0 s) < h_ncfg h0)%nat ->
  (rng_of h0 s < h_nrng h0)%nat -> (py_of h0 s < h_npy h0)%nat ->
  (fx = true \/ uc <> None) ->
  let h := exec_heap fx uc (Some s) ur evs h0 in
  h_st h s = h_st h0 s /\ h_cfg h (s_cfg (h_st h0 s)) = h_cfg h0 (s_cfg (h_st h0 s))
  /\ (Some (rng_of h0 s) <> shared_of h0 uc -> h_rng h (rng_of h0 s) = h_rng h0 (rng_of h0 s))
  /\ (Some (py_of h0 s) <> shared_py_of h0 uc -> h_py h (py_of h0 s) = h_py h0 (py_of h0 s)).
Proof. exact initial_state_untouched. Qed.
Print Assumptions C12_initial_state_untouched.

(* repaired tree (every Config owns its random.Random): the state of the `random` module is
   never written, whatever the steps do *)
Theorem C12_global_random_untouched : forall uc ui ur evs h0,
  (forall c, uc = Some c -> (c < h_ncfg h0)%nat) ->
  (forall s, ui = Some s -> (s < h_nst h0)%nat) ->
  h_global (exec_heap true uc ui ur evs h0) = h_global h0.
Proof. exact global_random_untouched. Qed.
Print Assumptions C12_global_random_untouched.

Theorem C12_global_random_written_refuted_on_current :
  (exists s h, h_global (snd (config_new false s h)) <> h_global h)
  /\ (exists h c evs, (c < h_ncfg h)%nat /\
        h_global (exec_heap false (Some c) None 0%Z evs h) <> h_global h).
Proof. exact global_random_written_refuted_on_current. Qed.
Print Assumptions C12_global_random_written_refuted_on_current.

(* State.copy allocates fresh cells (state, Config, both generators) and keeps every older state *)
Theorem C12_state_copy_fresh : forall s h,
  let w := fst (state_deepcopy s h) in
  let h' := snd (state_deepcopy s h) in
  w = h_nst h /\ s_cfg (h_st h' w) = h_ncfg h /\ rng_of h' w = h_nrng h /\ py_of h' w = h_npy h
  /\ s_data (h_st h' w) = s_data (h_st h s)
  /\ (forall s0, (s0 < h_nst h)%nat -> h_st h' s0 = h_st h s0).
Proof. exact state_deepcopy_fresh. Qed.
Print Assumptions C12_state_copy_fresh.

(* not claimed: Config.copy shares rng and _python_rng on purpose, so their states advance *)
Theorem C12_caller_rng_shared_by_design :
  exists h c, (c < h_ncfg h)%nat /\
    h_rng (exec_heap true (Some c) None 0%Z [HDrawNp] h) (c_rng (h_cfg h c)) <> h_rng h (c_rng (h_cfg h c))
    /\ h_py (exec_heap true (Some c) None 0%Z [HDrawPy] h) (c_py (h_cfg h c)) <> h_py h (c_py (h_cfg h c)).
Proof. exact caller_rng_shared_by_design. Qed.
Print Assumptions C12_caller_rng_shared_by_design.

(* ---- arrays handed to the connector's Pfaffian *)
Theorem C12_connector_pfaffian_preserves_buffer :
  forall n m, snd (connector_pfaffian true n m) = m.
Proof. exact connector_pfaffian_preserves_buffer. Qed.
Print Assumptions C12_connector_pfaffian_preserves_buffer.

Theorem C12_kernel_small_buffer_unchanged : forall n m, (n <= 2)%nat ->
  snd (fst (pfaffian_kernel n m)) = m.
Proof. exact kernel_small_buffer_unchanged. Qed.
Print Assumptions C12_kernel_small_buffer_unchanged.

Theorem C12_pfaffian_inplace_refuted_on_current :
  exists n m, snd (connector_pfaffian false n m) <> m.
Proof. exact pfaffian_inplace_refuted_on_current. Qed.
Print Assumptions C12_pfaffian_inplace_refuted_on_current.

(* non-vacuity *)
Example C12_example_ok_run :
  execute repaired true (Some 3) (Some 1) None w_str up_ok
  = (inr [[1]], w_str,
     [CValidate 0 [] []; CValidate 1 [0] [];
      CStep 0 [0;1;2] [] []; CStep 1 [0] [] [];
      CParam 2 1 [1]; CValidate 2 [1] [(1, PConst 3)]; CStep 2 [1] [(1, PConst 3)] [1]]).
Proof. exact repaired_ok_run. Qed.
Example C12_example_inactive_upfront :
  execute repaired true (Some 3) (Some 1) None [prep_all; meas1 [0]; gate1 [0] []] up_ok
  = (inl EInactiveModes, [prep_all; meas1 [0]; gate1 [0] []], []).
Proof. exact repaired_inactive_upfront. Qed.
Example C12_example_pfaffian : Qeq_bool (fst (connector_pfaffian true 4 w4)) (8 # 1) = true.
Proof. exact pfaffian_w4_value. Qed.
