"""Implementation side of C18: runs piquasso's program construction code on generated inputs.

One JSON request on stdin, one JSON line on stdout.  Sections of the request (all optional):
  table   -> the Blackbird table (translator input): _BB_TO_PQ_MAP, signatures, params order
  nest    -> nested registration cases
  prep    -> preparation-algebra expression trees
  bb      -> export / import of single operations (positional mapping)
  rt      -> whole-program round trips (Blackbird text, as_code + exec, from_dict, copy)
  config  -> Config / Simulator code emission
"""
import ast
import random
import inspect
import json
import sys
import warnings
from fractions import Fraction

import numpy as np

warnings.simplefilter("ignore")

import piquasso as pq  # noqa: E402
from piquasso.core import _blackbird as B  # noqa: E402
from piquasso.api.exceptions import InvalidModes, InvalidProgram, PiquassoException  # noqa: E402


# ----------------------------------------------------------------------------- values
def enc(v):
    """Exact, type-aware encoding of a parameter value."""
    if isinstance(v, bool):
        return ["bool", v]
    if isinstance(v, np.ndarray):
        return ["ndarray", str(v.dtype), list(v.shape), [enc(x) for x in v.ravel().tolist()]]
    if isinstance(v, (int, np.integer)):
        return ["num", Fraction(int(v)).as_integer_ratio()]
    if isinstance(v, (float, np.floating)):
        f = float(v)
        if f != f or f in (float("inf"), float("-inf")):
            return ["nonfinite", repr(f)]
        return ["num", list(Fraction(f).as_integer_ratio())]
    if isinstance(v, (complex, np.complexfloating)):
        return ["complex", enc(complex(v).real), enc(complex(v).imag)]
    if isinstance(v, (tuple, list)):
        return ["seq", [enc(x) for x in v]]
    if isinstance(v, dict):
        return ["dict", [[enc(k), enc(x)] for k, x in v.items()]]
    if v is inspect.Parameter.empty:
        return ["empty"]
    if v is None:
        return ["none"]
    return ["other", type(v).__name__, repr(v)]


def norm(e):
    """tuples -> lists so that encodings compare with ==."""
    return json.loads(json.dumps(e))


def dec(spec):
    """Value specification of a request -> Python value."""
    k = spec[0]
    if k == "float":
        return float.fromhex(spec[1])
    if k == "int":
        return int(spec[1])
    if k == "bool":
        return bool(spec[1])
    if k == "dtype":
        return {"float32": np.float32, "float64": np.float64, "float": float}[spec[1]]
    if k == "npfloat":
        return np.float64(float.fromhex(spec[1]))
    if k == "npint":
        return np.int64(int(spec[1]))
    if k == "array":
        return np.array([dec(x) if isinstance(x, list) and x and isinstance(x[0], str) else x
                         for x in spec[3]], dtype=spec[1]).reshape(spec[2])
    if k == "complex":
        return complex(float.fromhex(spec[1]), float.fromhex(spec[2]))
    if k == "tuple":
        return tuple(dec(x) for x in spec[1])
    if k == "pybool":
        return bool(spec[1])
    if k == "list":
        return [dec(x) for x in spec[1]]
    raise ValueError(spec)


def snap(instr):
    return {"cls": type(instr).__name__, "modes": [int(m) for m in instr.modes],
            "params": [[k, norm(enc(v))] for k, v in instr.params.items()]}


def err_kind(e):
    if isinstance(e, InvalidModes):
        return "ErrInvalidModes"
    if isinstance(e, InvalidProgram):
        return "ErrInvalidProgram"
    if isinstance(e, IndexError):
        return "ErrIndex"
    if isinstance(e, PiquassoException):
        return "Piquasso:" + type(e).__name__
    return "Other:" + type(e).__name__ + ":" + str(e)[:200]


# ----------------------------------------------------------------------------- table
def table():
    rows, problems = [], []
    for bb, name in B._BB_TO_PQ_MAP.items():
        try:
            cls = pq.Instruction.get_subclass(name)
        except KeyError:
            problems.append("no instruction class %s" % name)
            continue
        ps = [(n, p) for n, p in inspect.signature(cls).parameters.items() if n != "self"]
        if any(p.kind is not p.POSITIONAL_OR_KEYWORD for n, p in ps):
            problems.append("%s: parameter kind not understood" % name)
            continue
        sent = [0.0625 * (j + 1) + 1 for j in range(len(ps))]
        try:
            obj = cls(**{n: s for (n, p), s in zip(ps, sent)})
        except Exception as e:  # fail closed
            problems.append("%s: cannot instantiate with sentinels: %r" % (name, e))
            continue
        src = []
        for k, v in obj.params.items():
            hit = [j for j, s in enumerate(sent) if type(v) is float and v == s]
            if len(hit) != 1:
                problems.append("%s: params[%s] is not a constructor argument" % (name, k))
                break
            src.append([k, hit[0]])
        else:
            rows.append(dict(bb=bb, pq=name, sig=[n for n, p in ps],
                             has_default=[p.default is not p.empty for n, p in ps],
                             defaults=[norm(enc(p.default)) for n, p in ps],
                             src=src, nmodes=cls.NUMBER_OF_MODES))
    if {v: k for k, v in B._BB_TO_PQ_MAP.items()} != B._PQ_TO_BB_MAP:
        problems.append("_PQ_TO_BB_MAP is not the inversion of _BB_TO_PQ_MAP")
    return dict(rows=rows, problems=problems, all_classes=sorted(pq.Instruction._subclasses))


# ----------------------------------------------------------------------------- nesting
NEST_CLASSES = ["Squeezing", "Beamsplitter", "Phaseshifter", "Vacuum", "ParticleNumberMeasurement",
                "Kerr", "CrossKerr", "Fourier"]


def make_nest_instr(spec, tag):
    cls = pq.Instruction.get_subclass(NEST_CLASSES[spec["cls"]])
    sig = [n for n in inspect.signature(cls).parameters if n != "self"]
    kw = {sig[0]: float(tag)} if sig else {}
    ins = cls(**kw)
    if spec["modes"] is not None:
        ins.on_modes(*spec["modes"])
    return ins


def nest_view(program):
    out = []
    for ins in program.instructions:
        vals = list(ins.params.values())
        out.append([NEST_CLASSES.index(type(ins).__name__), [int(m) for m in ins.modes],
                    int(vals[0]) if vals else -1])
    return out


def run_nest(case):
    instrs = [make_nest_instr(s, j) for j, s in enumerate(case["instrs"])]
    inner = pq.Program(instructions=list(instrs))
    before = nest_view(inner)
    ids_before = [id(x) for x in inner.instructions]
    res = {"nmodes": [pq.Instruction.get_subclass(NEST_CLASSES[s["cls"]]).NUMBER_OF_MODES
                      for s in case["instrs"]],
           "inner_before": before}
    chain = [inner]
    try:
        cur = inner
        for reg, use_all in zip(case["regs"], case["use_all"]):
            with pq.Program() as outer:
                if not reg and use_all:
                    pq.Q(all) | cur
                else:
                    pq.Q(*reg) | cur
            chain.append(outer)
            cur = outer
        res["result"] = nest_view(cur)
        res["error"] = None
        # the inner levels are reusable: register the innermost program once more at the first level
        if case["regs"]:
            with pq.Program() as again:
                pq.Q(*case["regs"][0]) | inner
            res["again_equal"] = nest_view(again) == nest_view(chain[1])
        else:
            res["again_equal"] = True
        shared = 0
        for a in range(len(chain)):
            for b in range(a + 1, len(chain)):
                ia = {id(x) for x in chain[a].instructions}
                shared += sum(1 for x in chain[b].instructions if id(x) in ia)
        res["shared_objects"] = shared
        res["levels"] = [nest_view(p) for p in chain]
    except Exception as e:
        res["result"] = None
        res["error"] = err_kind(e)
    res["inner_after"] = nest_view(inner)
    res["inner_same_objects"] = [id(x) for x in inner.instructions] == ids_before
    from piquasso.core import _context
    res["stack_empty"] = len(_context.program_stack) == 0
    del _context.program_stack[:]
    return res


# ----------------------------------------------------------------------------- preparation algebra
def fr(x):
    return float(Fraction(x))


def make_leaf(spec):
    if spec["kind"] == "ns":
        return pq.NumberState(tuple(spec["occ"]), coefficient=fr(spec["c"]))
    return pq.FockStateVector({tuple(o): fr(a) for o, a in spec["items"]}, coefficient=fr(spec["c"]))


def obj_view(o):
    def q(v):
        if isinstance(v, complex):
            if v.imag != 0:
                return ["complex", repr(v)]
            v = v.real
        return list(Fraction(float(v)).as_integer_ratio())
    if isinstance(o, pq.NumberState):
        return {"kind": "ns", "occ": [int(x) for x in o.params["occupation_numbers"]],
                "c": q(o.params["coefficient"])}
    if isinstance(o, pq.FockStateVector):
        return {"kind": "fsv", "items": [[[int(x) for x in k], q(v)]
                                         for k, v in o.params["fock_amplitude_map"].items()],
                "c": q(o.params["coefficient"])}
    return {"kind": "other:" + type(o).__name__}


def eval_expr(e, leaves):
    t = e[0]
    if t == "leaf":
        return leaves[e[1]]
    if t == "add":
        a = eval_expr(e[1], leaves)
        b = eval_expr(e[2], leaves)
        return a + b
    if t == "mul":
        return eval_expr(e[1], leaves) * fr(e[2])
    if t == "rmul":
        return fr(e[1]) * eval_expr(e[2], leaves)
    if t == "div":
        return eval_expr(e[1], leaves) / fr(e[2])
    raise ValueError(e)


def amplitudes(obj, d, cutoff, simulator):
    sim = simulator(d=d, config=pq.Config(cutoff=cutoff, validate=False))
    state = sim.execute(pq.Program(instructions=[obj])).state
    vec = np.asarray(state.state_vector)
    from piquasso._math.fock import get_fock_space_basis
    basis = get_fock_space_basis(d=d, cutoff=cutoff)
    out = []
    for b, a in zip(basis, vec):
        a = complex(a)
        if a != 0:
            out.append([[int(x) for x in b], list(Fraction(a.real).as_integer_ratio()),
                        list(Fraction(a.imag).as_integer_ratio())])
    return out


def run_prep(case):
    leaves = [make_leaf(s) for s in case["leaves"]]
    before = [obj_view(o) for o in leaves]
    res = {}
    try:
        r = eval_expr(case["expr"], leaves)
        res["result"] = obj_view(r)
        res["result_is_leaf"] = any(r is x for x in leaves)
        res["error"] = None
        d = case["d"]
        cutoff = case["cutoff"]
        res["amps_fock"] = amplitudes(r.copy(), d, cutoff, pq.PureFockSimulator)
        if case.get("passive"):
            res["amps_passive"] = amplitudes(r.copy(), d, cutoff, pq.PassiveSimulator)
    except Exception as e:
        res["result"] = None
        res["error"] = err_kind(e)
    res["leaves_after"] = [obj_view(o) for o in leaves]
    res["leaves_unchanged"] = res["leaves_after"] == before
    return res


# ----------------------------------------------------------------------------- blackbird positional mapping
def run_bb(case):
    """case: {cls, kwargs:[spec...] (signature order), modes, nargs} -> export of the instruction and
    import of the exported operation truncated to nargs arguments."""
    cls = pq.Instruction.get_subclass(case["cls"])
    sig = [n for n in inspect.signature(cls).parameters if n != "self"]
    res = {}
    try:
        ins = cls(**{n: dec(v) for n, v in zip(sig, case["kwargs"])})
        ins.on_modes(*case["modes"])
        res["params"] = [[k, norm(enc(v))] for k, v in ins.params.items()]
        try:
            op = B._piquasso_instruction_to_blackbird_operation(ins)
            res["export"] = {"op": op["op"], "args": [norm(enc(a)) for a in op["args"]],
                             "modes": [int(m) for m in op["modes"]], "kwargs": len(op["kwargs"])}
        except PiquassoException:
            res["export"] = "refused"
            return res
        op2 = dict(op)
        op2["args"] = list(op["args"])[: case["nargs"]]
        back = B._blackbird_operation_to_instruction(op2)
        res["import"] = snap(back)
    except Exception as e:
        res["error"] = err_kind(e)
    return res


def run_bb_unknown(op):
    try:
        B._blackbird_operation_to_instruction({"op": op, "args": [], "kwargs": {}, "modes": [0]})
        return "accepted"
    except PiquassoException:
        return "refused"
    except Exception as e:
        return err_kind(e)


# ----------------------------------------------------------------------------- whole-program round trips
def build_program(spec):
    instrs = []
    for s in spec:
        cls = pq.Instruction.get_subclass(s["cls"])
        ins = cls(**{k: dec(v) for k, v in s["kwargs"]})
        if s["modes"] is not None:
            ins.on_modes(*s["modes"])
        instrs.append(ins)
    return pq.Program(instructions=instrs)


def diff_programs(p, q):
    a = [snap(x) for x in p.instructions]
    b = [snap(x) for x in q.instructions]
    if a == b:
        return None
    if len(a) != len(b):
        return {"what": "length", "expected": len(a), "got": len(b)}
    for i, (x, y) in enumerate(zip(a, b)):
        if x != y:
            return {"what": "instruction %d differs" % i, "expected": x, "got": y}


def strip_execute(code):
    lines = code.rstrip("\n").split("\n")
    assert lines[-1].startswith("result = simulator.execute(program, shots="), lines[-1]
    return "\n".join(lines[:-1]) + "\n", lines[-1]


def run_rt(case):
    res = {}
    try:
        p = build_program(case["program"])
    except Exception as e:
        return {"skipped": err_kind(e)}
    res["classes"] = [type(x).__name__ for x in p.instructions]
    # ---- Blackbird text
    if case.get("blackbird"):
        try:
            text = p.to_blackbird_code()
            q = pq.Program()
            q.loads_blackbird(text)
            res["blackbird"] = diff_programs(p, q)
            if res["blackbird"]:
                res["blackbird"]["text"] = text
        except Exception as e:
            res["blackbird"] = {"what": "exception", "error": err_kind(e)}
    # ---- as_code + exec
    simspec = case["simulator"]
    try:
        cfg = pq.Config(**{k: dec(v) for k, v in simspec["config"]})
        simcls = getattr(pq, simspec["cls"])
        sim = simcls(d=simspec["d"], config=cfg) if simspec["config"] else simcls(d=simspec["d"])
        code = pq.as_code(p, sim, shots=case.get("shots", 1))
        body, last = strip_execute(code)
        ns = {}
        try:
            exec(compile(body, "<as_code>", "exec"), ns)
            d = diff_programs(p, ns["program"])
            if d is None:
                s2 = ns["simulator"]
                if sim_attrs(s2) != sim_attrs(sim):
                    d = {"what": "simulator differs", "expected": sim._as_code(), "got": s2._as_code()}
                elif last != "result = simulator.execute(program, shots=%d)" % case.get("shots", 1):
                    d = {"what": "shots", "got": last}
            res["as_code"] = d
            if d:
                res["as_code"]["code"] = code[:1500]
        except Exception as e:
            res["as_code"] = {"what": "generated code does not execute", "error": err_kind(e), "code": code[:1500]}
    except Exception as e:
        res["as_code"] = {"what": "as_code raised", "error": err_kind(e)}
    # ---- from_dict
    try:
        dct = {"instructions": [
            {"type": type(x).__name__,
             "attributes": {"constructor_kwargs": dict(x.params), "modes": x.modes}}
            for x in p.instructions]}
        res["from_dict"] = diff_programs(p, pq.Program.from_dict(dct))
    except Exception as e:
        res["from_dict"] = {"what": "exception", "error": err_kind(e)}
    # ---- copy
    try:
        q = p.copy()
        d = diff_programs(p, q)
        if d is None and any(a is b for a in p.instructions for b in q.instructions):
            d = {"what": "copy shares instruction objects"}
        if d is None and q.instructions:
            # independence: registering the copy elsewhere must not touch the original
            before = [snap(x) for x in p.instructions]
            for x in q.instructions:
                if x.modes:
                    x.modes = tuple(m + 1 for m in x.modes)
                for k, v in x.params.items():
                    if isinstance(v, np.ndarray):
                        v *= 0
            if [snap(x) for x in p.instructions] != before:
                d = {"what": "modifying the copy changed the original"}
        res["copy"] = d
    except Exception as e:
        res["copy"] = {"what": "exception", "error": err_kind(e)}
    return res


# ----------------------------------------------------------------------------- emitted text as tokens
def py_tokens(text):
    """Python's own tokenizer on the emitted text; NL/INDENT/DEDENT/COMMENT/ENDMARKER dropped."""
    import io
    import tokenize
    out = []
    for t in tokenize.generate_tokens(io.StringIO(text).readline):
        if t.type in (tokenize.NL, tokenize.INDENT, tokenize.DEDENT, tokenize.COMMENT,
                      tokenize.ENDMARKER, tokenize.ENCODING):
            continue
        if t.type == tokenize.NEWLINE:
            out.append(["newline"])
        elif t.type == tokenize.NUMBER:
            s = t.string
            if s[-1] in "jJ":
                out.append(["other", s])
            elif any(c in s for c in ".eE") and not s.lower().startswith("0x"):
                out.append(["float", list(Fraction(float(s)).as_integer_ratio())])
            else:
                out.append(["int", int(s, 0)])
        elif t.type == tokenize.NAME:
            out.append(["name", t.string])
        elif t.type == tokenize.OP:
            out.append(["op", t.string])
        else:
            out.append(["other", tokenize.tok_name[t.type] + ":" + t.string])
    return out


def run_tok(case):
    res = {}
    try:
        p = build_program(case["program"])
        for ins, spec in zip(p.instructions, case["program"]):
            if spec.get("when") == "str":
                ins.when("x[-1] == 2")
            elif spec.get("when") == "lambda":
                ins.when(lambda x: x[-1] == 2)
    except Exception as e:
        return {"skipped": err_kind(e)}
    try:
        text = p._as_code()
        res["text"] = text[:600]
        res["tokens"] = py_tokens(text + "\n")
        res["error"] = None
    except PiquassoException as e:
        res["tokens"] = None
        res["error"] = "refused"
    except Exception as e:
        res["tokens"] = None
        res["error"] = err_kind(e)
    res["lines"] = []
    for ins in p.instructions:
        try:
            res["lines"].append(ins._as_code())
        except PiquassoException:
            res["lines"].append(None)
    # re-execution of the text (unconditioned programs): class, modes, params come back
    if res["error"] is None:
        try:
            ns = {"pq": pq, "np": np}
            exec(compile(text + "\n", "<program._as_code>", "exec"), ns)
            res["exec_diff"] = diff_programs(p, ns["program"])
        except Exception as e:
            res["exec_diff"] = {"what": "does not execute", "error": err_kind(e)}
    return res


def run_strparams():
    """What as_code does with string (expression) and callable parameters: recorded, not judged,
    except that a successful execution must not change class or modes."""
    out = []
    for label, make in [
        ("string parameter depending on outcomes", lambda: pq.Phaseshifter(phi="x[0] * 0.5")),
        ("string parameter, constant expression", lambda: pq.Phaseshifter(phi="1 + 1")),
        ("callable parameter", lambda: pq.Phaseshifter(phi=lambda x: 0.25)),
        ("string condition", lambda: pq.Phaseshifter(phi=0.25).when("x[0] > 0")),
        ("callable condition", lambda: pq.Phaseshifter(phi=0.25).when(lambda x: x[0] > 0)),
    ]:
        rec = {"label": label}
        try:
            ins = make().on_modes(1)
            p = pq.Program(instructions=[ins])
            try:
                text = p._as_code()
            except PiquassoException as e:
                rec["outcome"] = "as_code refuses: " + str(e)[:60]
                out.append(rec)
                continue
            rec["line"] = text.split("\n")[1].strip()[:120]
            try:
                ns = {"pq": pq, "np": np}
                exec(compile(text + "\n", "<as_code>", "exec"), ns)
                q = ns["program"].instructions
                same_shape = len(q) == 1 and type(q[0]) is type(ins) and tuple(q[0].modes) == tuple(ins.modes)
                rec["outcome"] = "executes; parameter comes back as %s" % type(list(q[0].params.values())[0]).__name__
                rec["same_class_and_modes"] = bool(same_shape)
            except Exception as e:
                rec["outcome"] = "generated code does not execute: " + type(e).__name__
        except Exception as e:
            rec["outcome"] = "construction failed: " + err_kind(e)
        out.append(rec)
    return out


# ----------------------------------------------------------------------------- config
KW_ORDER = ["seed_sequence", "cache_size", "hbar", "use_torontonian", "cutoff", "measurement_cutoff",
            "dtype", "validate", "use_dask", "max_sample_generation_trials"]


def cfg_value(k, v):
    if k == "dtype":
        return {"float32": np.float32, "float64": np.float64, "float": float}[v]
    if k == "hbar":
        return float(Fraction(v[0], v[1]))
    return v


def cfg_attrs(c):
    """Attribute-by-attribute snapshot of a Config; never uses Config.__eq__ (which is itself
    under test).  Covers every constructor parameter and every other instance attribute except
    the generator objects and the effective seed (random when none was given)."""
    out = {}
    for n in inspect.signature(pq.Config).parameters:
        v = c._original_seed_sequence if n == "seed_sequence" else getattr(c, n)
        out[n] = v.__name__ if isinstance(v, type) else norm(enc(v))
    for n, v in vars(c).items():
        if n == "_seed_sequence" or n in out or isinstance(v, (np.random.Generator, random.Random)):
            continue
        out[n] = v.__name__ if isinstance(v, type) else norm(enc(v))
    return out


def sim_attrs(s):
    return {"cls": type(s).__name__, "d": s.d, "config": cfg_attrs(s.config)}


SWEEP_VALUES = {
    "cutoff": [4, 7, 1],
    "dtype": [np.float32, float, np.float64],
    "measurement_cutoff": [3, 9],
    "hbar": [1.0, 1.5, 2],
    "seed_sequence": [0, 1, 2 ** 70 + 3],
    "use_torontonian": [True],
    "cache_size": [0, 64],
    "validate": [False],
    "use_dask": [True],
    "max_sample_generation_trials": [1, 7, 5000],
}


def sweep_values(name, default):
    if name in SWEEP_VALUES:
        return SWEEP_VALUES[name]
    if isinstance(default, bool):
        return [not default]
    if isinstance(default, int):
        return [default + 1, 0]
    if isinstance(default, float):
        return [default * 1.5 + 0.25]
    return None


def run_config_sweep():
    """For EVERY Config field: configurations whose sole explicit entry is that field, through
    __eq__, copy, _as_code + eval, Simulator._as_code + eval and pq.as_code + exec; all
    comparisons attribute by attribute."""
    out = []
    default = pq.Config()
    dattrs = cfg_attrs(default)
    for name, p in inspect.signature(pq.Config).parameters.items():
        vals = sweep_values(name, p.default)
        if vals is None:
            out.append({"field": name, "value": None, "problems": ["no candidate values for a field of this type (extend SWEEP_VALUES)"]})
            continue
        for v in vals:
            rec = {"field": name, "value": v.__name__ if isinstance(v, type) else repr(v), "problems": []}
            pr = rec["problems"]
            try:
                c = pq.Config(**{name: v})
                a = cfg_attrs(c)
                differs = a != dattrs
                rec["differs_from_default"] = differs
                if bool(c == default) != (not differs) or bool(default == c) != (not differs):
                    pr.append("__eq__: Config(%s=%s) == Config() is %s although the attributes %s" % (
                        name, rec["value"], c == default, "differ" if differs else "are the same"))
                if not (c == c) or (c != c):
                    pr.append("__eq__: not reflexive")
                k = c.copy()
                if cfg_attrs(k) != a:
                    pr.append("copy: attributes differ")
                if not (k == c):
                    pr.append("__eq__: a copy compares unequal")
                code = c._as_code()
                c2 = eval(code, {"pq": pq, "np": np})
                if cfg_attrs(c2) != a:
                    pr.append("_as_code: %s rebuilds different attributes" % code)
                if repr(c) != code[3:]:
                    pr.append("__repr__ is not _as_code()[3:]")
                for simname in ("PureFockSimulator", "GaussianSimulator", "PassiveSimulator"):
                    for d in (2, None):
                        sim = getattr(pq, simname)(d=d, config=c)
                        want = sim_attrs(sim)
                        scode = sim._as_code()
                        s2 = eval(scode, {"pq": pq, "np": np})
                        if sim_attrs(s2) != want:
                            pr.append("Simulator._as_code: %s rebuilds a different simulator" % scode.replace("\n", " "))
                        with pq.Program() as prog:
                            pq.Q(0) | pq.Phaseshifter(phi=0.5)
                        full = pq.as_code(prog, sim, shots=3)
                        body, last = strip_execute(full)
                        ns = {}
                        exec(compile(body, "<as_code>", "exec"), ns)
                        if sim_attrs(ns["simulator"]) != want:
                            pr.append("pq.as_code + exec: %s rebuilds a different simulator" % scode.replace("\n", " "))
            except Exception as e:
                pr.append("exception " + err_kind(e))
            rec["problems"] = sorted(set(pr))
            out.append(rec)
    return out


def run_cfgeq(case):
    try:
        a = pq.Config(**{k: cfg_value(k, v) for k, v in case["a"]})
        b = pq.Config(**{k: cfg_value(k, v) for k, v in case["b"]})
        return {"eq": bool(a == b), "eq_rev": bool(b == a), "ne": bool(a != b),
                "attrs_equal": cfg_attrs(a) == cfg_attrs(b)}
    except Exception as e:
        return {"error": err_kind(e)}


def run_config(case):
    kw = {k: cfg_value(k, v) for k, v in case["kwargs"]}
    res = {}
    try:
        c = pq.Config(**kw)
        code = c._as_code()
        res["code"] = code
        tree = ast.parse(code, mode="eval").body
        emitted = []
        for k in tree.keywords:
            src = ast.unparse(k.value)
            val = eval(src, {"np": np})
            if k.arg == "dtype":
                e = [32 if val is np.float32 else 64 if val is np.float64 else -1, 1]
            elif isinstance(val, bool):
                e = [int(val), 1]
            else:
                e = list(Fraction(val).as_integer_ratio())
            emitted.append([KW_ORDER.index(k.arg), e])
        res["emitted"] = emitted
        c2 = eval(code, {"pq": pq, "np": np})
        res["equal"] = cfg_attrs(c2) == cfg_attrs(c)   # attribute by attribute, not ==
        res["eq"] = bool(c2 == c) and bool(c == c2)
        k = c.copy()
        res["copy_equal"] = cfg_attrs(k) == cfg_attrs(c) and k.rng is c.rng
        res["code_again"] = c2._as_code() == code
        res["explicit"] = [c._cutoff_was_explicit, c2._cutoff_was_explicit]
        res["orig_seed"] = [c._original_seed_sequence, c2._original_seed_sequence]
        # simulator line
        sim = pq.PureFockSimulator(d=case["d"], config=c)
        scode = sim._as_code()
        s2 = eval(scode, {"pq": pq, "np": np})
        res["sim_equal"] = sim_attrs(s2) == sim_attrs(sim)
        res["sim_has_config"] = "config=" in scode
        res["sim_d"] = s2.d
        res["is_default"] = cfg_attrs(c) == cfg_attrs(pq.Config())
    except Exception as e:
        res["error"] = err_kind(e)
    return res


def main():
    req = json.load(sys.stdin)
    out = {}
    if "table" in req:
        out["table"] = table()
    if "nest" in req:
        out["nest"] = [run_nest(c) for c in req["nest"]]
    if "prep" in req:
        out["prep"] = [run_prep(c) for c in req["prep"]]
    if "bb" in req:
        out["bb"] = [run_bb(c) for c in req["bb"]]
        out["bb_unknown"] = [run_bb_unknown(op) for op in req.get("bb_unknown", [])]
        out["bb_refused"] = []
        for name in req.get("bb_outside", []):
            cls = pq.Instruction.get_subclass(name)
            if inspect.isabstract(cls):
                out["bb_refused"].append("abstract")
                continue
            try:
                obj = cls.__new__(cls)
                pq.Instruction.__init__(obj, params={})
                B._piquasso_instruction_to_blackbird_operation(obj)
                out["bb_refused"].append("accepted")
            except PiquassoException:
                out["bb_refused"].append("refused")
            except Exception as e:
                out["bb_refused"].append(err_kind(e))
    if "rt" in req:
        out["rt"] = [run_rt(c) for c in req["rt"]]
    if "config" in req:
        out["config"] = [run_config(c) for c in req["config"]]
    if "tok" in req:
        out["tok"] = [run_tok(c) for c in req["tok"]]
        out["strparams"] = run_strparams()
    if "cfgeq" in req:
        out["cfgeq"] = [run_cfgeq(c) for c in req["cfgeq"]]
    if req.get("cfg_sweep"):
        out["cfg_sweep"] = run_config_sweep()
    out["piquasso_file"] = pq.__file__
    print(json.dumps(out))


main()
