(* C04 -- the integer bookkeeping of the hafnian reduction (model: C04/HafModel.v):
   get_kept_edges enumerates every sub-multiset of the repeated edges exactly once, and the edges
   chosen by match_occupation_numbers reproduce the occupation vector. *)
From Coq Require Import Arith List Bool Lia ZifyBool.
From PV Require Import C04.PermModel C04.PermProofs C04.LoopProofs C04.GrayProofs C04.JobProofs C04.SumProofs C04.HafModel.
Import ListNotations.
Local Close Scope Z_scope.
Local Open Scope nat_scope.

(* ------------------------------------------------------------------ get_kept_edges *)
(* index -> kept-edge vector is the mixed-radix digit map: over 0 .. prod(reps+1)-1 it lists the
   box prod [0..reps_e], each vector exactly once and in this order *)
Theorem kept_edges_enumeration : forall reps,
  map (get_kept_edges reps) (seq 0 (idx_max (map S reps))) = box reps.
Proof.
  unfold get_kept_edges.
  induction reps as [|ri r IH]; [reflexivity|].
  cbn [map]. rewrite idx_max_cons, Nat.mul_comm, seq_mul_aux.
  set (n := S ri). set (L := map S r) in *.
  rewrite map_flat_map.
  rewrite (flat_map_ext_in' _ (fun q => map (fun gi => gi :: chain_of L q) (seq 0 n))).
  - cbn [box]. rewrite <- IH, flat_map_map. reflexivity.
  - intros q _. rewrite map_map. apply map_ext_in. intros a Ha. apply in_seq in Ha.
    cbn [chain_of]. f_equal.
    + rewrite Nat.add_comm, Nat.mod_add by lia. apply Nat.mod_small. lia.
    + rewrite Nat.div_add_l by lia. rewrite Nat.div_small by lia. f_equal. lia.
Qed.

Lemma box_length : forall r, length (box r) = idx_max (map S r).
Proof. intros r. rewrite <- kept_edges_enumeration, map_length, seq_length. reflexivity. Qed.

(* ------------------------------------------------------------------ the arg-max picks *)
Lemma amax_ex_none : forall l a, amax_ex l a = None -> forall j, j < length l -> Some j = a.
Proof.
  induction l as [|x t IH]; intros a H j Hj; [cbn in Hj; lia|].
  cbn [amax_ex] in H.
  destruct a as [[|a0]|].
  - destruct (amax_ex t None) as [[k v]|] eqn:E; [discriminate|].
    destruct j as [|j]; [reflexivity|]. cbn in Hj.
    specialize (IH None E j ltac:(lia)). discriminate.
  - destruct (amax_ex t (Some a0)) as [[k v]|]; [destruct (x <=? v)|]; discriminate.
  - destruct (amax_ex t None) as [[k v]|]; [destruct (x <=? v)|]; discriminate.
Qed.

Lemma amax_ex_spec : forall l a k v, amax_ex l a = Some (k, v) ->
  k < length l /\ nth k l 0 = v /\ Some k <> a /\
  (forall j, j < length l -> Some j <> a -> nth j l 0 <= v).
Proof.
  induction l as [|x t IH]; intros a k v H; [discriminate|].
  cbn [amax_ex] in H.
  assert (Gen : forall a', (a' = match a with Some (S k0) => Some k0 | _ => None end) ->
                a <> Some 0 ->
                match amax_ex t a' with
                | None => Some (0, x)
                | Some (k0, v0) => if x <=? v0 then Some (S k0, v0) else Some (0, x)
                end = Some (k, v) ->
                k < length (x :: t) /\ nth k (x :: t) 0 = v /\ Some k <> a /\
                (forall j, j < length (x :: t) -> Some j <> a -> nth j (x :: t) 0 <= v)).
  { intros a' Ha' Hne Hres.
    assert (Hshift : forall j, Some (S j) <> a -> Some j <> a').
    { intros j Hj. subst a'. destruct a as [[|a0]|]; congruence. }
    destruct (amax_ex t a') as [[k0 v0]|] eqn:E.
    - destruct (IH a' k0 v0 E) as (H1 & H2 & H3 & H4).
      destruct (x <=? v0) eqn:Ex; inversion Hres; subst; cbn [length nth].
      + split; [lia|]. split; [reflexivity|]. split.
        * intros Hc. rewrite <- Hc in H3. cbn in H3. congruence.
        * intros j Hj Hja. destruct j as [|j]; [lia|]. apply H4; [lia|]. now apply Hshift.
      + split; [lia|]. split; [reflexivity|]. split; [congruence|].
        intros j Hj Hja. destruct j as [|j]; [lia|].
        specialize (H4 j ltac:(lia) (Hshift j Hja)). lia.
    - inversion Hres; subst. cbn [length nth].
      split; [lia|]. split; [reflexivity|]. split; [congruence|].
      intros j Hj Hja. destruct j as [|j]; [lia|].
      pose proof (amax_ex_none t _ E j ltac:(lia)) as Hn. exfalso. exact (Hshift j Hja Hn). }
  destruct a as [[|a0]|].
  - destruct (amax_ex t None) as [[k0 v0]|] eqn:E; [|discriminate].
    cbn in H. inversion H; subst.
    destruct (IH None k0 v E) as (H1 & H2 & _ & H4). cbn [length nth].
    split; [lia|]. split; [exact H2|]. split; [discriminate|].
    intros j Hj Hja. destruct j as [|j]; [congruence|]. apply H4; [lia|discriminate].
  - apply (Gen (Some a0)); [reflexivity|discriminate|exact H].
  - apply (Gen None); [reflexivity|discriminate|exact H].
Qed.

(* ------------------------------------------------------------------ match_occupation_numbers *)
Lemma nth_set_nth : forall (l : list nat) a v i, a < length l ->
  nth i (set_nth a v l) 0 = if i =? a then v else nth i l 0.
Proof.
  induction l as [|x l IH]; intros a v i Ha; [cbn in Ha; lia|].
  destruct a as [|a]; destruct i as [|i]; cbn [set_nth nth Nat.eqb]; try reflexivity.
  cbn in Ha. rewrite IH by lia. reflexivity.
Qed.

Lemma set_nth_len {X} : forall (l : list X) a v, length (set_nth a v l) = length l.
Proof. induction l as [|x l IH]; intros [|a] v; cbn; auto. Qed.

(* one iteration takes from each mode exactly what the new edge uses *)
Lemma mo_step_spec nvec nvec' rep a b : mo_step nvec = Some (nvec', (rep, a, b)) ->
  length nvec' = length nvec /\
  forall i, rep * ((if a =? i then 1 else 0) + (if b =? i then 1 else 0)) + nth i nvec' 0 = nth i nvec 0.
Proof.
  unfold mo_step. intros H.
  destruct (amax_ex nvec None) as [[a0 n0]|] eqn:E1; [|discriminate].
  destruct (amax_ex nvec (Some a0)) as [[b0 n1]|] eqn:E2; [|discriminate].
  destruct (amax_ex_spec nvec None a0 n0 E1) as (Ha & Hna & _ & Hmax).
  destruct (amax_ex_spec nvec (Some a0) b0 n1 E2) as (Hb & Hnb & Hab & _).
  assert (Hne : b0 <> a0) by congruence.
  assert (Hle : n1 <= n0) by (rewrite <- Hnb; apply Hmax; [lia|discriminate]).
  pose proof (Nat.mul_div_le n0 2 ltac:(lia)) as Hdiv.
  cbv zeta in H. set (h := n0 / 2) in *.
  destruct (n1 <? h) eqn:Eb; injection H as Hn Hr Ha' Hb'; subst nvec' rep a b.
  - split; [apply set_nth_len|]. intros i. rewrite nth_set_nth by lia.
    destruct (Nat.eq_dec a0 i) as [->|Hi].
    + rewrite !Nat.eqb_refl. lia.
    + replace (a0 =? i) with false by lia. replace (i =? a0) with false by lia. lia.
  - split; [now rewrite !set_nth_len|]. intros i.
    rewrite nth_set_nth by (rewrite set_nth_len; lia). rewrite nth_set_nth by lia.
    destruct (Nat.eq_dec a0 i) as [->|Hi]; [|destruct (Nat.eq_dec b0 i) as [->|Hj]].
    + rewrite Nat.eqb_refl. replace (b0 =? i) with false by lia. replace (i =? b0) with false by lia. lia.
    + rewrite !Nat.eqb_refl. replace (a0 =? i) with false by lia. lia.
    + replace (a0 =? i) with false by lia. replace (b0 =? i) with false by lia.
      replace (i =? b0) with false by lia. replace (i =? a0) with false by lia. lia.
Qed.

Lemma incidence_cons e es i :
  incidence (e :: es) i
  = (let '(rep, a, b) := e in rep * ((if a =? i then 1 else 0) + (if b =? i then 1 else 0))) + incidence es i.
Proof. reflexivity. Qed.

Lemma mo_loop_spec : forall fuel nvec es res, mo_loop fuel nvec = MoOk es res ->
  length res = length nvec /\ sum_nat res <= 1 /\
  forall i, incidence es i + nth i res 0 = nth i nvec 0.
Proof.
  induction fuel as [|fuel IH]; intros nvec es res H; cbn [mo_loop] in H.
  - destruct (sum_nat nvec <=? 1) eqn:E; [|discriminate]. inversion H; subst.
    split; [reflexivity|]. split; [lia|]. intros i. reflexivity.
  - destruct (sum_nat nvec <=? 1) eqn:E.
    + inversion H; subst. split; [reflexivity|]. split; [lia|]. intros i. reflexivity.
    + destruct (mo_step nvec) as [[nvec' [[rep a] b]]|] eqn:Es; [|discriminate].
      destruct (mo_loop fuel nvec') as [es' res'| |] eqn:El; try discriminate.
      inversion H; subst.
      destruct (mo_step_spec _ _ _ _ _ Es) as [Hl Hs].
      destruct (IH nvec' es' res El) as (Hl' & Hsum & Hi).
      split; [congruence|]. split; [exact Hsum|].
      intros i. rewrite incidence_cons. specialize (Hs i). specialize (Hi i). lia.
Qed.

(* the edges returned reproduce the occupation vector: every mode is used by the edges exactly
   as often as it is occupied, up to at most one unmatched particle in total *)
Theorem match_occupation_numbers_incidence nvec es res :
  match_occupation_numbers nvec = MoOk es res ->
  sum_nat res <= 1 /\ forall i, incidence es i + nth i res 0 = nth i nvec 0.
Proof.
  unfold match_occupation_numbers. destruct (length nvec =? 1) eqn:E.
  - intros H. destruct nvec as [|n [|m t]]; cbn [length Nat.eqb] in E; try discriminate.
    cbn [nth] in H.
    pose proof (Nat.div_mod n 2 ltac:(lia)) as Hd.
    pose proof (Nat.mod_upper_bound n 2 ltac:(lia)) as Hm.
    set (q := n / 2) in *. set (r := n mod 2) in *.
    injection H as <- <-.
    split; [unfold sum_nat; cbn [fold_right]; lia|].
    intros [|[|i]]; unfold incidence; cbn [map fold_right nth Nat.eqb]; lia.
  - intros H. destruct (mo_loop_spec _ _ _ _ H) as (_ & H1 & H2). auto.
Qed.

(* ------------------------------------------------------------------ termination *)
Lemma sum_nat_zero : forall l, (forall j, j < length l -> nth j l 0 = 0) -> sum_nat l = 0.
Proof.
  induction l as [|x l IH]; intros H; [reflexivity|].
  rewrite sum_nat_cons.
  pose proof (H 0 ltac:(cbn; lia)) as H0. cbn [nth] in H0.
  rewrite IH; [lia|].
  intros j Hj. apply (H (S j)). cbn. lia.
Qed.

Lemma sum_nat_single : forall l a, a < length l ->
  (forall j, j < length l -> j <> a -> nth j l 0 = 0) -> sum_nat l = nth a l 0.
Proof.
  intros l a Ha H.
  pose proof (sum_nat_set_nth l a 0 Ha) as E.
  rewrite (sum_nat_zero (set_nth a 0 l)) in E; [lia|].
  intros j Hj. rewrite set_nth_len in Hj. rewrite nth_set_nth by lia.
  destruct (j =? a) eqn:Ej; [reflexivity|]. apply H; lia.
Qed.

(* an iteration is always possible with at least two modes, and it removes particles *)
Lemma mo_step_progress nvec : 2 <= length nvec -> 1 < sum_nat nvec ->
  exists nvec' e, mo_step nvec = Some (nvec', e) /\
                  length nvec' = length nvec /\ sum_nat nvec' < sum_nat nvec.
Proof.
  intros Hlen Hsum. unfold mo_step.
  destruct (amax_ex nvec None) as [[a0 n0]|] eqn:E1.
  2:{ pose proof (amax_ex_none nvec None E1 0 ltac:(lia)). discriminate. }
  destruct (amax_ex nvec (Some a0)) as [[b0 n1]|] eqn:E2.
  2:{ pose proof (amax_ex_none nvec (Some a0) E2 0 ltac:(lia)) as H0.
      pose proof (amax_ex_none nvec (Some a0) E2 1 ltac:(lia)) as H1. congruence. }
  destruct (amax_ex_spec nvec None a0 n0 E1) as (Ha & Hna & _ & Hmax).
  destruct (amax_ex_spec nvec (Some a0) b0 n1 E2) as (Hb & Hnb & Hab & Hmax2).
  assert (Hne : b0 <> a0) by congruence.
  assert (Hle : n1 <= n0) by (rewrite <- Hnb; apply Hmax; [lia|discriminate]).
  pose proof (Nat.mul_div_le n0 2 ltac:(lia)) as Hdiv.
  pose proof (Nat.div_mod n0 2 ltac:(lia)) as Hdm.
  pose proof (Nat.mod_upper_bound n0 2 ltac:(lia)) as Hmod.
  cbv zeta. set (h := n0 / 2) in *.
  destruct (n1 <? h) eqn:Eb.
  - eexists _, _. split; [reflexivity|]. split; [apply set_nth_len|].
    pose proof (sum_nat_set_nth nvec a0 (n0 - 2 * h) Ha). lia.
  - eexists _, _. split; [reflexivity|]. split; [now rewrite !set_nth_len|].
    pose proof (sum_nat_set_nth nvec a0 (n0 - n1) Ha) as S1.
    pose proof (sum_nat_set_nth (set_nth a0 (n0 - n1) nvec) b0 0 ltac:(rewrite set_nth_len; lia)) as S2.
    rewrite nth_set_nth in S2 by lia. replace (b0 =? a0) with false in S2 by lia.
    assert (Hn1 : 1 <= n1).
    { destruct n1 as [|n1]; [|lia]. exfalso.
      assert (Hs : sum_nat nvec = nth a0 nvec 0).
      { apply sum_nat_single; [exact Ha|]. intros j Hj Hja.
        specialize (Hmax2 j Hj ltac:(congruence)). lia. }
      lia. }
    lia.
Qed.

Lemma mo_loop_terminates : forall fuel nvec, sum_nat nvec <= fuel -> 2 <= length nvec ->
  exists es res, mo_loop fuel nvec = MoOk es res.
Proof.
  induction fuel as [|fuel IH]; intros nvec Hf Hlen; cbn [mo_loop].
  - replace (sum_nat nvec <=? 1) with true by lia. eauto.
  - destruct (sum_nat nvec <=? 1) eqn:E; [eauto|].
    destruct (mo_step_progress nvec Hlen ltac:(lia)) as (nvec' & e & Hs & Hl & Hd).
    rewrite Hs. destruct (IH nvec' ltac:(lia) ltac:(lia)) as (es & res & Hr). rewrite Hr. eauto.
Qed.

(* with fuel = total occupation the loop always finishes: never out of fuel, never stuck *)
Theorem match_occupation_numbers_terminates nvec :
  exists es res, match_occupation_numbers nvec = MoOk es res.
Proof.
  unfold match_occupation_numbers. destruct (length nvec =? 1) eqn:E; [eauto|].
  destruct nvec as [|x [|y t]]; cbn in E; try discriminate.
  - cbn. eauto.
  - apply mo_loop_terminates; [lia|cbn; lia].
Qed.

(* ------------------------------------------------------------------ "exactly once" *)
(* the box is exactly the set of vectors bounded entrywise by the repetitions ... *)
Lemma box_complete : forall r g, In g (box r) <-> Forall2 (fun gi ri => gi <= ri) g r.
Proof.
  induction r as [|ri r IH]; intros g.
  - cbn. split.
    + intros [<-|[]]. constructor.
    + intros H. inversion H. now left.
  - cbn [box]. rewrite in_flat_map. split.
    + intros (g' & Hg' & Hin). apply in_map_iff in Hin. destruct Hin as (gi & <- & Hgi).
      apply in_seq in Hgi. constructor; [lia|]. now apply IH.
    + intros H. inversion H as [|gi ? g' ? Hle Hrest]; subst.
      exists g'. split; [now apply IH|]. apply in_map_iff. exists gi. split; [reflexivity|].
      apply in_seq. lia.
Qed.

(* ... and get_kept_edges is injective on the index range: the value of the digits is the index *)
Fixpoint digits_value (L ds : list nat) : nat :=
  match L, ds with
  | n :: L', d :: ds' => d + n * digits_value L' ds'
  | _, _ => 0
  end.

Lemma digits_value_chain : forall L k, wf_limits L -> k < idx_max L -> digits_value L (chain_of L k) = k.
Proof.
  induction L as [|n L IH]; intros k Hwf Hk; [cbn in *; lia|].
  inversion Hwf as [|? ? Hn Hwf']; subst. rewrite idx_max_cons in Hk.
  cbn [chain_of digits_value]. rewrite IH; auto.
  - pose proof (Nat.div_mod k n ltac:(lia)). lia.
  - apply Nat.div_lt_upper_bound; lia.
Qed.

Theorem kept_edges_nodup reps : NoDup (map (get_kept_edges reps) (seq 0 (idx_max (map S reps)))).
Proof.
  apply (NoDup_map_inv (digits_value (map S reps))).
  rewrite map_map.
  rewrite (map_ext_in _ (fun k => k)).
  - rewrite map_id. apply seq_NoDup.
  - intros k Hk. apply in_seq in Hk. unfold get_kept_edges.
    apply digits_value_chain; [apply JobProofs.wf_map_S|lia].
Qed.

(* every sub-multiset (vector bounded by the repetitions) is the kept-edge vector of exactly one
   index below prod (reps_e + 1) *)
Theorem kept_edges_exactly_once reps g :
  Forall2 (fun gi ri => gi <= ri) g reps ->
  exists k, k < idx_max (map S reps) /\ get_kept_edges reps k = g /\
            forall k', k' < idx_max (map S reps) -> get_kept_edges reps k' = g -> k' = k.
Proof.
  intros Hg. apply box_complete in Hg. rewrite <- kept_edges_enumeration in Hg.
  apply in_map_iff in Hg. destruct Hg as (k & Hk & Hin). apply in_seq in Hin.
  exists k. split; [lia|]. split; [exact Hk|].
  intros k' Hk' He.
  rewrite <- (digits_value_chain (map S reps) k' (JobProofs.wf_map_S reps) Hk').
  rewrite <- (digits_value_chain (map S reps) k (JobProofs.wf_map_S reps) ltac:(lia)).
  unfold get_kept_edges in *. congruence.
Qed.

(* for an even total nothing is left over: the incidences are the occupation numbers *)
Corollary match_occupation_numbers_even nvec es res :
  match_occupation_numbers nvec = MoOk es res -> sum_nat res = 0 ->
  forall i, incidence es i = nth i nvec 0.
Proof.
  intros H H0 i. destruct (match_occupation_numbers_incidence nvec es res H) as [_ Hi].
  specialize (Hi i).
  assert (nth i res 0 = 0).
  { pose proof (nth_le_sum res i). lia. }
  lia.
Qed.
