(* C05 - the loop of probabilities.py (signed sum over the table of subset row sums, subsets
   numbered in binary) equals the finite-difference form FS of RyserGeneral.v, hence the
   permanent by definition: for square matrices of EVERY size n >= 1, any commutative ring. *)
From Coq Require Import List Arith Lia Ring Bool PArith NArith.
From PV Require Import C05.PassiveModel C05.RyserProofs C05.RyserGeneral C05.TierBProofs.
Import ListNotations.
Local Open Scope nat_scope.

Section RyserLink.
  Variable A : Type.
  Variables (a0 a1 : A) (aadd amul asub : A -> A -> A) (aopp : A -> A).
  Hypothesis Aring : ring_theory a0 a1 aadd amul asub aopp (@eq A).
  Add Ring AringL : Aring.
  Infix "+!" := aadd (at level 50, left associativity).
  Infix "*!" := amul (at level 40, left associativity).
  Infix "-!" := asub (at level 50, left associativity).
  Notation asum := (asum A a0 aadd).
  Notation aprod := (aprod A a1 amul).
  Notation vadd := (vadd A aadd).
  Notation FS := (FS A a0 a1 aadd amul asub).

  Variable M : list (list A).
  Notation n := (length M).
  Notation ent := (entry A a0 aadd M).
  Notation "'col' j" := (column A a0 M j) (at level 10, j at level 9).

  Definition pcN (q : N) : nat := match q with N0 => 0 | Npos p => popcount p end.
  (* (-1)^(m+k) *)
  Definition sgn' (m k : nat) : A := if Nat.even (m + k) then a1 else aopp a1.

  Lemma sgn'_S_l m k : sgn' (S m) k = aopp (sgn' m k).
  Proof.
    unfold sgn'. change (S m + k) with (S (m + k)). rewrite Nat.even_succ, <- Nat.negb_even.
    destruct (Nat.even (m + k)); simpl; ring.
  Qed.
  Lemma sgn'_S_S m k : sgn' (S m) (S k) = sgn' m k.
  Proof.
    unfold sgn'. replace (S m + S k) with (S (S (m + k))) by lia.
    rewrite Nat.even_succ_succ. reflexivity.
  Qed.
  Lemma sgn'_sign m k : k <= m -> ryser_sign A a1 aopp m k = sgn' m k.
  Proof.
    intros H. unfold ryser_sign, sgn'. replace (m + k) with ((m - k) + 2 * k) by lia.
    rewrite Nat.even_add_mul_2. reflexivity.
  Qed.

  (* ---------------------------------------------------------------- vectors *)
  Lemma vadd_length u v : length (vadd u v) = Nat.min (length u) (length v).
  Proof. unfold PassiveModel.vadd. now rewrite map_length, combine_length. Qed.

  Lemma vadd_zero_r : forall c k, length c = k -> vadd c (repeat a0 k) = c.
  Proof.
    induction c as [| x c IH]; intros [| k] H; simpl in *; try lia; [reflexivity |].
    change (PassiveModel.vadd A aadd (x :: c) (a0 :: repeat a0 k)) with ((x +! a0) :: vadd c (repeat a0 k)).
    rewrite IH by lia. f_equal. ring.
  Qed.
  Lemma vadd_zero_l : forall c k, length c = k -> vadd (repeat a0 k) c = c.
  Proof.
    induction c as [| x c IH]; intros [| k] H; simpl in *; try lia; [reflexivity |].
    change (PassiveModel.vadd A aadd (a0 :: repeat a0 k) (x :: c)) with ((a0 +! x) :: vadd (repeat a0 k) c).
    rewrite IH by lia. f_equal. ring.
  Qed.
  Lemma vadd_assoc_swap : forall c e u, vadd c (vadd e u) = vadd (vadd c u) e.
  Proof.
    induction c as [| x c IH]; intros e u; [reflexivity |].
    destruct e as [| y e], u as [| z u]; try reflexivity.
    change (PassiveModel.vadd A aadd (x :: c) (PassiveModel.vadd A aadd (y :: e) (z :: u)))
      with ((x +! (y +! z)) :: vadd c (vadd e u)).
    change (PassiveModel.vadd A aadd (PassiveModel.vadd A aadd (x :: c) (z :: u)) (y :: e))
      with (((x +! z) +! y) :: vadd (vadd c u) e).
    rewrite IH. f_equal. ring.
  Qed.

  Lemma col_length j : length (col j) = n.
  Proof. unfold column. apply map_length. Qed.

  Lemma bits_sum_length : forall p c, length (bits_sum A a0 aadd M n p c) = n.
  Proof.
    induction p as [q IH | q IH | ]; intros c; simpl.
    - rewrite vadd_length, IH, col_length. lia.
    - apply IH.
    - rewrite vadd_length, repeat_length, col_length. lia.
  Qed.
  Lemma ent_length q j : length (ent q j) = n.
  Proof. destruct q; simpl; [apply repeat_length | apply bits_sum_length]. Qed.

  Lemma ent_double q j : ent (N.double q) j = ent q (S j).
  Proof. destruct q; reflexivity. Qed.
  Lemma ent_succ_double q j : ent (N.succ_double q) j = vadd (ent q (S j)) (col j).
  Proof. destruct q; reflexivity. Qed.
  Lemma pcN_double q : pcN (N.double q) = pcN q.
  Proof. destruct q; reflexivity. Qed.
  Lemma pcN_succ_double q : pcN (N.succ_double q) = S (pcN q).
  Proof. destruct q; reflexivity. Qed.

  (* ---------------------------------------------------------------- sums *)
  Lemma asum_app l1 l2 : asum (l1 ++ l2) = asum l1 +! asum l2.
  Proof. induction l1; simpl; [ring | rewrite IHl1; ring]. Qed.

  Lemma sum_even_odd (g : nat -> A) : forall k,
    asum (map g (seq 0 (2 * k))) = asum (map (fun q => g (2 * q) +! g (2 * q + 1)) (seq 0 k)).
  Proof.
    induction k as [| k IH]; [reflexivity |].
    replace (2 * S k) with (S (S (2 * k))) by lia.
    rewrite !seq_S, !map_app, !asum_app, IH. simpl.
    replace (k + (k + 0) + 1) with (S (k + (k + 0))) by lia. ring.
  Qed.

  Lemma asum_add (f g : nat -> A) l :
    asum (map (fun q => f q +! g q) l) = asum (map f l) +! asum (map g l).
  Proof. induction l as [| x l IH]; simpl; [ring | rewrite IH; ring]. Qed.
  Lemma asum_opp (f : nat -> A) l : asum (map (fun q => aopp (f q)) l) = aopp (asum (map f l)).
  Proof. induction l as [| x l IH]; simpl; [ring | rewrite IH; ring]. Qed.

  (* ---------------------------------------------------------------- binary-indexed sum = FS *)
  Definition T' (m j : nat) (c : list A) : A :=
    asum (map (fun q => sgn' m (pcN (N.of_nat q)) *! aprod (vadd c (ent (N.of_nat q) j)))
              (seq 0 (2 ^ m))).

  Lemma of_nat_double q : N.of_nat (2 * q) = N.double (N.of_nat q).
  Proof. rewrite N.double_spec. lia. Qed.
  Lemma of_nat_succ_double q : N.of_nat (2 * q + 1) = N.succ_double (N.of_nat q).
  Proof. rewrite N.succ_double_spec. lia. Qed.

  Lemma T'_FS : forall m j c, length c = n -> T' m j c = FS m j M c.
  Proof.
    induction m as [| m IH]; intros j c Hc.
    - unfold T'. simpl. unfold sgn'. simpl. rewrite (vadd_zero_r c n Hc). ring.
    - unfold T'. change (2 ^ S m) with (2 * 2 ^ m). rewrite sum_even_odd.
      cbn [RyserGeneral.FS].
      rewrite <- !IH by (try exact Hc; rewrite vadd_length, col_length; lia).
      unfold T'.
      transitivity (asum (map (fun q =>
          sgn' m (pcN (N.of_nat q)) *! aprod (vadd (vadd c (col j)) (ent (N.of_nat q) (S j)))
          +! aopp (sgn' m (pcN (N.of_nat q)) *! aprod (vadd c (ent (N.of_nat q) (S j))))) (seq 0 (2 ^ m)))).
      + f_equal. apply map_ext. intros q.
        rewrite of_nat_double, of_nat_succ_double.
        rewrite ent_double, ent_succ_double, pcN_double, pcN_succ_double.
        rewrite sgn'_S_l, sgn'_S_S, vadd_assoc_swap. ring.
      + rewrite asum_add, asum_opp. ring.
  Qed.

  (* ---------------------------------------------------------------- the table loop *)
  Lemma positives_from_seq : forall k p,
    positives_from p k = map Pos.of_nat (seq (Pos.to_nat p) k).
  Proof.
    induction k as [| k IH]; intros p; [reflexivity |].
    cbn [positives_from seq map]. rewrite Pos2Nat.id, IH, Pos2Nat.inj_succ. reflexivity.
  Qed.

  Lemma popcount_bound : forall p m, Pos.to_nat p < 2 ^ m -> popcount p <= m.
  Proof.
    induction p as [q IH | q IH | ]; intros m H.
    - destruct m as [| m]; [simpl in H; pose proof (Pos2Nat.is_pos q~1); lia |].
      rewrite Pos2Nat.inj_xI in H. change (2 ^ S m) with (2 * 2 ^ m) in H.
      simpl popcount. apply le_n_S. apply IH. lia.
    - destruct m as [| m]; [simpl in H; pose proof (Pos2Nat.is_pos q~0); lia |].
      rewrite Pos2Nat.inj_xO in H. change (2 ^ S m) with (2 * 2 ^ m) in H.
      simpl popcount. apply le_S. apply IH. lia.
    - destruct m as [| m]; [simpl in H; lia |]. simpl. lia.
  Qed.

  Theorem ryser_sum_is_FS : 1 <= n ->
    ryser_sum A a0 a1 aadd amul aopp M = FS n 0 M (repeat a0 n).
  Proof.
    intros Hn. rewrite <- T'_FS by apply repeat_length.
    unfold T', ryser_sum. cbv zeta.
    assert (Hpow : 2 ^ n = S (2 ^ n - 1)) by (pose proof (Nat.pow_nonzero 2 n); lia).
    rewrite Hpow at 2. cbn [seq map PassiveModel.asum fold_right].
    (* the empty subset contributes a product with a zero factor *)
    assert (H0 : aprod (vadd (repeat a0 n) (ent (N.of_nat 0) 0)) = a0).
    { simpl. destruct n as [| k]; [lia |]. simpl. unfold PassiveModel.aprod. simpl. ring. }
    rewrite H0. rewrite positives_from_seq, map_map. change (Pos.to_nat 1) with 1.
    replace (sgn' n (pcN (N.of_nat 0)) *! a0) with a0 by ring.
    match goal with |- _ = a0 +! ?x => transitivity x; [| ring] end.
    unfold PassiveModel.asum.
    f_equal. apply map_ext_in. intros q Hq. apply in_seq in Hq.
    assert (Eq : N.of_nat q = Npos (Pos.of_nat q)).
    { destruct q as [| q]; [lia |]. simpl. rewrite Pos.of_nat_succ. reflexivity. }
    rewrite Eq. cbn [pcN].
    assert (Hlt : Pos.to_nat (Pos.of_nat q) < 2 ^ n) by (rewrite Nat2Pos.id by lia; lia).
    rewrite sgn'_sign by (apply popcount_bound; exact Hlt).
    pose proof (subset_row_sums_spec A a0 aadd M (Npos (Pos.of_nat q)) Hlt) as Hs.
    simpl N.to_nat in Hs. rewrite Hs.
    rewrite vadd_zero_l by apply ent_length. reflexivity.
  Qed.

  (* probabilities.py loop over the table of _precompute_subset_row_sums = permanent *)
  Theorem ryser_is_permanent :
    1 <= n -> Forall (fun r => length r = n) M ->
    ryser_sum A a0 a1 aadd amul aopp M = perm A a0 a1 aadd amul M.
  Proof.
    intros Hn Hsq. rewrite ryser_sum_is_FS by exact Hn.
    apply (ryser_formula_is_permanent A a0 a1 aadd amul asub aopp Aring n M eq_refl Hsq).
  Qed.
End RyserLink.
