"""Implementation side of C11 (a): runs histories of Config / simulator operations on the real
piquasso code and returns the samples of every execution.

One request = one process = one world: all histories are run one after the other, so the
process-global `random` state and the os.urandom counter carry over, as in the model.
os.urandom is replaced by a deterministic stream (the k-th call is the model's `Fresh k`), and
the global `random` module is seeded once at start, so the whole run is a function of the
request."""
import json
import os
import random
import struct
import sys

import numpy as np


class FakeUrandom:
    """Deterministic os.urandom for the calls made by piquasso's own modules (Config); every
    other caller (numba, tempfile, ...) gets the real one, so that the number of their calls
    cannot shift the stream."""

    def __init__(self, seed):
        self.r = random.Random(seed)
        self.calls = 0
        self.real = os.urandom

    def __call__(self, n):
        fn = sys._getframe(1).f_code.co_filename.replace(os.sep, "/")
        if "/piquasso/" not in fn:
            return self.real(n)
        self.calls += 1
        return bytes(self.r.getrandbits(8) for _ in range(n))


def build_programs(pq):
    P = {}

    with pq.Program() as p:
        pq.Q(all) | pq.StateVector([1, 1, 1])
        pq.Q(0, 1) | pq.Beamsplitter(theta=np.pi / 4)
        pq.Q(1, 2) | pq.Beamsplitter(theta=np.pi / 3, phi=0.3)
        pq.Q(0, 1) | pq.Beamsplitter(theta=np.pi / 5, phi=0.7)
        pq.Q(all) | pq.ParticleNumberMeasurement()
    P["passive_pnm"] = (lambda cfg: pq.PassiveSimulator(d=3, config=cfg), p)

    def gauss(meas, modes=None):
        with pq.Program() as p:
            pq.Q(all) | pq.Vacuum()
            pq.Q(0) | pq.Squeezing(r=1.1)
            pq.Q(1) | pq.Squeezing(r=0.9, phi=1.0)
            pq.Q(0, 1) | pq.Beamsplitter(theta=np.pi / 4)
            if modes is None:
                pq.Q(all) | meas
            else:
                pq.Q(*modes) | meas
        return p

    P["gaussian_pnm"] = (lambda cfg: pq.GaussianSimulator(d=2, config=cfg),
                         gauss(pq.ParticleNumberMeasurement()))
    P["gaussian_threshold_tor"] = (lambda cfg: pq.GaussianSimulator(d=2, config=cfg),
                                   gauss(pq.ThresholdMeasurement()))
    P["gaussian_homodyne"] = (lambda cfg: pq.GaussianSimulator(d=2, config=cfg),
                              gauss(pq.HomodyneMeasurement(), modes=(0,)))

    # one-mode Gaussian programs: cheap per shot, used with shot counts on both sides of
    # plausible chunk sizes of a parallel branch
    def gauss1(meas):
        with pq.Program() as p:
            pq.Q(all) | pq.Vacuum()
            pq.Q(0) | pq.Squeezing(r=0.9)
            pq.Q(0) | pq.Displacement(r=0.8, phi=0.4)
            pq.Q(all) | meas
        return p

    def with_options(cfg, **kw):
        c = cfg.copy()      # shares the generators with cfg
        for k, v in kw.items():
            setattr(c, k, v)
        return c

    P["gaussian_pnm1"] = (lambda cfg: pq.GaussianSimulator(d=1, config=cfg),
                          gauss1(pq.ParticleNumberMeasurement()))
    P["gaussian_threshold_haf1"] = (
        lambda cfg: pq.GaussianSimulator(d=1, config=with_options(cfg, use_torontonian=False)),
        gauss1(pq.ThresholdMeasurement()))

    def fock(meas, modes=None, r0=1.2, theta=np.pi / 4):
        # (the programs of different kinds are physically different, so that equal samples
        # can only come from equal generator states)
        with pq.Program() as p:
            pq.Q(all) | pq.Vacuum()
            pq.Q(0) | pq.Displacement(r=r0)
            pq.Q(1) | pq.Displacement(r=1.0, phi=0.5)
            pq.Q(0, 1) | pq.Beamsplitter(theta=theta)
            if modes is None:
                pq.Q(all) | meas
            else:
                pq.Q(*modes) | meas
        return p

    P["purefock_pnm"] = (lambda cfg: pq.PureFockSimulator(d=2, config=cfg),
                         fock(pq.ParticleNumberMeasurement()))
    P["fock_pnm"] = (lambda cfg: pq.FockSimulator(d=2, config=cfg),
                     fock(pq.ParticleNumberMeasurement(), r0=1.05, theta=np.pi / 5))
    P["purefock_homodyne"] = (lambda cfg: pq.PureFockSimulator(d=2, config=cfg),
                              fock(pq.HomodyneMeasurement(), modes=(0,)))

    with pq.Program() as p:
        pq.Q(all) | pq.StateVector([1, 1, 0, 0])
        pq.Q(all) | pq.Interferometer(_unitary4())
        pq.Q(all) | pq.ParticleNumberMeasurement()
    P["fermionic_fock_pnm"] = (lambda cfg: pq.fermionic.PureFockSimulator(d=4, config=cfg), p)
    return P


def _unitary4():
    # a fixed real rotation (orthogonal up to rounding) mixing all four modes
    a, b = 0.6, 0.8
    r1 = np.array([[a, -b, 0, 0], [b, a, 0, 0], [0, 0, a, -b], [0, 0, b, a]])
    r2 = np.array([[1, 0, 0, 0], [0, b, -a, 0], [0, a, b, 0], [0, 0, 0, 1]])
    r3 = np.array([[a, 0, 0, -b], [0, 1, 0, 0], [0, 0, 1, 0], [b, 0, 0, a]])
    return (r1 @ r2 @ r3 @ r1).astype(complex)


def jsonable(samples):
    out = []
    for s in samples:
        out.append([float(x) if isinstance(x, (float, np.floating)) else int(x) for x in np.ravel(s)])
    return out


def main():
    req = json.load(sys.stdin)
    fake = FakeUrandom(req.get("urandom_seed", 0))
    os.urandom = fake
    random.seed(req.get("global_seed", 12345))
    import piquasso as pq

    loaded = os.path.dirname(os.path.dirname(os.path.realpath(pq.__file__)))
    programs = build_programs(pq)
    dask = bool(req.get("dask", False))

    def new_config(seed):
        return pq.Config(seed_sequence=seed, cutoff=5, use_torontonian=True, use_dask=dask,
                         measurement_cutoff=4)

    worlds = []
    for hist in req["histories"]:
        configs, sims, results = [], [], []
        for op in hist:
            name = op[0]
            if name == "NewConfig":
                configs.append(new_config(op[1]))
            elif name == "CopyConfig":
                if op[1] < len(configs):
                    configs.append(configs[op[1]].copy())
            elif name == "NewSimulator":
                c, kind = op[1], op[2]
                make = programs[kind][0]
                if c is None:
                    # the simulator's own default: config=None -> Config()
                    sims.append(_default_simulator(pq, kind))
                elif c < len(configs):
                    sims.append(make(configs[c]))
            elif name == "Execute":
                s, kind, shots = op[1], op[2], op[3]
                if s < len(sims):
                    res = sims[s].execute(programs[kind][1], shots=shots)
                    results.append(jsonable(res.samples))
            elif name == "SetSeed":
                if op[1] < len(configs):
                    configs[op[1]].seed_sequence = op[2]
            elif name == "GlobalDraw":
                random.random()
            elif name == "ReprConfig":
                which = op[1]
                if which == "simulator" and sims:
                    repr(sims[-1])
                elif configs:
                    repr(configs[-1])
                else:
                    repr(pq.Config())
            else:
                raise ValueError(name)
        worlds.append(results)
    print(json.dumps({"results": worlds, "loaded_from": loaded, "urandom_calls": fake.calls}))


def _default_simulator(pq, kind):
    d = {"passive_pnm": 3, "fermionic_fock_pnm": 4, "gaussian_pnm1": 1}.get(kind, 2)
    cls = {
        "passive_pnm": pq.PassiveSimulator,
        "gaussian_pnm": pq.GaussianSimulator,
        "gaussian_pnm1": pq.GaussianSimulator,
        "gaussian_threshold_tor": pq.GaussianSimulator,
        "gaussian_homodyne": pq.GaussianSimulator,
        "purefock_pnm": pq.PureFockSimulator,
        "fock_pnm": pq.FockSimulator,
        "purefock_homodyne": pq.PureFockSimulator,
        "fermionic_fock_pnm": pq.fermionic.PureFockSimulator,
    }[kind]
    return cls(d=d)


main()
