(* C09 -- the carriers at which the check *runs* the model: Z, Gaussian integers, Gaussian
   rationals (pairs of Q, compared with Qeq).  Definitions only. *)
From Coq Require Import ZArith QArith List Bool.
From PV Require Import Base.CasesLib C09.ConnModel.
Import ListNotations.

(* Gaussian integers *)
Definition Zi := (Z * Z)%type.
Definition zi0 : Zi := (0, 0)%Z.
Definition zi1 : Zi := (1, 0)%Z.
Definition zi_add (a b : Zi) : Zi := (fst a + fst b, snd a + snd b)%Z.
Definition zi_mul (a b : Zi) : Zi := (fst a * fst b - snd a * snd b, fst a * snd b + snd a * fst b)%Z.
Definition zi_opp (a : Zi) : Zi := (- fst a, - snd a)%Z.
Definition zi_eqb (a b : Zi) : bool := (fst a =? fst b)%Z && (snd a =? snd b)%Z.
Definition zil_eqb := list_eqb zi_eqb.
Definition zill_eqb := list_eqb zil_eqb.
Definition zilll_eqb := list_eqb zill_eqb.

(* Gaussian rationals *)
Definition Qi := (Q * Q)%type.
Definition qi0 : Qi := (0, 0)%Q.
Definition qi1 : Qi := (1, 0)%Q.
Definition qi_add (a b : Qi) : Qi := (Qred (fst a + fst b), Qred (snd a + snd b))%Q.
Definition qi_mul (a b : Qi) : Qi :=
  (Qred (fst a * fst b - snd a * snd b), Qred (fst a * snd b + snd a * fst b))%Q.
Definition qi_opp (a : Qi) : Qi := (- fst a, - snd a)%Q.
Definition qi_inv (a : Qi) : Qi :=
  let n := (fst a * fst a + snd a * snd a)%Q in (Qred (fst a / n), Qred (- snd a / n))%Q.
Definition qi_div (a b : Qi) : Qi := qi_mul a (qi_inv b).
Definition qi_eqb (a b : Qi) : bool := Qeq_bool (fst a) (fst b) && Qeq_bool (snd a) (snd b).
Definition qil_eqb := list_eqb qi_eqb.
Definition qill_eqb := list_eqb qil_eqb.
Definition qilll_eqb := list_eqb qill_eqb.

Definition nl_eqb := list_eqb Nat.eqb.
Definition nll_eqb := list_eqb nl_eqb.
Definition zopt_eqb {X} (e : X -> X -> bool) := opt_eqb e.
