(* C20 — the executable instance of PyValue.v satisfies the hypotheses of eval_agrees. *)
From Coq Require Import ZArith List String Bool PrimFloat SpecFloat.
From PV Require Import C20.Ast C20.WhitelistGen C20.ExprModel C20.ExprProofs C20.PyValue.
Import ListNotations.

Lemma py_cmp_bool : forall o a b c,
  In o grammar_cmpops -> py_call (spec_cmpop o) [a; b] = POk c ->
  c = VBool true \/ c = VBool false.
Proof.
  intros o a b c Hin H.
  destruct o; simpl in Hin;
    try (exfalso; repeat match goal with H : _ \/ _ |- _ => destruct H end;
         try discriminate; contradiction);
    clear Hin; simpl in H; unfold of_cres, neg_cres in H;
    match type of H with
    | context [py_eq ?x ?y] => destruct (py_eq x y) as [[]| |]
    | context [py_ord ?k ?x ?y] => destruct (py_ord k x y) as [[]| |]
    end; inversion H; auto.
Qed.

(* Expression(src)(x) of the model = the specification, on the executable instance *)
Theorem run_agrees : forall body x,
  shape body = true -> validate_tree body = true -> run_pq body (Some x) = run_py body x.
Proof.
  intros body x Hs Hv. unfold run_pq, run_py.
  apply call_agrees; auto. apply py_cmp_bool.
Qed.

Theorem run_total : forall body arg u,
  shape body = true -> validate_tree body = true -> run_pq body arg <> Unsupported u.
Proof. intros; unfold run_pq; apply eval_total; auto. Qed.
