(* C08 — model of the diagonal fragment of the pure Fock simulator as a program semantics
   (definitions only).  Uses the C06 model of the Fock basis and index.
   piquasso/_simulators/fock/pure/simulation_steps/__init__.py:
     state_vector_instruction/_add_occupation_number_basis -> FPrep (assignment at the index)
     kerr -> FKerr, cross_kerr -> FCrossKerr, snap -> FSnap,
     passive_linear with the 1x1 block e^{i phi} (Phaseshifter) -> FPhase
   piquasso/_simulators/fock/simulation_steps.py:get_projection_operator_indices -> proj_index *)
From Coq Require Import List Arith ZArith Bool.
From PV Require Import Comb.FockModel C08.PhysModel.
Import ListNotations.

Definition space (d c : nat) : list (list nat) := map (map Z.to_nat) (basis d c).

Section G.
Context {A : Type} (T : Ops A).

Definition pshift_coef (z : cplx (A:=A)) (mode : nat) (sp : list (list nat)) : list cplx :=
  map (fun b => cpow T z (nth mode b O)) sp.

Inductive finstr :=
| FPrep (occ : list nat) (amp : cplx (A:=A))
| FKerr (mode : nat) (z : cplx (A:=A))
| FCrossKerr (ma mb : nat) (z : cplx (A:=A))
| FPhase (mode : nat) (z : cplx (A:=A))
| FSnap (mode : nat) (zs : list (cplx (A:=A))).

Fixpoint set_nth {X} (i : nat) (x : X) (l : list X) : list X :=
  match l, i with
  | nil, _ => nil
  | _ :: r, O => x :: r
  | a :: r, S j => a :: set_nth j x r
  end.

Definition fstep (d c : nat) (psi : list cplx) (i : finstr) : list cplx :=
  let sp := space d c in
  match i with
  | FPrep occ amp => set_nth (Z.to_nat (fock_index (map Z.of_nat occ))) amp psi
  | FKerr m z => apply_diag T (kerr_coef T z m sp) psi
  | FCrossKerr ma mb z => apply_diag T (crosskerr_coef T z ma mb sp) psi
  | FPhase m z => apply_diag T (pshift_coef z m sp) psi
  | FSnap m zs => apply_diag T (snap_coef T zs m sp) psi
  end.
Fixpoint ftrace (d c : nat) (psi : list cplx) (p : list finstr) : list (list cplx) :=
  match p with
  | nil => nil
  | i :: r => let psi' := fstep d c psi i in psi' :: ftrace d c psi' r
  end.
(* PureFockState.__init__: the all-zero vector *)
Definition fzero_state (d c : nat) : list (cplx (A:=A)) := map (fun _ => (o0 T, o0 T)) (space d c).
Definition frun d c p := ftrace d c (fzero_state d c) p.
End G.

Arguments FPrep {A}. Arguments FKerr {A}. Arguments FCrossKerr {A}. Arguments FPhase {A}. Arguments FSnap {A}.

(* get_projection_operator_indices(d, cutoff, modes, outcome): indices of the basis vectors
   that carry [outcome] on [modes], enumerated through the basis of the other modes *)
Fixpoint merge_occ (d : nat) (i : nat) (modes : list nat) (outcome : list nat) (aux : list nat) : list nat :=
  match d with
  | O => nil
  | S d' =>
    match pos i modes with
    | Some a => nth a outcome O :: merge_occ d' (S i) modes outcome aux
    | None => match aux with
              | nil => O :: merge_occ d' (S i) modes outcome nil
              | x :: r => x :: merge_occ d' (S i) modes outcome r
              end
    end
  end.
Definition proj_index (d c : nat) (modes outcome : list nat) : list nat :=
  let tot := fold_right Nat.add O outcome in
  map (fun aux => Z.to_nat (fock_index (map Z.of_nat (merge_occ d 0 modes outcome aux))))
      (space (d - length modes) (c - tot)).
Definition nodupb (l : list nat) : bool :=
  (fix go (l : list nat) : bool :=
     match l with nil => true | a :: r => andb (negb (existsb (Nat.eqb a) r)) (go r) end) l.
