"""C05 — Passive-state probability interfaces agree with a unitary dilation.

Tie: the Gallina reference of coq/theories/C05/PassiveModel.v (permanent by definition over
Gaussian integers with a common denominator, lossless dilation, mixture formula, tensor
permanent for Gram matrices, post-selection bookkeeping) is evaluated inside coqc on the
same inputs as the implementation; every interface is compared with it.
Search: the property stated on the implementation alone (mutual consistency, dilation run on
PureFockSimulator)."""
import itertools
import json
import math
import os
import re
from concurrent.futures import ThreadPoolExecutor
from fractions import Fraction as F

import common
from common import (CASES_HEADER, VERIF, Check, clist, coq_eval_parallel, cq, cz, parse_coq_list)

IMPORTS = CASES_HEADER + "From PV Require Import Base.CasesLib Comb.FockModel C05.PassiveModel C05.PassiveCases.\n"

KEY_D1 = "C05:fock_probabilities:postselected+ryser-branch"
KEY_D2 = "C05:ryser-coefficient-extraction:conjugated-outer-product"


def run_impl(script, request, timeout=3000):
    """common.run_impl (shared numba cache, pinned thread pools) with one retry."""
    try:
        return common.run_impl(script, request, timeout=timeout)
    except RuntimeError:
        return common.run_impl(script, request, timeout=timeout)


# ----------------------------------------------------------------------------- exact arithmetic
class G:
    """Gaussian rational."""
    __slots__ = ("re", "im")

    def __init__(self, re, im=0):
        self.re = F(re)
        self.im = F(im)

    def __add__(a, b):
        return G(a.re + b.re, a.im + b.im)

    def __mul__(a, b):
        return G(a.re * b.re - a.im * b.im, a.re * b.im + a.im * b.re)

    def conj(a):
        return G(a.re, -a.im)

    def js(a):
        return [str(a.re), str(a.im)]


Z0, O1 = G(0), G(1)


def mm(A, B):
    return [[sum((A[i][k] * B[k][j] for k in range(len(B))), Z0) for j in range(len(B[0]))] for i in range(len(A))]


def ident(d):
    return [[O1 if i == j else Z0 for j in range(d)] for i in range(d)]


def diag(v):
    return [[G(v[i]) if i == j else Z0 for j in range(len(v))] for i in range(len(v))]


def jm(M):
    return [[x.js() for x in r] for r in M]


# (cos, sin) rational pairs and unit Gaussian rationals
CS = [(F(3, 5), F(4, 5)), (F(4, 5), F(3, 5)), (F(5, 13), F(12, 13)), (F(12, 13), F(5, 13)), (F(8, 17), F(15, 17))]
PH = CS + [(F(0), F(1)), (F(1), F(0)), (F(-3, 5), F(4, 5)), (F(3, 5), F(-4, 5)), (F(-1), F(0)), (F(0), F(-1))]
# transmissivity tau and sqrt(1 - tau^2)
TAUS = [(F(1), F(0)), (F(3, 5), F(4, 5)), (F(4, 5), F(3, 5)), (F(5, 13), F(12, 13)), (F(12, 13), F(5, 13)), (F(0), F(1))]


def rand_unitary(rng, d, real=False):
    """Product of rational Givens rotations with Pythagorean phases: exactly unitary."""
    U = ident(d)
    pairs = [(i, j) for i in range(d) for j in range(i + 1, d)]
    rng.shuffle(pairs)
    for (i, j) in pairs:
        c, s = rng.choice(CS)
        ph = G(*((1, 0) if real else rng.choice(PH)))
        R = ident(d)
        R[i][i] = G(c)
        R[i][j] = G(-s) * ph.conj()
        R[j][i] = G(s) * ph
        R[j][j] = G(c)
        U = mm(R, U)
    for i in range(d):
        ph = G(*((1, 0) if real else rng.choice(PH)))
        U[i] = [ph * x for x in U[i]]
    return U


def compositions(n, d):
    if d == 0:
        if n == 0:
            yield ()
        return
    for k in range(n, -1, -1):
        for r in compositions(n - k, d - 1):
            yield (k,) + r


def basis(d, c):
    return [list(t) for n in range(max(c, 0)) for t in compositions(n, d)]


def common_den(M):
    D = 1
    for r in M:
        for x in r:
            D = D * x.re.denominator // math.gcd(D, x.re.denominator)
            D = D * x.im.denominator // math.gcd(D, x.im.denominator)
    return D


def zi_matrix(M, D):
    return clist(M, lambda r: clist(r, lambda x: "(%s,%s)" % (cz(int(x.re * D)), cz(int(x.im * D)))))


# ----------------------------------------------------------------------------- case generation
# rational unit vectors in C^2 / C^3 used as internal states of the photons (Gram matrices)
INTERNAL = [
    (G(1), G(0), G(0)),
    (G(F(3, 5)), G(0, F(4, 5)), G(0)),
    (G(F(4, 5)) * G(F(3, 5), F(4, 5)), G(F(3, 5)), G(0)),
    (G(F(1, 3)), G(F(2, 3)), G(0, F(2, 3))),
    (G(F(2, 3)), G(0, F(-1, 3)), G(F(2, 3))),
    (G(0), G(F(5, 13)), G(F(12, 13))),
    (G(F(3, 5)), G(F(4, 5)), G(0)),
]
INTERNAL_REAL = [v for v in INTERNAL if all(x.im == 0 for x in v)]


def gram_of(vecs):
    return [[sum((a.conj() * b for a, b in zip(vi, vj)), Z0) for vj in vecs] for vi in vecs]


def random_gram(rng, n, real):
    """Gram matrix of n rational unit vectors with generic cross-overlaps: every pairwise
    overlap non-zero, not all of modulus one (falls back to any draw after 60 attempts)."""
    pool = INTERNAL_REAL if real else INTERNAL
    gram = gram_of([rng.choice(pool) for _ in range(n)])
    for _ in range(60):
        offd = [gram[i][j] for i in range(n) for j in range(n) if i != j]
        if all(x.re != 0 or x.im != 0 for x in offd) and (
                not offd or any(x.re * x.re + x.im * x.im != 1 for x in offd)) and (
                real or n < 3 or any(x.im != 0 for x in offd)):
            break
        gram = gram_of([rng.choice(pool) for _ in range(n)])
    return gram


def pick_queries(rng, d, psd, cutoff0):
    act = [m for m in range(d) if m not in psd]
    cutoff = cutoff0 - sum(psd.values())
    queries = basis(len(act), cutoff)
    margs = []
    if act:
        margs.append([rng.choice(act)])
        if len(act) >= 2:
            margs.append(sorted(rng.sample(act, 2)) if rng.random() < 0.7 else rng.sample(act, 2))
    return act, cutoff, queries, margs


LOSS_KINDS = ("uniform_all", "uniform_subset", "per_mode", "lossy_interferometer")
POSITIONS = ("before", "between", "after")


def make_seq_case(rng, cid, d, s, ov, loss_kind, position, real=False):
    """A case generated as an INSTRUCTION SEQUENCE: interferometer, loss of the given kind placed
    before / between / after post-selection steps that demand >= 1 photon, gates on the remaining
    modes.  Model steps use the active numbering, the program the user's original labels."""
    n = sum(s)
    psd = {}
    model, program = [], []
    T = ident(d)
    feats = set()

    def active():
        return [m for m in range(d) if m not in psd]

    dil_prog = []
    env = [0]

    def gate(op, pos, M, C, extra=None, XY=None):
        nonlocal T
        act = active()
        orig = [act[p_] for p_ in pos]
        if C:  # unitary dilation [[M, X], [C, Y]] on the addressed modes + fresh environment modes
            X, Y = XY
            k_ = len(pos)
            envm = [d + env[0] + i_ for i_ in range(k_)]
            env[0] += k_
            dil_prog.append({"modes": orig + envm, "M": jm([M[i_] + X[i_] for i_ in range(k_)] + [C[i_] + Y[i_] for i_ in range(k_)])})
        else:
            dil_prog.append({"modes": orig, "M": jm(M)})
        Dm = common_den(M + C) if C else common_den(M)
        model.append(("gate", list(pos), M, C, Dm))
        ins = {"op": op, "modes": orig}
        ins.update(extra or {"M": jm(M)})
        program.append(ins)
        E = ident(d)
        for a_, i in enumerate(orig):
            for b_, j in enumerate(orig):
                E[i][j] = M[a_][b_]
        T = mm(E, T)

    def unitary(pos):
        gate("U", pos, rand_unitary(rng, len(pos), real), [])

    def loss():
        a = len(active())
        when = "after-ps" if psd else "before-ps"
        if loss_kind == "uniform_all" or (loss_kind == "uniform_subset" and a < 2):
            t, sg = rng.choice(TAUS[1:5])
            gate("uniform_loss", list(range(a)), diag([t] * a), diag([sg] * a), {"tau": str(t)},
                 XY=(diag([sg] * a), diag([-t] * a)))
            feats.add("UniformLoss on all remaining modes, " + when)
        elif loss_kind == "uniform_subset":
            k = rng.randint(1, a - 1)
            pos = sorted(rng.sample(range(a), k))
            t, sg = rng.choice(TAUS[1:5])
            gate("uniform_loss", pos, diag([t] * k), diag([sg] * k), {"tau": str(t)}, XY=(diag([sg] * k), diag([-t] * k)))
            feats.add("UniformLoss on a subset, " + when)
        elif loss_kind == "per_mode":
            for p_ in rng.sample(range(a), min(a, rng.randint(1, 2))):
                t, sg = rng.choice(TAUS[1:])
                gate("loss", [p_], [[G(t)]], [[G(sg)]], {"tau": str(t)}, XY=([[G(sg)]], [[G(-t)]]))
            feats.add("per-mode Loss, " + when)
        else:
            k = a if a <= 2 or rng.random() < 0.5 else rng.randint(2, a)
            pos = rng.sample(range(a), k)
            V, W = rand_unitary(rng, k, real), rand_unitary(rng, k, real)
            tau = [rng.choice(TAUS) for _ in range(k)]
            M = mm(mm(V, diag([t for t, _ in tau])), W)
            C = mm(diag([sg for _, sg in tau]), W)
            gate("lossy_interferometer", pos, M, C, XY=(mm(V, diag([sg for _, sg in tau])), diag([-t for t, _ in tau])))
            feats.add("LossyInterferometer, " + when)

    def postselect(count_min=1):
        act = active()
        p_ = rng.randrange(len(act))
        budget = n - sum(psd.values())
        c = max(0, min(budget, rng.randint(count_min, 2)))
        model.append(("ps", [p_], [c]))
        program.append({"op": "ps", "modes": [act[p_]], "counts": [c]})
        psd[act[p_]] = c

    unitary(list(range(d)))
    if position == "before":
        loss()
    postselect()
    if position == "between":
        loss()
        feats.add("loss between two post-selections")
    if len(active()) >= 2 and rng.random() < 0.6:
        unitary(rng.sample(range(len(active())), len(active())))
    if position == "between" or (len(active()) >= 3 and rng.random() < 0.4):
        if len(active()) >= 2:
            postselect(1 if n - sum(psd.values()) >= 1 else 0)
    if position == "after":
        loss()
    ovj, gram = None, None
    if isinstance(ov, tuple):
        gram = random_gram(rng, n, ov[1])
        ovj = jm(gram)
    elif ov is not None:
        ovj = ov
    explicit = rng.choice([None, n + 1, n + 1])
    cutoff0 = explicit if explicit is not None else (max(4, n + 1) if ov is None else 4)
    act, cutoff, queries, margs = pick_queries(rng, d, psd, cutoff0)
    req = {"id": cid, "d": d, "s": list(s), "build": {"kind": "sequence", "program": program}, "overlap": ovj,
           "cutoff": explicit, "ps": [], "ps_state": [], "queries": queries, "marginals": margs,
           "prep": rng.choice(["number", "statevector"])}
    steps = [[m_[1], m_[2]] for m_ in model if m_[0] == "ps"]
    meta = {"id": cid, "d": d, "s": list(s), "loss": "nonuniform", "lossy_flag": True, "ov": ov, "gram": gram,
            "steps": steps, "cutoff0": cutoff0, "queries": queries, "margs": margs, "psd": psd, "act": act,
            "cutoff": cutoff, "build": "sequence", "T": T, "ps_mode": "program", "real": real,
            "seq": model, "program": program, "features": sorted(feats),
            "dilation": {"m_total": d + env[0], "s": list(s), "program": dil_prog},
            "loss_kind": loss_kind, "position": position}
    return req, meta


def make_case(rng, cid, d, s, loss, ov, ps_kind, cutoff_kind="auto", ps_steps=None, real=False):
    """loss in none|uniform|nonuniform; ov in None | 'p/q' | ('gram', real?)."""
    n = sum(s)
    V = rand_unitary(rng, d, real)
    W = rand_unitary(rng, d, real)
    if loss == "none":
        tau = [TAUS[0]] * d
    elif loss == "uniform":
        tau = [rng.choice(TAUS[1:5])] * d
    else:
        tau = [rng.choice(TAUS) for _ in range(d)]
        if len(set(tau)) == 1 and d > 1:
            tau[0] = TAUS[1] if tau[0] != TAUS[1] else TAUS[2]
    T = mm(mm(V, diag([t for t, _ in tau])), W)
    L = mm(diag([sg for _, sg in tau]), W) if loss != "none" else []
    nloss = len(L)
    lossy_flag = loss != "none"
    kind = rng.choice(["direct", "svd"]) if loss != "none" else rng.choice(["direct", "direct", "svd1"])
    if loss == "none":
        if kind == "svd1":  # a Loss instruction with transmissivity 1: flagged lossy, still unitary
            build = {"kind": "svd", "W": jm(W), "V": jm(V), "tau": ["1"] * d, "all_loss": True}
            lossy_flag = True
            L = [[Z0] * d for _ in range(d)]
            nloss = d
        else:
            build = {"kind": "interferometer", "U": jm(T)}
    elif loss == "uniform":
        if kind == "direct":
            build = {"kind": "uniform", "U": jm(mm(V, W)), "tau": str(tau[0][0])}
        else:
            build = {"kind": "lossy_interferometer", "T": jm(T)}
    else:
        if kind == "direct":
            build = {"kind": "lossy_interferometer", "T": jm(T)}
        else:
            build = {"kind": "svd", "W": jm(W), "V": jm(V), "tau": [str(t) for t, _ in tau]}
            # the runner issues pq.Loss only for tau != 1: with every tau = 1 (possible for
            # d = 1) no instruction sets is_lossy
            lossy_flag = any(t != 1 for t, _ in tau)
    # overlap
    ovj = None
    gram = None
    if isinstance(ov, tuple):
        gram = random_gram(rng, n, ov[1])
        ovj = jm(gram)
    elif ov is not None:
        ovj = ov
    # cutoff
    if cutoff_kind == "auto":
        cutoff_kind = rng.choice(["default", "tight", "wide"])
    explicit = None if cutoff_kind == "default" else (n + 1 if cutoff_kind == "tight" else n + 2)
    # simulation_steps.py: NumberState / StateVector raise the default cutoff (4) to n + 1
    # (_validate_or_infer_cutoff); DistinguishableNumberState does not touch the cutoff
    if explicit is not None:
        cutoff0 = explicit
    else:
        cutoff0 = max(4, n + 1) if ov is None else 4
    # post-selection steps (active numbering)
    steps = []
    if ps_steps is not None:
        steps = ps_steps
    elif ps_kind != "none" and d >= 2:
        nsteps = 1 if ps_kind == "one" else 2
        avail = d
        budget = n
        for _ in range(nsteps):
            if avail <= 1:
                break
            k = rng.randint(1, min(2, avail - 1))
            modes = rng.sample(range(avail), k)
            counts = []
            for _m in modes:
                c = rng.randint(0, min(budget, 2))
                counts.append(c)
                budget -= c
            steps.append([modes, counts])
            avail -= k
    # mirror of the bookkeeping (only to choose queries; the model recomputes it in Coq)
    psd = {}
    for modes, counts in steps:
        act = [m for m in range(d) if m not in psd]
        for m, c in zip(modes, counts):
            psd[act[m]] = c
    act = [m for m in range(d) if m not in psd]
    cutoff = cutoff0 - sum(psd.values())
    queries = basis(len(act), cutoff)
    margs = []
    if act:
        margs.append([rng.choice(act)])
        if len(act) >= 2:
            margs.append(sorted(rng.sample(act, 2)) if rng.random() < 0.7 else rng.sample(act, 2))
        if len(act) >= 3 and rng.random() < 0.3:
            margs.append(list(act))
    ps_mode = rng.choice(["program", "state"])
    orig_steps = []
    if ps_mode == "program":  # PostSelectPhotons takes the user's (original) mode labels
        tmp = {}
        for modes, counts in steps:
            a = [m for m in range(d) if m not in tmp]
            orig_steps.append([[a[m] for m in modes], counts])
            for m, c in zip(modes, counts):
                tmp[a[m]] = c
    req = {"id": cid, "d": d, "s": list(s), "build": build, "overlap": ovj, "cutoff": explicit,
           "ps": orig_steps if ps_mode == "program" else [], "ps_state": steps if ps_mode == "state" else [],
           "queries": queries, "marginals": margs,
           "prep": rng.choice(["number", "statevector"])}
    N = T + L
    D = common_den(N)
    meta = {"id": cid, "d": d, "s": list(s), "loss": loss, "lossy_flag": lossy_flag, "ov": ov, "gram": gram,
            "steps": steps, "cutoff0": cutoff0, "N": N, "D": D, "nloss": nloss, "queries": queries,
            "margs": margs, "psd": psd, "act": act, "cutoff": cutoff, "build": build["kind"],
            "V": V, "W": W, "tau": tau, "T": T, "ps_mode": ps_mode, "real": real}
    return req, meta


def dilation_unitary(meta):
    """[[V tau W, V sigma], [sigma W, -tau]] : unitary on 2d modes (d modes if lossless)."""
    d = meta["d"]
    if meta["loss"] == "none":
        return meta["T"]
    V, W, tau = meta["V"], meta["W"], meta["tau"]
    T = meta["T"]
    Vs = mm(V, diag([sg for _, sg in tau]))
    sW = mm(diag([sg for _, sg in tau]), W)
    mt = diag([-t for t, _ in tau])
    return [T[i] + Vs[i] for i in range(d)] + [sW[i] + mt[i] for i in range(d)]


# ----------------------------------------------------------------------------- Coq encoding
def fq(x):
    """float -> exact Q literal (a non-finite value is reported by the search; here it becomes
    a value no probability can be close to)"""
    x = float(x)
    if not math.isfinite(x):
        return "(Qmake (-7) 1)"
    return cq(F(x))


def finite(x):
    return isinstance(x, (int, float)) and math.isfinite(x)


def st_of(g):
    return 0 if "ok" in g else (1 if "refused" in g else 2)


def nl(xs):
    return "[" + "; ".join("%d%%nat" % x for x in xs) + "]"


def zll(b):
    return clist(b, lambda r: clist(r))


def enc_overlap(meta):
    ov = meta["ov"]
    if ov is None:
        return "Indist"
    if isinstance(ov, tuple):
        Gm = meta["gram"]
        Dg = common_den(Gm) if Gm else 1
        return "(Gram %s %d)" % (zi_matrix(Gm, Dg), Dg)
    return "(Uniform %s)" % cq(F(ov))


def enc_obs(meta, r):
    single = [g["ok"][0] if "ok" in g else float("nan") for g in r["single"]]
    tab, keys, norm, sv = r["table"], r["table_map"], r["norm"], r["state_vector"]
    return "(Build_observed %d%%nat %d%%nat %s %s %s %s %s %s %s %s %s %s %s %s %s %s %s)" % (
        r["d_active"], r["total"], cz(r["cutoff"]), nl(r["active"]), nl(r["ps_modes"]), clist(r["ps_photons"]),
        clist(single, fq),
        cz(st_of(tab)), clist(tab.get("ok", []), fq),
        cz(st_of(keys)), zll([k for k, _ in keys.get("ok", [])]),
        cz(st_of(norm)), fq(norm["ok"][0]) if "ok" in norm else "0%Q",
        cz(st_of(sv)), clist(sv.get("ok", []), lambda a: "(%s,%s)" % (fq(a[0]), fq(a[1]))),
        clist(list(zip(meta["margs"], r["marginals"])), lambda mg: "(%s,%s,%s,%s)" % (
            nl(mg[0]), cz(st_of(mg[1])), zll([k for k, _ in mg[1].get("ok", [])]),
            clist([p for _, p in mg[1].get("ok", [])], fq))),
        clist(r["T"], lambda row: clist(row, lambda a: "(%s,%s)" % (fq(a[0]), fq(a[1])))),
    )


def enc_seq(meta, r):
    def st(m_):
        if m_[0] == "ps":
            return "(SPost %s %s)" % (nl(m_[1]), clist(m_[2]))
        _, pos, M, C, Dm = m_
        return "(SGate %s %s %s %d)" % (nl(pos), zi_matrix(M, Dm), zi_matrix(C, Dm) if C else "[]", Dm)
    return "(Build_seqcase %d%%nat %s %s %s %s %s %s)" % (
        meta["d"], clist(meta["s"]), enc_overlap(meta), clist(meta["seq"], st), cz(meta["cutoff0"]),
        "true" if meta["lossy_flag"] else "false", enc_obs(meta, r))


def enc_case(meta, r):
    obs = enc_obs(meta, r)
    return "(Build_case %s %d %d%%nat %d%%nat %s %s %s %s %s %s)" % (
        zi_matrix(meta["N"], meta["D"]), meta["D"], meta["d"], meta["nloss"], clist(meta["s"]),
        enc_overlap(meta),
        clist(meta["steps"], lambda st: "(%s,%s)" % (nl(st[0]), clist(st[1]))),
        cz(meta["cutoff0"]), "true" if meta["lossy_flag"] else "false", obs)


def parse_ll_all(out):
    """every `= [[..]; ..] : list (list Z)` answer of a file, in order"""
    res = []
    for m in re.finditer(r"=\s*(\[.*?\])\s*:\s*list \(list Z\)", out, re.S):
        inner = m.group(1).replace("%Z", "").strip()[1:-1]
        res.append([[int(x) for x in re.findall(r"-?\d+", grp)] for grp in re.findall(r"\[([^\[\]]*)\]", inner)])
    return res


def parse_ll(out):
    """`= [[1; 2]; []; [3]] : list (list Z)` -> list of lists"""
    m = re.search(r"=\s*(\[.*\])\s*:\s*list \(list Z\)", out, re.S)
    if not m:
        raise RuntimeError("cannot parse coq output: " + out[-500:])
    txt = m.group(1).replace("%Z", "")
    inner = txt.strip()[1:-1]
    res = []
    for grp in re.findall(r"\[([^\[\]]*)\]", inner):
        res.append([int(x) for x in re.findall(r"-?\d+", grp)])
    return res


CODES = {1: "generator: matrix is not an isometry (harness defect)", 2: "post-selection bookkeeping (active modes / d / cutoff / dictionary)",
         3: "get_particle_detection_probability", 4: "fock_probabilities", 5: "fock_probabilities_map keys",
         6: "norm", 7: "state_vector", 8: "get_marginal_fock_probabilities",
         9: "reference table does not sum to one (model defect)",
         10: "coefficient-extraction formula (repaired) differs from the dilation reference (model defect)",
         21: "get_particle_detection_probability (coefficient-extraction path)", 22: "fock_probabilities (coefficient-extraction path)",
         23: "norm = sum of fock_probabilities (coefficient-extraction path)",
         31: "rows handed to the probability routine vs table keys (model)",
         32: "interferometer / transmission matrix held by the state (_apply_matrix_on_modes)"}


# ----------------------------------------------------------------------------- the check
def run_impl_chunks(reqs, jobs=4, key="cases"):
    if not reqs:
        return []
    size = max(1, (len(reqs) + jobs - 1) // jobs)
    chunks = [reqs[i:i + size] for i in range(0, len(reqs), size)]
    with ThreadPoolExecutor(max_workers=jobs) as ex:
        outs = list(ex.map(lambda ch: run_impl("c05_impl.py", {key: ch})[key], chunks))
    return [x for o in outs for x in o]


def all_inputs(dmax=4, nmax=4):
    return [(d, list(s)) for d in range(1, dmax + 1) for n in range(0, nmax + 1) for s in compositions(n, d)]


def ps_patterns(d, n):
    """every post-selection pattern: non-empty proper subset of modes x photon counts with total <= n"""
    out = []
    for k in range(1, d):
        for modes in itertools.combinations(range(d), k):
            for counts in itertools.product(range(n + 1), repeat=k):
                if sum(counts) <= n:
                    out.append((list(modes), list(counts)))
    return out


def make_book(rng, Tq):
    book = {"map_to_original": [], "ps_basis": [], "subset_sums": [], "bit_tricks": list(range(1, 257 if Tq else 65)), "input_norms": []}
    for total in range(1, 7 if Tq else 6):
        for k in range(0, total):
            for ps in itertools.combinations(range(total), k):
                ps = list(ps)
                rng.shuffle(ps)
                free = total - k
                book["map_to_original"].append([list(range(free)), ps])
    for d in range(1, 5):
        for k in range(0, d + 1):
            for pm in itertools.combinations(range(d), k):
                pp = [rng.randint(0, 2) for _ in pm]
                for cutoff in (sum(pp), sum(pp) + 1, sum(pp) + 3):
                    book["ps_basis"].append([d, cutoff, list(pm), pp])
    for n in range(1, 6 if Tq else 5):
        for _ in range(3):
            book["subset_sums"].append([[rng.randint(-9, 9) for _ in range(n)] for _ in range(n)])
    for s in ([2, 1], [3], [1, 1, 1], [4, 0, 2], [0, 0]):
        for x in ("0", "1/3", "1", "3/4"):
            book["input_norms"].append([s, x])
    return book


def describe(meta):
    return {"d": meta["d"], "input": meta["s"], "loss": meta["loss"], "build": meta["build"],
            "overlap": "gram" if isinstance(meta["ov"], tuple) else meta["ov"],
            "postselection_steps(active numbering)": meta["steps"], "ps_via": meta["ps_mode"],
            "cutoff0": meta["cutoff0"], "T": jm(meta["T"]),
            "gram": jm(meta["gram"]) if meta.get("gram") else None,
            "program(original mode labels)": meta.get("program")}


def load_corpus():
    path = os.path.join(VERIF, "harness", "corpus", "c05.jsonl")
    out = []
    if os.path.exists(path):
        for line in open(path):
            line = line.strip()
            if line and not line.startswith("#"):
                out.append(json.loads(line))
    return out


def dbg(msg):
    if os.environ.get("VERIF_DEBUG"):
        import sys
        import time
        sys.stderr.write("[c05 %s] %s\n" % (time.strftime("%H:%M:%S"), msg))
        sys.stderr.flush()


def run(chk: Check):
    dbg("proofs")
    chk.proofs()
    dbg("proofs done")
    rng = chk.rng
    Tq = chk.thorough
    corr_broken = []
    reqs, metas = [], []

    def add(d, s, loss, ov, ps_kind, **kw):
        cid = len(reqs)
        r, m = make_case(rng, cid, d, s, loss, ov, ps_kind, **kw)
        reqs.append(r)
        metas.append(m)

    # ---- corpus first (past disagreements, minimised)
    for c in load_corpus():
        ov = c["ov"]
        if isinstance(ov, list):
            ov = tuple(ov)
        add(c["d"], c["s"], c["loss"], ov, "none", ps_steps=c.get("steps", []), cutoff_kind=c.get("cutoff_kind", "tight"))
    n_corpus = len(reqs)

    # ---- stream A: feature matrix  input x loss x overlap (x random post-selection)
    inputs = all_inputs()
    overlaps = [None, "0", "1/3", "1"]
    combos = []
    for (d, s) in inputs:
        for loss in ("none", "uniform", "nonuniform"):
            for ov in overlaps:
                combos.append((d, s, loss, ov))
            n = sum(s)
            if 2 <= n <= 3:
                combos.append((d, s, loss, ("gram", False)))
                combos.append((d, s, loss, ("gram", True)))
    rng.shuffle(combos)
    if Tq:
        # thorough: every input (n <= 4, d <= 4, bunched included) with every loss kind, the
        # overlap cycling through None / 0 / 1/3 / 1; one Gram-matrix case per 2-3 photon input
        picked, i, j = [], 0, 0
        for (d, s) in inputs:
            heavy = sum(s) == 4 and d == 4  # 4 photons on 4 modes: one loss kind per input (cycling)
            for k_, loss in enumerate(("none", "uniform", "nonuniform")):
                if heavy and k_ != i % 3:
                    continue
                picked.append((d, s, loss, overlaps[i % 4]))
                i += 1
            i += 1  # shift the cycle from input to input
            if 2 <= sum(s) <= 3 and (d <= 3 or j % 3 == 0):
                picked.append((d, s, ("none", "uniform", "nonuniform")[j % 3], ("gram", j % 2 == 1)))
            if 2 <= sum(s) <= 3:
                j += 1
        combos = picked
    else:
        # quick: a stratified sample -- every (loss kind, overlap kind) pair once, sizes
        # alternating small / medium, one trivial and one heavy case (4 photons, >= 3 modes);
        # the volume (every input x loss, all overlaps) is in the thorough tier
        picked, seen = [], {}
        for c in combos:
            n, d = sum(c[1]), c[0]
            if n == 0 or d == 1:
                k = "trivial"
            elif n == 4 and d >= 3:
                k = "heavy"
            else:
                k = (c[2], str(c[3]))
                want_small = (len(seen) % 2 == 0)
                if k not in seen and (n * d <= 4) != want_small and seen.get(("skipped", k), 0) < 8:
                    seen[("skipped", k)] = seen.get(("skipped", k), 0) + 1
                    continue
            if k not in seen:
                seen[k] = 1
                picked.append(c)
        combos = picked
    for (d, s, loss, ov) in combos:
        add(d, s, loss, ov, rng.choice(["none", "one", "one", "two"]))
    n_feature = len(reqs) - n_corpus

    # ---- stream B: every post-selection pattern on a fixed circuit per (d, input)
    pats = []
    for d, s in ((2, [1, 1]), (3, [1, 1, 1]), (3, [2, 0, 1]), (4, [1, 1, 0, 1]), (4, [0, 2, 1, 0])):
        for (modes, counts) in ps_patterns(d, sum(s)):
            pats.append((d, s, modes, counts))
    if Tq:
        pats = [p_ for p_ in pats if p_[0] <= 3] + rng.sample([p_ for p_ in pats if p_[0] > 3], 24)
    else:
        pats = rng.sample(pats, 6)
    for (d, s, modes, counts) in pats:
        # one step with all modes, or split into two successive steps (active renumbering)
        if len(modes) >= 2 and rng.random() < 0.5:
            first = [[modes[0]], [counts[0]]]
            rest_modes = [m - 1 if m > modes[0] else m for m in modes[1:]]
            steps = [first, [rest_modes, counts[1:]]]
        else:
            steps = [[modes, counts]]
        loss, ov = rng.choice([("uniform", None), ("none", None), ("nonuniform", "1/3"), ("none", "1/3"), ("nonuniform", None)])
        add(d, s, loss, ov, "given", ps_steps=steps)
    n_ps = len(reqs) - n_corpus - n_feature

    # ---- stream C: Gram-matrix overlap x inputs with two bunched modes (the input norm is a
    # product of block permanents), generic cross-overlaps, every interface
    if Tq:
        bunched = []
        for d in (2, 3, 4):
            for s_ in compositions(4, d):
                if sum(1 for x in s_ if x >= 2) >= 2:
                    for loss in (("none", "uniform", "nonuniform") if d <= 3 else ("none",)):
                        for real_g in (False, True):
                            bunched.append((d, list(s_), loss, ("gram", real_g), rng.choice(["none", "one"])))
    else:
        bunched = [(3, [2, 2, 0], "none", ("gram", False), "none"),
                   (3, [2, 0, 2], "uniform", ("gram", True), "one"),
                   (2, [2, 2], "nonuniform", ("gram", False), "none")]
    for (d, s_, loss, ov, psk) in bunched:
        add(d, s_, loss, ov, psk, cutoff_kind="tight")
    n_bunched = len(bunched)

    # ---- stream D: instruction sequences -- every loss kind before / between / after
    # post-selections that demand >= 1 photon
    seq_specs = []
    seq_inputs = [(3, [1, 1, 1]), (3, [2, 1, 0]), (3, [1, 0, 1]), (3, [0, 2, 1])]
    if Tq:
        seq_inputs += [(4, [1, 1, 1, 0]), (4, [2, 0, 1, 1]), (4, [1, 1, 1, 1]), (3, [2, 2, 0]), (2, [1, 1]), (2, [2, 1])]
    i = 0
    for rep in range(4 if Tq else 1):
        for lk in LOSS_KINDS:
            for pos in POSITIONS:
                d, s_ = seq_inputs[i % len(seq_inputs)] if Tq else rng.choice(seq_inputs)
                if pos == "between" and d < 3:
                    d, s_ = seq_inputs[0]
                ov = (None, None, None, "1/3", None, ("gram", False), "0", None)[i % 8] if Tq else (
                    "1/3" if i % 4 == 3 else (("gram", False) if i == 5 else None))
                if isinstance(ov, tuple) and sum(s_) > 3:
                    ov = None
                seq_specs.append((d, s_, ov, lk, pos))
                i += 1
    for (d, s_, ov, lk, pos) in seq_specs:
        cid = len(reqs)
        r, m = make_seq_case(rng, cid, d, s_, ov, lk, pos)
        reqs.append(r)
        metas.append(m)
    n_seq = len(seq_specs)

    # ---- which feature conjunctions does this run carry?  (recorded in the evidence; a
    # required conjunction with no case is reported, never silently lost)
    feat = {}

    def bump(name):
        feat[name] = feat.get(name, 0) + 1

    for m in metas:
        nb = sum(1 for x in m["s"] if x >= 2)
        okind = "none" if m["ov"] is None else ("gram" if isinstance(m["ov"], tuple) else "uniform " + m["ov"])
        if okind == "gram" and nb >= 2:
            bump("Gram overlap x >=2 bunched input modes")
            if m["steps"]:
                bump("Gram overlap x >=2 bunched input modes x post-selected")
            if m["lossy_flag"]:
                bump("Gram overlap x >=2 bunched input modes x lossy")
        if okind == "gram" and nb == 1:
            bump("Gram overlap x 1 bunched input mode")
        if okind.startswith("uniform") and nb >= 1:
            bump("uniform overlap x bunched input")
        if m["steps"] and m["lossy_flag"]:
            bump("lossy x post-selected")
        if len(m["steps"]) >= 2:
            bump("two successive post-selection steps")
        for f_ in m.get("features", []):
            bump(f_)
        if "seq" in m and any(a[0] == "gate" and not a[3] and k_ > 0 and any(b[0] == "ps" for b in m["seq"][:k_])
                              for k_, a in enumerate(m["seq"])):
            bump("unitary gate after a post-selection")
    required = ["Gram overlap x >=2 bunched input modes", "loss between two post-selections",
                "unitary gate after a post-selection"]
    required += ["%s, %s" % (k_, w_) for k_ in ("UniformLoss on all remaining modes", "UniformLoss on a subset",
                                                  "per-mode Loss", "LossyInterferometer") for w_ in ("before-ps", "after-ps")]
    chk.coverage["feature_conjunctions"] = dict(sorted(feat.items()))
    for f_ in required:
        if feat.get(f_, 0) == 0:
            corr_broken.append("generator lost coverage of the feature conjunction '%s'" % f_)

    dbg('impl: %d cases' % len(reqs))
    # dilation requests are derived from the generated cases (no implementation output needed)
    dil_reqs, dil_meta = [], []
    for m in metas:
        if n_corpus <= m["id"] < n_corpus + n_feature and 1 <= sum(m["s"]) and (Tq or len(dil_reqs) < 5):
            if m["loss"] != "none" and 2 * m["d"] > (8 if Tq else 6):
                continue
            if Tq and m["id"] % 5 != 0:
                continue
            dil_reqs.append({"id": len(dil_reqs), "U": jm(dilation_unitary(m)), "s": m["s"]})
            dil_meta.append(m)
    book = make_book(rng, Tq)
    # sequences of indistinguishable photons: the dilated circuit itself on PureFockSimulator
    sdil_meta = [m for m in metas if "seq" in m and m["ov"] is None and m["dilation"]["m_total"] <= 8]
    sdil_reqs = [dict(m["dilation"], id=i_) for i_, m in enumerate(sdil_meta)]
    if Tq:
        impl = run_impl_chunks(reqs)
        rest = run_impl("c05_impl.py", {"dilations": dil_reqs, "seq_dilations": sdil_reqs, "book": book}, timeout=3000)
    else:  # one interpreter: the numba kernels are compiled once
        rest = run_impl("c05_impl.py", {"cases": reqs, "dilations": dil_reqs, "seq_dilations": sdil_reqs, "book": book}, timeout=3000)
        impl = rest["cases"]
    dil, bimpl, sdil = rest["dilations"], rest["book"], rest["seq_dilations"]
    dbg('impl done')

    # ---- direct errors on the implementation (anything but NotImplementedCalculation)
    usable = []
    for m, r in zip(metas, impl):
        if "build_error" in r:
            chk.violation("C05:build:%s" % r["build_error"].split(":")[0], "state construction failed: " + r["build_error"], describe(m))
            continue
        usable.append((m, r))
        errs = []
        for name in ("table", "table_map", "norm", "state_vector"):
            if "error" in r[name]:
                errs.append((name, r[name]["error"]))
        for g in r["single"]:
            if "error" in g:
                errs.append(("single", g["error"]))
                break
        for mg, g in zip(m["margs"], r["marginals"]):
            if "error" in g:
                errs.append(("marginal%s" % mg, g["error"]))
        ryser = m["lossy_flag"] or m["ov"] not in (None, "1")
        if m["steps"] and ryser and "ok" in r["table"] and len(r["table"]["ok"]) != len(m["queries"]):
            chk.violation(KEY_D1, "fock_probabilities of a post-selected lossy / partially distinguishable state has %d entries for %d basis states (the cutoff is decremented twice and the active d is handed to get_postselected_fock_basis)" % (len(r["table"]["ok"]), len(m["queries"])),
                          dict(describe(m), interface="table"))
            for name in ("table", "table_map", "norm"):
                r[name] = {"error": "skipped: reported under " + KEY_D1}
        for name, e in errs:
            ryser = m["lossy_flag"] or m["ov"] is not None
            if m["steps"] and ryser and name in ("table", "table_map", "norm") and (
                    e.startswith("IndexError") or e.startswith("ValueError: negative dimensions")):
                chk.violation(KEY_D1, "fock_probabilities / fock_probabilities_map / norm raise IndexError for a post-selected state that is lossy or partially distinguishable (get_postselected_fock_basis is handed the active d and the already decremented cutoff)",
                              dict(describe(m), interface=name, error=e))
            else:
                chk.violation("C05:%s:%s" % (name.split("[")[0], e.split(":")[0]), "%s raised %s" % (name, e), dict(describe(m), interface=name))

    # ---- Coq inputs of the dilation and bookkeeping comparisons (evaluated in one batch below)
    items = []
    kept = []
    for m, g in zip(dil_meta, dil):
        if "ok" not in g:
            chk.violation("C05:dilation-on-PureFockSimulator:%s" % str(g.get("error", g))[:40], "the dilation could not be simulated on PureFockSimulator", describe(m))
            continue
        d = m["d"]
        probs = {}
        for k, p in g["ok"]["probs"]:
            probs[tuple(k[:d])] = probs.get(tuple(k[:d]), 0.0) + p
        ts = sorted(probs)
        items.append("(%s, %d, %d%%nat, %s, %s)" % (
            zi_matrix(m["N"], m["D"]), m["D"], m["nloss"], clist(m["s"]),
            clist(ts, lambda t: "(%s,%s)" % (clist(t), fq(probs[t])))))
        kept.append((m, probs))
    dil_bodies = []
    ch = 8
    for i in range(0, len(items), ch):
        dil_bodies.append(IMPORTS + """
Definition dcases : list (list (list Zi) * Z * nat * list Z * list (list Z * Q)) := [
%s].
Eval vm_compute in mismatches (fun '(N, D, nl, s, obs) =>
   forallb (fun tp : list Z * Q => close (pind N D nl s (fst tp)) (snd tp)) obs) dcases.
""" % ";\n".join(items[i:i + ch]))
    book_body = IMPORTS + """
Definition mcases := %s.
Definition pcases := %s.
Definition scases := %s.
Definition bcases := %s.
Definition ncases := %s.
Eval vm_compute in mismatches (fun '(ms, ps, r) => list_eqb Nat.eqb (map_to_original ms ps) r
   && list_eqb Nat.eqb r (map (fun m => nth m (active_modes (List.length ms + List.length ps) ps) 0%%nat) ms)) mcases.
Eval vm_compute in mismatches (fun '(d, c, pm, pp, st, r) =>
   match postselected_fock_basis d c pm pp with Some b => Z.eqb st 0 && zll_eqb b r | None => negb (Z.eqb st 0) end) pcases.
Eval vm_compute in mismatches (fun '(M, r) => zll_eqb (subset_row_sums Z 0 Z.add M) r) scases.
Eval vm_compute in mismatches (fun '(k, c, p, b) => match k with Zpos q => Nat.eqb (ctz q) c && N.eqb (clear_lsb q) p | _ => false end) bcases.
Eval vm_compute in mismatches (fun '(s, x, r) => close (input_norm Q 0%%Q 1%%Q qadd qmul qsub x s) r) ncases.
""" % (
        clist(list(zip(book["map_to_original"], bimpl["map_to_original"])), lambda t: "(%s,%s,%s)" % (nl(t[0][0]), nl(t[0][1]), nl(t[1]))),
        clist(list(zip(book["ps_basis"], bimpl["ps_basis"])), lambda t: "(%d%%nat,%s,%s,%s,%s,%s)" % (
            t[0][0], cz(t[0][1]), nl(t[0][2]), clist(t[0][3]), cz(st_of(t[1])), zll(t[1].get("ok", [])))),
        clist(list(zip(book["subset_sums"], bimpl["subset_sums"])), lambda t: "(%s,%s)" % (zll(t[0]), zll(t[1]))),
        clist(list(zip(book["bit_tricks"], bimpl["bit_tricks"])), lambda t: "(%s,%d%%nat,%d%%N,%s)" % (cz(t[0]), t[1][0], t[1][1], cz(t[1][2]))),
        clist(list(zip(book["input_norms"], bimpl["input_norms"])), lambda t: "(%s,%s,%s)" % (clist(t[0][0]), cq(F(t[0][1])), fq(t[1][0]))),
    )
    # ---- correspondence inside Coq
    # every coqc process pays a fixed start-up / library-loading cost, so the quick tier uses
    # three balanced cases files (+ one file for the dilation and bookkeeping comparisons)
    bodies, groups = [], []
    def cost(mr):
        m = mr[0]
        return len(m["queries"]) * (3 if m["lossy_flag"] else 1) * (1 if m["ov"] is None else 3) * (1 + sum(m["s"]))
    if True:
        nbins = max(4, (len(usable) + 11) // 12) if Tq else 3
        parts = [[] for _ in range(nbins)]
        load = [0] * nbins
        for mr in sorted(usable, key=cost, reverse=True):
            i = load.index(min(load))
            parts[i].append(mr)
            load[i] += cost(mr) + 1
        parts = [p_ for p_ in parts if p_]
    for part in parts:
        part = [mr for mr in part if "seq" not in mr[0]] + [mr for mr in part if "seq" in mr[0]]
        groups.append(part)
        bodies.append(IMPORTS + "Definition cases : list case := [\n%s\n].\nDefinition seqcases : list seqcase := [\n%s\n].\n"
                      "Eval vm_compute in run_cases cases.\nEval vm_compute in run_seqcases seqcases.\n"
                      % (";\n".join(enc_case(m, r) for m, r in part if "seq" not in m),
                         ";\n".join(enc_seq(m, r) for m, r in part if "seq" in m)))
    if not Tq and dil_bodies:  # dilation and bookkeeping comparisons share one file
        book_body = dil_bodies[0] + book_body[len(IMPORTS):]
        dil_bodies = []
        merged = True
    else:
        merged = False
    all_outs = coq_eval_parallel("c05_eval", bodies + dil_bodies + [book_body], timeout=3000, jobs=4)
    outs = all_outs[:len(bodies)]
    dil_outs = all_outs[len(bodies):len(bodies) + len(dil_bodies)]
    book_out = all_outs[-1]
    book_groups = parse_coq_list(book_out)
    if merged:  # first Eval of the merged file is the dilation comparison
        dil_groups, book_groups = [book_groups[0]], book_groups[1:]
    else:
        dil_groups = [parse_coq_list(o)[0] for o in dil_outs]
    dbg('coq cases done')
    d2_hits = 0
    d2_confirmed = set()  # cases on which the implementation equals the formula as coded
    nontrivial = set()
    refused = 0
    for part, o in zip(groups, outs):
        res = [x for grp in parse_ll_all(o) for x in grp]
        if len(res) != len(part):
            corr_broken.append("cases file returned %d results for %d cases" % (len(res), len(part)))
            continue
        for (m, r), codes in zip(part, res):
            if set(codes) & {21, 22, 23} and not set(codes) & {3, 4, 6}:
                d2_confirmed.add(m["id"])
            refused += sum(1 for g in [r["state_vector"]] + r["marginals"] if "refused" in g)
            if sum(m["s"]) >= 2 and m["d"] >= 2:
                nontrivial.add((m["d"], tuple(m["s"]), m["loss"], str(m["ov"]), str(m["steps"])))
            for c in codes:
                if c in (21, 22, 23):
                    d2_hits += 1
                    chk.violation(KEY_D2, "%s differs from the dilation (and from the loop-hafnian / tensor-permanent interfaces) and equals the coefficient-extraction formula with B_m = G*outer(v, conj v): complex non-uniform loss or complex Gram matrix" % CODES[c],
                                  dict(describe(m), interface=CODES[c]))
                elif c in (1, 9, 10, 31) and not (c == 1 and "seq" in m):
                    corr_broken.append("%s at case %s" % (CODES[c], json.dumps(describe(m))[:600]))
                else:
                    corr_broken.append("model != implementation: %s at %s" % (CODES[c], json.dumps(describe(m))[:900]))
    sample = [describe(m) for m, _ in usable[n_corpus:n_corpus + 2]]
    for smp in sample:
        smp.pop("T", None)
    chk.stream("every interface vs exact dilation reference: input x loss x overlap (x random post-selection)",
               n_feature, len([1 for m, _ in usable if m["id"] >= n_corpus and m["id"] < n_corpus + n_feature and sum(m["s"]) >= 2 and m["d"] >= 2]),
               samples=sample, exhaustive=Tq,
               note="%d refusals with NotImplementedCalculation recorded as refused (state_vector / marginals), %d corpus cases" % (refused, n_corpus))
    chk.stream("Gram-matrix overlap x two bunched input modes (generic cross-overlaps), every interface vs reference",
               n_bunched, n_bunched, exhaustive=Tq, samples=[{"d": b_[0], "input": b_[1], "loss": b_[2]} for b_ in bunched[:2]])
    chk.stream("instruction sequences: each loss kind before / between / after post-selections (>= 1 photon), reference computed from the sequence",
               n_seq, n_seq, exhaustive=False,
               samples=[{"d": q_[0], "input": q_[1], "loss": q_[3], "position": q_[4]} for q_ in seq_specs[:2]],
               note="feature conjunction counts are in coverage.feature_conjunctions")
    chk.stream("every post-selection pattern (proper subsets x counts), one or two successive steps, vs reference",
               n_ps, n_ps, exhaustive=Tq,
               samples=[{"d": p[0], "input": p[1], "modes": p[2], "counts": p[3]} for p in pats[:2]])

    # ---- three-way: the lossless dilation on PureFockSimulator vs the exact reference
    for j, g in enumerate(dil_groups):
        for k in g:
            m = kept[j * ch + k][0]
            chk.violation("C05:dilation-on-PureFockSimulator:differs-from-exact-reference",
                          "PureFockSimulator run of the lossless dilation differs from the permanent-by-definition reference", describe(m))
    chk.stream("lossless dilation executed on PureFockSimulator vs exact reference (three-way)", len(kept),
               len([1 for m, _ in kept if sum(m["s"]) >= 2]),
               samples=[{"d": kept[0][0]["d"], "input": kept[0][0]["s"], "loss": kept[0][0]["loss"]}] if kept else [])

    # ---- bookkeeping helpers and Ryser precomputation, exact
    gs = book_groups
    names = ["map_to_original_modes", "get_postselected_fock_basis", "_precompute_subset_row_sums", "subset & -subset / bit_length / xor", "_uniform_input_norm"]
    srcs = [book["map_to_original"], book["ps_basis"], book["subset_sums"], book["bit_tricks"], book["input_norms"]]
    for nm, g, src in zip(names, gs, srcs):
        for i in g:
            corr_broken.append("model != implementation: %s at %s" % (nm, json.dumps(src[i])[:300]))
    chk.stream("bookkeeping helpers and Ryser subset-sum precomputation vs model (exact)",
               sum(len(x) for x in srcs), sum(len(x) for x in srcs) // 2, exhaustive=True,
               samples=[{"map_to_original_modes": book["map_to_original"][7], "result": bimpl["map_to_original"][7]}])

    # ---- search: the property stated on the implementation alone
    neval = 0
    for m, r in usable:
        neval += 1
        single = [g["ok"][0] for g in r["single"] if "ok" in g]
        w = describe(m)
        ryser = m["lossy_flag"] or m["ov"] not in (None, "1")
        # a failure below is attributed to the known conjugation defect only on a case where the
        # tie has identified it (implementation == formula as coded, != dilation)
        d2_class = ryser and m["id"] in d2_confirmed
        kk = (lambda k: KEY_D2) if d2_class else (lambda k: k)
        if any((not finite(p)) or p < -1e-9 for p in single):
            chk.violation(kk("C05:get_particle_detection_probability:negative-or-nan"), "single-outcome probability negative or not finite", w)
        if any("ok" in g and abs(g["ok"][1]) > 1e-9 for g in r["single"]):
            chk.violation("C05:get_particle_detection_probability:complex", "single-outcome probability has an imaginary part", w)
        tab = r["table"].get("ok")
        if tab is not None:
            if any((not finite(p)) or p < -1e-9 for p in tab):
                chk.violation(kk("C05:fock_probabilities:negative-or-nan"), "table entry negative or not finite", w)
            if len(tab) == len(single) and any(abs(a - b) > 1e-9 * (1 + abs(a)) for a, b in zip(tab, single)):
                ryser = m["lossy_flag"] or m["ov"] is not None
                key = KEY_D2 if d2_class else "C05:fock_probabilities!=get_particle_detection_probability"
                chk.violation(key, "fock_probabilities and get_particle_detection_probability disagree on the same outcome", w)
            consistent = len(tab) != len(single) or all(abs(a - b) <= 1e-9 * (1 + abs(a)) for a, b in zip(tab, single))
            total = sum(tab) if consistent else sum(single)  # an inconsistent table is reported above
            if not m["steps"] and m["cutoff"] > sum(m["s"]) and abs(total - 1.0) > 1e-9:
                chk.violation(kk("C05:fock_probabilities:sum!=1"), "table without post-selection sums to %r" % total, w)
            if total > 1 + 1e-9:
                chk.violation(kk("C05:fock_probabilities:sum>1"), "table sums to %r" % total, w)
            if "ok" in r["norm"] and m["steps"] and abs(r["norm"]["ok"][0] - sum(tab)) > 1e-9:
                chk.violation("C05:norm!=sum(table)", "norm of a post-selected state is not the sum of the table", w)
            if "ok" in r["table_map"]:
                keys = [k for k, _ in r["table_map"]["ok"]]
                if keys != m["queries"] or any(abs(a - b) > 0 for (_, a), b in zip(r["table_map"]["ok"], tab)):
                    chk.violation("C05:fock_probabilities_map:keys", "map keys are not the active basis in order / values differ from the table", w)
            if "ok" in r["state_vector"]:
                sv = r["state_vector"]["ok"]
                if len(sv) != len(tab) or any(abs(a * a + b * b - p) > 1e-9 for (a, b), p in zip(sv, tab)):
                    chk.violation("C05:state_vector:|amplitude|^2!=table", "|state_vector|^2 differs from fock_probabilities", w)
            for mg, g in zip(m["margs"], r["marginals"]):
                if "ok" not in g:
                    continue
                pos = [m["act"].index(x) for x in mg]
                agg = {}
                for q, p in zip(m["queries"], single):
                    kk = tuple(q[i] for i in pos)
                    agg[kk] = agg.get(kk, 0.0) + p
                complete = m["cutoff"] > sum(m["s"]) - sum(m["psd"].values())
                for k, p in g["ok"]:
                    if p < -1e-9:
                        chk.violation("C05:get_marginal_fock_probabilities:negative", "marginal probability negative", dict(w, modes=mg))
                    if complete and abs(agg.get(tuple(k), 0.0) - p) > 1e-9:
                        chk.violation("C05:get_marginal_fock_probabilities!=sum-of-table", "marginal differs from the sum of single-outcome probabilities", dict(w, modes=mg, outcome=k))
                        break
    by_id = {m["id"]: r for m, r in usable}
    n_sdil = 0
    for m, g in zip(sdil_meta, sdil):
        r = by_id.get(m["id"])
        if r is None:
            continue
        if "ok" not in g:
            chk.violation("C05:sequence-dilation-on-PureFockSimulator:%s" % str(g.get("error", g))[:40], "the dilated sequence could not be simulated on PureFockSimulator", describe(m))
            continue
        n_sdil += 1
        d = m["d"]
        agg = {}
        for k, p in g["ok"]["probs"]:
            if all(k[mode] == c for mode, c in m["psd"].items()):
                key = tuple(k[a_] for a_ in m["act"])
                agg[key] = agg.get(key, 0.0) + p
        for q, gs_ in zip(m["queries"], r["single"]):
            if "ok" in gs_ and abs(gs_["ok"][0] - agg.get(tuple(q), 0.0)) > 1e-8:
                chk.violation("C05:sequence:get_particle_detection_probability!=dilation-on-PureFockSimulator",
                              "single-outcome probability of a loss / post-selection sequence differs from the same sequence with every loss replaced by a coupling to environment modes, run on PureFockSimulator",
                              dict(describe(m), outcome=q, observed=gs_["ok"][0], expected_from_dilation=agg.get(tuple(q), 0.0)))
                break
    chk.stream("instruction sequences (indistinguishable photons): dilated circuit on PureFockSimulator vs get_particle_detection_probability",
               n_sdil, n_sdil, kind="search", samples=[{"d": sdil_meta[0]["d"], "input": sdil_meta[0]["s"], "modes incl. environment": sdil_meta[0]["dilation"]["m_total"]}] if sdil_meta else [])
    chk.stream("mutual consistency of the interfaces on the implementation alone (search)", neval,
               len(nontrivial), kind="search",
               samples=[{"d": usable[0][0]["d"], "input": usable[0][0]["s"], "table_sum": sum(usable[0][1]["table"].get("ok", [0]))}] if usable else [])

    chk.assumptions += [
        "float64 results of the implementation are compared with exact rationals with tolerance 1e-9(1+|x|); inputs are Gaussian rationals converted to the nearest doubles",
        "the reference for a Gram matrix with complex entries follows the documented convention G[i][j] = <phi_i|phi_j>; its agreement with a physical simulation (internal modes on PureFockSimulator) was checked by hand for one three-photon case, the per-run three-way check covers indistinguishable bosons",
        "the coefficient-extraction formula (repaired variant) equals the dilation reference: checked exactly (Qeq) on every generated case, not a theorem",
        "unitarity of the symmetric-power representation (table sums to one): checked exactly on every generated case without post-selection, not a theorem",
    ]
    # one witness per distinct key first (the replay file keeps the first 20 violations)
    seen_keys, first, rest = set(), [], []
    for v in chk.violations:
        (rest if v["key"] in seen_keys else first).append(v)
        seen_keys.add(v["key"])
    chk.violations = first + rest
    dbg("violation keys: %s" % sorted({v["key"] for v in chk.violations}))
    dbg("known hits: %s" % sorted({k["key"] for k, _ in chk.known_hits}))
    dbg("corr_broken: %s" % [c[:300] for c in corr_broken[:6]])
    chk.notes.append("coefficient-extraction path: %d interface evaluations equal the formula as coded and differ from the dilation (reported under %s)" % (d2_hits, KEY_D2))
    chk.finish(
        rule="a case is non-trivial when it has >= 2 photons on >= 2 modes; distinct = distinct (d, input, loss kind, overlap, post-selection steps)",
        explanation="Theorems of coq/theories/Props/C05.v (post-selection bookkeeping for all mode sets, basis arity, marginal regrouping, overlap 0/1 specialisations of the mixture formula over any commutative ring, subset-sum recurrence) about the Gallina model in C05/PassiveModel.v; tie = every PassiveState interface against the exact dilation reference evaluated by vm_compute; three-way = the dilation run on PureFockSimulator against the same reference; search = mutual consistency on the implementation alone.",
        correspondence_broken=corr_broken,
    )
