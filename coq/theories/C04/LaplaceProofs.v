(* C04 -- permanent_laplace_cpp: entry j of the vector it accumulates is the scalar Glynn sum
   for the column multiplicities with one copy of column j removed; hence (relative to the Glynn
   identity) entry j is 2^(n-1) times the permanent with one copy of column j removed. *)
From Coq Require Import ZArith List Bool Lia ZifyBool Ring InitialRing Setoid Permutation.
From PV Require Import Comb.Binom C04.PermModel C04.PermProofs C04.LoopProofs C04.GrayProofs
  C04.JobProofs C04.SumProofs C04.FinalProofs.
Import ListNotations.
Local Close Scope Z_scope.
Local Open Scope nat_scope.

Lemma sum_nat_dec_nth_S : forall l j, j < length l -> 1 <= nth j l 0 ->
  S (sum_nat (dec_nth j l)) = sum_nat l.
Proof.
  induction l as [|x l IH]; intros [|j] Hj Hge; cbn [length nth dec_nth] in *; try lia.
  - rewrite !sum_nat_cons. lia.
  - rewrite !sum_nat_cons. specialize (IH j ltac:(lia) Hge). lia.
Qed.

Lemma nth_map_seq {X} (f : nat -> X) d : forall n j, j < n -> nth j (map f (seq 0 n)) d = f j.
Proof.
  intros n j Hj. rewrite (nth_indep _ d (f 0)) by (rewrite map_length, seq_length; lia).
  rewrite map_nth, seq_nth by lia. reflexivity.
Qed.

Section Lap.
Variable A : Type.
Variables (rO rI : A) (radd rmul rsub : A -> A -> A) (ropp : A -> A).
Hypothesis Rth : ring_theory rO rI radd rmul rsub ropp (@eq A).
Add Ring Aring4 : Rth.
Variable wb : Z.

Notation vadd' := (vadd A radd).
Notation vsum' := (vsum A rO radd).
Notation glynn_sum' := (glynn_sum A rO rI radd rmul ropp).
Notation term' := (glynn_term A rO rI radd rmul ropp).
Notation perm_def' := (perm_def A rO rI radd rmul).
Notation two := (radd rI rI).

Definition proj (j : nat) (v : list A) : list A := [nth j v rO].

Lemma nth_vadd : forall u v j, j < length u -> j < length v ->
  nth j (vadd' u v) rO = radd (nth j u rO) (nth j v rO).
Proof.
  induction u as [|a u IH]; intros [|b v] [|j] Hu Hv; cbn in *; try lia; auto. apply IH; lia.
Qed.

Lemma proj_vsum n j : forall l, j < n -> Forall (fun v => length v = n) l ->
  proj j (vsum' n l) = vsum' 1 (map (proj j) l).
Proof.
  induction l as [|v l IH]; intros Hj Hall.
  - unfold proj. cbn. now rewrite nth_repeat.
  - inversion Hall as [|? ? Hv Hl]; subst.
    change (vsum' (length v) (v :: l)) with (vadd' v (vsum' (length v) l)).
    cbn [map]. change (vsum' 1 (proj j v :: map (proj j) l)) with (vadd' (proj j v) (vsum' 1 (map (proj j) l))).
    rewrite <- IH by auto. unfold proj. cbn [vadd].
    rewrite nth_vadd; auto.
    rewrite (vsum_length A rO radd (length v) l Hl). exact Hj.
Qed.

(* entry j of the Laplace accumulation = the permanent accumulation for cols - e_j *)
Theorem laplace_entry cols row0 rest r j : j < length cols ->
  nth j (glynn_sum' (prods_laplace A rI rmul cols) (length cols) row0 rest r) rO
  = nth 0 (glynn_sum' (prods_perm A rI rmul (dec_nth j cols)) 1 row0 rest r) rO.
Proof.
  intros Hj. unfold glynn_sum.
  assert (Hall : Forall (fun v => length v = length cols)
                   (map (term' (prods_laplace A rI rmul cols) row0 rest r) (box r))).
  { apply Forall_forall. intros v Hv. apply in_map_iff in Hv. destruct Hv as (g & <- & _).
    unfold glynn_term, addend, vscale, prods_laplace. now rewrite !map_length, seq_length. }
  pose proof (proj_vsum (length cols) j _ Hj Hall) as H.
  rewrite map_map in H.
  assert (Hm : map (fun x => proj j (term' (prods_laplace A rI rmul cols) row0 rest r x)) (box r)
               = map (term' (prods_perm A rI rmul (dec_nth j cols)) row0 rest r) (box r)).
  { apply map_ext. intros g. unfold proj, glynn_term, addend, vscale, prods_laplace, prods_perm.
    rewrite map_map. rewrite nth_map_seq by exact Hj. reflexivity. }
  rewrite Hm in H.
  unfold proj in H. apply (f_equal (fun v => nth 0 v rO)) in H. cbn [nth] in H. exact H.
Qed.

Hypothesis glynn_mult : glynn_mult_statement A rO rI radd rmul ropp.

Theorem laplace_correct_partial w threads M rows cols l e :
  length M = length rows -> Forall (fun row => length row = length cols) M ->
  1 <= threads -> weight_n wb w (sum_nat rows) ->
  1 <= sum_nat rows -> sum_nat cols = S (sum_nat rows) ->
  permanent_laplace_cpp A rO rI radd rmul ropp wb w threads M rows cols = Ok (l, e) ->
  forall j, j < length cols -> 1 <= nth j cols 0 ->
    rmul (rpow A rI rmul two e) (perm_def' M rows (dec_nth j cols)) = nth j l rO.
Proof.
  intros Hlen Hrows Ht Hw Hpos Hsum Hres j Hj Hcj.
  pose proof (permanent_laplace_cpp_outcome A rO rI radd rmul rsub ropp Rth wb w threads M rows cols Hlen Ht Hw) as Hout.
  pose proof (split_row_spec M rows) as Hs.
  destruct (split_row A M rows) as [[[row0 rest] r]|]; [|lia].
  destruct Hs as (i0 & Hi0 & Hge & -> & -> & ->).
  destruct Hout as [[Hz|Hz]|Hout]; [destruct cols; cbn in *; lia | lia |].
  rewrite Hout in Hres. inversion Hres; subst.
  rewrite laplace_entry by exact Hj.
  apply glynn_mult; auto.
  - rewrite dec_nth_length. exact Hrows.
  - pose proof (sum_nat_dec_nth_S cols j Hj Hcj). lia.
Qed.

End Lap.
