(* C01 — SLOS with post-selection pruning.  Definitions only.
   piquasso/_math/combinatorics.py : partitions_bounded_k (+ _build_bounds_and_targets,
       _fill_partitions_bounded_k_recursive)
   piquasso/_simulators/passive/utils.py : calculate_state_vector, post-selected branch:
       bases[k] = partitions_bounded_k(d, k, postselect_modes, postselect_photons, n - k),
       entries whose successor is not in bases[k+1] are skipped *)
From Coq Require Import ZArith List Bool Arith.
From PV Require Import Comb.FockModel C01.PermModel.
Import ListNotations.
Local Open Scope nat_scope.

(* constraints: list of (mode, photon count) *)
Definition cons_t := list (nat * nat).

(* the documented contract of partitions_bounded_k:
   x[m] <= max_m on every constrained box and sum_m (max_m - x[m]) <= k_limit *)
Definition within (cons : cons_t) (t : list nat) : bool :=
  forallb (fun mc => nth (fst mc) t 0 <=? snd mc) cons.
Definition deficit (cons : cons_t) (t : list nat) : nat :=
  fold_right (fun mc acc => (snd mc - nth (fst mc) t 0) + acc) 0 cons.
Definition kept (cons : cons_t) (lim : nat) (t : list nat) : bool :=
  within cons t && (deficit cons t <=? lim).

(* _build_bounds_and_targets: later entries for the same box overwrite target, bounds only
   decrease *)
Fixpoint upd_nat {X} (l : list X) (i : nat) (x : X) : list X :=
  match l, i with
  | [], _ => []
  | _ :: r, O => x :: r
  | a :: r, S j => a :: upd_nat r j x
  end.
Definition build_bounds (boxes particles : nat) (cons : cons_t)
  : list nat * list bool * list nat :=
  fold_left (fun st mc =>
               let '(bounds, constrained, target) := st in
               let '(b, mx) := mc in
               (if mx <? nth b bounds 0 then upd_nat bounds b mx else bounds,
                upd_nat constrained b true, upd_nat target b mx))
            cons (repeat particles boxes, repeat false boxes, repeat 0 boxes).

(* _fill_partitions_bounded_k_recursive: the rows written, in order.  Integer differences
   target - val are kept in Z because a repeated constrained box can make them negative *)
Fixpoint pbk_fill (bounds : list nat) (constrained : list bool) (target : list nat)
  (remaining : nat) (diff : Z) (klimit : Z) : list (list nat) :=
  match bounds, constrained, target with
  | b :: bs, c :: cs, tg :: ts =>
      match bs with
      | [] =>
          if b <? remaining then []
          else let dfin := if c then (diff + (Z.of_nat tg - Z.of_nat remaining))%Z else diff in
               if (dfin <=? klimit)%Z then [[remaining]] else []
      | _ :: _ =>
          flat_map (fun val =>
                      let nd := if c then (diff + (Z.of_nat tg - Z.of_nat val))%Z else diff in
                      if (klimit <? nd)%Z then []
                      else map (cons val) (pbk_fill bs cs ts (remaining - val) nd klimit))
                   (rev (seq 0 (S (Nat.min b remaining))))
      end
  | _, _, _ => []
  end.

Definition partitions_bounded_k (boxes particles : nat) (cons : cons_t) (klimit : nat)
  : list (list nat) :=
  let '(bounds, constrained, target) := build_bounds boxes particles cons in
  pbk_fill bounds constrained target particles 0%Z (Z.of_nat klimit).

(* the specification of the pruned basis: the sector filtered by the contract *)
Definition bases_spec (d : nat) (cons : cons_t) (n k : nat) : list (list nat) :=
  filter (kept cons (n - k)) (sectorN d k).

Fixpoint list_nat_eqb (a b : list nat) : bool :=
  match a, b with
  | [], [] => true
  | x :: r, y :: s => Nat.eqb x y && list_nat_eqb r s
  | _, _ => false
  end.
(* index_map[tuple] : position in the basis, None when the tuple is not a key *)
Fixpoint index_of (t : list nat) (L : list (list nat)) : option nat :=
  match L with
  | [] => None
  | x :: r => if list_nat_eqb t x then Some 0 else option_map S (index_of t r)
  end.

Section Prune.
Variable A : Type.
Variables (a0 a1 : A) (aadd amul : A -> A -> A).
Notation asum := (asum A a0 aadd).
Notation nscale := (nscale A a0 aadd).
Notation entry := (entry A a0).

(* pruned SLOS as a function of the output vector ([sched]: last added photon first;
   n = total number of photons): contributions of predecessors outside the pruned basis of
   their level are dropped *)
Fixpoint slosP (U : list (list A)) (cons : cons_t) (n : nat) (sched : list nat) (t : list nat) : A :=
  match sched with
  | [] => a1
  | p :: rest =>
      asum (map (fun i => nscale (nth i t 0)
                   (if kept cons (n - length rest) (dec_at i t)
                    then amul (entry U i p) (slosP U cons n rest (dec_at i t)) else a0))
                (seq 0 (length t)))
  end.

(* calculate_state_vector, post-selected branch, in gather form: UF_k is a list over
   bases[k]; a predecessor that is not a key of index_maps[k] contributes nothing *)
Definition slos_step_pruned (U : list (list A)) (d : nat) (prevB curB : list (list nat)) (p : nat)
  (cur : list A) : list A :=
  map (fun t => asum (map (fun i => nscale (nth i t 0)
                            (match index_of (dec_at i t) prevB with
                             | Some j => amul (entry U i p) (nth j cur a0)
                             | None => a0 end))
                          (seq 0 d)))
      curB.
Fixpoint slos_run_pruned (U : list (list A)) (d : nat) (bases : nat -> list (list nat)) (k : nat)
  (sched : list nat) (cur : list A) : list A :=
  match sched with
  | [] => cur
  | p :: rest =>
      slos_run_pruned U d bases (S k) rest (slos_step_pruned U d (bases k) (bases (S k)) p cur)
  end.
Definition slos_vector_pruned (U : list (list A)) (d : nat) (cons : cons_t) (s : list nat) : list A :=
  let n := total s in
  slos_run_pruned U d (fun k => bases_spec d cons n k) 0 (photons s) [a1].

End Prune.
