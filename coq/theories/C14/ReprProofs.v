(* Theorems about the representation model (ReprModel.v) over an arbitrary commutative
   ring: round trips, hbar scaling laws, reduced / rotated commute with the quadrature and
   complex representations, observables in terms of the normalised moments. *)
From Coq Require Import List Arith Bool Lia Ring.
From PV Require Import C14.ReprModel C14.IndexProofs.
Import ListNotations.

Section Proofs.
Variable A : Type.
Variable K : ops A.
Hypothesis Rth : ring_theory (o0 K) (o1 K) (oadd K) (omul K) (osub K) (oopp K) (@eq A).
Add Ring Aring : Rth.

Local Notation "0" := (o0 K).
Local Notation "1" := (o1 K).
Local Infix "+!" := (oadd K) (at level 50, left associativity).
Local Infix "*!" := (omul K) (at level 40, left associativity).
Local Infix "-!" := (osub K) (at level 50, left associativity).
Local Notation "-! x" := (oopp K x) (at level 35, right associativity).
Local Notation two := (r2 K).
Local Notation four := (r4 K).

Ltac rng := unfold r4, r2; ring.

Ltac ltb_cases :=
  repeat match goal with
  | |- context [?a <? ?b] => destruct (Nat.ltb_spec a b); try lia
  | H : context [?a <? ?b] |- _ => destruct (Nat.ltb_spec a b); try lia
  end.

(* ------------------------------------------------------------------ sums *)
Lemma sumn_ext : forall n f g, (forall k, k < n -> f k = g k) -> sumn K n f = sumn K n g.
Proof.
  induction n as [|n IH]; intros f g H; simpl; [reflexivity|].
  rewrite (IH f g) by (intros; apply H; lia). rewrite H by lia. reflexivity.
Qed.
Lemma sumn_plus : forall n f g, sumn K n (fun k => f k +! g k) = sumn K n f +! sumn K n g.
Proof. induction n as [|n IH]; intros; simpl; [rng|]. rewrite IH. rng. Qed.
Lemma sumn_scale : forall n a f, sumn K n (fun k => a *! f k) = a *! sumn K n f.
Proof. induction n as [|n IH]; intros; simpl; [rng|]. rewrite IH. rng. Qed.
Lemma sumn_split : forall n m f, sumn K (n + m) f = sumn K n f +! sumn K m (fun k => f (n + k)).
Proof.
  intros n m f. induction m as [|m IH]; simpl.
  - rewrite Nat.add_0_r. rng.
  - rewrite Nat.add_succ_r. simpl. rewrite IH. rng.
Qed.

(* ------------------------------------------------------------------ identity entries *)
Lemma ident_same : forall i, ident K i i = 1.
Proof. intro i. unfold ident. rewrite Nat.eqb_refl. reflexivity. Qed.
Lemma ident_lo_hi : forall d a b, a < d -> ident K a (d + b) = 0.
Proof. intros. unfold ident. destruct (Nat.eqb_spec a (d + b)); [lia|reflexivity]. Qed.
Lemma ident_hi_lo : forall d a b, b < d -> ident K (d + a) b = 0.
Proof. intros. unfold ident. destruct (Nat.eqb_spec (d + a) b); [lia|reflexivity]. Qed.
Lemma ident_hi_hi : forall d a b, ident K (d + a) (d + b) = ident K a b.
Proof.
  intros. unfold ident. destruct (Nat.eqb_spec (d + a) (d + b)), (Nat.eqb_spec a b); try lia; reflexivity.
Qed.
Lemma ident_inj : forall (f : nat -> nat) i j, (f i = f j -> i = j) -> ident K (f i) (f j) = ident K i j.
Proof.
  intros f i j H. unfold ident.
  destruct (Nat.eqb_spec (f i) (f j)), (Nat.eqb_spec i j); try reflexivity.
  - exfalso. auto.
  - subst. contradiction.
Qed.

(* an index below 2d is either a < d or d + a with a < d *)
Lemma split_index : forall d i, i < 2 * d -> (i < d) \/ (exists a, a < d /\ i = d + a).
Proof. intros d i H. destruct (Nat.lt_ge_cases i d); [left; assumption|right; exists (i - d); lia]. Qed.

(* entries of the dimensionless xxpp covariance, block by block *)
Lemma dimless_ll : forall d s a b, a < d -> b < d ->
  dimless_xxpp_cov K d s a b = two *! (re (gG s a b) +! re (gC s a b)) +! ident K a b.
Proof. intros. unfold dimless_xxpp_cov, block. ltb_cases; try reflexivity. Qed.
Lemma dimless_lh : forall d s a b, a < d -> b < d ->
  dimless_xxpp_cov K d s a (d + b) = two *! (im (gG s a b) +! im (gC s a b)).
Proof.
  intros. unfold dimless_xxpp_cov, block. ltb_cases.
  replace (d + b - d) with b by lia. rewrite ident_lo_hi by assumption. rng.
Qed.
Lemma dimless_hl : forall d s a b, a < d -> b < d ->
  dimless_xxpp_cov K d s (d + a) b = two *! (im (gG s a b) -! im (gC s a b)).
Proof.
  intros. unfold dimless_xxpp_cov, block. ltb_cases.
  replace (d + a - d) with a by lia. rewrite ident_hi_lo by assumption. rng.
Qed.
Lemma dimless_hh : forall d s a b, a < d -> b < d ->
  dimless_xxpp_cov K d s (d + a) (d + b) = two *! (-! re (gG s a b) +! re (gC s a b)) +! ident K a b.
Proof.
  intros. unfold dimless_xxpp_cov, block. ltb_cases.
  replace (d + a - d) with a by lia. replace (d + b - d) with b by lia.
  rewrite ident_hi_hi. reflexivity.
Qed.

(* ------------------------------------------------------------------ hbar scaling (T3) *)
Section Scaling.
Variables (hbar ihbar rt2 sh ish : A).
Hypothesis H_ihbar : ihbar *! hbar = 1.
Hypothesis H_ish : ish *! sh = 1.

Theorem mean_scales_with_sqrt_hbar : forall d s k,
  xxpp_mean K rt2 sh d s k = sh *! xxpp_mean K rt2 1 d s k.
Proof. intros. unfold xxpp_mean. rng. Qed.

Theorem cov_scales_with_hbar : forall d s i j,
  xxpp_cov K hbar d s i j = hbar *! xxpp_cov K 1 d s i j.
Proof. intros. unfold xxpp_cov. rng. Qed.

Theorem xpxp_mean_scales : forall d s k,
  xpxp_mean K rt2 sh d s k = sh *! xpxp_mean K rt2 1 d s k.
Proof. intros. unfold xpxp_mean. apply mean_scales_with_sqrt_hbar. Qed.

Theorem xpxp_cov_scales : forall d s i j,
  xpxp_cov K hbar d s i j = hbar *! xpxp_cov K 1 d s i j.
Proof. intros. unfold xpxp_cov. apply cov_scales_with_hbar. Qed.

Theorem corr_scales_with_hbar : forall d s i j, sh *! sh = hbar ->
  xxpp_corr K hbar rt2 sh d s i j = hbar *! xxpp_corr K 1 rt2 1 d s i j.
Proof. intros d s i j E. unfold xxpp_corr, xxpp_cov, xxpp_mean. rewrite <- E. rng. Qed.

(* the normalised moments do not depend on hbar *)
Theorem normalised_cov_hbar_free : forall d s i j,
  xpxp_cov K hbar d s i j *! ihbar = xpxp_cov K 1 d s i j.
Proof.
  intros. unfold xpxp_cov, xxpp_cov.
  transitivity (dimless_xxpp_cov K d s (x2p d i) (x2p d j) *! (ihbar *! hbar)); [rng|].
  rewrite H_ihbar. rng.
Qed.
Theorem normalised_mean_hbar_free : forall d s k,
  xpxp_mean K rt2 sh d s k *! ish = xpxp_mean K rt2 1 d s k.
Proof.
  intros. unfold xpxp_mean, xxpp_mean.
  match goal with |- (?x *! rt2) *! sh *! ish = _ => transitivity ((x *! rt2) *! (ish *! sh)); [rng|] end.
  rewrite H_ish. rng.
Qed.

Theorem norm_xpxp_cov_hbar_free : forall d s,
  norm_xpxp_cov K hbar ihbar d s = norm_xpxp_cov K 1 1 d s.
Proof.
  intros. unfold norm_xpxp_cov, tab2. apply map_ext. intro i. apply map_ext. intro j.
  rewrite normalised_cov_hbar_free. rng.
Qed.
Theorem norm_xpxp_mean_hbar_free : forall d s,
  norm_xpxp_mean K rt2 sh ish d s = norm_xpxp_mean K rt2 1 1 d s.
Proof.
  intros. unfold norm_xpxp_mean, tab1. apply map_ext. intro k.
  rewrite normalised_mean_hbar_free. rng.
Qed.

(* fidelity and the threshold probability are functions of the normalised moments only,
   whatever the numerical kernels (sqrtm/eigvals/det/inv, torontonian) compute *)
Theorem fidelity_hbar_free : forall (R : Type) (kernel : list (list A) -> list (list A) -> list A -> list A -> R) d s1 s2,
  fidelity_model K R kernel hbar ihbar rt2 sh ish d s1 s2 = fidelity_model K R kernel 1 1 rt2 1 1 d s1 s2.
Proof.
  intros. unfold fidelity_model. rewrite !norm_xpxp_cov_hbar_free, !norm_xpxp_mean_hbar_free. reflexivity.
Qed.
Theorem threshold_hbar_free : forall (R : Type) (kernel : list (list A) -> list A -> list nat -> R) d s occ,
  threshold_model K R kernel hbar ihbar rt2 sh ish d s occ = threshold_model K R kernel 1 1 rt2 1 1 d s occ.
Proof.
  intros. unfold threshold_model. rewrite norm_xpxp_cov_hbar_free, norm_xpxp_mean_hbar_free. reflexivity.
Qed.
End Scaling.

(* ------------------------------------------------------------------ round trips (T2) *)
Section RoundTrip.
Variables (hbar ihbar rt2 sh isq i4 : A).
Hypothesis H_ihbar : ihbar *! hbar = 1.
Hypothesis H_isq : isq *! (rt2 *! sh) = 1.
Hypothesis H_i4 : four *! i4 = 1.

Lemma undo_cov : forall X e, (four *! ((X *! ihbar -! e) *! i4) +! e) *! hbar = X.
Proof.
  intros.
  transitivity (X *! ((four *! i4) *! (ihbar *! hbar)) +! (e *! hbar) *! (1 -! four *! i4)); [rng|].
  rewrite H_i4, H_ihbar. rng.
Qed.

(* the xxpp covariance of a state produced by the covariance setter, in terms of `blocks` *)
Lemma xxpp_cov_of_set : forall d mean cov i j, i < 2 * d -> j < 2 * d ->
  xxpp_cov K hbar d (set_xpxp K ihbar i4 isq d mean cov) i j = cov (p2x d i) (p2x d j).
Proof.
  intros d mean cov i j Hi Hj.
  unfold xxpp_cov.
  assert (E : dimless_xxpp_cov K d (set_xpxp K ihbar i4 isq d mean cov) i j
              = four *! set_xpxp_cov_blocks K ihbar i4 d cov i j +! ident K i j).
  { destruct (split_index d i Hi) as [Li|[a [La Ea]]], (split_index d j Hj) as [Lj|[b [Lb Eb]]]; subst.
    - rewrite dimless_ll by assumption. simpl. unfold r4. rng.
    - rewrite dimless_lh by assumption. simpl. rewrite ident_lo_hi by assumption. unfold r4. rng.
    - rewrite dimless_hl by assumption. simpl. rewrite ident_hi_lo by assumption. unfold r4. rng.
    - rewrite dimless_hh by assumption. simpl. rewrite ident_hi_hi.
      unfold set_xpxp_cov_blocks. rewrite ident_hi_hi. unfold r4. rng. }
  rewrite E. unfold set_xpxp_cov_blocks. apply undo_cov.
Qed.

(* get (set sigma mu) = (sigma, mu) : for every 2d x 2d matrix and 2d vector *)
Theorem set_get_cov : forall d mean cov i j, i < 2 * d -> j < 2 * d ->
  xpxp_cov K hbar d (set_xpxp K ihbar i4 isq d mean cov) i j = cov i j.
Proof.
  intros. unfold xpxp_cov. rewrite xxpp_cov_of_set by (apply x2p_bound; assumption).
  rewrite !p2x_x2p by assumption. reflexivity.
Qed.

Lemma undo_mean : forall x, ((x *! isq) *! rt2) *! sh = x.
Proof. intro x. transitivity (x *! (isq *! (rt2 *! sh))); [rng|]. rewrite H_isq. rng. Qed.

Theorem set_get_mean : forall d mean cov k, k < 2 * d ->
  xpxp_mean K rt2 sh d (set_xpxp K ihbar i4 isq d mean cov) k = mean k.
Proof.
  intros d mean cov k H. unfold xpxp_mean, xxpp_mean, concat.
  destruct (half_cases k) as [q [E|E]]; subst k.
  - rewrite x2p_even by lia. ltb_cases. simpl. apply undo_mean.
  - rewrite x2p_odd by lia. ltb_cases. replace (d + q - d) with q by lia. simpl. apply undo_mean.
Qed.

Theorem set_get_xxpp_cov : forall d mean cov i j, i < 2 * d -> j < 2 * d ->
  xxpp_cov K hbar d (set_xxpp K ihbar i4 isq d mean cov) i j = cov i j.
Proof.
  intros. unfold set_xxpp. rewrite xxpp_cov_of_set by assumption.
  rewrite !x2p_p2x by assumption. reflexivity.
Qed.

Theorem set_get_xxpp_mean : forall d mean cov k, k < 2 * d ->
  xxpp_mean K rt2 sh d (set_xxpp K ihbar i4 isq d mean cov) k = mean k.
Proof.
  intros d mean cov k H. unfold set_xxpp.
  rewrite <- (x2p_p2x d k H) at 1.
  change (xpxp_mean K rt2 sh d (set_xpxp K ihbar i4 isq d (fun k0 => mean (x2p d k0))
            (fun i j => cov (x2p d i) (x2p d j))) (p2x d k) = mean k).
  rewrite set_get_mean by (apply p2x_bound; assumption).
  rewrite x2p_p2x by assumption. reflexivity.
Qed.

(* set (get (m, C, G)) = (m, C, G) : for every ladder-moment triple *)
Lemma undo_blocks : forall X e, ((X *! hbar) *! ihbar -! e) *! i4 = (X -! e) *! i4.
Proof.
  intros. transitivity ((X *! (ihbar *! hbar) -! e) *! i4); [rng|]. rewrite H_ihbar. rng.
Qed.

Lemma blocks_of_get : forall d s i j, i < 2 * d -> j < 2 * d ->
  set_xpxp_cov_blocks K ihbar i4 d (xpxp_cov K hbar d s) i j
  = (dimless_xxpp_cov K d s i j -! ident K i j) *! i4.
Proof.
  intros d s i j Hi Hj. unfold set_xpxp_cov_blocks, xpxp_cov, xxpp_cov.
  rewrite !x2p_p2x by assumption. apply undo_blocks.
Qed.

Lemma quarter : forall x, (four *! x) *! i4 = x.
Proof. intro x. transitivity (x *! (four *! i4)); [rng|]. rewrite H_i4. rng. Qed.

Theorem get_set_C : forall d s a b, a < d -> b < d ->
  re (set_xpxp_cov_C K ihbar i4 d (xpxp_cov K hbar d s) a b) = re (gC s a b) /\
  im (set_xpxp_cov_C K ihbar i4 d (xpxp_cov K hbar d s) a b) = im (gC s a b).
Proof.
  intros d s a b Ha Hb. unfold set_xpxp_cov_C. simpl.
  rewrite !blocks_of_get by lia.
  rewrite dimless_ll, dimless_hh, dimless_lh, dimless_hl by assumption.
  rewrite ident_hi_hi, ident_lo_hi, ident_hi_lo by assumption.
  split.
  - transitivity ((four *! re (gC s a b)) *! i4); [unfold r4, r2; rng | apply quarter].
  - transitivity ((four *! im (gC s a b)) *! i4); [unfold r4, r2; rng | apply quarter].
Qed.

Theorem get_set_G : forall d s a b, a < d -> b < d ->
  re (set_xpxp_cov_G K ihbar i4 d (xpxp_cov K hbar d s) a b) = re (gG s a b) /\
  im (set_xpxp_cov_G K ihbar i4 d (xpxp_cov K hbar d s) a b) = im (gG s a b).
Proof.
  intros d s a b Ha Hb. unfold set_xpxp_cov_G. simpl.
  rewrite !blocks_of_get by lia.
  rewrite dimless_ll, dimless_hh, dimless_lh, dimless_hl by assumption.
  rewrite ident_hi_hi, ident_lo_hi, ident_hi_lo by assumption.
  split.
  - transitivity ((four *! re (gG s a b)) *! i4); [unfold r4, r2; rng | apply quarter].
  - transitivity ((four *! im (gG s a b)) *! i4); [unfold r4, r2; rng | apply quarter].
Qed.

Lemma redo_mean : forall x, ((x *! rt2) *! sh) *! isq = x.
Proof. intro x. transitivity (x *! (isq *! (rt2 *! sh))); [rng|]. rewrite H_isq. rng. Qed.

Theorem get_set_m : forall d s k, k < d ->
  re (set_xpxp_mean K isq (xpxp_mean K rt2 sh d s) k) = re (gm s k) /\
  im (set_xpxp_mean K isq (xpxp_mean K rt2 sh d s) k) = im (gm s k).
Proof.
  intros d s k H. unfold set_xpxp_mean. unfold re at 1, im at 1. cbn [fst snd].
  unfold xpxp_mean, xxpp_mean, concat.
  rewrite x2p_even, x2p_odd by assumption. ltb_cases.
  replace (d + k - d) with k by lia. split; apply redo_mean.
Qed.
End RoundTrip.

(* ------------------------------------------------------------------ reduced (T4) *)
Section Reduced.
Variables (hbar rt2 sh : A).
Variables (d n : nat) (md : nat -> nat).
Hypothesis md_bound : forall a, a < n -> md a < d.
Hypothesis md_inj : forall a b, a < n -> b < n -> md a = md b -> a = b.

(* position, in the xxpp ordering of the d-mode state, of entry k of the reduced state *)
Definition sel_xxpp (k : nat) : nat := if k <? n then md k else d + md (k - n).

Lemma sel_xxpp_inj : forall i j, i < 2 * n -> j < 2 * n -> sel_xxpp i = sel_xxpp j -> i = j.
Proof.
  intros i j Hi Hj. unfold sel_xxpp. ltb_cases; intro E.
  - apply md_inj; assumption.
  - pose proof (md_bound i ltac:(lia)). lia.
  - pose proof (md_bound j ltac:(lia)). lia.
  - assert (i - n = j - n) by (apply md_inj; lia). lia.
Qed.

Theorem reduced_xxpp_mean : forall s k, k < 2 * n ->
  xxpp_mean K rt2 sh n (reduced md s) k = xxpp_mean K rt2 sh d s (sel_xxpp k).
Proof.
  intros s k H. unfold xxpp_mean, concat, sel_xxpp, reduced. simpl.
  destruct (Nat.ltb_spec k n) as [L|G].
  - pose proof (md_bound k L). ltb_cases; try reflexivity.
  - pose proof (md_bound (k - n) ltac:(lia)). ltb_cases.
    replace (d + md (k - n) - d) with (md (k - n)) by lia. reflexivity.
Qed.

Theorem reduced_xxpp_cov : forall s i j, i < 2 * n -> j < 2 * n ->
  xxpp_cov K hbar n (reduced md s) i j = xxpp_cov K hbar d s (sel_xxpp i) (sel_xxpp j).
Proof.
  intros s i j Hi Hj. unfold xxpp_cov, dimless_xxpp_cov. f_equal.
  rewrite (ident_inj sel_xxpp i j) by (apply sel_xxpp_inj; assumption).
  f_equal. f_equal. unfold block, sel_xxpp, reduced. simpl.
  destruct (Nat.ltb_spec i n) as [Li|Gi], (Nat.ltb_spec j n) as [Lj|Gj].
  - pose proof (md_bound i Li). pose proof (md_bound j Lj). ltb_cases; try reflexivity.
  - pose proof (md_bound i Li). pose proof (md_bound (j - n) ltac:(lia)). ltb_cases.
    replace (d + md (j - n) - d) with (md (j - n)) by lia. reflexivity.
  - pose proof (md_bound (i - n) ltac:(lia)). pose proof (md_bound j Lj). ltb_cases.
    replace (d + md (i - n) - d) with (md (i - n)) by lia. reflexivity.
  - pose proof (md_bound (i - n) ltac:(lia)). pose proof (md_bound (j - n) ltac:(lia)). ltb_cases.
    replace (d + md (i - n) - d) with (md (i - n)) by lia.
    replace (d + md (j - n) - d) with (md (j - n)) by lia. reflexivity.
Qed.

(* xpxp ordering: entry 2a+e of the reduced state is entry 2*md(a)+e of the full state *)
Lemma sel_x2p : forall a e, a < n -> e < 2 -> sel_xxpp (x2p n (2 * a + e)) = x2p d (2 * md a + e).
Proof.
  intros a e Ha He. pose proof (md_bound a Ha). destruct e as [|[|e]]; [| |lia].
  - rewrite !Nat.add_0_r. rewrite !x2p_even by assumption. unfold sel_xxpp. ltb_cases; try reflexivity.
  - rewrite !x2p_odd by assumption. unfold sel_xxpp. ltb_cases.
    replace (n + a - n) with a by lia. reflexivity.
Qed.

Theorem reduced_xpxp_mean : forall s a e, a < n -> e < 2 ->
  xpxp_mean K rt2 sh n (reduced md s) (2 * a + e) = xpxp_mean K rt2 sh d s (2 * md a + e).
Proof.
  intros s a e Ha He. unfold xpxp_mean.
  rewrite reduced_xxpp_mean by (apply x2p_bound; lia). rewrite sel_x2p by assumption. reflexivity.
Qed.

Theorem reduced_xpxp_cov : forall s a e b f, a < n -> e < 2 -> b < n -> f < 2 ->
  xpxp_cov K hbar n (reduced md s) (2 * a + e) (2 * b + f)
  = xpxp_cov K hbar d s (2 * md a + e) (2 * md b + f).
Proof.
  intros s a e b f Ha He Hb Hf. unfold xpxp_cov.
  rewrite reduced_xxpp_cov by (apply x2p_bound; lia). rewrite !sel_x2p by assumption. reflexivity.
Qed.

(* complex representation *)
Theorem reduced_complex_displacement : forall s k, k < 2 * n ->
  complex_displacement K n (reduced md s) k = complex_displacement K d s (sel_xxpp k).
Proof.
  intros s k H. unfold complex_displacement, concat, sel_xxpp, reduced. simpl.
  destruct (Nat.ltb_spec k n) as [L|G].
  - pose proof (md_bound k L). ltb_cases; try reflexivity.
  - pose proof (md_bound (k - n) ltac:(lia)). ltb_cases.
    replace (d + md (k - n) - d) with (md (k - n)) by lia. reflexivity.
Qed.

Theorem reduced_complex_cov : forall s i j, i < 2 * n -> j < 2 * n ->
  complex_cov K n (reduced md s) i j = complex_cov K d s (sel_xxpp i) (sel_xxpp j).
Proof.
  intros s i j Hi Hj. unfold complex_cov.
  rewrite (ident_inj sel_xxpp i j) by (apply sel_xxpp_inj; assumption).
  f_equal. f_equal. unfold block, sel_xxpp, reduced. simpl.
  destruct (Nat.ltb_spec i n) as [Li|Gi], (Nat.ltb_spec j n) as [Lj|Gj].
  - pose proof (md_bound i Li). pose proof (md_bound j Lj). ltb_cases; try reflexivity.
  - pose proof (md_bound i Li). pose proof (md_bound (j - n) ltac:(lia)). ltb_cases.
    replace (d + md (j - n) - d) with (md (j - n)) by lia. reflexivity.
  - pose proof (md_bound (i - n) ltac:(lia)). pose proof (md_bound j Lj). ltb_cases.
    replace (d + md (i - n) - d) with (md (i - n)) by lia. reflexivity.
  - pose proof (md_bound (i - n) ltac:(lia)). pose proof (md_bound (j - n) ltac:(lia)). ltb_cases.
    replace (d + md (i - n) - d) with (md (i - n)) by lia.
    replace (d + md (j - n) - d) with (md (j - n)) by lia. reflexivity.
Qed.
End Reduced.

(* ------------------------------------------------------------------ rotated (T4) *)
Section Rotated.
Variables (hbar rt2 sh : A).
Variables (c sn : A).
Hypothesis Hcs : c *! c +! sn *! sn = 1.

(* documented action: x_phi = cos(phi) x + sin(phi) p ; p_phi = -sin(phi) x + cos(phi) p *)
Theorem rotated_xxpp_mean_x : forall d s a, a < d ->
  xxpp_mean K rt2 sh d (rotated K c sn s) a
  = c *! xxpp_mean K rt2 sh d s a +! sn *! xxpp_mean K rt2 sh d s (d + a).
Proof.
  intros d s a H. unfold xxpp_mean, concat, rotated. simpl. ltb_cases.
  replace (d + a - d) with a by lia. rng.
Qed.
Theorem rotated_xxpp_mean_p : forall d s a, a < d ->
  xxpp_mean K rt2 sh d (rotated K c sn s) (d + a)
  = (-! sn) *! xxpp_mean K rt2 sh d s a +! c *! xxpp_mean K rt2 sh d s (d + a).
Proof.
  intros d s a H. unfold xxpp_mean, concat, rotated. simpl. ltb_cases.
  replace (d + a - d) with a by lia. rng.
Qed.

(* (R M R^T) for R = [[c I, s I], [-s I, c I]], written out (R has two entries per row) *)
Definition rot_conj (d : nat) (M : mat A) : mat A :=
  block d
    (fun a b => c *! c *! M a b +! c *! sn *! M a (d + b) +! sn *! c *! M (d + a) b +! sn *! sn *! M (d + a) (d + b))
    (fun a b => (-! (c *! sn)) *! M a b +! c *! c *! M a (d + b) -! sn *! sn *! M (d + a) b +! sn *! c *! M (d + a) (d + b))
    (fun a b => (-! (sn *! c)) *! M a b -! sn *! sn *! M a (d + b) +! c *! c *! M (d + a) b +! c *! sn *! M (d + a) (d + b))
    (fun a b => sn *! sn *! M a b -! sn *! c *! M a (d + b) -! c *! sn *! M (d + a) b +! c *! c *! M (d + a) (d + b)).

Ltac cs_ring corr :=
  match goal with |- ?L = ?R =>
    transitivity (L +! ((c *! c +! sn *! sn) -! 1) *! corr); [ rewrite Hcs; rng | rng ]
  end.

Theorem rotated_xxpp_cov : forall d s i j, i < 2 * d -> j < 2 * d ->
  xxpp_cov K hbar d (rotated K c sn s) i j = rot_conj d (xxpp_cov K hbar d s) i j.
Proof.
  intros d s i j Hi Hj. unfold rot_conj, block, xxpp_cov.
  destruct (split_index d i Hi) as [Li|[a [La Ea]]], (split_index d j Hj) as [Lj|[b [Lb Eb]]]; subst; ltb_cases.
  - rewrite !dimless_hh by assumption. rewrite !dimless_lh by assumption. rewrite !dimless_hl by assumption. rewrite !dimless_ll by assumption. simpl.
    cs_ring ((two *! re (gC s i j) +! ident K i j) *! hbar).
  - replace (d + b - d) with b by lia.
    rewrite !dimless_hh by assumption. rewrite !dimless_lh by assumption. rewrite !dimless_hl by assumption. rewrite !dimless_ll by assumption. simpl.
    cs_ring ((two *! im (gC s i b)) *! hbar).
  - replace (d + a - d) with a by lia.
    rewrite !dimless_hh by assumption. rewrite !dimless_lh by assumption. rewrite !dimless_hl by assumption. rewrite !dimless_ll by assumption. simpl.
    cs_ring (-! ((two *! im (gC s a j)) *! hbar)).
  - replace (d + a - d) with a by lia. replace (d + b - d) with b by lia.
    rewrite !dimless_hh by assumption. rewrite !dimless_lh by assumption. rewrite !dimless_hl by assumption. rewrite !dimless_ll by assumption. simpl.
    cs_ring ((two *! re (gC s a b) +! ident K a b) *! hbar).
Qed.

(* xpxp ordering: the same statement through the index vector (definitional) *)
Theorem rotated_xpxp_cov : forall d s i j, i < 2 * d -> j < 2 * d ->
  xpxp_cov K hbar d (rotated K c sn s) i j = rot_conj d (xxpp_cov K hbar d s) (x2p d i) (x2p d j).
Proof. intros. unfold xpxp_cov. apply rotated_xxpp_cov; apply x2p_bound; assumption. Qed.

Theorem rotated_xpxp_mean : forall d s a, a < d ->
  xpxp_mean K rt2 sh d (rotated K c sn s) (2 * a)
    = c *! xpxp_mean K rt2 sh d s (2 * a) +! sn *! xpxp_mean K rt2 sh d s (2 * a + 1) /\
  xpxp_mean K rt2 sh d (rotated K c sn s) (2 * a + 1)
    = (-! sn) *! xpxp_mean K rt2 sh d s (2 * a) +! c *! xpxp_mean K rt2 sh d s (2 * a + 1).
Proof.
  intros d s a H. unfold xpxp_mean. rewrite !x2p_even, !x2p_odd by assumption.
  split; [apply rotated_xxpp_mean_x | apply rotated_xxpp_mean_p]; assumption.
Qed.

(* complex representation: a -> e^{-i phi} a *)
Theorem rotated_complex_displacement : forall d s a, a < d ->
  complex_displacement K d (rotated K c sn s) a = cmul K (complex_displacement K d s a) (c, -! sn) /\
  complex_displacement K d (rotated K c sn s) (d + a) = cmul K (complex_displacement K d s (d + a)) (c, sn).
Proof.
  intros d s a H. unfold complex_displacement, concat, rotated. simpl. ltb_cases.
  replace (d + a - d) with a by lia. split; [reflexivity|].
  unfold cmul, cconj, re, im. simpl. f_equal; rng.
Qed.
End Rotated.

(* ------------------------------------------------------------------ complex <-> xxpp (T5) *)
(* 2 * (W M W^dagger) for W = 1/sqrt2 [[I, iI], [I, -iI]], written out *)
Definition W_conj2 (d : nat) (M : mat A) : cmat A :=
  block d
    (fun a b => (M a b +! M (d + a) (d + b), M (d + a) b -! M a (d + b)))
    (fun a b => (M a b -! M (d + a) (d + b), M (d + a) b +! M a (d + b)))
    (fun a b => (M a b -! M (d + a) (d + b), -! (M (d + a) b +! M a (d + b))))
    (fun a b => (M a b +! M (d + a) (d + b), -! (M (d + a) b -! M a (d + b)))).

(* sigma_c = (1/hbar) W sigma_xxpp W^dagger, cross-multiplied by 2*hbar *)
Theorem complex_cov_is_W_conj : forall hbar d s i j, i < 2 * d -> j < 2 * d ->
  cscale K (two *! hbar) (complex_cov K d s i j) = W_conj2 d (xxpp_cov K hbar d s) i j.
Proof.
  intros hbar d s i j Hi Hj. unfold W_conj2, complex_cov, block, xxpp_cov.
  destruct (split_index d i Hi) as [Li|[a [La Ea]]], (split_index d j Hj) as [Lj|[b [Lb Eb]]]; subst; ltb_cases.
  - rewrite !dimless_hh by assumption. rewrite !dimless_lh by assumption. rewrite !dimless_hl by assumption. rewrite !dimless_ll by assumption.
    unfold cscale, cadd, cconj, re, im. simpl. f_equal; rng.
  - replace (d + b - d) with b by lia.
    rewrite !dimless_hh by assumption. rewrite !dimless_lh by assumption. rewrite !dimless_hl by assumption. rewrite !dimless_ll by assumption.
    rewrite ident_lo_hi by assumption.
    unfold cscale, cadd, cconj, re, im. simpl. f_equal; rng.
  - replace (d + a - d) with a by lia.
    rewrite !dimless_hh by assumption. rewrite !dimless_lh by assumption. rewrite !dimless_hl by assumption. rewrite !dimless_ll by assumption.
    rewrite ident_hi_lo by assumption.
    unfold cscale, cadd, cconj, re, im. simpl. f_equal; rng.
  - replace (d + a - d) with a by lia. replace (d + b - d) with b by lia.
    rewrite !dimless_hh by assumption. rewrite !dimless_lh by assumption. rewrite !dimless_hl by assumption. rewrite !dimless_ll by assumption.
    rewrite ident_hi_hi.
    unfold cscale, cadd, cconj, re, im. simpl. f_equal; rng.
Qed.

(* sqrt(hbar) mu_c = W mu_xxpp, cross-multiplied by sqrt 2 *)
Theorem complex_displacement_is_W : forall rt2 sh d s a, a < d ->
  cscale K (rt2 *! sh) (complex_displacement K d s a)
    = (xxpp_mean K rt2 sh d s a, xxpp_mean K rt2 sh d s (d + a)) /\
  cscale K (rt2 *! sh) (complex_displacement K d s (d + a))
    = (xxpp_mean K rt2 sh d s a, -! xxpp_mean K rt2 sh d s (d + a)).
Proof.
  intros rt2 sh d s a H. unfold complex_displacement, xxpp_mean, concat. ltb_cases.
  replace (d + a - d) with a by lia.
  unfold cscale, cconj, re, im. simpl. split; f_equal; rng.
Qed.

(* ------------------------------------------------------------------ mean photon number (T6) *)
(* n = (tr(sigma/hbar) - 2d)/4 + |mu/sqrt(hbar)|^2/2, cross-multiplied by 4 *)
Theorem mean_photon_number_from_normalised : forall rt2 d s, rt2 *! rt2 = two ->
  four *! mean_photon_number K d s
  = sumn K (2 * d) (fun k => xxpp_cov K 1 d s k k -! 1)
    +! two *! sumn K (2 * d) (fun k => xxpp_mean K rt2 1 d s k *! xxpp_mean K rt2 1 d s k).
Proof.
  intros rt2 d s H2. replace (2 * d) with (d + d) by lia. rewrite !sumn_split.
  rewrite (sumn_ext d (fun k => xxpp_cov K 1 d s k k -! 1)
             (fun k => two *! (re (gG s k k) +! re (gC s k k))))
    by (intros k Hk; unfold xxpp_cov; rewrite dimless_ll, ident_same by assumption; rng).
  rewrite (sumn_ext d (fun k => xxpp_cov K 1 d s (d + k) (d + k) -! 1)
             (fun k => two *! (-! re (gG s k k) +! re (gC s k k))))
    by (intros k Hk; unfold xxpp_cov; rewrite dimless_hh, ident_same by assumption; rng).
  rewrite (sumn_ext d (fun k => xxpp_mean K rt2 1 d s k *! xxpp_mean K rt2 1 d s k)
             (fun k => two *! (re (gm s k) *! re (gm s k)))).
  2:{ intros k Hk. unfold xxpp_mean, concat. ltb_cases. rewrite <- H2. rng. }
  rewrite (sumn_ext d (fun k => xxpp_mean K rt2 1 d s (d + k) *! xxpp_mean K rt2 1 d s (d + k))
             (fun k => two *! (im (gm s k) *! im (gm s k)))).
  2:{ intros k Hk. unfold xxpp_mean, concat. ltb_cases. replace (d + k - d) with k by lia.
      rewrite <- H2. rng. }
  unfold mean_photon_number, cadd, cmul, cconj, re, im. simpl.
  rewrite !sumn_scale.
  rewrite (sumn_ext d (fun k => fst (gm s k) *! fst (gm s k) -! -! snd (gm s k) *! snd (gm s k))
             (fun k => fst (gm s k) *! fst (gm s k) +! snd (gm s k) *! snd (gm s k)))
    by (intros; rng).
  rewrite (sumn_ext d (fun k => -! fst (gG s k k) +! fst (gC s k k))
             (fun k => (-! 1) *! fst (gG s k k) +! fst (gC s k k))) by (intros; rng).
  rewrite !sumn_plus. rewrite sumn_scale. rng.
Qed.

(* ------------------------------------------------------------------ determinant, purity (T7) *)
Lemma det_ext : forall n M N, (forall i j, M i j = N i j) -> det K n M = det K n N.
Proof.
  induction n as [|n IH]; intros M N H; simpl; [reflexivity|].
  rewrite (IH (minor M n) (minor N n)) by (intros; unfold minor; apply H).
  rewrite (H 0%nat n). f_equal.
  apply sumn_ext. intros j Hj. rewrite (H 0%nat j).
  rewrite (IH (minor M j) (minor N j)) by (intros; unfold minor; apply H). reflexivity.
Qed.

Lemma det_scale : forall n k M, det K n (fun i j => k *! M i j) = rpow K k n *! det K n M.
Proof.
  induction n as [|n IH]; intros k M; [simpl; rng|].
  change (det K (S n) (fun i j => k *! M i j))
    with (sumn K (S n) (fun j => (if Nat.even j then k *! M 0%nat j else -! (k *! M 0%nat j))
                                  *! det K n (fun a b => k *! minor M j a b))).
  change (det K (S n) M)
    with (sumn K (S n) (fun j => (if Nat.even j then M 0%nat j else -! (M 0%nat j)) *! det K n (minor M j))).
  rewrite (sumn_ext (S n) _ (fun j => (k *! rpow K k n) *!
             ((if Nat.even j then M 0%nat j else -! (M 0%nat j)) *! det K n (minor M j)))).
  - rewrite sumn_scale. reflexivity.
  - intros j _. rewrite IH. destruct (Nat.even j); rng.
Qed.

Lemma rpow_mul : forall x y n, rpow K (x *! y) n = rpow K x n *! rpow K y n.
Proof. induction n as [|n IH]; simpl; [rng|]. rewrite IH. rng. Qed.

Theorem purity_den_scales : forall hbar d s,
  purity_sq_den K hbar d s = rpow K hbar (2 * d) *! purity_sq_den K 1 d s.
Proof.
  intros. unfold purity_sq_den.
  rewrite (det_ext (2 * d) (xxpp_cov K hbar d s) (fun i j => hbar *! xxpp_cov K 1 d s i j))
    by (intros; unfold xxpp_cov; rng).
  apply det_scale.
Qed.

(* repaired get_purity: purity^2 = hbar^(2d)/det(sigma_hbar) is the same at every hbar
   (cross-multiplied, so no division is needed) *)
Theorem purity_hbar_free : forall h h' d s,
  purity_sq_num K h d *! purity_sq_den K h' d s = purity_sq_num K h' d *! purity_sq_den K h d s.
Proof.
  intros. rewrite (purity_den_scales h), (purity_den_scales h'). unfold purity_sq_num. rng.
Qed.
Theorem purity_is_normalised_det : forall h d s,
  purity_sq_num K h d *! 1 = purity_sq_den K h d s *! 1 ->
  purity_sq_den K 1 d s *! rpow K h (2 * d) = rpow K h (2 * d).
Proof.
  intros h d s H. rewrite (purity_den_scales h) in H. unfold purity_sq_num in H.
  transitivity (rpow K h (2 * d) *! purity_sq_den K 1 d s *! 1); [rng|]. rewrite <- H. rng.
Qed.

(* ------------------------------------------------------------------ string moments (T9) *)
Lemma cmul_scale : forall a b x y, cmul K (cscale K a x) (cscale K b y) = cscale K (a *! b) (cmul K x y).
Proof. intros. unfold cmul, cscale, re, im. simpl. f_equal; rng. Qed.
Lemma cadd_scale : forall a x y, cadd K (cscale K a x) (cscale K a y) = cscale K a (cadd K x y).
Proof. intros. unfold cadd, cscale, re, im. simpl. f_equal; rng. Qed.
Lemma cscale_one : forall x, cscale K 1 x = x.
Proof. intros [x y]. unfold cscale, re, im. simpl. f_equal; rng. Qed.
Lemma csum_scale : forall a (g : nat -> Cx A) l,
  csum_list K (map (fun j => cscale K a (g j)) l) = cscale K a (csum_list K (map g l)).
Proof.
  intros a g l. induction l as [|x l IH]; simpl.
  - unfold cr0, cscale, re, im. simpl. f_equal; rng.
  - rewrite IH. apply cadd_scale.
Qed.

Lemma remove_nth_length : forall (T : Type) (l : list T) j, j < length l ->
  length (remove_nth j l) = length l - 1.
Proof.
  intros T l. induction l as [|x l IH]; intros j H; simpl in *; [lia|].
  destruct j; simpl; [lia|]. rewrite IH by lia. lia.
Qed.

Lemma rpow_add : forall x n m, rpow K x (n + m) = rpow K x n *! rpow K x m.
Proof. induction n as [|n IH]; intros; simpl; [rng|]. rewrite IH. rng. Qed.

Lemma smf_step : forall f (mu : nat -> Cx A) (V : nat -> nat -> Cx A) first rest, rest <> [] ->
  string_moment_fuel K (S f) mu V (first :: rest)
  = cadd K (cmul K (mu first) (string_moment_fuel K f mu V rest))
      (csum_list K (map (fun j => cmul K (V first (nth j rest 0%nat))
                                   (string_moment_fuel K f mu V (remove_nth j rest)))
                        (seq 0 (length rest)))).
Proof. intros f mu V first rest H. destruct rest; [contradiction|reflexivity]. Qed.

(* if the first moments scale with t and the second moments with t^2, the moment of a
   string of n operators scales with t^n *)
Lemma string_moment_fuel_scale : forall t (mu1 : nat -> Cx A) (V1 : nat -> nat -> Cx A) fuel ops,
  length ops <= fuel ->
  string_moment_fuel K fuel (fun k => cscale K t (mu1 k)) (fun i j => cscale K (t *! t) (V1 i j)) ops
  = cscale K (rpow K t (length ops)) (string_moment_fuel K fuel mu1 V1 ops).
Proof.
  intros t mu1 V1. induction fuel as [|f IH]; intros ops Hl.
  - destruct ops; [|simpl in Hl; lia]. simpl. symmetry. apply cscale_one.
  - destruct ops as [|first rest]; [simpl; symmetry; apply cscale_one|].
    destruct rest as [|second rest'].
    + simpl. unfold cscale, re, im. simpl. f_equal; rng.
    + remember (second :: rest') as rest eqn:Er.
      assert (Hne : rest <> []) by (subst rest; discriminate).
      assert (Hr : length rest <= f) by (simpl in Hl; lia).
      assert (Hpos : 1 <= length rest) by (subst rest; simpl; lia).
      rewrite !smf_step by assumption.
      rewrite IH by assumption.
      rewrite (map_ext_in _ (fun j => cscale K (rpow K t (length (first :: rest)))
                 (cmul K (V1 first (nth j rest 0%nat)) (string_moment_fuel K f mu1 V1 (remove_nth j rest))))).
      * rewrite csum_scale. rewrite cmul_scale.
        replace (t *! rpow K t (length rest)) with (rpow K t (length (first :: rest))) by reflexivity.
        apply cadd_scale.
      * intros j Hj. apply in_seq in Hj.
        rewrite IH by (rewrite remove_nth_length by lia; lia).
        rewrite cmul_scale. rewrite remove_nth_length by lia. f_equal.
        simpl length. replace (S (length rest)) with (2 + (length rest - 1)) by lia.
        rewrite rpow_add. simpl. rng.
Qed.

(* get_xp_string_moment of a string of n quadratures scales with sqrt(hbar)^n *)
Theorem xp_string_moment_scales : forall hbar rt2 sh i2 d s ops, sh *! sh = hbar ->
  xp_string_moment K hbar rt2 sh i2 d s ops
  = cscale K (rpow K sh (length ops)) (xp_string_moment K 1 rt2 1 i2 d s ops).
Proof.
  intros hbar rt2 sh i2 d s ops E. unfold xp_string_moment, string_moment.
  rewrite <- (string_moment_fuel_scale sh) by lia.
  assert (X : forall fuel mu mu' V V' l, (forall k, mu k = mu' k) -> (forall i j, V i j = V' i j) ->
            string_moment_fuel K fuel mu V l = string_moment_fuel K fuel mu' V' l).
  { induction fuel as [|f IHf]; intros mu mu' V V' l Hm HV; [reflexivity|].
    destruct l as [|a [|b l]]; [reflexivity|apply Hm|].
    rewrite !smf_step by discriminate. rewrite Hm.
    rewrite (IHf mu mu' V V' (b :: l) Hm HV). f_equal. f_equal.
    apply map_ext. intro j. rewrite HV.
    rewrite (IHf mu mu' V V' _ Hm HV). reflexivity. }
  apply X.
  - intro k. unfold cscale, xxpp_mean, re, im. simpl. f_equal; rng.
  - intros i j. unfold cscale, xxpp_cov, re, im. simpl. rewrite <- E. f_equal; rng.
Qed.

End Proofs.

(* ------------------------------------------------------------------ shipped get_purity: refuted *)
From Coq Require Import ZArith.
Definition KZ : ops Z := mkops Z 0%Z 1%Z Z.add Z.mul Z.sub Z.opp.
Definition vacuumZ : gstate Z :=
  {| gm := fun _ => (0%Z, 0%Z); gC := fun _ _ => (0%Z, 0%Z); gG := fun _ _ => (0%Z, 0%Z) |}.

(* shipped formula 2**d/sqrt(det(sigma_hbar)): purity^2 of the one-mode vacuum is 4/1 at hbar=1
   and 4/4 at hbar=2 (cross-multiplied: 4*4 <> 4*1) *)
Theorem shipped_purity_depends_on_hbar_refuted :
  exists (d : nat) (s : gstate Z) (h h' : Z),
    (purity_sq_num_shipped KZ d * purity_sq_den KZ h' d s <>
     purity_sq_num_shipped KZ d * purity_sq_den KZ h d s)%Z.
Proof. exists 1%nat, vacuumZ, 1%Z, 2%Z. vm_compute. discriminate. Qed.

(* ------------------------------------------------------------------ any two values of hbar *)
Section TwoHbar.
Variable A : Type.
Variable K : ops A.
Hypothesis Rth : ring_theory (o0 K) (o1 K) (oadd K) (omul K) (osub K) (oopp K) (@eq A).
Variables (h ih sh ish h' ih' sh' ish' rt2 : A).
Hypothesis H1 : omul K ih h = o1 K.
Hypothesis H2 : omul K ish sh = o1 K.
Hypothesis H1' : omul K ih' h' = o1 K.
Hypothesis H2' : omul K ish' sh' = o1 K.

Theorem fidelity_same_at_any_two_hbar :
  forall (R : Type) (kernel : list (list A) -> list (list A) -> list A -> list A -> R) d s1 s2,
  fidelity_model K R kernel h ih rt2 sh ish d s1 s2 = fidelity_model K R kernel h' ih' rt2 sh' ish' d s1 s2.
Proof.
  intros. rewrite (fidelity_hbar_free A K Rth h ih rt2 sh ish H1 H2).
  rewrite (fidelity_hbar_free A K Rth h' ih' rt2 sh' ish' H1' H2'). reflexivity.
Qed.

Theorem threshold_same_at_any_two_hbar :
  forall (R : Type) (kernel : list (list A) -> list A -> list nat -> R) d s occ,
  threshold_model K R kernel h ih rt2 sh ish d s occ = threshold_model K R kernel h' ih' rt2 sh' ish' d s occ.
Proof.
  intros. rewrite (threshold_hbar_free A K Rth h ih rt2 sh ish H1 H2).
  rewrite (threshold_hbar_free A K Rth h' ih' rt2 sh' ish' H1' H2'). reflexivity.
Qed.
End TwoHbar.
