(* C02 — multiply_by_linear_truncated: with distinct buffers every coefficient inside the array
   shape is the coefficient of (c + sum_j l_j x_j) * p, over every commutative ring; the aliased
   call (out = polynomial, the code before the repair) computes something else. *)
From Coq Require Import ZArith QArith List Bool Arith Lia Ring.
From PV Require Import C02.DistModel C02.PostselectModel C02.TruncPolyModel.
Import ListNotations.

Section TruncRing.
  (* any commutative ring; division and comparison of the number structure are arbitrary *)
  Variable A : Type.
  Variables (r0 r1 : A) (radd rmul rsub rdiv : A -> A -> A) (ropp : A -> A) (rleb : A -> A -> bool).
  Hypothesis Rth : ring_theory r0 r1 radd rmul rsub ropp (@eq A).
  Add Ring ARing : Rth.
  Definition NA : num := mknum A r0 r1 radd rmul rsub rdiv rleb.

  Ltac nra_ := unfold NA in *; cbn [n0 n1 nadd nmul nsub T] in *; change (T (mknum A r0 r1 radd rmul rsub rdiv rleb)) with A in *.

  (* the loop over the axes adds, to whatever is already in out, the linear terms of the axes
     it visits; the polynomial read is never the buffer written *)
  Lemma axes_loop_distinct : forall (p : arr NA) ls out axis idx,
    @eq A (axes_loop (N:=NA) false p out axis ls idx) (radd (out idx) (lin_terms (N:=NA) p idx axis ls)).
  Proof.
    intros p ls. induction ls as [|l r IH]; intros out axis idx; cbn [axes_loop lin_terms].
    - nra_. rewrite (Radd_comm Rth), (Radd_0_l Rth). reflexivity.
    - rewrite IH. unfold shift_add. destruct (1 <=? nth axis idx 0)%nat; nra_.
      + symmetry. apply (Radd_assoc Rth).
      + rewrite (Radd_0_l Rth). reflexivity.
  Qed.

  Theorem trunc_mul_correct : forall (p : arr NA) c ls idx,
    @eq A (mul_lin (N:=NA) false p c ls idx) (product_coeff (N:=NA) p c ls idx).
  Proof. intros. unfold mul_lin, product_coeff. apply axes_loop_distinct. Qed.
End TruncRing.

(* the same multiplication when `out` is the polynomial itself: already for one variable and a
   two-entry array the x^1 coefficient is c*(p1 + l*p0) instead of c*p1 + l*p0 *)
Theorem trunc_mul_aliased_refuted :
  exists (p : arr QN) (c : Q) (ls : list Q) (idx : list nat),
    ~ (mul_lin (N:=QN) true p c ls idx == product_coeff (N:=QN) p c ls idx)%Q.
Proof.
  exists (of_flat (N:=QN) [2%nat] [1%Q; 1%Q]), (1 # 2)%Q, [1%Q], [1%nat].
  vm_compute. discriminate.
Qed.
