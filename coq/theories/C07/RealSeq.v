(* C07 — programs of built-in gates with real parameters satisfy the side conditions of the
   sequence theorem: every OGate with an environment env_R(...) is unitary / symplectic. *)
From Coq Require Import List Arith Reals Ring Lia.
From PV Require Import C07.CxBase C07.RealOps C07.GatesGen C07.MomentsModel C07.GatesModel
  C07.SumLemmas C07.MomentsProofs C07.MatF C07.StepK C07.SeqProofs C07.GatesProofs C07.CxReal.
Import ListNotations.

Add Ring RCring : RC_ring.

(* GatesModel.run is lrun on the dispatched steps *)
Lemma run_is_lrun : forall {B : Type} (o : Ops B) d prog s,
  run o d prog s = lrun (cops o) d (map (lop_of o) prog) s.
Proof.
  intros B o d prog. induction prog as [|i r IH]; intros s; [reflexivity|].
  simpl. rewrite <- IH. f_equal.
  destruct i; simpl; try reflexivity. destruct (active_block o g e); reflexivity.
Qed.

Lemma unitary_k_of : forall n U, unitary n U -> unitary_k RC n U.
Proof.
  intros n U H a b Ha Hb. unfold unitary in H.
  assert (E : get RC (mmul RC n n n U (mtr RC n n (mcj RC n n U))) a b = get RC (mid RC n) a b)
    by (rewrite H; reflexivity).
  rewrite (get_mmul RC), (get_mid RC) in E by assumption.
  rewrite <- E. apply (sumn_ext RC). intros c Hc.
  rewrite (get_mtr RC), (get_mcj RC) by assumption. reflexivity.
Qed.

Lemma sympl_of : forall n P Am, symplectic n P Am -> sympl1 RC n P Am /\ sympl2 RC n P Am.
Proof.
  intros n P Am [H1 H2]. split; intros a b Ha Hb.
  - assert (E : get RC (msub RC n n (mmul RC n n n P (mtr RC n n (mcj RC n n P)))
                                     (mmul RC n n n Am (mtr RC n n (mcj RC n n Am)))) a b
                = get RC (mid RC n) a b) by (rewrite H1; reflexivity).
    unfold msub in E. rewrite (get_mk RC) in E by assumption.
    rewrite !(get_mmul RC), (get_mid RC) in E by assumption.
    rewrite (sumn_ext RC n (fun t => zmul RC (get RC P a t) (get RC (mtr RC n n (mcj RC n n P)) t b))
               (fun c => zmul RC (get RC P a c) (zconj RC (get RC P b c)))) in E
      by (intros c Hc; rewrite (get_mtr RC), (get_mcj RC) by assumption; reflexivity).
    rewrite (sumn_ext RC n (fun t => zmul RC (get RC Am a t) (get RC (mtr RC n n (mcj RC n n Am)) t b))
               (fun c => zmul RC (get RC Am a c) (zconj RC (get RC Am b c)))) in E
      by (intros c Hc; rewrite (get_mtr RC), (get_mcj RC) by assumption; reflexivity).
    rewrite <- E. ring.
  - assert (E : get RC (mmul RC n n n P (mtr RC n n Am)) a b = get RC (mmul RC n n n Am (mtr RC n n P)) a b)
      by (rewrite H2; reflexivity).
    rewrite !(get_mmul RC) in E by assumption.
    rewrite (sumn_ext RC n (fun t => zmul RC (get RC P a t) (get RC (mtr RC n n Am) t b))
               (fun c => zmul RC (get RC P a c) (get RC Am b c))) in E
      by (intros c Hc; rewrite (get_mtr RC) by assumption; reflexivity).
    rewrite E. apply (sumn_ext RC). intros c Hc. rewrite (get_mtr RC) by assumption. ring.
Qed.

(* an instruction with real parameters on an admissible tuple of modes *)
Definition op_ok (d : nat) (i : @op R) : Prop :=
  match i with
  | OGate g e modes =>
      (exists theta phi int_ ext r s, e = env_R theta phi int_ ext r s)
      /\ modes_ok d modes /\ length modes = n_modes g
  | OInterferometer T modes => modes_ok d modes /\ unitary_k RC (length modes) T
  | OTransform P Am modes =>
      modes_ok d modes /\ sympl1 RC (length modes) P Am /\ sympl2 RC (length modes) P Am
  | ODisplacement _ _ _ modes | OPositionDisplacement _ modes | OMomentumDisplacement _ modes =>
      modes_ok d modes
  end.

Lemma op_ok_valid : forall d i, op_ok d i -> valid RC d (lop_of ROps i).
Proof.
  intros d [g e modes|T modes|P Am modes|r c s modes|x modes|p modes] H; simpl in H; simpl lop_of;
    try exact H.
  destruct H as ((theta & phi & int_ & ext & r & s & ->) & Hm & Hlen).
  destruct (active_block ROps g (env_R theta phi int_ ext r s)) as [Am|] eqn:E; simpl.
  - rewrite Hlen. split; [exact Hm|]. apply sympl_of.
    apply (active_symplectic_real g theta phi int_ ext r s Am E).
  - rewrite Hlen. split; [exact Hm|]. apply unitary_k_of.
    apply (passive_unitary_real g theta phi int_ ext r s E).
Qed.

(* sequence_congruence for programs of built-in gates with real parameters, Interferometers,
   Gaussian transformations and displacements, as executed by GatesModel.run *)
Theorem gates_sequence_real : forall d (prog : list (@op R)) s,
  Forall (op_ok d) prog -> herm RC d (st_C s) -> symm RC d (st_G s) ->
  let s' := run ROps d prog s in
  let lp := map (lop_of ROps) prog in
  eqm (d + d) (Kof RC d (st_C s') (st_G s'))
      (cong RC (d + d) (Stot RC d lp) (Kof RC d (st_C s) (st_G s))) /\
  eqv (d + d) (muc RC d (st_m s'))
      (addv RC (mvf RC (d + d) (Stot RC d lp) (muc RC d (st_m s))) (shift RC d lp)) /\
  herm RC d (st_C s') /\ symm RC d (st_G s').
Proof.
  intros d prog s Hok HC HG. cbv zeta. rewrite run_is_lrun.
  apply (sequence_congruence RC RC_ring RC_conj_0 RC_conj_1 RC_conj_add RC_conj_mul RC_conj_conj d
           (map (lop_of ROps) prog) s); try assumption.
  apply Forall_forall. intros o Ho. apply in_map_iff in Ho. destruct Ho as (i & <- & Hi).
  apply op_ok_valid. apply (proj1 (Forall_forall _ _) Hok i Hi).
Qed.
