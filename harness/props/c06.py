"""C06 — Fock-basis enumeration and index functions are mutually inverse."""
import itertools
from math import comb as mcomb

from common import (CASES_HEADER, Check, clist, coq_eval, coq_eval_parallel, cz, parse_coq_list,
                    run_impl)

IMPORTS = CASES_HEADER + "From PV Require Import Base.CasesLib Comb.FockModel Comb.FermiModel.\n"


def zll(b):
    return clist(b, lambda r: clist(r))


def gen_vectors(rng, n):
    """Random occupation vectors with the basis size just below 2^31 (valid stream),
    many-mode few-photon vectors, and a malformed stream beyond the int32 range."""
    out = []
    while len(out) < n:
        kind = rng.random()
        if kind < 0.45:
            d = rng.randint(2, 14)
            # largest total with C(d+n, d) < 2^31
            tot = 0
            while mcomb(d + tot + 1, d) < 2 ** 31:
                tot += 1
            tot = rng.randint(max(0, tot - 6), tot)
        elif kind < 0.8:
            d = rng.randint(15, 120)
            tot = rng.randint(0, 4)
            while mcomb(d + tot, d) >= 2 ** 31:
                tot -= 1
        elif kind < 0.9:
            d = rng.randint(1, 6)
            tot = rng.randint(0, 12)
        else:  # malformed: index beyond int32
            d = rng.randint(6, 14)
            tot = 0
            while mcomb(d + tot, d) < 2 ** 31:
                tot += 1
            tot += rng.randint(0, 5)
        v = [0] * d
        for _ in range(tot):
            v[rng.randrange(d)] += 1
        if rng.random() < 0.3:  # bunch
            v = [0] * d
            v[rng.randrange(d)] = tot
        out.append(v)
    return out


def py_index(v):
    s = 0
    acc = 0
    for i in range(len(v)):
        s += v[-1 - i]
        acc += mcomb(s + i, i + 1)
    return acc


def run(chk: Check):
    chk.proofs()
    T = chk.thorough
    dmax, cmax = (7, 9) if T else (6, 7)
    fmax = 10 if T else 8
    nvec = 20000 if T else 2000
    bosonic = [(d, c) for d in range(1, dmax + 1) for c in range(0, cmax + 1)]
    combs = [(n, k) for n in range(-2, 40) for k in range(-2, 42)] + [(n, k) for n in (62, 63, 66, 67, 68, 100, 200) for k in (0, 1, 2, 3, n - 2, n - 1, n, n // 2) if mcomb(n, min(k, n - k)) * n < 2 ** 63]
    arr = [(n, k) for n in range(-2, 40) for k in range(1, 41)] + [(n, k) for n in (62, 66, 67, 68, 80, 100, 200, 1000) for k in (1, 2, 3, n - 2, n - 1, n)]
    vectors = [[0] * 65 + [1, 0, 0, 1], [1] + [0] * 69 + [1]] + gen_vectors(chk.rng, nvec)
    fq = [v for v in vectors if len(v) <= 8][:200]
    rng = chk.rng
    batches = []
    for _ in range(60 if T else 20):
        d = rng.randint(2, 6)
        batches.append([[rng.randint(0, 4) for _ in range(d)] for _ in range(rng.randint(1, 5))])
    dim_arrays = []
    for _ in range(200 if T else 60):
        d = rng.randint(1, 7)
        dim_arrays.append([d, [rng.randint(0, 7) for _ in range(rng.randint(1, 6))]])
    req = {"bosonic": bosonic, "comb": combs, "arr_comb": arr, "vectors": vectors,
           "fermionic": list(range(1, fmax + 1)), "fq": fq, "batches": batches, "dim_arrays": dim_arrays}
    impl = run_impl("c06_impl.py", req, timeout=3000)
    corr_broken = []

    # ---------------- correspondence: model vs implementation (exact)
    bodies = []
    # 1. bases, partitions, dims
    items = []
    for r in impl["bosonic"]:
        items.append("(%d%%nat, %d%%nat, %s, %s, %s, %s, %s)" % (
            r["d"], r["c"], zll(r["basis"]), cz(r["dim"]), clist(r["cards"]),
            clist(r["partitions"], zll), clist(r["dim_arr"])))
    chunk = 12
    for i in range(0, len(items), chunk):
        bodies.append(IMPORTS + """
Definition cases := [%s].
Definition ok (x : nat*nat*list (list Z)*Z*list Z*list (list (list Z))*list Z) : bool :=
  let '(d,c,b,dim,cards,parts,dimarr) := x in
  zll_eqb (basis d c) b && zll_eqb (basis_iter d c) b &&
  (cutoff_dim (Z.of_nat c) (Z.of_nat d) =? dim) &&
  zl_eqb (map (fun n => sym_card (Z.of_nat d) (Z.of_nat n)) (seq 0 c)) cards &&
  zlll_eqb (map (partitions d) (seq 0 c)) parts &&
  zl_eqb (map (fun k => cutoff_dim (Z.of_nat k) (Z.of_nat d)) (seq 0 (S c))) dimarr.
Eval vm_compute in mismatches ok cases.
""" % ";\n".join(items[i:i + chunk]))
    outs = coq_eval_parallel("c06_basis", bodies)
    mm = []
    for j, o in enumerate(outs):
        g = parse_coq_list(o)
        mm += [impl["bosonic"][j * chunk + k] for k in g[0]]
    for r in mm:
        corr_broken.append("basis/partitions/dim model!=impl at d=%d c=%d" % (r["d"], r["c"]))
    nontriv = sum(1 for r in impl["bosonic"] if r["c"] >= 3 and r["d"] >= 2)
    chk.stream("bosonic basis/partitions/dimension vs model (every d<=%d, c<=%d)" % (dmax, cmax),
               len(impl["bosonic"]), nontriv,
               samples=[{"d": 2, "c": 3, "basis": impl["bosonic"][0 + (cmax + 1) + 3]["basis"]}],
               exhaustive=True)

    # 2. comb / arr_comb
    body = IMPORTS + """
Definition ccases := %s.
Definition acases := %s.
Eval vm_compute in mismatches (fun '(n,k,r) => comb n k =? r) ccases.
Eval vm_compute in mismatches (fun '(n,k,r) => opt_eqb Z.eqb (arr_comb n k) (Some r)) acases.
""" % (clist(impl["comb"], lambda t: "(%s,%s,%s)" % tuple(cz(x) for x in t)),
       clist(impl["arr_comb"], lambda t: "(%s,%s,%s)" % tuple(cz(x) for x in t)))
    g = parse_coq_list(coq_eval("c06_comb", body))
    for i in g[0]:
        corr_broken.append("comb model!=impl at %s" % impl["comb"][i])
    for i in g[1]:
        corr_broken.append("arr_comb model!=impl (or model reports int64 overflow) at %s" % impl["arr_comb"][i])
    chk.stream("comb / arr_comb grid vs model", len(impl["comb"]) + len(impl["arr_comb"]),
               sum(1 for n, k, r in impl["comb"] + impl["arr_comb"] if r > 1),
               samples=[impl["arr_comb"][-2]])

    # 3. index functions on random vectors
    vecs = impl["vectors"]
    bodies = []
    chunk = 500
    for i in range(0, len(vecs), chunk):
        part = vecs[i:i + chunk]
        bodies.append(IMPORTS + """
Definition vcases := %s.
(* scalar index: exact; vectorised: equal when the model says no overflow, and when the
   model reports an int32/int64 overflow the case is only counted (malformed stream) *)
Definition ok (x : list Z * Z * Z * Z * Z) : bool :=
  let '(v, i, ia, s, sa) := x in
  (fock_index v =? i) && (fock_subspace_index v =? s) &&
  match fock_index_arr v with Some r => r =? ia | None => true end &&
  match fock_subspace_index_arr v with Some r => r =? sa | None => true end.
Eval vm_compute in mismatches ok vcases.
Eval vm_compute in mismatches (fun x : list Z * Z * Z * Z * Z => let '(v,_,_,_,_) := x in match fock_index_arr v with Some _ => true | None => false end) vcases.
""" % clist(part, lambda r: "(%s,%s,%s,%s,%s)" % (clist(r["v"]), cz(r["index"]), cz(r["index_arr"]), cz(r["subindex"]), cz(r["subindex_arr"]))))
    outs = coq_eval_parallel("c06_vec", bodies)
    overflow = 0
    for j, o in enumerate(outs):
        g = parse_coq_list(o)
        for k in g[0]:
            corr_broken.append("index model!=impl at v=%s" % vecs[j * chunk + k]["v"])
        overflow += len(g[1])
    distinct = len({tuple(r["v"]) for r in vecs if sum(r["v"]) >= 2})
    chk.stream("index / sub-space index, scalar and vectorised, random vectors vs model",
               len(vecs), distinct, samples=[vecs[0], vecs[len(vecs) // 2]],
               note="%d malformed cases where the model reports an int32 overflow (skipped for the vectorised functions)" % overflow)

    # 3b. dimension arrays on arbitrary cutoff arrays, batched index calls
    body = IMPORTS + """
Definition dcases := %s.
Definition bcases := %s.
Eval vm_compute in mismatches (fun '(d, cs, bos, fer) =>
  zl_eqb (map (fun c => cutoff_dim c (Z.of_nat d)) cs) bos &&
  zl_eqb (map (fun c => f_cutoff_dim (Z.of_nat d) c) cs) fer) dcases.
Eval vm_compute in mismatches (fun '(vs, idx, sidx) =>
  zl_eqb (map fock_index vs) idx && zl_eqb (map fock_subspace_index vs) sidx) bcases.
""" % (clist(impl["dim_arrays"], lambda r: "(%d%%nat, %s, %s, %s)" % (r["d"], clist(r["cutoffs"]), clist(r["bosonic"]), clist(r["fermionic"]))),
       clist(impl["batches"], lambda r: "(%s, %s, %s)" % (zll(r["vs"]), clist(r["index"]), clist(r["subindex"]))))
    g = parse_coq_list(coq_eval("c06_dims", body))
    for i in g[0]:
        corr_broken.append("dimension array model!=impl at %s" % {k: impl["dim_arrays"][i][k] for k in ("d", "cutoffs", "bosonic", "fermionic")})
    for i in g[1]:
        corr_broken.append("batched index model!=impl at %s" % impl["batches"][i])
    chk.stream("dimension arrays on arbitrary cutoff arrays and batched vectorised index vs model",
               len(impl["dim_arrays"]) + len(impl["batches"]),
               len({(r["d"], tuple(r["cutoffs"])) for r in impl["dim_arrays"] if len(set(r["cutoffs"])) > 1 and sorted(r["cutoffs"]) != list(range(min(r["cutoffs"]), max(r["cutoffs"]) + 1))}),
               samples=[impl["dim_arrays"][0]])

    # 4. fermionic
    items = []
    for r in impl["fermionic"]:
        items.append("(%d%%nat, %s, %s, %s, %s, %s, %s)" % (
            r["d"], zll(r["basis"]), clist(r["dims"]), clist(r["index"]), clist(r["subindex"]),
            clist(r["b2f"]), clist(r["f2b"])))
    bodies = [IMPORTS + """
Definition fcases := [%s].
Definition ok (x : nat * list (list Z) * list Z * list Z * list Z * list Z * list Z) : bool :=
  let '(d, b, dims, idx, sidx, bf, fb) := x in
  zll_eqb (f_basis d (Z.of_nat d + 1)) b && zll_eqb (f_basis_spec d (S d)) b &&
  zl_eqb (map (fun c => f_cutoff_dim (Z.of_nat d) (Z.of_nat c)) (seq 0 (d + 2))) dims &&
  zl_eqb (map f_index b) idx && zl_eqb (map f_subspace_index b) sidx &&
  zl_eqb (b2f d) bf && zl_eqb (f2b d) fb.
Eval vm_compute in mismatches ok fcases.
""" % it for it in items]
    outs = coq_eval_parallel("c06_fermi", bodies)
    for j, o in enumerate(outs):
        if parse_coq_list(o)[0]:
            corr_broken.append("fermionic basis/index/b2f model!=impl at d=%d" % impl["fermionic"][j]["d"])
    chk.stream("fermionic basis, dimensions, index, binary<->Fock maps vs model (every d<=%d)" % fmax,
               sum(len(r["basis"]) for r in impl["fermionic"]),
               sum(1 for r in impl["fermionic"] for b in r["basis"] if sum(b) >= 2),
               samples=[{"d": 3, "basis": impl["fermionic"][2]["basis"]}], exhaustive=True)

    # ---------------- search: the property stated directly on the implementation
    nfail = 0
    neval = 0
    for r in impl["bosonic"]:
        d, c, basis = r["d"], r["c"], r["basis"]
        tup = [tuple(b) for b in basis]
        neval += len(tup)
        expect = mcomb(d + c - 1, d)
        problems = []
        if len(tup) != expect or r["dim"] != expect:
            problems.append("size %d / dim %d != C(d+c-1,d)=%d" % (len(tup), r["dim"], expect))
        if len(set(tup)) != len(tup):
            problems.append("duplicates")
        if any(len(b) != d or min(b, default=0) < 0 or sum(b) >= max(c, 1) for b in tup if c > 0):
            problems.append("invalid vector listed")
        key = [(sum(b), tuple(-x for x in b)) for b in tup]
        if key != sorted(key):
            problems.append("not ordered by total then anti-lexicographic")
        for name in ("index", "index_arr"):
            if r[name] != list(range(len(tup))):
                problems.append("%s(basis[i]) != i" % name)
        offs = [mcomb(d + sum(b) - 1, d) for b in tup]
        for name in ("subindex", "subindex_arr"):
            if [o + s for o, s in zip(offs, r[name])] != list(range(len(tup))):
                problems.append("%s inconsistent with enumeration" % name)
        if r["dim_arr"] != [mcomb(d + k - 1, d) for k in range(c + 1)]:
            problems.append("cutoff_fock_space_dim_array")
        for p in problems:
            nfail += 1
            chk.violation("C06:bosonic:d=%d,c=%d:%s" % (d, c, p), p, {"d": d, "c": c, "problem": p,
                          "call": "piquasso._math.fock.nb_get_fock_space_basis(%d,%d) and index functions" % (d, c)})
    for r in vecs:
        v = r["v"]
        neval += 1
        idx = py_index(v)
        if r["index"] != idx:
            chk.violation("C06:get_index_in_fock_space:%s" % v, "scalar index wrong", {"v": v, "got": r["index"], "expected": idx})
        if idx < 2 ** 31 and r["index_arr"] != idx:
            chk.violation("C06:get_index_in_fock_space_array:d=%d,n=%d" % (len(v), sum(v)),
                          "vectorised index differs from the enumeration position although the index fits 32 bits",
                          {"v": v, "got": r["index_arr"], "expected": idx,
                           "call": "piquasso._math.indices.get_index_in_fock_space_array(np.array([v],dtype=np.int32))"})
        sub = py_index(v[1:])
        if r["subindex"] != sub or (idx < 2 ** 31 and r["subindex_arr"] != sub):
            chk.violation("C06:get_index_in_fock_subspace(_array):d=%d,n=%d" % (len(v), sum(v)), "sub-space index wrong",
                          {"v": v, "got": [r["subindex"], r["subindex_arr"]], "expected": sub})
    for r in vecs:
        first = [r["index"], r["index_arr"], r["subindex"], r["subindex_arr"]]
        if r["second_call"] != first or r["input_after"] != [r["v"], r["v"]]:
            chk.violation("C06:index-functions:not-a-function-of-the-vector:dtype=%s" % r["dtype"],
                          "calling the index functions twice on the same array gives different answers or modifies the array",
                          {"v": r["v"], "dtype": r["dtype"], "first": first, "second": r["second_call"], "input_after": r["input_after"]})
    for r in impl["batches"]:
        neval += 1
        want = [py_index(v) for v in r["vs"]]
        if r["index"] != want or r["index_again"] != want or r["input_after"] != r["vs"] or r["subindex"] != [py_index(v[1:]) for v in r["vs"]]:
            chk.violation("C06:get_index_in_fock_space_array:batch:dtype=%s" % r["dtype"],
                          "vectorised index on a batch: wrong, not repeatable, or input modified", r)
    for r in impl["dim_arrays"]:
        neval += 1
        d = r["d"]
        wb = [mcomb(d + c - 1, d) if d + c - 1 >= 0 else 0 for c in r["cutoffs"]]
        wf = [sum(mcomb(d, k) for k in range(c)) for c in r["cutoffs"]]
        if r["bosonic"] != wb or r["bosonic_scalar"] != wb:
            chk.violation("C06:fock.cutoff_fock_space_dim_array", "bosonic dimension formula disagrees with the enumeration size", r)
        if r["fermionic"] != wf or r["fermionic_scalar"] != wf:
            chk.violation("C06:fermionic.cutoff_fock_space_dim_array", "fermionic dimension formula disagrees with the enumeration size", r)
    for r in impl["fermionic"]:
        d, basis = r["d"], [tuple(b) for b in r["basis"]]
        neval += len(basis)
        allv = sorted(itertools.product((0, 1), repeat=d), key=lambda b: (sum(b), tuple(-x for x in b)))
        if basis != allv:
            chk.violation("C06:fermionic-basis:d=%d" % d, "fermionic basis is not every 0/1 vector once, in order", {"d": d})
        if r["index"] != list(range(len(basis))):
            chk.violation("C06:fermionic-index:d=%d" % d, "fermionic index(basis[i]) != i", {"d": d})
        if sorted(r["b2f"]) != list(range(2 ** d)) or [r["b2f"][i] for i in r["f2b"]] != list(range(2 ** d)):
            chk.violation("C06:fermionic-b2f:d=%d" % d, "binary<->Fock index maps are not inverse permutations", {"d": d})
    for r in impl["fq"]:
        neval += 1
        if r["sq"] != r["v"] or r["fq"] != [m for m, k in enumerate(r["v"]) for _ in range(k)]:
            chk.violation("C06:first/second quantised:%s" % r["v"], "to_second_quantized(to_first_quantized(v)) != v", r)
    chk.stream("direct bijection/ordering test on the implementation (search)", neval, neval // 2, kind="search",
               samples=[{"v": vecs[1]["v"], "index": vecs[1]["index"], "index_arr": vecs[1]["index_arr"]}])

    chk.assumptions += [
        "numba compiles the Python source it is given (kernels are re-JITted into a cache keyed by the hash of /repo's sources)",
        "fermionic: the theorems are about the recursive order f_basis_spec and the rank formula; that the iterative successor next_first_quantized walks that order within a sector is Props/C17.v:C17_walk_is_sector; across sector boundaries it is evaluated (model f_basis = f_basis_spec and = implementation) for d<=%d" % fmax,
    ]
    chk.finish(
        rule="bosonic: every (d,c) of the tier's range (non-trivial: d>=2 and c>=3); random vectors: distinct vectors with total>=2; fermionic: every basis vector (non-trivial: >=2 particles)",
        explanation="Theorems of coq/theories/Props/C06.v (for all d, cutoff, vectors) about the Gallina model in Comb/FockModel.v; tie = exact differential run of the model (vm_compute inside coqc) against piquasso's functions; search = the bijection stated directly on the implementation.",
        correspondence_broken=corr_broken,
    )
