(* C16 - the executor maps a relabelled program, with an equivariant step oracle, to the same
   outcome tuples (positions follow program order, values follow the labels). *)
From Coq Require Import ZArith List Bool Lia.
From PV Require Import C16.IndexModel C16.IndexProofs C16.ExecModel.
Import ListNotations.
Local Open Scope nat_scope.

Lemma index_of_nth x l : In x l -> nth (index_of x l) l 0 = x.
Proof.
  induction l as [|a l IH]; intros H; [contradiction|]. simpl.
  destruct (Nat.eqb a x) eqn:E.
  - now apply Nat.eqb_eq in E.
  - simpl. apply IH. destruct H as [H|H]; [|exact H]. subst. now rewrite Nat.eqb_refl in E.
Qed.

(* positions -> labels undoes labels -> positions *)
Lemma remap_inverse_remap active ms : incl ms active ->
  remap_modes_inverse active (remap_modes active ms) = ms.
Proof.
  intros H. unfold remap_modes_inverse, remap_modes. rewrite map_map.
  rewrite <- (map_id ms) at 2. apply map_ext_in. intros m Hm. apply index_of_nth. now apply H.
Qed.

Lemma delete_spec active ms : incl ms active ->
  delete_modes_from_active active (remap_modes active ms)
  = filter (fun m => negb (mem_nat m ms)) active.
Proof. intros H. unfold delete_modes_from_active. now rewrite remap_inverse_remap. Qed.

Lemma Forall2_flat_map {X Y X' Y'} (P : X -> X' -> Prop) (Q : Y -> Y' -> Prop) f f' l l' :
  Forall2 P l l' -> (forall a a', P a a' -> Forall2 Q (f a) (f' a')) ->
  Forall2 Q (flat_map f l) (flat_map f' l').
Proof. induction 1; intros H'; simpl; [constructor|]. apply Forall2_app; auto. Qed.

Lemma Forall2_map2 {X Y X' Y'} (P : X -> X' -> Prop) (Q : Y -> Y' -> Prop) f g l l' :
  Forall2 P l l' -> (forall a a', P a a' -> Q (f a) (g a')) -> Forall2 Q (map f l) (map g l').
Proof. induction 1; intros H'; simpl; constructor; auto. Qed.

Section Equivariance.
  Variables S G : Type.
  Variable step : S -> G -> list nat -> list (list Z * S).
  Variable pi : nat -> nat.
  Hypothesis pi_inj : forall x y, pi x = pi y -> x = y.

  (* the active labels of the relabelled run are the relabelled active labels (as a set;
     both tuples are kept in ascending order by the executor, so the POSITIONS differ) *)
  Definition Inv (act act' : list nat) : Prop :=
    NoDup act /\ NoDup act' /\ forall x, In x act' <-> exists m, In m act /\ x = pi m.

  Lemma Inv_in act act' m : Inv act act' -> (In m act <-> In (pi m) act').
  Proof.
    intros [_ [_ H]]. split.
    - intros Hm. apply H. eauto.
    - intros Hm. apply H in Hm. destruct Hm as [m0 [H0 E]]. apply pi_inj in E. now subst.
  Qed.

  Lemma Inv_check act act' ms : Inv act act' ->
    forallb (fun m => mem_nat m act') (map pi ms) = forallb (fun m => mem_nat m act) ms.
  Proof.
    intros HI. induction ms as [|m ms IH]; [reflexivity|]. simpl. rewrite IH. f_equal.
    destruct (mem_nat m act) eqn:E.
    - apply mem_nat_In. apply mem_nat_In in E. now apply (Inv_in act act').
    - destruct (mem_nat (pi m) act') eqn:E'; [|reflexivity].
      apply mem_nat_In in E'. apply (Inv_in act act' m HI) in E'. apply mem_nat_In in E'. congruence.
  Qed.

  Lemma Inv_delete act act' ms : Inv act act' -> incl ms act ->
    Inv (delete_modes_from_active act (remap_modes act ms))
        (delete_modes_from_active act' (remap_modes act' (map pi ms))).
  Proof.
    intros HI Hincl.
    assert (Hincl' : incl (map pi ms) act').
    { intros x Hx. apply in_map_iff in Hx. destruct Hx as [m [<- Hm]].
      apply (Inv_in act act'); auto. }
    rewrite !delete_spec by assumption.
    destruct HI as [N1 [N2 H]]. split; [|split]; try (now apply NoDup_filter).
    intros x. rewrite filter_In, negb_true_iff. split.
    - intros [Hx Hn]. apply H in Hx. destruct Hx as [m [Hm ->]]. exists m. split; [|reflexivity].
      apply filter_In. split; [exact Hm|]. apply negb_true_iff.
      destruct (mem_nat m ms) eqn:E; [|reflexivity]. apply mem_nat_In in E.
      assert (In (pi m) (map pi ms)) by (now apply in_map). apply mem_nat_In in H0. congruence.
    - intros [m [Hm ->]]. apply filter_In in Hm. destruct Hm as [Hm Hn]. apply negb_true_iff in Hn.
      split; [apply H; eauto|].
      destruct (mem_nat (pi m) (map pi ms)) eqn:E; [|reflexivity]. apply mem_nat_In in E.
      apply in_map_iff in E. destruct E as [m0 [E H0]]. apply pi_inj in E. subst.
      apply mem_nat_In in H0. congruence.
  Qed.

  (* relation between the states of the two runs, indexed by the two active tuples *)
  Variable R : list nat -> list nat -> S -> S -> Prop.

  Definition next (act : list nat) (meas : bool) (ms : list nat) : list nat :=
    if meas then delete_modes_from_active act (remap_modes act ms) else act.

  (* the step oracle is equivariant: on related states, addressed through the positions the
     executor computes in each run, it yields the same outcomes and related states *)
  Hypothesis step_equivariant : forall act act' s s' g meas ms,
    Inv act act' -> R act act' s s' -> incl ms act -> ms <> [] ->
    Forall2 (fun b b' => fst b = fst b' /\
                         R (next act meas ms) (next act' meas (map pi ms)) (snd b) (snd b'))
            (step s g (remap_modes act ms)) (step s' g (remap_modes act' (map pi ms))).

  Definition Rb (act act' : list nat) (b b' : list Z * S) : Prop :=
    fst b = fst b' /\ R act act' (snd b) (snd b').

  Definition same_outcomes (r r' : option (list (list Z * S))) : Prop :=
    match r, r' with
    | Some l, Some l' => Forall2 (fun b b' => fst b = fst b') l l'
    | None, None => True
    | _, _ => False
    end.

  Theorem exec_equivariant prog : forall act act' bs bs',
    Forall (fun i => imodes G i <> []) prog ->
    Inv act act' -> Forall2 (Rb act act') bs bs' ->
    same_outcomes (exec S G step act bs prog)
                  (exec S G step act' bs' (map (relabel_instr G pi) prog)).
  Proof.
    induction prog as [|i prog IH]; intros act act' bs bs' Hne HI Hbs.
    - simpl. clear Hne. induction Hbs as [|a b l l' [H _] _ IHl]; constructor; auto.
    - inversion Hne as [|? ? Hi Hrest]; subst.
      cbn [map exec relabel_instr imodes is_meas gate].
      destruct (imodes G i) as [|m0 ms0] eqn:Ems; [congruence|].
      cbn [map]. change (pi m0 :: map pi ms0) with (map pi (m0 :: ms0)).
      rewrite (Inv_check act act' (m0 :: ms0) HI).
      destruct (forallb (fun m => mem_nat m act) (m0 :: ms0)) eqn:Echk; [|exact I].
      assert (Hincl : incl (m0 :: ms0) act).
      { intros x Hx. rewrite forallb_forall in Echk. apply mem_nat_In. now apply Echk. }
      apply IH; auto.
      + destruct (is_meas G i); [|exact HI]. now apply Inv_delete.
      + unfold apply_to_branches.
        apply (Forall2_flat_map (Rb act act')); [exact Hbs|].
        intros b b' [Hb1 Hb2].
        pose proof (step_equivariant act act' (snd b) (snd b') (gate G i) (is_meas G i)
                      (m0 :: ms0) HI Hb2 Hincl) as Hs.
        eapply Forall2_map2; [apply Hs; discriminate|].
        intros sb sb' [E1 E2]. split; simpl; [now rewrite Hb1, E1|exact E2].
  Qed.
End Equivariance.
