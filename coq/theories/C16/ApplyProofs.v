(* C16 - the link between the two groups of theorems: the list-level gather/scatter
   application through the index list (IndexModel.apply_index_list, the model of
   passive_linear.py:_calculate_state_vector_after_interferometer) computes exactly the
   vector-level semantics GateSem.gate_apply, for every d, cutoff, duplicate-free mode tuple
   in any order, every state vector and every family of sector matrices, in any commutative
   ring. *)
From Coq Require Import ZArith List Bool Lia Permutation Ring.
From PV Require Import Comb.FockModel Comb.FockProofs C16.IndexModel C16.IndexProofs C16.GateSem.
Import ListNotations.
Open Scope Z_scope.

(* ------------------------------------------------------------------ generic list facts *)
Lemma fold_left_map {X Y B} (f : B -> Y -> B) (g : X -> Y) l : forall b,
  fold_left f (map g l) b = fold_left (fun b x => f b (g x)) l b.
Proof. induction l; intros b; simpl; auto. Qed.

Lemma fold_left_flat_map {X Y B} (f : B -> Y -> B) (g : X -> list Y) l : forall b,
  fold_left f (flat_map g l) b = fold_left (fun b x => fold_left f (g x) b) l b.
Proof. induction l; intros b; simpl; auto. rewrite fold_left_app. apply IHl. Qed.

Lemma map_fst_combine {X Y} (l1 : list X) : forall (l2 : list Y),
  length l1 = length l2 -> map fst (combine l1 l2) = l1.
Proof. induction l1; intros [|b l2] H; simpl in *; try discriminate; auto. f_equal. apply IHl1. lia. Qed.

Lemma In_combine_nth {X Y} (d1 : X) (d2 : Y) l1 : forall l2 n,
  (n < length l1)%nat -> (n < length l2)%nat -> In (nth n l1 d1, nth n l2 d2) (combine l1 l2).
Proof.
  induction l1; intros [|b l2] [|n] H1 H2; simpl in *; try lia; auto. right. apply IHl1; lia.
Qed.

Lemma In_combine_inv {X Y} (d1 : X) (d2 : Y) l1 : forall l2 p,
  In p (combine l1 l2) ->
  exists n, (n < length l1)%nat /\ (n < length l2)%nat /\ p = (nth n l1 d1, nth n l2 d2).
Proof.
  induction l1; intros [|b l2] p H; simpl in *; try contradiction.
  destruct H as [<-|H].
  - exists 0%nat. repeat split; lia.
  - destruct (IHl1 _ _ H) as [n [H1 [H2 E]]]. exists (S n). repeat split; try lia. exact E.
Qed.

(* position of an occupation vector in a list of vectors *)
Fixpoint posZ (u : list Z) (L : list (list Z)) : nat :=
  match L with
  | [] => 0
  | a :: r => if list_eq_dec Z.eq_dec a u then 0 else S (posZ u r)
  end.

Lemma posZ_nth L : forall j d, NoDup L -> (j < length L)%nat -> posZ (nth j L d) L = j.
Proof.
  induction L as [|a L IH]; intros j d Hnd Hj; [simpl in Hj; lia|].
  inversion Hnd; subst. destruct j as [|j]; simpl.
  - destruct (list_eq_dec Z.eq_dec a a); congruence.
  - destruct (list_eq_dec Z.eq_dec a (nth j L d)) as [E|E].
    + exfalso. apply H1. rewrite E. apply nth_In. simpl in Hj. lia.
    + f_equal. apply IH; auto. simpl in Hj. lia.
Qed.

Lemma nth_posZ L u d : In u L -> nth (posZ u L) L d = u /\ (posZ u L < length L)%nat.
Proof.
  induction L as [|a L IH]; intros H; [contradiction|]. simpl.
  destruct (list_eq_dec Z.eq_dec a u) as [E|E]; [subst; split; [reflexivity|lia]|].
  destruct H as [H|H]; [congruence|]. destruct (IH H) as [I1 I2]. split; [exact I1|lia].
Qed.

Lemma NoDup_app_head {X} (l r : list X) : NoDup (l ++ r) -> NoDup l.
Proof.
  induction l; simpl; intros H; [constructor|]. inversion H; subst. constructor; auto.
  intros Hc. apply H2. apply in_app_iff. now left.
Qed.

Lemma NoDup_app_disj {X} (l r : list X) x : NoDup (l ++ r) -> In x l -> ~ In x r.
Proof.
  induction l; simpl; intros Hnd Hi Hc; [contradiction|]. inversion Hnd; subst.
  destruct Hi as [->|Hi].
  - apply H1. apply in_app_iff. now right.
  - now apply (IHl H2 Hi).
Qed.

(* a sequence of writes at pairwise different positions: the value found at a written
   position is the value written there *)
Section Writes.
  Variable A : Type.
  Definition wstep (b : list A) (s : list nat * list A) : list A := scatter b (fst s) (snd s).

  Lemma writes_length steps : forall b, length (fold_left wstep steps b) = length b.
  Proof.
    induction steps as [|s steps IH]; intros b; simpl; auto. rewrite IH. apply scatter_length.
  Qed.

  Lemma writes_untouched steps : forall b i d,
    ~ In i (concat (map fst steps)) -> nth i (fold_left wstep steps b) d = nth i b d.
  Proof.
    induction steps as [|s steps IH]; intros b i d H; simpl; auto.
    simpl in H. rewrite in_app_iff in H. rewrite IH by tauto.
    apply nth_scatter_notin. tauto.
  Qed.

  Lemma writes_lookup steps : forall b ps vs j d,
    NoDup (concat (map fst steps)) ->
    (forall s, In s steps -> length (snd s) = length (fst s)) ->
    (forall i, In i (concat (map fst steps)) -> (i < length b)%nat) ->
    In (ps, vs) steps -> (j < length ps)%nat ->
    nth (nth j ps 0%nat) (fold_left wstep steps b) d = nth j vs d.
  Proof.
    induction steps as [|s steps IH]; intros b ps vs j d Hnd Hlen Hlt Hin Hj; [contradiction|].
    simpl in Hnd, Hlt. simpl.
    assert (Hnd1 : NoDup (fst s)) by (now apply NoDup_app_head in Hnd).
    assert (Hnd2 : NoDup (concat (map fst steps))) by (now apply NoDup_app_tail in Hnd).
    destruct Hin as [->|Hin].
    - rewrite writes_untouched.
      + unfold wstep. simpl. apply nth_scatter_in; auto.
        * apply (Hlen (ps, vs)). now left.
        * apply Hlt. apply in_app_iff. left. now apply nth_In.
      + simpl in Hnd. apply (NoDup_app_disj ps _ _ Hnd). now apply nth_In.
    - apply IH; auto.
      + intros s' Hs'. apply Hlen. now right.
      + intros i Hi. unfold wstep. rewrite scatter_length. apply Hlt. apply in_app_iff. now right.
  Qed.
End Writes.

Lemma fold_left_ext_all {X B} (f g : B -> X -> B) l : (forall b x, f b x = g b x) ->
  forall b, fold_left f l b = fold_left g l b.
Proof. intros H. induction l; intros b; simpl; auto. rewrite H. apply IHl. Qed.

Section Refine.
  Variable A : Type.
  Variables (a0 a1 : A) (aadd amul asub : A -> A -> A) (aopp : A -> A).
  Hypothesis Aring : ring_theory a0 a1 aadd amul asub aopp eq.
  Add Ring Ar2 : Aring.

  Notation sum := (sumA A a0 aadd).
  Notation dotA := (dot A a0 aadd amul).
  Notation matvecA := (matvec A a0 aadd amul).

  Lemma sum_map {X Y} (f : Y -> A) (g : X -> Y) l : sum f (map g l) = sum (fun x => f (g x)) l.
  Proof. induction l; simpl; [reflexivity|]. now rewrite IHl. Qed.

  Lemma sum_nth {X} (F : X -> A) (dflt : X) L :
    sum F L = sum (fun j => F (nth j L dflt)) (seq 0 (length L)).
  Proof.
    induction L as [|a L IH]; [reflexivity|].
    cbn [length seq]. rewrite <- seq_shift. simpl. rewrite sum_map. now rewrite IH.
  Qed.

  Lemma dot_spec x : forall r,
    dotA r x = sum (fun j => amul (nth j r a0) (nth j x a0)) (seq 0 (length x)).
  Proof.
    induction x as [|a x IH]; intros r.
    - unfold dot. destruct r; reflexivity.
    - cbn [length seq]. rewrite <- seq_shift. destruct r as [|b r].
      + unfold dot. simpl. rewrite sum_map.
        rewrite (sumA_ext A a0 aadd _ (fun _ => a0)).
        * rewrite (sumA_zero A a0 a1 aadd amul asub aopp Aring). ring.
        * intros j _. destruct j; ring.
      + unfold dot in *. simpl. rewrite sum_map. f_equal. apply IH.
  Qed.

  (* ---- the data of the semantics, read off the lists ---- *)
  Definition sem_psi (st : list A) : list Z -> A := fun v => nth (Z.to_nat (fock_index v)) st a0.

  Definition sem_T (k : nat) (Ts : list (list (list A))) (u u' : list Z) : A :=
    let n := Z.to_nat (sumZ u) in
    let L := sector k n in
    nth (posZ u' L) (nth (posZ u L) (nth n Ts []) []) a0.

  Definition steps (il : list (list (list Z))) (Ts : list (list (list A))) (st : list A)
    : list (list nat * list A) :=
    flat_map (fun p => map (fun col => (zposs col, matvecA (snd p) (gather a0 st (zposs col))))
                           (fst p))
             (combine il Ts).

  Lemma apply_as_writes il Ts st :
    apply_index_list A a0 aadd amul il Ts st
    = fold_left (wstep A) (steps il Ts st) (repeat a0 (length st)).
  Proof.
    unfold apply_index_list, steps. rewrite fold_left_flat_map.
    apply fold_left_ext_all. intros b p. rewrite fold_left_map. reflexivity.
  Qed.

  Lemma steps_positions il Ts st : length il = length Ts ->
    concat (map fst (steps il Ts st)) = map Z.to_nat (flatten3 il).
  Proof.
    intros H. unfold steps, flatten3.
    rewrite <- (map_fst_combine il Ts H) at 2.
    induction (combine il Ts) as [|p cl IH]; [reflexivity|].
    cbn [flat_map map concat]. rewrite map_app, !concat_app, map_app, IH. f_equal.
    rewrite map_map. cbn [fst]. rewrite concat_map. reflexivity.
  Qed.

  Lemma nth_map_lt {X Y} (f : X -> Y) l j dx dy : (j < length l)%nat ->
    nth j (map f l) dy = f (nth j l dx).
  Proof.
    intros H. rewrite (nth_indep _ dy (f dx)) by (now rewrite map_length). apply map_nth.
  Qed.

  Section Main.
    Variables (d : nat) (ms : list nat) (c : nat).
    Hypothesis Hok : modes_ok d ms.
    Let k := length ms.
    Let aux := aux_modes d ms.
    Variables (Ts : list (list (list A))) (st : list A).
    Hypothesis Hst : length st = length (basis d c).
    Hypothesis HTs : length Ts = c.
    Hypothesis Hrows : forall n, (n < c)%nat -> length (nth n Ts []) = length (sector k n).

    Let il := index_list_spec ms d c.
    Let colF (w : list Z) (n : nat) : list Z := map (fun u => fock_index (merge d ms u w)) (sector k n).

    Lemma il_length : length il = c.
    Proof. unfold il, index_list_spec. now rewrite map_length, seq_length. Qed.

    Lemma il_nth n : (n < c)%nat ->
      nth n il [] = map (fun w => colF w n) (basis (d - k) (c - n)).
    Proof.
      intros H. unfold il, index_list_spec. fold k.
      rewrite (nth_map_lt _ (seq 0 c) n 0%nat) by (now rewrite seq_length).
      now rewrite seq_nth.
    Qed.

    Lemma positions_perm :
      Permutation (map Z.to_nat (flatten3 il)) (seq 0 (length (basis d c))).
    Proof.
      pose proof (index_list_partition d ms Hok c) as H.
      rewrite (index_list_entry d ms Hok) in H. fold il in H.
      apply (Permutation_map Z.to_nat) in H. rewrite map_map in H.
      rewrite (map_ext _ (fun x => x)) in H by (intros; apply Nat2Z.id).
      now rewrite map_id in H.
    Qed.

    Lemma scatter_is_merge (v u' : list Z) :
      length v = d -> length u' = k -> scatter v ms u' = merge d ms u' (gz v aux).
    Proof.
      intros Hv Hu.
      rewrite <- (merge_buf d ms Hok v) by (auto; unfold gz; rewrite gather_length; now apply aux_modes_length).
      unfold gz. fold aux. now rewrite scatter_gather_id.
    Qed.

    Theorem apply_index_list_sem v : In v (basis d c) ->
      nth (Z.to_nat (fock_index v)) (apply_index_list A a0 aadd amul (index_list ms d c) Ts st) a0
      = gate_apply A a0 aadd amul ms (sem_T k Ts) (sem_psi st) v.
    Proof.
      intros Hv. rewrite (index_list_entry d ms Hok). fold il. rewrite apply_as_writes.
      apply basis_complete in Hv. destruct Hv as [V1 [V2 V3]].
      pose proof (modes_length_le d ms Hok) as Hkd. fold k in Hkd.
      pose proof (sum_split d ms v Hok V1) as Hs. fold aux in Hs.
      assert (Hlt : Forall (fun m => (m < length v)%nat) ms) by (rewrite V1; apply Hok).
      assert (Hlta : Forall (fun m => (m < length v)%nat) aux) by (rewrite V1; apply aux_modes_lt).
      assert (G1 : Forall (fun x => 0 <= x) (gz v ms)) by (now apply Forall_gather).
      assert (G2 : Forall (fun x => 0 <= x) (gz v aux)) by (now apply Forall_gather).
      pose proof (sumZ_nonneg _ G1) as S1. pose proof (sumZ_nonneg _ G2) as S2.
      set (u := gz v ms) in *. set (w := gz v aux) in *.
      set (n := Z.to_nat (sumZ u)).
      assert (Hn : (n < c)%nat) by lia.
      assert (Hu : In u (sector k n)).
      { apply sector_complete. repeat split; auto; [apply gather_length | lia]. }
      assert (Hw : In w (basis (d - k) (c - n))).
      { apply basis_complete. repeat split; auto; [|lia].
        unfold w, gz. rewrite gather_length. now apply aux_modes_length. }
      set (L := sector k n) in *.
      destruct (nth_posZ L u [] Hu) as [Hj1 Hj2]. set (j := posZ u L) in *.
      set (ps := zposs (colF w n)).
      set (vs := matvecA (nth n Ts []) (gather a0 st ps)).
      assert (Hlenps : length ps = length L).
      { unfold ps, zposs, colF. now rewrite !map_length. }
      assert (Hpsnth : forall j', (j' < length L)%nat ->
                nth j' ps 0%nat = Z.to_nat (fock_index (merge d ms (nth j' L []) w))).
      { intros j' Hj'. unfold ps, zposs, colF.
        rewrite (nth_map_lt Z.to_nat _ j' 0) by (now rewrite map_length).
        f_equal. now rewrite (nth_map_lt _ L j' []). }
      assert (Hmerge : forall u', length u' = k -> scatter v ms u' = merge d ms u' w).
      { intros u' Hu'. now apply scatter_is_merge. }
      assert (Hpos : nth j ps 0%nat = Z.to_nat (fock_index v)).
      { rewrite Hpsnth by exact Hj2. rewrite Hj1. f_equal. f_equal.
        unfold u, w. now apply merge_gather. }
      rewrite <- Hpos.
      rewrite (writes_lookup A (steps il Ts st) _ ps vs j a0).
      - (* the value written there is the semantic sum *)
        unfold vs.
        rewrite (nth_map_lt (fun r => dotA r (gather a0 st ps)) (nth n Ts []) j [])
          by (rewrite Hrows by exact Hn; exact Hj2).
        rewrite dot_spec, gather_length, Hlenps.
        unfold gate_apply. cbv zeta. fold k. fold u. fold n. fold L.
        rewrite (sum_nth _ [] L).
        apply sumA_ext. intros j' Hj'. apply in_seq in Hj'.
        assert (Hj'' : (j' < length L)%nat) by lia.
        assert (Hin' : In (nth j' L []) L) by (now apply nth_In).
        f_equal.
        + unfold sem_T. cbv zeta. fold n. fold L. fold j.
          now rewrite (posZ_nth L j' [] (sector_nodup k n) Hj'').
        + rewrite nth_gather by (rewrite Hlenps; exact Hj'').
          rewrite Hpsnth by exact Hj''. unfold sem_psi.
          rewrite Hmerge; [reflexivity|]. now apply (sector_len k n).
      - rewrite steps_positions by (now rewrite il_length).
        eapply Permutation_NoDup; [apply Permutation_sym, positions_perm | apply seq_NoDup].
      - intros s Hin. unfold steps in Hin. apply in_flat_map in Hin. destruct Hin as [p [Hp Hin]].
        apply in_map_iff in Hin. destruct Hin as [col [<- Hcol]]. cbn [fst snd].
        destruct (In_combine_inv [] [] il Ts p Hp) as [n' [H1 [H2 ->]]]. cbn [fst snd] in *.
        rewrite il_length in H1. rewrite il_nth in Hcol by exact H1.
        apply in_map_iff in Hcol. destruct Hcol as [w' [<- _]].
        unfold matvec, zposs, colF. rewrite !map_length. now apply Hrows.
      - intros i Hi. rewrite steps_positions in Hi by (now rewrite il_length).
        rewrite repeat_length, Hst.
        eapply Permutation_in in Hi; [|apply positions_perm]. apply in_seq in Hi. lia.
      - unfold steps. apply in_flat_map. exists (nth n il [], nth n Ts []). split.
        + apply In_combine_nth; [now rewrite il_length | now rewrite HTs].
        + cbn [fst snd]. apply in_map_iff. exists (colF w n). split; [reflexivity|].
          rewrite il_nth by exact Hn. apply in_map_iff. now exists w.
      - rewrite Hlenps. exact Hj2.
    Qed.
  End Main.
End Refine.
