(* C15 — algebra of the d x d tables of ClementsModel.v over a commutative ring with
   involution: finite sums, product, identity, adjoint/transpose/conjugate, the embedded
   2x2 and 1x1 blocks act as row / column operations. *)
From Coq Require Import List Arith Bool Lia Ring.
From PV Require Import C15.ClementsModel.
Import ListNotations.

Class RLaws {A : Type} (O : ROps A) := {
  rth : ring_theory r0 r1 radd rmul rsub ropp (@eq A);
  conj_add : forall x y, rconj (radd x y) = radd (rconj x) (rconj y);
  conj_mul : forall x y, rconj (rmul x y) = rmul (rconj x) (rconj y);
  conj_opp : forall x, rconj (ropp x) = ropp (rconj x);
  conj_inv : forall x, rconj (rconj x) = x;
  conj_0 : rconj r0 = r0;
  conj_1 : rconj r1 = r1 }.

Section Mat.
Context {A : Type} {O : ROps A} {L : RLaws O}.
Local Open Scope rng_scope.
Add Ring Aring : (rth (RLaws := L)).

Lemma conj_sub : forall x y : A, (x - y)^* = x^* - y^*.
Proof.
  intros. replace (x - y) with (x + - y) by ring.
  rewrite conj_add, conj_opp. ring.
Qed.

(* ---------------------------------------------------------------- tables *)
Lemma nth_map_seq : forall (B : Type) (g : nat -> B) d i def, (i < d)%nat ->
  nth i (map g (seq 0 d)) def = g i.
Proof.
  intros B g d i def Hi.
  rewrite nth_indep with (d' := g 0%nat) by (rewrite map_length, seq_length; lia).
  rewrite map_nth. rewrite seq_nth by lia. reflexivity.
Qed.

Lemma get_mk : forall d (f : nat -> nat -> A) i j, (i < d)%nat -> (j < d)%nat -> get (mk d f) i j = f i j.
Proof.
  intros d f i j Hi Hj. unfold get, mk.
  rewrite nth_map_seq by assumption. now rewrite nth_map_seq by assumption.
Qed.

Lemma mk_ext : forall d (f g : nat -> nat -> A),
  (forall i j, (i < d)%nat -> (j < d)%nat -> f i j = g i j) -> mk d f = mk d g.
Proof.
  intros d f g H. unfold mk. apply map_ext_in. intros i Hi.
  apply in_seq in Hi. apply map_ext_in. intros j Hj. apply in_seq in Hj.
  apply H; lia.
Qed.

(* a well-formed d x d table *)
Definition wf (d : nat) (M : mat A) : Prop := M = mk d (get M).

Lemma wf_mk : forall d (f : nat -> nat -> A), wf d (mk d f).
Proof. intros. unfold wf. apply mk_ext. intros. now rewrite get_mk. Qed.

Lemma wf_shape : forall d (M : mat A),
  length M = d -> (forall r, In r M -> length r = d) -> wf d M.
Proof.
  intros d M Hl Hr. unfold wf, mk.
  apply nth_ext with (d := []) (d' := []).
  - now rewrite map_length, seq_length.
  - intros i Hi. rewrite Hl in Hi. rewrite nth_map_seq by assumption.
    assert (Hlen : length (nth i M []) = d) by (apply Hr, nth_In; lia).
    apply nth_ext with (d := r0) (d' := r0).
    + now rewrite map_length, seq_length.
    + intros j Hj. rewrite Hlen in Hj. now rewrite nth_map_seq by assumption.
Qed.

Lemma wf_ext : forall d (M N : mat A), wf d M -> wf d N ->
  (forall i j, (i < d)%nat -> (j < d)%nat -> get M i j = get N i j) -> M = N.
Proof. intros d M N HM HN H. rewrite HM, HN. now apply mk_ext. Qed.

(* ---------------------------------------------------------------- finite sums *)
Lemma sumn_ext : forall n f g, (forall k, (k < n)%nat -> f k = g k) -> sumn n f = sumn n g.
Proof.
  induction n; intros f g H; simpl; [reflexivity|].
  rewrite (IHn f g) by (intros; apply H; lia). rewrite H by lia. reflexivity.
Qed.

Lemma sumn_zero : forall n f, (forall k, (k < n)%nat -> f k = r0) -> sumn n f = r0.
Proof.
  induction n; intros f H; simpl; [reflexivity|].
  rewrite IHn by (intros; apply H; lia). rewrite H by lia. ring.
Qed.

Lemma sumn_add : forall n f g, sumn n (fun k => f k + g k) = sumn n f + sumn n g.
Proof. induction n; intros; simpl; [ring|]. rewrite IHn. ring. Qed.

Lemma sumn_mul_l : forall n a f, sumn n (fun k => a * f k) = a * sumn n f.
Proof. induction n; intros; simpl; [ring|]. rewrite IHn. ring. Qed.

Lemma sumn_mul_r : forall n a f, sumn n (fun k => f k * a) = sumn n f * a.
Proof. induction n; intros; simpl; [ring|]. rewrite IHn. ring. Qed.

Lemma sumn_conj : forall n f, (sumn n f)^* = sumn n (fun k => (f k)^* ).
Proof. induction n; intros; simpl; [apply conj_0|]. rewrite conj_add, IHn. reflexivity. Qed.

Lemma sumn_swap : forall n m (f : nat -> nat -> A),
  sumn n (fun i => sumn m (fun j => f i j)) = sumn m (fun j => sumn n (fun i => f i j)).
Proof.
  induction n; intros; simpl.
  - symmetry. apply sumn_zero. reflexivity.
  - rewrite IHn. rewrite <- sumn_add. reflexivity.
Qed.

(* split one index off *)
Lemma sumn_split : forall n i f, (i < n)%nat ->
  sumn n f = f i + sumn n (fun k => if (k =? i)%nat then r0 else f k).
Proof.
  induction n; intros i f Hi; [lia|]. simpl.
  destruct (Nat.eq_dec i n) as [->|Hne].
  - rewrite Nat.eqb_refl.
    rewrite (sumn_ext n (fun k => if (k =? n)%nat then r0 else f k) f).
    + ring.
    + intros k Hk. destruct (Nat.eqb_spec k n); [lia|reflexivity].
  - rewrite (IHn i f) by lia.
    destruct (Nat.eqb_spec n i); [lia|]. ring.
Qed.

(* a sum whose terms vanish outside {i} / {i, j} *)
Lemma sumn_one : forall n i f, (i < n)%nat ->
  (forall k, (k < n)%nat -> k <> i -> f k = r0) -> sumn n f = f i.
Proof.
  intros n i f Hi H. rewrite (sumn_split n i f Hi).
  rewrite sumn_zero; [ring|].
  intros k Hk. destruct (Nat.eqb_spec k i); [reflexivity|]. now apply H.
Qed.

Lemma sumn_two : forall n i j f, (i < n)%nat -> (j < n)%nat -> i <> j ->
  (forall k, (k < n)%nat -> k <> i -> k <> j -> f k = r0) -> sumn n f = f i + f j.
Proof.
  intros n i j f Hi Hj Hij H. rewrite (sumn_split n i f Hi).
  rewrite (sumn_one n j) by
    (try assumption; intros k Hk Hkj; destruct (Nat.eqb_spec k i); try reflexivity; now apply H).
  destruct (Nat.eqb_spec j i); [lia|]. reflexivity.
Qed.

(* ---------------------------------------------------------------- product *)
Lemma get_mmul : forall d X Y i j, (i < d)%nat -> (j < d)%nat ->
  get (mmul d X Y) i j = sumn d (fun k => get X i k * get Y k j).
Proof. intros. unfold mmul. now rewrite get_mk. Qed.

Lemma wf_mmul : forall d X Y, wf d (mmul d X Y).
Proof. intros. apply wf_mk. Qed.

Lemma mmul_assoc : forall d X Y Z, mmul d (mmul d X Y) Z = mmul d X (mmul d Y Z).
Proof.
  intros. unfold mmul at 1 3. apply mk_ext. intros i j Hi Hj.
  rewrite (sumn_ext d _ (fun k => sumn d (fun l => get X i l * get Y l k * get Z k j))).
  2:{ intros k Hk. rewrite get_mmul by assumption. rewrite <- sumn_mul_r. reflexivity. }
  rewrite sumn_swap. apply sumn_ext. intros l Hl.
  rewrite get_mmul by assumption. rewrite <- sumn_mul_l.
  apply sumn_ext. intros. ring.
Qed.

Lemma get_mid : forall d i j, (i < d)%nat -> (j < d)%nat ->
  get (mid d) i j = if (i =? j)%nat then r1 else r0.
Proof. intros. unfold mid. now rewrite get_mk. Qed.

Lemma mmul_id_l : forall d X, wf d X -> mmul d (mid d) X = X.
Proof.
  intros d X HX. rewrite HX at 2. unfold mmul. apply mk_ext. intros i j Hi Hj.
  rewrite (sumn_one d i) by
    (try assumption; intros k Hk Hki; rewrite get_mid by assumption;
     destruct (Nat.eqb_spec i k); try lia; ring).
  rewrite get_mid, Nat.eqb_refl by assumption. ring.
Qed.

Lemma mmul_id_r : forall d X, wf d X -> mmul d X (mid d) = X.
Proof.
  intros d X HX. rewrite HX at 2. unfold mmul. apply mk_ext. intros i j Hi Hj.
  rewrite (sumn_one d j) by
    (try assumption; intros k Hk Hkj; rewrite get_mid by assumption;
     destruct (Nat.eqb_spec k j); try lia; ring).
  rewrite get_mid, Nat.eqb_refl by assumption. ring.
Qed.

(* ---------------------------------------------------------------- adjoint, transpose, conj *)
Lemma get_madj : forall d M i j, (i < d)%nat -> (j < d)%nat ->
  get (madj d M) i j = (get M j i)^*.
Proof. intros. unfold madj. now rewrite get_mk. Qed.
Lemma get_mtr : forall d M i j, (i < d)%nat -> (j < d)%nat -> get (mtr d M) i j = get M j i.
Proof. intros. unfold mtr. now rewrite get_mk. Qed.
Lemma get_mconj : forall d M i j, (i < d)%nat -> (j < d)%nat ->
  get (mconj d M) i j = (get M i j)^*.
Proof. intros. unfold mconj. now rewrite get_mk. Qed.

Lemma madj_mmul : forall d X Y, madj d (mmul d X Y) = mmul d (madj d Y) (madj d X).
Proof.
  intros. unfold madj at 1. unfold mmul at 2. apply mk_ext. intros i j Hi Hj.
  rewrite get_mmul by assumption. rewrite sumn_conj. apply sumn_ext. intros k Hk.
  rewrite !get_madj by assumption. rewrite conj_mul. ring.
Qed.

Lemma mtr_mmul : forall d X Y, mtr d (mmul d X Y) = mmul d (mtr d Y) (mtr d X).
Proof.
  intros. unfold mtr at 1. unfold mmul at 2. apply mk_ext. intros i j Hi Hj.
  rewrite get_mmul by assumption. apply sumn_ext. intros k Hk.
  rewrite !get_mtr by assumption. ring.
Qed.

Lemma mconj_mmul : forall d X Y, mconj d (mmul d X Y) = mmul d (mconj d X) (mconj d Y).
Proof.
  intros. unfold mconj at 1. unfold mmul at 2. apply mk_ext. intros i j Hi Hj.
  rewrite get_mmul by assumption. rewrite sumn_conj. apply sumn_ext. intros k Hk.
  rewrite !get_mconj by assumption. now rewrite conj_mul.
Qed.

Lemma madj_madj : forall d X, wf d X -> madj d (madj d X) = X.
Proof.
  intros d X HX. rewrite HX at 2. unfold madj at 1. apply mk_ext. intros.
  rewrite get_madj by assumption. apply conj_inv.
Qed.
Lemma mtr_mtr : forall d X, wf d X -> mtr d (mtr d X) = X.
Proof.
  intros d X HX. rewrite HX at 2. unfold mtr at 1. apply mk_ext. intros.
  now rewrite get_mtr by assumption.
Qed.
Lemma mconj_mconj : forall d X, wf d X -> mconj d (mconj d X) = X.
Proof.
  intros d X HX. rewrite HX at 2. unfold mconj at 1. apply mk_ext. intros.
  rewrite get_mconj by assumption. apply conj_inv.
Qed.
Lemma madj_tr_conj : forall d X, madj d X = mtr d (mconj d X).
Proof.
  intros. unfold madj, mtr. apply mk_ext. intros. now rewrite get_mconj by assumption.
Qed.
Lemma madj_conj_tr : forall d X, madj d X = mconj d (mtr d X).
Proof.
  intros. unfold madj, mconj. apply mk_ext. intros. now rewrite get_mtr by assumption.
Qed.
Lemma mtr_mconj : forall d X, mtr d (mconj d X) = mconj d (mtr d X).
Proof. intros. now rewrite <- madj_tr_conj, madj_conj_tr. Qed.

Lemma madj_mid : forall d, madj d (mid d) = mid d.
Proof.
  intros. unfold madj, mid at 2. apply mk_ext. intros i j Hi Hj.
  rewrite get_mid by assumption. rewrite (Nat.eqb_sym j i).
  destruct (i =? j)%nat; [apply conj_1|apply conj_0].
Qed.
Lemma mtr_mid : forall d, mtr d (mid d) = mid d.
Proof.
  intros. unfold mtr, mid at 2. apply mk_ext. intros i j Hi Hj.
  rewrite get_mid by assumption. now rewrite (Nat.eqb_sym j i).
Qed.
Lemma mconj_mid : forall d, mconj d (mid d) = mid d.
Proof.
  intros. unfold mconj, mid at 2. apply mk_ext. intros i j Hi Hj.
  rewrite get_mid by assumption. destruct (i =? j)%nat; [apply conj_1|apply conj_0].
Qed.

(* ---------------------------------------------------------------- embedded blocks *)
Lemma get_emb2 : forall d i j a b c e r k, (r < d)%nat -> (k < d)%nat ->
  get (emb2 d i j a b c e) r k =
    if (r =? i)%nat && (k =? i)%nat then a
    else if (r =? i)%nat && (k =? j)%nat then b
    else if (r =? j)%nat && (k =? i)%nat then c
    else if (r =? j)%nat && (k =? j)%nat then e
    else if (r =? k)%nat then r1 else r0.
Proof. intros. unfold emb2. now rewrite get_mk. Qed.

Ltac eqb_cases :=
  repeat match goal with
  | |- context [(?x =? ?y)%nat] => destruct (Nat.eqb_spec x y); try lia; simpl
  end.

(* left multiplication by an embedded block is a row operation *)
Lemma emb2_mul_l : forall d i j a b c e U r k,
  (i < d)%nat -> (j < d)%nat -> i <> j -> (r < d)%nat -> (k < d)%nat ->
  get (mmul d (emb2 d i j a b c e) U) r k =
    if (r =? i)%nat then a * get U i k + b * get U j k
    else if (r =? j)%nat then c * get U i k + e * get U j k
    else get U r k.
Proof.
  intros d i j a b c e U r k Hi Hj Hij Hr Hk.
  rewrite get_mmul by assumption.
  destruct (Nat.eqb_spec r i) as [->|Hri]; [|destruct (Nat.eqb_spec r j) as [->|Hrj]].
  - rewrite (sumn_two d i j) by
      (try assumption; intros q Hq Hqi Hqj; rewrite get_emb2 by assumption;
       eqb_cases; ring).
    rewrite !get_emb2 by assumption. eqb_cases; ring.
  - rewrite (sumn_two d i j) by
      (try assumption; intros q Hq Hqi Hqj; rewrite get_emb2 by assumption;
       eqb_cases; ring).
    rewrite !get_emb2 by assumption. eqb_cases; ring.
  - rewrite (sumn_one d r) by
      (try assumption; intros q Hq Hqr; rewrite get_emb2 by assumption;
       eqb_cases; ring).
    rewrite get_emb2 by assumption. eqb_cases; ring.
Qed.

(* right multiplication is a column operation *)
Lemma emb2_mul_r : forall d i j a b c e U r k,
  (i < d)%nat -> (j < d)%nat -> i <> j -> (r < d)%nat -> (k < d)%nat ->
  get (mmul d U (emb2 d i j a b c e)) r k =
    if (k =? i)%nat then get U r i * a + get U r j * c
    else if (k =? j)%nat then get U r i * b + get U r j * e
    else get U r k.
Proof.
  intros d i j a b c e U r k Hi Hj Hij Hr Hk.
  rewrite get_mmul by assumption.
  destruct (Nat.eqb_spec k i) as [->|Hki]; [|destruct (Nat.eqb_spec k j) as [->|Hkj]].
  - rewrite (sumn_two d i j) by
      (try assumption; intros q Hq Hqi Hqj; rewrite get_emb2 by assumption;
       eqb_cases; ring).
    rewrite !get_emb2 by assumption. eqb_cases; ring.
  - rewrite (sumn_two d i j) by
      (try assumption; intros q Hq Hqi Hqj; rewrite get_emb2 by assumption;
       eqb_cases; ring).
    rewrite !get_emb2 by assumption. eqb_cases; ring.
  - rewrite (sumn_one d k) by
      (try assumption; intros q Hq Hqr; rewrite get_emb2 by assumption;
       eqb_cases; ring).
    rewrite get_emb2 by assumption. eqb_cases; ring.
Qed.

Lemma emb2_id : forall d i j, emb2 d i j r1 r0 r0 r1 = mid d.
Proof.
  intros. unfold emb2, mid. apply mk_ext. intros r k Hr Hk. eqb_cases; reflexivity.
Qed.

(* product of two blocks on the same pair of modes *)
Lemma emb2_mul : forall d i j a b c e a' b' c' e',
  (i < d)%nat -> (j < d)%nat -> i <> j ->
  mmul d (emb2 d i j a b c e) (emb2 d i j a' b' c' e') =
  emb2 d i j (a * a' + b * c') (a * b' + b * e') (c * a' + e * c') (c * b' + e * e').
Proof.
  intros. apply wf_ext with (d := d); [apply wf_mmul|apply wf_mk|].
  intros r k Hr Hk. rewrite emb2_mul_l by assumption.
  rewrite !get_emb2 by assumption. eqb_cases; ring.
Qed.

Lemma madj_emb2 : forall d i j a b c e, i <> j ->
  madj d (emb2 d i j a b c e) = emb2 d i j a^* c^* b^* e^*.
Proof.
  intros. unfold madj. unfold emb2 at 2. apply mk_ext. intros r k Hr Hk.
  rewrite get_emb2 by assumption.
  eqb_cases; try reflexivity; try apply conj_1; try apply conj_0.
Qed.

Lemma get_emb1 : forall d m a r k, (r < d)%nat -> (k < d)%nat ->
  get (emb1 d m a) r k =
    if (r =? m)%nat && (k =? m)%nat then a else if (r =? k)%nat then r1 else r0.
Proof. intros. unfold emb1. now rewrite get_mk. Qed.

Lemma emb1_mul_l : forall d m a U r k, (m < d)%nat -> (r < d)%nat -> (k < d)%nat ->
  get (mmul d (emb1 d m a) U) r k = if (r =? m)%nat then a * get U m k else get U r k.
Proof.
  intros d m a U r k Hm Hr Hk. rewrite get_mmul by assumption.
  rewrite (sumn_one d r) by
    (try assumption; intros q Hq Hqr; rewrite get_emb1 by assumption; eqb_cases; ring).
  rewrite get_emb1 by assumption. destruct (Nat.eqb_spec r m) as [->|Hrm]; eqb_cases; ring.
Qed.

(* diagonal matrices *)
Lemma get_mdiag : forall d v i j, (i < d)%nat -> (j < d)%nat ->
  get (mdiag d v) i j = if (i =? j)%nat then nth i v r0 else r0.
Proof. intros. unfold mdiag. now rewrite get_mk. Qed.

Lemma mdiag_mul_l : forall d v U r k, (r < d)%nat -> (k < d)%nat ->
  get (mmul d (mdiag d v) U) r k = nth r v r0 * get U r k.
Proof.
  intros d v U r k Hr Hk. rewrite get_mmul by assumption.
  rewrite (sumn_one d r) by
    (try assumption; intros q Hq Hqr; rewrite get_mdiag by assumption; eqb_cases; ring).
  rewrite get_mdiag by assumption. now rewrite Nat.eqb_refl.
Qed.

Lemma mdiag_mul_r : forall d v U r k, (r < d)%nat -> (k < d)%nat ->
  get (mmul d U (mdiag d v)) r k = get U r k * nth k v r0.
Proof.
  intros d v U r k Hr Hk. rewrite get_mmul by assumption.
  rewrite (sumn_one d k) by
    (try assumption; intros q Hq Hqr; rewrite get_mdiag by assumption; eqb_cases; ring).
  rewrite get_mdiag by assumption. now rewrite Nat.eqb_refl.
Qed.

(* list update *)
Lemma nth_upd : forall (l : list A) i x k,
  nth k (upd l i x) r0 = if (k =? i)%nat then (if (i <? length l)%nat then x else r0) else nth k l r0.
Proof.
  induction l; intros i x k; simpl.
  - destruct k, i; simpl; try reflexivity. destruct (k =? i)%nat; reflexivity.
  - destruct i; simpl.
    + destruct k; reflexivity.
    + destruct k; simpl; [reflexivity|]. rewrite IHl.
      change (S i <? S (length l))%nat with (i <? length l)%nat. reflexivity.
Qed.

Lemma upd_length : forall (l : list A) i x, length (upd l i x) = length l.
Proof. induction l; intros; simpl; [reflexivity|]. destruct i; simpl; [reflexivity|]. now rewrite IHl. Qed.

(* ---------------------------------------------------------------- unitarity *)
Definition unitary (d : nat) (M : mat A) : Prop :=
  wf d M /\ mmul d (madj d M) M = mid d /\ mmul d M (madj d M) = mid d.

Lemma wf_mid : forall d, wf d (mid d).
Proof. intros. apply wf_mk. Qed.
Lemma wf_madj : forall d M, wf d (madj d M).
Proof. intros. apply wf_mk. Qed.

Lemma unitary_mid : forall d, unitary d (mid d).
Proof.
  intros. split; [apply wf_mid|]. rewrite madj_mid.
  split; apply mmul_id_l, wf_mid.
Qed.

Lemma unitary_mmul : forall d X Y, unitary d X -> unitary d Y -> unitary d (mmul d X Y).
Proof.
  intros d X Y (HX & HX1 & HX2) (HY & HY1 & HY2). split; [apply wf_mmul|].
  rewrite madj_mmul. split.
  - rewrite mmul_assoc, <- (mmul_assoc d (madj d X)), HX1, mmul_id_l by assumption. exact HY1.
  - rewrite mmul_assoc, <- (mmul_assoc d Y), HY2, mmul_id_l by apply wf_madj. exact HX2.
Qed.

Lemma unitary_madj : forall d X, unitary d X -> unitary d (madj d X).
Proof.
  intros d X (HX & HX1 & HX2). split; [apply wf_madj|].
  rewrite madj_madj by assumption. split; assumption.
Qed.

End Mat.

Ltac eqb_cases :=
  repeat match goal with
  | |- context [(?x =? ?y)%nat] => destruct (Nat.eqb_spec x y); try lia; simpl
  end.
