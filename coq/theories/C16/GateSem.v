(* C16 - what applying an operator "on modes ms" means, in any commutative ring, and the
   two laws of the property: equivariance under relabelling and commutation on disjoint
   mode sets.

   Fock simulators (passive_linear.py:_calculate_state_vector_after_interferometer through the
   index list): the new amplitude of an occupation vector v is
       sum over u' in the particle-number sector of v|ms of  T (v|ms) u' * psi (v[ms := u'])
   (sector-preserving by construction: only the block of the same particle number is used).
   Gaussian mean vector (gaussian/simulation_steps.py:_apply_passive_linear:
   m[modes] = T @ m[modes]) and the passive interferometer (embedded @ interferometer, column by
   column): x[ms] := M (x[ms]). *)
From Coq Require Import ZArith List Bool Lia Permutation Ring.
From PV Require Import Comb.FockModel Comb.FockProofs C16.IndexModel C16.IndexProofs.
Import ListNotations.
Open Scope Z_scope.

(* ------------------------------------------------------------------ more gather/scatter *)
Lemma upd_upd_comm {X} (l : list X) : forall i j x y, i <> j ->
  upd (upd l i x) j y = upd (upd l j y) i x.
Proof.
  induction l as [|a l IH]; intros [|i] [|j] x y H; simpl; auto; try congruence.
  f_equal. apply IH. congruence.
Qed.

Lemma scatter_upd_comm {X} ms : forall (l vals : list X) j y, ~ In j ms ->
  scatter (upd l j y) ms vals = upd (scatter l ms vals) j y.
Proof.
  induction ms as [|m ms IH]; intros l vals j y H; [reflexivity|].
  destruct vals as [|x vals]; [reflexivity|].
  rewrite !scatter_cons. rewrite <- IH by (simpl in H; tauto). f_equal.
  apply upd_upd_comm. simpl in H. intros ->. tauto.
Qed.

Lemma scatter_scatter_comm {X} m2 : forall (l : list X) m1 u1 u2,
  (forall m, In m m2 -> ~ In m m1) ->
  scatter (scatter l m1 u1) m2 u2 = scatter (scatter l m2 u2) m1 u1.
Proof.
  induction m2 as [|m m2 IH]; intros l m1 u1 u2 H; [reflexivity|].
  destruct u2 as [|x u2]; [now rewrite !scatter_nil_r|].
  rewrite !scatter_cons. rewrite <- scatter_upd_comm by (apply H; now left).
  apply IH. intros m' Hm'. apply H. now right.
Qed.

Lemma gather_gather {X} (dflt : X) (v : list X) (p : list nat) ms' :
  Forall (fun m => (m < length p)%nat) ms' ->
  gather dflt (gather dflt v p) ms' = gather dflt v (map (fun m' => nth m' p 0%nat) ms').
Proof.
  intros H. unfold gather at 1 3. rewrite map_map. apply map_ext_in. intros m Hm.
  rewrite Forall_forall in H. apply nth_gather. now apply H.
Qed.

(* a relabelling is given by the list p of old positions: (relabel p v)[i] = v[p[i]] *)
Definition is_perm (d : nat) (p : list nat) : Prop := Permutation p (seq 0 d).

Lemma is_perm_facts d p : is_perm d p ->
  length p = d /\ NoDup p /\ Forall (fun m => (m < d)%nat) p.
Proof.
  intros H. split; [|split].
  - apply Permutation_length in H. now rewrite seq_length in H.
  - eapply Permutation_NoDup; [apply Permutation_sym, H | apply seq_NoDup].
  - rewrite Forall_forall. intros x Hx. eapply Permutation_in in Hx; [|exact H].
    apply in_seq in Hx. lia.
Qed.

(* the modes addressed in the old labelling, when ms' is addressed in the new one *)
Definition old_modes (p : list nat) (ms' : list nat) : list nat := map (fun m' => nth m' p 0%nat) ms'.

Lemma old_modes_ok d p ms' : is_perm d p -> modes_ok d ms' -> modes_ok d (old_modes p ms').
Proof.
  intros Hp [Hnd Hlt]. destruct (is_perm_facts d p Hp) as [Hl [Hpn Hpl]].
  rewrite Forall_forall in Hlt, Hpl. split.
  - apply NoDup_map_in; auto. intros x y Hx Hy E.
    apply (proj1 (NoDup_nth p 0%nat) Hpn); auto; rewrite Hl; auto.
  - rewrite Forall_forall. intros x Hx. apply in_map_iff in Hx. destruct Hx as [m [<- Hm]].
    apply Hpl. apply nth_In. rewrite Hl. auto.
Qed.

Lemma scatter_relabel {X} (dflt : X) d p ms' (v u : list X) :
  is_perm d p -> modes_ok d ms' -> length v = d -> length u = length ms' ->
  scatter (gather dflt v p) ms' u = gather dflt (scatter v (old_modes p ms') u) p.
Proof.
  intros Hp Hok Hv Hu. destruct (is_perm_facts d p Hp) as [Hl [Hpn Hpl]].
  pose proof (old_modes_ok d p ms' Hp Hok) as [Hond Holt].
  destruct Hok as [Hnd Hlt].
  apply (nth_ext _ _ dflt dflt).
  - now rewrite scatter_length, !gather_length.
  - intros i Hi. rewrite scatter_length, gather_length, Hl in Hi.
    rewrite (nth_gather dflt (scatter v (old_modes p ms') u) p i) by lia.
    destruct (in_dec Nat.eq_dec i ms') as [Hin|Hnin].
    + destruct (In_nth _ _ 0%nat Hin) as [j [Hj Hij]]. subst i.
      rewrite nth_scatter_in; auto; [|rewrite gather_length; lia].
      replace (nth (nth j ms' 0%nat) p 0%nat) with (nth j (old_modes p ms') 0%nat).
      * rewrite nth_scatter_in; auto.
        -- unfold old_modes. now rewrite map_length.
        -- unfold old_modes. now rewrite map_length.
        -- rewrite Hv. rewrite Forall_forall in Holt. apply Holt. apply nth_In.
           unfold old_modes. now rewrite map_length.
      * unfold old_modes.
        rewrite (nth_indep _ 0%nat ((fun m' => nth m' p 0%nat) 0%nat)) by (now rewrite map_length).
        apply (map_nth (fun m' => nth m' p 0%nat)).
    + rewrite nth_scatter_notin by assumption.
      rewrite nth_gather by lia.
      rewrite nth_scatter_notin; [reflexivity|].
      intros Hc. unfold old_modes in Hc. apply in_map_iff in Hc. destruct Hc as [m [E Hm]].
      rewrite Forall_forall in Hlt.
      assert (m = i).
      { apply (proj1 (NoDup_nth p 0%nat) Hpn); auto; rewrite Hl; auto. }
      subst. tauto.
Qed.

(* ------------------------------------------------------------------ the ring part *)
Section Sem.
  Variable A : Type.
  Variables (a0 a1 : A) (aadd amul asub : A -> A -> A) (aopp : A -> A).
  Hypothesis Aring : ring_theory a0 a1 aadd amul asub aopp eq.
  Add Ring Ar : Aring.

  Definition sumA {X} (f : X -> A) (l : list X) : A :=
    fold_right (fun x acc => aadd (f x) acc) a0 l.

  Lemma sumA_ext {X} (f g : X -> A) l : (forall x, In x l -> f x = g x) -> sumA f l = sumA g l.
  Proof.
    induction l as [|a l IH]; intros H; simpl; [reflexivity|].
    rewrite H by (now left). rewrite IH; [reflexivity|]. intros x Hx. apply H. now right.
  Qed.

  Lemma sumA_zero {X} (l : list X) : sumA (fun _ => a0) l = a0.
  Proof. induction l; simpl; [reflexivity|]. rewrite IHl. ring. Qed.

  Lemma sumA_add {X} (f g : X -> A) l :
    sumA (fun x => aadd (f x) (g x)) l = aadd (sumA f l) (sumA g l).
  Proof. induction l; simpl; [ring|]. rewrite IHl. ring. Qed.

  Lemma sumA_mul_l {X} c (f : X -> A) l : amul c (sumA f l) = sumA (fun x => amul c (f x)) l.
  Proof. induction l; simpl; [ring|]. rewrite <- IHl. ring. Qed.

  Lemma sumA_swap {X Y} (F : X -> Y -> A) la lb :
    sumA (fun a => sumA (fun b => F a b) lb) la = sumA (fun b => sumA (fun a => F a b) la) lb.
  Proof.
    induction la as [|a la IH]; simpl.
    - now rewrite sumA_zero.
    - rewrite IH. now rewrite sumA_add.
  Qed.

  (* ---------------- Fock: state = amplitude of every occupation vector ---------------- *)
  Definition state := list Z -> A.

  Definition gate_apply (ms : list nat) (T : list Z -> list Z -> A) (psi : state) : state :=
    fun v =>
      let u := gz v ms in
      sumA (fun u' => amul (T u u') (psi (scatter v ms u')))
           (sector (length ms) (Z.to_nat (sumZ u))).

  (* DISJOINT GATES COMMUTE (Fock, sector-preserving operators, any ring): no condition on
     the order of the modes inside each tuple, nor on v *)
  Theorem gate_apply_commute m1 m2 T1 T2 psi v :
    (forall m, In m m1 -> ~ In m m2) ->
    gate_apply m1 T1 (gate_apply m2 T2 psi) v = gate_apply m2 T2 (gate_apply m1 T1 psi) v.
  Proof.
    intros Hd.
    assert (Hd' : forall m, In m m2 -> ~ In m m1) by (intros m H2 H1; exact (Hd m H1 H2)).
    unfold gate_apply.
    transitivity (sumA (fun u1 => sumA (fun u2 =>
        amul (amul (T1 (gz v m1) u1) (T2 (gz v m2) u2)) (psi (scatter (scatter v m1 u1) m2 u2)))
        (sector (length m2) (Z.to_nat (sumZ (gz v m2)))))
        (sector (length m1) (Z.to_nat (sumZ (gz v m1))))).
    - apply sumA_ext. intros u1 _. cbv zeta.
      assert (E : gz (scatter v m1 u1) m2 = gz v m2)
        by (unfold gz; apply gather_scatter_other; exact Hd').
      rewrite E. rewrite sumA_mul_l. apply sumA_ext. intros u2 _. ring.
    - rewrite sumA_swap. apply sumA_ext. intros u2 _. cbv zeta.
      assert (E : gz (scatter v m2 u2) m1 = gz v m1)
        by (unfold gz; apply gather_scatter_other; exact Hd).
      rewrite E. rewrite sumA_mul_l. apply sumA_ext. intros u1 _.
      rewrite (scatter_scatter_comm m2 v m1 u1 u2) by exact Hd'. ring.
  Qed.

  (* RELABELLING (Fock): if psi' is psi with relabelled modes, then applying T on the
     relabelled modes gives the relabelled result *)
  Theorem gate_apply_equivariant d p ms' T (psi psi' : state) :
    is_perm d p -> modes_ok d ms' ->
    (forall v, length v = d -> psi' (gz v p) = psi v) ->
    forall v, length v = d ->
      gate_apply ms' T psi' (gz v p) = gate_apply (old_modes p ms') T psi v.
  Proof.
    intros Hp Hok Hpsi v Hv. destruct (is_perm_facts d p Hp) as [Hl [Hpn Hpl]].
    unfold gate_apply. cbv zeta.
    assert (E : gz (gz v p) ms' = gz v (old_modes p ms')).
    { unfold gz. apply gather_gather. rewrite Hl. apply Hok. }
    rewrite E.
    replace (length (old_modes p ms')) with (length ms') by (unfold old_modes; now rewrite map_length).
    apply sumA_ext. intros u' Hu'. f_equal.
    assert (Hlen : length u' = length ms') by (now apply sector_len in Hu').
    unfold gz. rewrite (scatter_relabel 0 d p ms' v u') by assumption.
    apply Hpsi. now rewrite scatter_length.
  Qed.

  (* ---------------- Gaussian mean / passive interferometer columns ---------------- *)
  Definition vec_apply (ms : list nat) (M : list (list A)) (x : list A) : list A :=
    scatter x ms (matvec A a0 aadd amul M (gather a0 x ms)).

  Theorem vec_apply_commute m1 m2 M1 M2 x :
    (forall m, In m m1 -> ~ In m m2) ->
    vec_apply m1 M1 (vec_apply m2 M2 x) = vec_apply m2 M2 (vec_apply m1 M1 x).
  Proof.
    intros Hd.
    assert (Hd' : forall m, In m m2 -> ~ In m m1) by (intros m H2 H1; exact (Hd m H1 H2)).
    unfold vec_apply.
    rewrite (gather_scatter_other a0 m2 m1) by exact Hd.
    rewrite (gather_scatter_other a0 m1 m2) by exact Hd'.
    symmetry. apply scatter_scatter_comm. exact Hd'.
  Qed.

  Lemma matvec_length M x : length (matvec A a0 aadd amul M x) = length M.
  Proof. unfold matvec. apply map_length. Qed.

  Theorem vec_apply_equivariant d p ms' M x :
    is_perm d p -> modes_ok d ms' -> length x = d -> length M = length ms' ->
    vec_apply ms' M (gather a0 x p) = gather a0 (vec_apply (old_modes p ms') M x) p.
  Proof.
    intros Hp Hok Hx HM. destruct (is_perm_facts d p Hp) as [Hl [Hpn Hpl]].
    unfold vec_apply.
    rewrite gather_gather by (rewrite Hl; apply Hok). fold (old_modes p ms').
    apply (scatter_relabel a0 d); auto. now rewrite matvec_length.
  Qed.

  (* matrices as lists of columns: embedded @ U acts on every column *)
  Definition cols_apply (ms : list nat) (M : list (list A)) (U : list (list A)) : list (list A) :=
    map (vec_apply ms M) U.

  Corollary cols_apply_commute m1 m2 M1 M2 U :
    (forall m, In m m1 -> ~ In m m2) ->
    cols_apply m1 M1 (cols_apply m2 M2 U) = cols_apply m2 M2 (cols_apply m1 M1 U).
  Proof.
    intros Hd. unfold cols_apply. rewrite !map_map. apply map_ext. intros x.
    now apply vec_apply_commute.
  Qed.
End Sem.
