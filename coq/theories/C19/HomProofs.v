(* C19 — program-level proofs: the encoding is a homomorphism on the code space (induction over
   the instruction list, measurements and conditioned blocks included), outcome tuples decode to
   the qubit answers, and the cx program is H.CZ.H. *)
From Coq Require Import ZArith QArith List Bool Arith Ring Lia FunctionalExtensionality.
From PV Require Import C19.DRBase C19.EncodeGen C19.DRModel C19.DRProofs.
Import ListNotations.
Open Scope nat_scope.

Section Hom.
  Context {A : Type} (O : ops A).
  Hypothesis Rth : ring_theory (o0 O) (o1 O) (oadd O) (omul O)
                     (fun x y => oadd O x (oopp O y)) (oopp O) (@eq A).
  Local Arguments Nat.mul : simpl never.
  Local Arguments Nat.add : simpl never.
  Local Arguments Nat.div : simpl never.
  Local Arguments Nat.even : simpl never.
  Local Arguments Nat.odd : simpl never.

  Definition with_cond (cnd : option (nat * bool)) (l : list (@pop A)) : list (@pinstr A) :=
    map (fun p => mkpi p cnd) l.

  Lemma run_p_block_true : forall l cnd rest os outs psi psi',
    cond_met outs cnd = Some true -> run_ops O l psi = Some psi' ->
    run_p O (with_cond cnd l ++ rest) os outs psi = run_p O rest os outs psi'.
  Proof.
    induction l as [ | a r IH]; intros cnd rest os outs psi psi' Hc Hr; simpl in *.
    - inversion Hr; reflexivity.
    - rewrite Hc. destruct (pop_apply O a psi) as [psi1 | ] eqn:E; simpl in Hr; [ | discriminate].
      destruct a as [mo phi | m1 m2 th ph | | ]; simpl; simpl in E; try discriminate.
      + inversion E; subst. apply IH; assumption.
      + match type of E with (if ?b then _ else _) = _ => destruct b eqn:Ev end; [ | discriminate].
        inversion E; subst. simpl. apply IH; assumption.
  Qed.

  Lemma run_p_block_false : forall l cnd rest os outs psi,
    cond_met outs cnd = Some false ->
    run_p O (with_cond cnd l ++ rest) os outs psi = run_p O rest os outs psi.
  Proof.
    induction l as [ | a r IH]; intros cnd rest os outs psi Hc; simpl in *; [reflexivity | ].
    rewrite Hc. apply IH; assumption.
  Qed.

  Lemma outs_inv_step : forall m outs cr (o : bool),
    outs_inv m outs cr ->
    outs_inv (S m) (outs ++ (if o then [0; 1] else [1; 0])) (upd cr m o).
  Proof.
    intros m outs cr o [HL HC]. split.
    - rewrite app_length, HL. destruct o; simpl; lia.
    - intros j v Hj. unfold cond_met, upd.
      destruct (Nat.eq_dec j m) as [-> | Hne].
      + rewrite Nat.eqb_refl.
        rewrite !nth_error_app2 by lia.
        replace (2 * m - length outs) with 0 by lia.
        replace (2 * m + 1 - length outs) with 1 by lia.
        destruct o; reflexivity.
      + assert (j < m) by lia.
        replace (j =? m) with false by (symmetry; apply Nat.eqb_neq; assumption).
        rewrite !nth_error_app1 by lia.
        specialize (HC j v H). unfold cond_met in HC. exact HC.
  Qed.

  Lemma encode_measure : forall k1 k2 q,
    instantiate O [2 * q; 2 * q + 1] (ksyms k1 k2) emitted_measure = Some [PMeasure (2 * q) (2 * q + 1)].
  Proof. intros; reflexivity. Qed.

  Theorem encode_homomorphism : encode_homomorphism_statement O.
  Proof.
    unfold encode_homomorphism_statement.
    intros k1 k2 n p; induction p as [ | o r IH]; intros m idx Hwf.
    - exists []; split; [reflexivity | intros; reflexivity].
    - destruct o as [g q | a b | c t | q c | c v q body]; simpl in Hwf; try contradiction.
      + (* gate *)
        destruct (encoded_gate_acts O Rth q g) as [l1 [E1 R1]].
        destruct (IH m idx Hwf) as [l2 [E2 R2]].
        exists (plain l1 ++ l2); split.
        * simpl. rewrite E1; simpl. rewrite E2; reflexivity.
        * intros os outs cr psi Hinv. simpl.
          change (plain l1) with (with_cond None l1).
          rewrite (run_p_block_true l1 None l2 os outs psi _ eq_refl (R1 psi)).
          apply R2; assumption.
      + (* measurement *)
        destruct Hwf as [-> Hwf].
        destruct (IH (S m) idx Hwf) as [l2 [E2 R2]].
        exists (plain [PMeasure (2 * q) (2 * q + 1)] ++ l2); split.
        * simpl. rewrite E2; reflexivity.
        * intros os outs cr psi Hinv. simpl.
          rewrite even_2q, Nat.eqb_refl, div2_even. simpl.
          destruct os as [ | ob os']; [reflexivity | ].
          apply R2. apply outs_inv_step; assumption.
      + (* conditioned block *)
        destruct Hwf as [Hc Hwf].
        destruct (encode_gates_acts O Rth q body) as [l1 [E1 R1]].
        destruct (IH m idx Hwf) as [l2 [E2 R2]].
        exists (conditioned (c, v) l1 ++ l2); split.
        * simpl. rewrite E1; simpl. rewrite E2; reflexivity.
        * intros os outs cr psi Hinv. simpl.
          change (conditioned (c, v) l1) with (with_cond (Some (c, v)) l1).
          pose proof (proj2 Hinv c v Hc) as Hcm.
          destruct (Bool.eqb (cr c) v).
          -- rewrite (run_p_block_true l1 _ l2 os outs psi _ Hcm (R1 psi)). apply R2; assumption.
          -- rewrite (run_p_block_false l1 _ l2 os outs psi Hcm). apply R2; assumption.
  Qed.

  (* the outcome tuple of the photonic run decodes, through get_bosonic_qubit_samples, to the
     answers of the qubit measurements *)
  Definition enc_outcomes (os : list bool) : list nat :=
    flat_map (fun o : bool => if o then [0; 1] else [1; 0]) os.
  Lemma decode_enc_outcomes : forall os, decode_tuple (enc_outcomes os) = Some os.
  Proof.
    induction os as [ | o r IH]; [reflexivity | ].
    unfold enc_outcomes in *. simpl. destruct o; simpl; rewrite IH; reflexivity.
  Qed.
  Lemma samples_enc_outcomes : forall o os,
    get_bosonic_qubit_samples [enc_outcomes (o :: os)] = Some [o :: os].
  Proof.
    intros o os. unfold get_bosonic_qubit_samples.
    assert (L : length (enc_outcomes (o :: os)) = 2 + length (enc_outcomes os))
      by (unfold enc_outcomes; simpl; destruct o; reflexivity).
    assert (E : existsb (fun t : list nat => negb (length t / 2 =? 0)) [enc_outcomes (o :: os)] = true).
    { cbn [existsb]. rewrite L.
      replace ((2 + length (enc_outcomes os)) / 2 =? 0) with false; [reflexivity | ].
      symmetry. apply Nat.eqb_neq. intro H. apply Nat.div_small_iff in H; lia. }
    rewrite E. cbn [decode_all]. rewrite decode_enc_outcomes. reflexivity.
  Qed.
End Hom.

Section CX.
  Context {A : Type} (O : ops A).
  Hypothesis Rth : ring_theory (o0 O) (o1 O) (oadd O) (omul O)
                     (fun x y => oadd O x (oopp O y)) (oopp O) (@eq A).
  Add Ring Aring3 : Rth.
  Hypothesis Hhh : oadd O (omul O (ohh O) (ohh O)) (omul O (ohh O) (ohh O)) = o1 O.
  Local Arguments Nat.mul : simpl never.
  Local Arguments Nat.add : simpl never.

  (* (a) the list emitted for cx is: the h list on the target pair, the cz list on the two |1> rails
         and the ancillas, the h list again — for all modes and all angle symbols *)
  Theorem emitted_cx_is_h_cz_h : forall (S : @syms A) m0 m1 m2 m3 m4 m5,
    instantiate O [m0; m1; m2; m3; m4; m5] S emitted_cx =
    opt_bind (instantiate O [m2; m3] S emitted_h) (fun lh =>
    opt_bind (instantiate O [m1; m3; m4; m5] S emitted_cz) (fun lz => Some (lh ++ lz ++ lh))).
  Proof. intros. reflexivity. Qed.

  Lemma getb_setb_other : forall q q' x b, q <> q' -> getb (setb x q b) q' = getb x q'.
  Proof.
    unfold getb. induction q as [ | q IH]; intros q' x b H.
    - destruct q' as [ | q']; [congruence | ]. destruct x; simpl; [destruct q'; reflexivity | reflexivity].
    - destruct q' as [ | q']; destruct x; simpl; try reflexivity.
      + rewrite IH by congruence. destruct q'; reflexivity.
      + apply IH; congruence.
  Qed.
  Lemma setb_getb_id : forall q x, q < length x -> setb x q (getb x q) = x.
  Proof.
    unfold getb. induction q; destruct x; simpl; intros; try lia; f_equal. apply IHq. lia.
  Qed.

  (* (b) H.CZ.H = CX on qubit states, pointwise on bit strings containing the target *)
  Theorem h_cz_h_is_cx : forall c t psi x, c <> t -> t < length x ->
    apply1 O t (gate_matrix O GH) (apply_cz O c t (apply1 O t (gate_matrix O GH) psi)) x = apply_cx c t psi x.
  Proof.
    intros c t psi x Hct Hlen.
    unfold apply1, apply_cz, apply_cx, gate_matrix.
    rewrite !getb_setb_same, !setb_setb, !(getb_setb_other t c) by congruence.
    destruct (psi (setb x t false)) as [a0 b0] eqn:E0. destruct (psi (setb x t true)) as [a1 b1] eqn:E1.
    assert (HH : forall u : A, omul O (oadd O (omul O (ohh O) (ohh O)) (omul O (ohh O) (ohh O))) u = u)
      by (intro u; rewrite Hhh; ring).
    destruct (getb x c) eqn:Ec, (getb x t) eqn:Et; simpl.
    all: rewrite ?E0, ?E1.
    all: try (rewrite <- (setb_getb_id t x Hlen) at 1; rewrite Et, ?E0, ?E1).
    all: unfold cadd, cmul, copp, cre; simpl.
    all: apply cplx_eq.
    all: match goal with |- _ = ?u =>
           transitivity (omul O (oadd O (omul O (ohh O) (ohh O)) (omul O (ohh O) (ohh O))) u); [ring | apply HH] end.
  Qed.

  (* (c) what the encoder emits for cx(c,t) with ancillas a0,a1 is: [h on t] ++ [exactly what it emits
         for cz(c,t) with the same ancillas] ++ [h on t]; the h part acts as H on qubit t on every
         code state; and H.CZ.H = CX (b).  So wherever the cz block acts as apply_cz (theorem 3: up to
         the scalar sqrt 6/9 and, for the rounded angles, 1e-4), the cx program acts as apply_cx. *)
  Theorem encoded_cx_is_h_cz_h : forall k1 k2 c t a0 a1,
    exists lh lz,
      instantiate O ([2 * c; 2 * c + 1; 2 * t; 2 * t + 1] ++ [a0; a1]) (ksyms k1 k2) emitted_cx = Some (lh ++ lz ++ lh) /\
      instantiate O ([2 * c + 1; 2 * t + 1] ++ [a0; a1]) (ksyms k1 k2) emitted_cz = Some lz /\
      (forall psi, run_ops O lh psi = Some (apply1 O t (gate_matrix O GH) psi)).
  Proof.
    intros k1 k2 c t a0 a1.
    destruct (encoded_gate_acts O Rth t GH) as [lh [Eh Rh]].
    assert (Eh' : instantiate O [2 * t; 2 * t + 1] (ksyms k1 k2) emitted_h = Some lh) by exact Eh.
    simpl app. rewrite emitted_cx_is_h_cz_h, Eh'. simpl opt_bind.
    eexists lh, _. split; [ | split; [reflexivity | exact Rh]].
    reflexivity.
  Qed.
End CX.
