(* C05 - the uniform-overlap mixture formula over an arbitrary commutative ring:
   overlap 1 reproduces indistinguishable bosons, overlap 0 classical particles; and the
   regrouping lemma behind "marginal = sum of the table". *)
From Coq Require Import ZArith List Arith Lia Ring Bool.
From PV Require Import Comb.FockModel C05.PassiveModel.
Import ListNotations.
Local Open Scope nat_scope.

Section MixtureProofs.
  Variable A : Type.
  Variables (a0 a1 : A) (aadd amul asub : A -> A -> A) (aopp : A -> A).
  Hypothesis Aring : ring_theory a0 a1 aadd amul asub aopp (@eq A).
  Add Ring Aring : Aring.
  Variable is0 : A -> bool.
  Hypothesis is0_sound : forall a, is0 a = true -> a = a0.

  Infix "+!" := aadd (at level 50, left associativity).
  Infix "*!" := amul (at level 40, left associativity).
  Notation asum := (asum A a0 aadd).
  Notation aprod := (aprod A a1 amul).
  Notation of_nat := (of_nat A a0 a1 aadd).
  Notation apow := (apow A a1 amul).
  Notation w1 := (w1 A a0 a1 aadd amul asub).
  Notation wu := (wu A a0 a1 aadd amul asub).
  Notation input_norm := (input_norm A a0 a1 aadd amul asub).
  Notation lazy_mul := (lazy_mul A a0 amul is0).

  Lemma lazy_mul_eq a f : lazy_mul a f = a *! f tt.
  Proof.
    unfold PassiveModel.lazy_mul. destruct (is0 a) eqn:E; [| reflexivity].
    rewrite (is0_sound _ E). ring.
  Qed.

  Lemma apow_zero n : apow a0 (S n) = a0.
  Proof. simpl. ring. Qed.

  Lemma apow_one n : apow a1 n = a1.
  Proof. induction n; simpl; [reflexivity | rewrite IHn; ring]. Qed.

  Lemma asum_zero {X} (f : X -> A) l : (forall x, In x l -> f x = a0) -> asum (map f l) = a0.
  Proof.
    induction l as [| x l IH]; simpl; intros H; [reflexivity |].
    rewrite H by (now left). rewrite IH by (intros; apply H; now right). ring.
  Qed.

  Lemma asum_app l1 l2 : asum (l1 ++ l2) = asum l1 +! asum l2.
  Proof. induction l1; simpl; [ring | rewrite IHl1; ring]. Qed.

  Lemma binom_nat_diag n : binom_nat n n = 1.
  Proof.
    assert (H : forall n k, n < k -> binom_nat n k = 0).
    { induction n0 as [| n0 IH]; intros [| k] Hk; simpl; try lia; auto.
      rewrite !IH by lia. reflexivity. }
    induction n as [| n IH]; simpl; [reflexivity |]. rewrite IH, H by lia. reflexivity.
  Qed.

  Lemma of_nat_1 : of_nat 1 = a1.
  Proof. unfold PassiveModel.of_nat. simpl. ring. Qed.

  (* ---- weights at overlap one: only k = n survives, with weight n! *)
  Lemma w1_one_lt n k : k < n -> w1 a1 n k = a0.
  Proof.
    intros H. unfold PassiveModel.w1. replace (asub a1 a1) with a0 by ring.
    destruct (n - k) as [| j] eqn:E; [lia |]. rewrite apow_zero. ring.
  Qed.
  Lemma w1_one_diag n : w1 a1 n n = of_nat (Z.to_nat (fact_nat n)).
  Proof.
    unfold PassiveModel.w1. rewrite binom_nat_diag, of_nat_1, apow_one, Nat.sub_diag. simpl. ring.
  Qed.
  (* ---- weights at overlap zero: only k = 0 survives, with weight 1 *)
  Lemma w1_zero_pos n k : 0 < k -> w1 a0 n k = a0.
  Proof.
    intros H. unfold PassiveModel.w1. destruct k as [| j]; [lia |]. rewrite apow_zero. ring.
  Qed.
  Lemma w1_zero_0 n : w1 a0 n 0 = a1.
  Proof.
    unfold PassiveModel.w1. replace (asub a1 a0) with a1 by ring. rewrite apow_one.
    assert (binom_nat n 0 = 1) as -> by (destruct n; reflexivity).
    rewrite of_nat_1. simpl. unfold PassiveModel.of_nat. simpl. ring.
  Qed.

  (* a sum over 0..n of g(k) x H(k) where g vanishes except at one index *)
  Lemma asum_single (g H : nat -> A) n j : j <= n ->
    (forall k, k <= n -> k <> j -> g k = a0) ->
    asum (map (fun k => g k *! H k) (seq 0 (S n))) = g j *! H j.
  Proof.
    intros Hj Hz.
    assert (Hsplit : seq 0 (S n) = seq 0 j ++ [j] ++ seq (S j) (n - j)).
    { replace (S n) with (j + S (n - j)) by lia. rewrite seq_app. simpl. reflexivity. }
    rewrite Hsplit, !map_app, !asum_app. simpl.
    rewrite (asum_zero (fun k => g k *! H k)).
    - rewrite (asum_zero (fun k => g k *! H k)); [ring |].
      intros k Hk. apply in_seq in Hk. rewrite Hz by lia. ring.
    - intros k Hk. apply in_seq in Hk. rewrite Hz by lia. ring.
  Qed.

  Definition nonneg (s : list Z) : Prop := Forall (fun x => (0 <= x)%Z) s.

  (* sum over all k <= s of (prod_j g(s_j, k_j)) x F(k), when g(n, .) is supported on one
     index sel(n) <= n:  = (prod_j g(s_j, sel s_j)) x F(map sel s) *)
  Lemma below_single (g : nat -> nat -> A) (sel : nat -> nat) :
    (forall n, sel n <= n) ->
    (forall n k, k <= n -> k <> sel n -> g n k = a0) ->
    forall s, nonneg s -> forall F : list Z -> A,
    asum (map (fun k => aprod (map (fun p => g (Z.to_nat (fst p)) (Z.to_nat (snd p))) (combine s k)) *! F k)
              (below s))
    = aprod (map (fun n => g (Z.to_nat n) (sel (Z.to_nat n))) s)
      *! F (map (fun n => Z.of_nat (sel (Z.to_nat n))) s).
  Proof.
    intros Hsel Hz. induction 1 as [| n s Hn Hs IH]; intros F.
    - simpl. ring.
    - cbn [below]. rewrite flat_map_concat_map.
      (* sum over the concatenation = sum over k0 of the inner sums *)
      assert (Hcc : forall (ll : list (list (list Z))) (f : list Z -> A),
                 asum (map f (concat ll)) = asum (map (fun l => asum (map f l)) ll)).
      { induction ll as [| l ll IHl]; intros f; simpl; [reflexivity |].
        rewrite map_app, asum_app, IHl. reflexivity. }
      rewrite Hcc, map_map.
      set (N := Z.to_nat n).
      transitivity (asum (map (fun k0 => g N k0 *!
           (aprod (map (fun n0 => g (Z.to_nat n0) (sel (Z.to_nat n0))) s)
            *! F (Z.of_nat k0 :: map (fun n0 => Z.of_nat (sel (Z.to_nat n0))) s))) (seq 0 (S N)))).
      + f_equal. apply map_ext. intros k0. rewrite map_map.
        rewrite <- (IH (fun k => F (Z.of_nat k0 :: k))).
        (* pull the head factor out of every term *)
        assert (Hpull : forall (l : list (list Z)) (c : A) (h : list Z -> A),
                  asum (map (fun k => c *! h k) l) = c *! asum (map h l)).
        { induction l as [| x l IHl]; intros c h; simpl; [ring | rewrite IHl; ring]. }
        rewrite <- Hpull. f_equal. apply map_ext. intros k. cbn [combine map aprod fold_right fst snd].
        unfold N. rewrite Nat2Z.id.
        unfold PassiveModel.aprod. cbn [fold_right]. ring.
      + rewrite (asum_single (g N) _ N (sel N)); auto.
        * cbn [map aprod]. unfold PassiveModel.aprod. cbn [fold_right]. fold N. ring.
  Qed.

  Variables Pind Pcl : list Z -> list Z -> A.
  Notation conv := (conv A a0 aadd amul is0 Pind Pcl).
  Notation mix_num := (mix_num A a0 a1 aadd amul asub is0 Pind Pcl).

  Lemma mix_num_unfold x s t :
    mix_num x s t = asum (map (fun k => wu x s k *! conv s k t) (below s)).
  Proof.
    unfold PassiveModel.mix_num. f_equal. apply map_ext. intros k. apply lazy_mul_eq.
  Qed.

  Lemma map_of_nat_to_nat s : nonneg s -> map (fun n => Z.of_nat (Z.to_nat n)) s = s.
  Proof. induction 1; simpl; [reflexivity |]. rewrite Z2Nat.id by assumption. congruence. Qed.

  Lemma input_norm_single x (g := w1 x) (sel : nat -> nat) s :
    (forall n, sel n <= n) -> (forall n k, k <= n -> k <> sel n -> g n k = a0) ->
    input_norm x s = aprod (map (fun n => g (Z.to_nat n) (sel (Z.to_nat n))) s).
  Proof.
    intros Hsel Hz. unfold PassiveModel.input_norm. f_equal. apply map_ext. intros n.
    pose proof (asum_single (g (Z.to_nat n)) (fun _ => a1) (Z.to_nat n) (sel (Z.to_nat n)) (Hsel _)
                  (Hz (Z.to_nat n))) as H.
    transitivity (asum (map (fun k => g (Z.to_nat n) k *! a1) (seq 0 (S (Z.to_nat n))))).
    - f_equal. apply map_ext. intros k. unfold g. ring.
    - rewrite H. ring.
  Qed.

  (* overlap one: the numerator is  Z_in x conv(s, s, t) ... *)
  Theorem mix_num_overlap_one s t : nonneg s ->
    mix_num a1 s t = input_norm a1 s *! conv s s t.
  Proof.
    intros Hs. rewrite mix_num_unfold. unfold PassiveModel.wu.
    rewrite (below_single (w1 a1) (fun n => n)); auto.
    - rewrite (input_norm_single a1 (fun n => n)); auto.
      + rewrite map_of_nat_to_nat by assumption. reflexivity.
      + intros n k Hk Hne. apply w1_one_lt. lia.
    - intros n k Hk Hne. apply w1_one_lt. lia.
  Qed.

  (* overlap zero: the numerator is  Z_in x conv(s, 0, t) *)
  Theorem mix_num_overlap_zero s t : nonneg s ->
    mix_num a0 s t = input_norm a0 s *! conv s (map (fun _ => 0%Z) s) t.
  Proof.
    intros Hs. rewrite mix_num_unfold. unfold PassiveModel.wu.
    rewrite (below_single (w1 a0) (fun _ => 0)); auto; try lia.
    - rewrite (input_norm_single a0 (fun _ => 0)); auto; try lia.
      intros n k Hk Hne. apply w1_zero_pos. lia.
    - intros n k Hk Hne. apply w1_zero_pos. lia.
  Qed.

  (* ---- marginal = sum of the table: regrouping a finite table by a projection.
     ys lists every projected key exactly once *)
  Lemma asum_pull (l : list A) : forall c, asum (map (fun v => c *! v) l) = c *! asum l.
  Proof. induction l as [| x l IH]; intros c; simpl; [ring | rewrite IH; ring]. Qed.

  Lemma asum_cons a l : asum (a :: l) = a +! asum l.
  Proof. reflexivity. Qed.
  Lemma filter_cons_eq {X} (p : X -> bool) x l :
    filter p (x :: l) = if p x then x :: filter p l else filter p l.
  Proof. reflexivity. Qed.

  Theorem regroup_by_projection {X Y} (eqb : Y -> Y -> bool)
          (eqb_spec : forall a b, eqb a b = true <-> a = b)
          (proj : X -> Y) (f : X -> A) (ys : list Y) (l : list X) :
    NoDup ys -> (forall x, In x l -> In (proj x) ys) ->
    asum (map (fun y => asum (map f (filter (fun x => eqb (proj x) y) l))) ys)
    = asum (map f l).
  Proof.
    intros Hnd. induction l as [| x l IH]; intros Hin.
    - simpl. apply asum_zero. reflexivity.
    - rewrite map_cons, asum_cons. rewrite <- IH by (intros; apply Hin; now right).
      assert (Hx : In (proj x) ys) by (apply Hin; now left).
      clear IH Hin. revert Hx. induction Hnd as [| y ys Hy Hys IHys]; intros Hx; [destruct Hx |].
      rewrite !map_cons, !asum_cons. rewrite filter_cons_eq.
      destruct (eqb (proj x) y) eqn:E.
      + apply eqb_spec in E. subst y. rewrite map_cons, asum_cons.
        assert (Hrest : asum (map (fun y => asum (map f (filter (fun x0 => eqb (proj x0) y) (x :: l)))) ys)
                        = asum (map (fun y => asum (map f (filter (fun x0 => eqb (proj x0) y) l))) ys)).
        { f_equal. apply map_ext_in. intros y Hyin. rewrite filter_cons_eq.
          destruct (eqb (proj x) y) eqn:E'; [| reflexivity].
          apply eqb_spec in E'. subst. contradiction. }
        rewrite Hrest. ring.
      + destruct Hx as [-> | Hx].
        * assert (eqb (proj x) (proj x) = true) by (now apply eqb_spec). congruence.
        * rewrite IHys by assumption. ring.
  Qed.
  (* ---- collapse of the convolution when one species has no particles ---- *)
  Definition forallb2 (e : Z -> Z -> bool) (t t1 : list Z) : bool :=
    forallb (fun p => e (fst p) (snd p)) (combine t t1).
  Definition ind (b : bool) : A := if b then a1 else a0.

  Lemma asum_concat {X} (f : X -> A) : forall ll : list (list X),
    asum (map f (concat ll)) = asum (map (fun l => asum (map f l)) ll).
  Proof.
    induction ll as [| l ll IHl]; simpl; [reflexivity |].
    rewrite map_app, asum_app, IHl. reflexivity.
  Qed.

  Lemma below_pointwise (e : Z -> Z -> bool) (sel : nat -> nat) :
    (forall n, sel n <= n) ->
    (forall n k, k <= n -> (e (Z.of_nat n) (Z.of_nat k) = true <-> k = sel n)) ->
    forall t, nonneg t -> forall H : list Z -> A,
    asum (map (fun t1 => ind (forallb2 e t t1) *! H t1) (below t))
    = H (map (fun n => Z.of_nat (sel (Z.to_nat n))) t).
  Proof.
    intros Hsel He. induction 1 as [| n t Hn Ht IH]; intros H.
    - simpl. unfold ind. ring.
    - cbn [below]. rewrite flat_map_concat_map, asum_concat, map_map.
      set (N := Z.to_nat n).
      assert (HnN : n = Z.of_nat N) by (unfold N; rewrite Z2Nat.id; auto).
      transitivity (asum (map (fun k0 => ind (e n (Z.of_nat k0)) *!
            H (Z.of_nat k0 :: map (fun n0 => Z.of_nat (sel (Z.to_nat n0))) t)) (seq 0 (S N)))).
      + f_equal. apply map_ext. intros k0. rewrite map_map.
        rewrite <- (IH (fun t1 => H (Z.of_nat k0 :: t1))).
        rewrite <- asum_pull, map_map. f_equal. apply map_ext. intros t1.
        unfold forallb2. cbn [combine forallb fst snd].
        destruct (e n (Z.of_nat k0)); unfold ind; cbn [andb]; ring.
      + rewrite (asum_single (fun k0 => ind (e n (Z.of_nat k0))) _ N (sel N)); auto.
        * assert (e n (Z.of_nat (sel N)) = true) as ->.
          { rewrite HnN. apply He; auto. }
          cbn [map]. fold N. unfold ind. ring.
        * intros k Hk Hne. destruct (e n (Z.of_nat k)) eqn:E; [| reflexivity].
          rewrite HnN in E. apply He in E; auto; contradiction.
  Qed.

  Definition zeros (s : list Z) : list Z := map (fun _ => 0%Z) s.

  Lemma zl_eq_vsub_zeros : forall t t1 s, length t1 = length t -> length s = length t ->
    zl_eq (vsub t t1) (zeros s) = forallb2 (fun a b => Z.eqb (a - b) 0) t t1.
  Proof.
    unfold zl_eq, vsub, zeros, forallb2.
    induction t as [| a t IH]; intros [| b t1] [| c s] H1 H2; simpl in *; try lia; try reflexivity.
    f_equal. apply IH; lia.
  Qed.

  Lemma zl_eq_zeros : forall t t1 s, length t1 = length t -> length s = length t ->
    zl_eq t1 (zeros s) = forallb2 (fun _ b => Z.eqb b 0) t t1.
  Proof.
    unfold zl_eq, zeros, forallb2.
    induction t as [| a t IH]; intros [| b t1] [| c s] H1 H2; simpl in *; try lia; try reflexivity.
    f_equal. apply IH; lia.
  Qed.

  Lemma below_length t : forall t1, In t1 (below t) -> length t1 = length t.
  Proof.
    induction t as [| n t IH]; intros t1 H.
    - simpl in H. destruct H as [<- | []]. reflexivity.
    - cbn [below] in H. apply in_flat_map in H. destruct H as [k [_ H]]. apply in_map_iff in H.
      destruct H as [r [<- Hr]]. simpl. f_equal. now apply IH.
  Qed.

  Lemma vsub_self s : vsub s s = zeros s.
  Proof.
    unfold vsub, zeros. induction s as [| x s IH]; simpl; [reflexivity |].
    rewrite IH. f_equal. lia.
  Qed.
  Lemma vsub_zeros s t : length s = length t -> vsub t (zeros s) = t.
  Proof.
    unfold vsub, zeros. revert s. induction t as [| x t IH]; intros [| y s] Hl; simpl in *; try lia; try reflexivity.
    rewrite IH by lia. f_equal. lia.
  Qed.

  (* no particles in, nothing out (with probability one): facts about pind / pcl *)
  Hypothesis Pcl_vacuum : forall s t, length t = length s ->
    Pcl (zeros s) t = ind (zl_eq t (zeros s)).
  Hypothesis Pind_vacuum : forall s t, length t = length s ->
    Pind (zeros s) t = ind (zl_eq t (zeros s)).

  Lemma conv_unfold s k t :
    conv s k t = asum (map (fun t1 => Pcl (vsub s k) (vsub t t1) *! Pind k t1) (below t)).
  Proof.
    unfold PassiveModel.conv. f_equal. apply map_ext. intros t1. apply lazy_mul_eq.
  Qed.

  Lemma vsub_length a b : length b = length a -> length (vsub a b) = length a.
  Proof. intros H. unfold vsub. rewrite map_length, combine_length. lia. Qed.

  Theorem overlap_one_is_indistinguishable s t : nonneg s -> nonneg t -> length t = length s ->
    mix_num a1 s t = input_norm a1 s *! Pind s t.
  Proof.
    intros Hs Ht Hl. rewrite mix_num_overlap_one by assumption. f_equal.
    rewrite conv_unfold, vsub_self.
    transitivity (asum (map (fun t1 => ind (forallb2 (fun a b => Z.eqb (a - b) 0) t t1) *! Pind s t1) (below t))).
    - f_equal. apply map_ext_in. intros t1 Hin. pose proof (below_length t t1 Hin) as Hl1.
      rewrite Pcl_vacuum by (rewrite vsub_length; lia).
      rewrite zl_eq_vsub_zeros by lia. reflexivity.
    - rewrite (below_pointwise _ (fun n => n)); auto.
      + rewrite map_of_nat_to_nat by assumption. reflexivity.
      + intros n k Hk. rewrite Z.eqb_eq. lia.
  Qed.

  Theorem overlap_zero_is_classical s t : nonneg s -> nonneg t -> length t = length s ->
    mix_num a0 s t = input_norm a0 s *! Pcl s t.
  Proof.
    intros Hs Ht Hl. rewrite mix_num_overlap_zero by assumption. f_equal.
    fold (zeros s). rewrite conv_unfold, vsub_zeros by reflexivity.
    transitivity (asum (map (fun t1 => ind (forallb2 (fun _ b => Z.eqb b 0) t t1) *! Pcl s (vsub t t1)) (below t))).
    - f_equal. apply map_ext_in. intros t1 Hin. pose proof (below_length t t1 Hin) as Hl1.
      rewrite Pind_vacuum by lia. rewrite (zl_eq_zeros t) by lia. ring.
    - rewrite (below_pointwise _ (fun _ => 0));
        [ | intros; lia | intros n k Hk; rewrite Z.eqb_eq; lia | assumption ].
      assert (E : map (fun n => Z.of_nat 0) t = zeros t) by reflexivity.
      cbn beta. rewrite E, vsub_zeros by reflexivity. reflexivity.
  Qed.
End MixtureProofs.
