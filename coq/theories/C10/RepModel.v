(* C10 — model of the interferometer representation on the Fock space and of its gradient.

   piquasso/_simulators/connectors/numpy_/interferometer.py:calculate_interferometer_on_fock_space
        -> rep_next, rep_chain      (one particle-number sector from the previous one)
   piquasso/_simulators/fock/pure/simulation_steps/passive_linear.py:
        _calculate_subspace_grad                          -> grad_next
        _calculate_interferometer_gradient_on_fock_space  -> grad_chain, interferometer_gradient

   The helper tables of calculate_interferometer_helper_indices are *inputs* of both functions
   (index tables and two tables of square roots); the model takes them as arbitrary tables over
   the ring, the division by sqrt_first_occupation_numbers[k] being a multiplication by a
   supplied inverse [isf k].  Definitions only. *)
From Coq Require Import List Arith Bool.
From PV Require Import C10.Alg.
Import ListNotations.

Record rtab (T : Type) : Type := mkRtab {
  rdim : nat;                 (* sqrt_occupation_numbers.shape[0] : dimension of the sector *)
  rd : nat;                   (* sqrt_occupation_numbers.shape[1] : number of modes *)
  rsi : nat -> nat -> nat;    (* subspace_indices[i, j] *)
  rfnz : nat -> nat;          (* first_nonzero_indices[k] *)
  rfs : nat -> nat;           (* first_subspace_indices[k] *)
  rw : nat -> nat -> T;       (* sqrt_occupation_numbers[i, j] *)
  risf : nat -> T             (* 1 / sqrt_first_occupation_numbers[k] *)
}.
Arguments mkRtab {T}. Arguments rdim {T}. Arguments rd {T}. Arguments rsi {T}.
Arguments rfnz {T}. Arguments rfs {T}. Arguments rw {T}. Arguments risf {T}.

Section Rep.
  Context {T : Type} (O : Ops T).
  Definition rmat := nat -> nat -> T.

  (* representation[k, i] = sum_j (U[fnz k, j] / sf k) * w[i, j] * prev[fs k, si[i, j]] *)
  Definition rep_next (U : rmat) (t : rtab T) (prev : rmat) : rmat :=
    fun k i => sum_map O (fun j =>
      omul O (omul O (omul O (U (rfnz t k) j) (risf t k)) (rw t i j)) (prev (rfs t k) (rsi t i j)))
      (seq 0 (rd t)).

  (* subspace_representations[2:], starting from subspace_representations[1] = U *)
  Fixpoint rep_chain (U prev : rmat) (tabs : list (rtab T)) : list rmat :=
    match tabs with
    | [] => []
    | t :: ts => let R := rep_next U t prev in R :: rep_chain U R ts
    end.

  (* _calculate_subspace_grad *)
  Definition grad_next (U : rmat) (t : rtab T) (row col : nat) (prevR prevG : rmat) : rmat :=
    fun idx jdx =>
      omul O
        (oadd O
          (if rfnz t idx =? row
           then omul O (prevR (rfs t idx) (rsi t jdx col)) (rw t jdx col) else o0 O)
          (sum_map O (fun k =>
             omul O (omul O (rw t jdx k) (U (rfnz t idx) k)) (prevG (rfs t idx) (rsi t jdx k)))
             (seq 0 (rd t))))
        (risf t idx).

  Definition unit_mat (row col : nat) : rmat :=
    fun a b => if (a =? row) && (b =? col) then o1 O else o0 O.

  Fixpoint grad_chain (U : rmat) (row col : nat) (prevR prevG : rmat) (tabs : list (rtab T))
    : list rmat :=
    match tabs with
    | [] => []
    | t :: ts => let G := grad_next U t row col prevR prevG in
                 G :: grad_chain U row col (rep_next U t prevR) G ts
    end.

  (* full_kl_grad[row][col] + one_particle_term[row][col]; ups = upstream[2:], up1 = upstream[1] *)
  Definition interferometer_gradient (U : rmat) (tabs : list (rtab T)) (up1 : rmat)
      (ups : list rmat) (row col : nat) : T :=
    oadd O
      (sum_map O (fun tgu =>
          let t := fst (fst tgu) in let G := snd (fst tgu) in let up := snd tgu in
          sum_map O (fun i => sum_map O (fun j => omul O (up i j) (oconj O (G i j)))
                                        (seq 0 (rdim t))) (seq 0 (rdim t)))
        (combine (combine tabs (grad_chain U row col U (unit_mat row col) tabs)) ups))
      (up1 row col).
End Rep.

(* tables are constants of the differentiation *)
Definition rtab_dual {T} (O : Ops T) (t : rtab T) : rtab (T * T) :=
  mkRtab (rdim t) (rd t) (rsi t) (rfnz t) (rfs t)
         (fun i j => dconst O (rw t i j)) (fun k => dconst O (risf t k)).

(* d/dU[row,col] of the chain of representations *)
Definition D_rep_chain {T} (O : Ops T) (U : nat -> nat -> T) (row col : nat) (tabs : list (rtab T))
  : list (nat -> nat -> T * T) :=
  let UD := fun a b => (U a b, unit_mat O row col a b) in
  rep_chain (dualOps O) UD UD (map (rtab_dual O) tabs).

(* tables from lists (cases files) *)
Definition rtab_of_lists {T} (O : Ops T) (si : list (list nat)) (fnz fs : list nat)
    (w : list (list T)) (isf : list T) : rtab T :=
  mkRtab (length w) (length (hd [] w))
         (fun i j => nth j (nth i si []) 0) (fun k => nth k fnz 0) (fun k => nth k fs 0)
         (fun i j => nth j (nth i w []) (o0 O)) (fun k => nth k isf (o0 O)).
