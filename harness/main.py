import argparse
import importlib
import os
import sys

sys.path.insert(0, os.path.dirname(os.path.abspath(__file__)))


def main():
    ap = argparse.ArgumentParser()
    ap.add_argument("prop")
    ap.add_argument("--tier", default=os.environ.get("VERIF_TIER", "quick"))
    ap.add_argument("--replay", default=None)
    ap.add_argument("--seed", default=None)
    a = ap.parse_args()
    mod = importlib.import_module("props.%s" % a.prop.lower())
    from common import Check

    chk = Check(a.prop.upper(), tier=a.tier, seed=a.seed)
    if a.replay:
        chk.replay_path = a.replay
        if hasattr(mod, "replay"):
            return mod.replay(chk, a.replay)
    mod.run(chk)


main()
