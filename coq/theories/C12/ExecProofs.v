(* C12 - proofs about the executor model (ExecModel.v). *)
From Coq Require Import ZArith List Bool Lia.
From PV Require Import C12.ExecModel.
Import ListNotations.
Open Scope Z_scope.

(* ------------------------------------------------------------------ dict update *)
Definition apply_all (us : params) (kv : Z * pval) : Z * pval :=
  fold_left (fun kv' u => upd1 (fst u) (snd u) kv') us kv.

Lemma fst_upd1 : forall k v kv, fst (upd1 k v kv) = fst kv.
Proof. intros k v kv. unfold upd1. destruct (fst kv =? k); reflexivity. Qed.

Lemma has_key_map_upd1 : forall k k' v ps, has_key k (map (upd1 k' v) ps) = has_key k ps.
Proof.
  intros k k' v ps. unfold has_key. induction ps as [|a r IH]; simpl; auto.
  rewrite fst_upd1, IH. reflexivity.
Qed.

Lemma update_map : forall us ps,
  (forall u, In u us -> has_key (fst u) ps = true) ->
  update ps us = map (apply_all us) ps.
Proof.
  induction us as [|u r IH]; intros ps H.
  - simpl. unfold apply_all. simpl. symmetry. apply map_id.
  - unfold update. simpl. fold (update (set_key (fst u) (snd u) ps) r).
    unfold set_key. rewrite (H u (or_introl eq_refl)).
    rewrite IH.
    + rewrite map_map. apply map_ext. intros kv. reflexivity.
    + intros u' Hu'. rewrite has_key_map_upd1. apply H. right. exact Hu'.
Qed.

Lemma fst_apply_all : forall us kv, fst (apply_all us kv) = fst kv.
Proof.
  induction us as [|u r IH]; intros kv; simpl; auto.
  unfold apply_all. simpl. fold (apply_all r (upd1 (fst u) (snd u) kv)).
  rewrite IH. apply fst_upd1.
Qed.

Lemma apply_all_nokey : forall us kv,
  (forall u, In u us -> fst u <> fst kv) -> apply_all us kv = kv.
Proof.
  induction us as [|u r IH]; intros kv H; simpl; auto.
  unfold apply_all. simpl. fold (apply_all r (upd1 (fst u) (snd u) kv)).
  assert (E : upd1 (fst u) (snd u) kv = kv).
  { unfold upd1. destruct (fst kv =? fst u) eqn:Q; auto.
    apply Z.eqb_eq in Q. exfalso. apply (H u (or_introl eq_refl)). auto. }
  rewrite E. apply IH. intros u' Hu'. apply H. right. exact Hu'.
Qed.

(* if every entry of [us] under kv's key carries the value v0, the result is kv itself
   or (key, v0); and it is (key, v0) as soon as some entry has that key *)
Lemma apply_all_same : forall us kv v0,
  (forall u, In u us -> fst u = fst kv -> snd u = v0) ->
  (apply_all us kv = kv /\ (forall u, In u us -> fst u <> fst kv))
  \/ apply_all us kv = (fst kv, v0).
Proof.
  induction us as [|u r IH]; intros kv v0 H.
  - left. split; [reflexivity | intros u []].
  - unfold apply_all. simpl. fold (apply_all r (upd1 (fst u) (snd u) kv)).
    destruct (fst kv =? fst u) eqn:Q.
    + assert (EU : upd1 (fst u) (snd u) kv = (fst kv, snd u)) by (unfold upd1; rewrite Q; reflexivity).
      rewrite EU. apply Z.eqb_eq in Q. right.
      assert (Hv : snd u = v0) by (apply H; [left; reflexivity | auto]).
      rewrite Hv.
      destruct (IH (fst kv, v0) v0) as [[E _]|E].
      * intros u' Hu' Hk. simpl in Hk. apply H; [right; exact Hu' | exact Hk].
      * exact E.
      * exact E.
    + assert (EU : upd1 (fst u) (snd u) kv = kv) by (unfold upd1; rewrite Q; reflexivity).
      rewrite EU. apply Z.eqb_neq in Q.
      destruct (IH kv v0) as [[E N]|E].
      * intros u' Hu' Hk. apply H; [right; exact Hu' | exact Hk].
      * left. split; [exact E|]. intros u' [->|Hu']; [congruence | apply N; exact Hu'].
      * right. exact E.
Qed.

Lemma has_key_In : forall k ps, has_key k ps = true <-> In k (map fst ps).
Proof.
  intros k ps. unfold has_key. rewrite existsb_exists. split.
  - intros [kv [Hin Hk]]. apply Z.eqb_eq in Hk. subst k. apply in_map. exact Hin.
  - intros Hin. apply in_map_iff in Hin. destruct Hin as [kv [Hk Hin]].
    exists kv. split; auto. apply Z.eqb_eq. exact Hk.
Qed.

Lemma nodup_keys_unique : forall (ps : params) k v v',
  NoDup (map fst ps) -> In (k, v) ps -> In (k, v') ps -> v = v'.
Proof.
  induction ps as [|a r IH]; intros k v v' ND H1 H2; [destruct H1|].
  simpl in ND. inversion ND as [|x l Hnot ND']; subst.
  destruct H1 as [->|H1]; destruct H2 as [E|H2].
  - congruence.
  - exfalso. apply Hnot. simpl. change k with (fst (k, v')). apply in_map. exact H2.
  - subst a. exfalso. apply Hnot. simpl. change k with (fst (k, v)). apply in_map. exact H1.
  - eapply IH; eauto.
Qed.

(* resolve, then write back entries that are the dict's own: the dict is as before *)
Theorem update_restore : forall ps rs os,
  NoDup (map fst ps) ->
  map fst rs = map fst os ->
  (forall kv, In kv os -> In kv ps) ->
  update (update ps rs) os = ps.
Proof.
  intros ps rs os ND K Sub.
  assert (Hos : forall u, In u os -> has_key (fst u) ps = true).
  { intros u Hu. apply has_key_In. apply in_map. apply Sub. exact Hu. }
  assert (Hrs : forall u, In u rs -> has_key (fst u) ps = true).
  { intros u Hu. apply has_key_In.
    assert (In (fst u) (map fst os)) by (rewrite <- K; apply in_map; exact Hu).
    apply in_map_iff in H. destruct H as [o [Ho Hino]]. rewrite <- Ho.
    apply in_map. apply Sub. exact Hino. }
  rewrite (update_map rs ps Hrs).
  rewrite update_map.
  2:{ intros u Hu. apply has_key_In. rewrite map_map.
      rewrite (map_ext (fun x => fst (apply_all rs x)) fst (fst_apply_all rs)).
      apply has_key_In. apply Hos. exact Hu. }
  rewrite map_map.
  rewrite <- (map_id ps) at 2. apply map_ext_in. intros kv Hkv.
  destruct kv as [k v].
  destruct (apply_all_same os (apply_all rs (k, v)) v) as [[E N]|E].
  - intros u Hu Hk. rewrite fst_apply_all in Hk. simpl in Hk.
    destruct u as [k' v']. simpl in *. subst k'.
    apply (nodup_keys_unique ps k v' v ND); [apply Sub; exact Hu | exact Hkv].
  - rewrite E. apply apply_all_nokey.
    intros u Hu Hk. simpl in Hk.
    assert (In (fst u) (map fst os)) by (rewrite <- K; apply in_map; exact Hu).
    apply in_map_iff in H. destruct H as [o [Ho Hino]].
    apply (N o Hino). rewrite fst_apply_all. simpl. congruence.
  - rewrite E. rewrite fst_apply_all. reflexivity.
Qed.

(* ------------------------------------------------------------------ well-formed instruction objects *)
(* what Instruction.__init__ establishes; the executor never writes _unresolved_params *)
Definition wf_instr (i : instr) : Prop :=
  NoDup (map fst (i_params i))
  /\ i_unres i = get_unresolved (i_params i)
  /\ i_orig i = originals (i_params i).

Lemma wf_mk_instr : forall k kn nm mid none modes ps c,
  NoDup (map fst ps) -> wf_instr (mk_instr k kn nm mid none modes ps c).
Proof. intros. unfold wf_instr, mk_instr. simpl. auto. Qed.

Lemma keys_unres_orig : forall ps, map fst (get_unresolved ps) = map fst (originals ps).
Proof.
  intros ps. unfold get_unresolved, originals. rewrite !map_app, map_map. reflexivity.
Qed.

Lemma originals_sub : forall ps kv, In kv (originals ps) -> In kv ps.
Proof.
  intros ps kv H. unfold originals in H. apply in_app_or in H.
  destruct H as [H|H]; apply filter_In in H; tauto.
Qed.

Definition no_str (ps : params) : Prop := forall kv, In kv ps -> is_str (snd kv) = false.

Lemma unres_eq_orig_no_str : forall ps, no_str ps -> get_unresolved ps = originals ps.
Proof.
  intros ps H. unfold get_unresolved, originals. f_equal.
  assert (E : filter (fun kv : Z * pval => is_str (snd kv)) ps = []).
  { induction ps as [|a r IH]; simpl; auto.
    rewrite (H a (or_introl eq_refl)). apply IH. intros kv Hkv. apply H. right. exact Hkv. }
  rewrite E. reflexivity.
Qed.

(* the write-back list of a variant is made of the dict's own entries *)
Definition restorable (v : variant) (i : instr) : Prop :=
  v_keep v = true \/ no_str (i_params i).

Lemma with_params_same : forall i, with_params i (i_params i) = i.
Proof. destruct i; reflexivity. Qed.
Lemma with_modes_same : forall i, with_modes i (i_modes i) = i.
Proof. destruct i; reflexivity. Qed.
Lemma with_modes_twice : forall i m m', with_modes (with_modes i m) m' = with_modes i m'.
Proof. destruct i; reflexivity. Qed.

Lemma resolve_all_keys : forall idx o us h tr rs h' tr',
  resolve_all idx o us h tr = (Some rs, h', tr') -> map fst rs = map fst us.
Proof.
  induction us as [|u r IH]; intros h tr rs h' tr' H; simpl in H.
  - inversion H; reflexivity.
  - destruct h as [|e h0]; [discriminate|]. destruct e as [|z subs]; [discriminate|].
    destruct (resolve_all idx o r h0 (CParam idx (fst u) o :: tr)) as [[res h2] tr2] eqn:E.
    destruct res as [rs0|]; [|discriminate]. inversion H; subst. simpl.
    f_equal. eapply IH. exact E.
Qed.

(* _resolve_params followed by _unresolve_params gives the object back *)
Lemma unresolve_resolved : forall v i rs,
  wf_instr i -> restorable v i -> map fst rs = map fst (i_unres i) ->
  unresolve v (with_params i (update (i_params i) rs)) = i.
Proof.
  intros v i rs [ND [HU HO]] R K.
  unfold unresolve.
  assert (E : update (update (i_params i) rs) (if v_keep v then i_orig i else i_unres i)
              = i_params i).
  { apply update_restore; auto.
    - rewrite K. destruct (v_keep v); auto. rewrite HU, HO. apply keys_unres_orig.
    - intros kv Hkv. destruct R as [R|R].
      + rewrite R in Hkv. rewrite HO in Hkv. apply originals_sub. exact Hkv.
      + assert (Hkv' : In kv (originals (i_params i))).
        { destruct (v_keep v); [rewrite <- HO; exact Hkv|].
          rewrite <- (unres_eq_orig_no_str _ R), <- HU. exact Hkv. }
        apply originals_sub. exact Hkv'. }
  destruct i; simpl in *. rewrite E. reflexivity.
Qed.

(* ------------------------------------------------------------------ the loop over branches *)
Definition is_ok {A B} (r : A + B) : bool := match r with inr _ => true | inl _ => false end.

Lemma branch_loop_restores : forall v validate idx i,
  wf_instr i -> restorable v i ->
  forall bs h tr r i' h' tr',
  branch_loop v validate idx i bs h tr = (r, i', h', tr') ->
  (v_fin v = true \/ is_ok r = true) -> i' = i.
Proof.
  intros v validate idx i WF R.
  induction bs as [|b rest IH]; intros h tr r i' h' tr' H G; simpl in H.
  - inversion H; reflexivity.
  - destruct (match i_cond i with
              | None => (Some true, h, tr)
              | Some _ => match h with
                          | EvVal z _ :: h'0 => (Some (negb (z =? 0)), h'0, CCond idx b :: tr)
                          | _ => (None, tl h, CCond idx b :: tr)
                          end
              end) as [[cres h1] tr1] eqn:EC.
    destruct cres as [[|]|].
    + destruct (resolve_all idx b (i_unres i) h1 tr1) as [[rres h2] tr2] eqn:ER.
      destruct rres as [rs|]; [|inversion H; reflexivity].
      pose proof (resolve_all_keys _ _ _ _ _ _ _ _ ER) as K.
      pose proof (unresolve_resolved v i rs WF R K) as U.
      assert (FIN : forall (e : err) (hh : hist) (tt : list call),
                (inl e, (if v_fin v then unresolve v (with_params i (update (i_params i) rs))
                         else with_params i (update (i_params i) rs)), hh, tt) = (r, i', h', tr') -> i' = i).
      { intros e hh tt Q. inversion Q; subst. destruct G as [G|G]; [rewrite G; exact U | discriminate]. }
      assert (STEP : forall h3 tr3,
                match h3 with
                | EvVal _ subs :: h4 =>
                    let '(r0, i'0, h5, tr5) :=
                      branch_loop v validate idx (unresolve v (with_params i (update (i_params i) rs))) rest h4
                        (CStep idx (i_modes (with_params i (update (i_params i) rs)))
                           (i_params (with_params i (update (i_params i) rs))) b :: tr3) in
                    (match r0 with inr nb => inr (map (fun o => b ++ o) subs ++ nb) | inl e => inl e end,
                     i'0, h5, tr5)
                | _ => (inl EInjected,
                        (if v_fin v then unresolve v (with_params i (update (i_params i) rs))
                         else with_params i (update (i_params i) rs)), tl h3,
                        CStep idx (i_modes (with_params i (update (i_params i) rs)))
                           (i_params (with_params i (update (i_params i) rs))) b :: tr3)
                end = (r, i', h', tr') -> i' = i).
      { intros h3 tr3 Q. destruct h3 as [|[|z subs] h4]; try (eapply FIN; exact Q).
        rewrite U in Q.
        destruct (branch_loop v validate idx i rest h4
                    (CStep idx (i_modes (with_params i (update (i_params i) rs)))
                       (i_params (with_params i (update (i_params i) rs))) b :: tr3))
          as [[[r0 i0] h5] tr5] eqn:EB.
        inversion Q; subst.
        eapply IH; [exact EB|]. destruct G as [G|G]; auto. right. destruct r0; auto. }
      destruct (validate && (negb (v_up v) || negb (is_resolved i))).
      * destruct h2 as [|[|z0 s0] h2']; simpl in H; try (eapply FIN; exact H).
        eapply STEP; exact H.
      * simpl in H. eapply STEP; exact H.
    + destruct (branch_loop v validate idx i rest h1 tr1) as [[[r0 i0] h2] tr2] eqn:EB.
      inversion H; subst.
      eapply IH; [exact EB|]. destruct G as [G|G]; auto. right. destruct r0; auto.
    + inversion H; reflexivity.
Qed.

Lemma apply_to_branches_restores : forall v validate sn idx i,
  wf_instr i -> restorable v i ->
  forall bs h tr r i' h' tr',
  apply_to_branches v validate sn idx i bs h tr = (r, i', h', tr') ->
  (v_fin v = true \/ is_ok r = true) -> i' = i.
Proof.
  intros v validate sn idx i WF R bs h tr r i' h' tr' H G. unfold apply_to_branches in H.
  destruct (negb (i_known i)); [inversion H; reflexivity|].
  destruct (is_meas i && sn && negb (i_none_ok i)); [inversion H; reflexivity|].
  eapply branch_loop_restores; eauto.
Qed.

Lemma wf_with_modes : forall i m, wf_instr i -> wf_instr (with_modes i m).
Proof. intros i m H. destruct i; exact H. Qed.
Lemma restorable_with_modes : forall v i m, restorable v i -> restorable v (with_modes i m).
Proof. intros v i m H. destruct i; exact H. Qed.

(* ------------------------------------------------------------------ the instruction loop *)
Definition prog_restorable (v : variant) (prog : list instr) : Prop :=
  Forall (fun i => wf_instr i /\ restorable v i) prog.

Lemma do_exec_restores : forall v validate sn prog,
  prog_restorable v prog ->
  forall idx active bs h tr r prog' tr',
  do_exec v validate sn idx active prog bs h tr = (r, prog', tr') ->
  (v_fin v = true \/ is_ok r = true) -> prog' = prog.
Proof.
  intros v validate sn. induction prog as [|i rest IH]; intros PR idx active bs h tr r prog' tr' H G.
  - simpl in H. inversion H; reflexivity.
  - inversion PR as [|x l [WF R] PR']; subst.
    simpl in H.
    set (modeless := match i_modes i with [] => true | _ :: _ => false end) in *.
    destruct (modeless && negb (modes_ok i active)); [inversion H; reflexivity|].
    set (i1 := if modeless then with_modes i active else i) in *.
    assert (E1 : with_modes i1 (i_modes i) = i).
    { unfold i1. destruct modeless; [rewrite with_modes_twice|]; apply with_modes_same. }
    assert (WF1 : wf_instr i1) by (unfold i1; destruct modeless; auto using wf_with_modes).
    assert (R1 : restorable v i1) by (unfold i1; destruct modeless; auto using restorable_with_modes).
    destruct (existsb (fun m => negb (memz m active)) (i_modes i1)).
    { inversion H; subst. destruct G as [G|G]; [|discriminate]. rewrite G, E1. reflexivity. }
    destruct (negb (modes_ok i1 (remap_modes active (i_modes i1)))).
    { inversion H; subst. destruct G as [G|G]; [|discriminate]. rewrite G, E1. reflexivity. }
    set (i2 := with_modes i1 (remap_modes active (i_modes i1))) in *.
    destruct (apply_to_branches v validate sn idx i2 bs h tr) as [[[r1 i3] h1] tr1] eqn:EA.
    assert (E2 : with_modes i2 (i_modes i) = i).
    { unfold i2. rewrite with_modes_twice. exact E1. }
    destruct r1 as [e|bs'].
    + inversion H; subst. destruct G as [G|G]; [|discriminate]. rewrite G.
      rewrite (apply_to_branches_restores v validate sn idx i2
                 (wf_with_modes _ _ WF1) (restorable_with_modes _ _ _ R1) _ _ _ _ _ _ _ EA
                 (or_introl G)).
      rewrite E2. reflexivity.
    + assert (E3 : i3 = i2).
      { eapply apply_to_branches_restores; [| |exact EA|right; reflexivity].
        - apply wf_with_modes; exact WF1.
        - apply restorable_with_modes; exact R1. }
      subst i3.
      destruct (do_exec v validate sn (idx + 1)
                  (if is_meas i2 then delete_modes active (i_modes i2) else active)
                  rest bs' h1 tr1) as [[r2 rest'] tr2] eqn:ED.
      inversion H; subst.
      rewrite E2. f_equal. eapply IH; eauto.
Qed.

(* ------------------------------------------------------------------ execute *)
Theorem execute_restores_gen : forall v validate sim_d shots init prog h r prog' tr,
  prog_restorable v prog ->
  execute v validate sim_d shots init prog h = (r, prog', tr) ->
  (v_fin v = true \/ is_ok r = true) -> prog' = prog.
Proof.
  intros v validate sim_d shots init prog h r prog' tr PR H G. unfold execute in H.
  destruct (match shots with
            | Some n => if n <=? 0 then Some EInvalidParameter else None
            | None => None
            end); [inversion H; reflexivity|].
  destruct (try_infer_d sim_d prog) as [d|]; [|inversion H; reflexivity].
  destruct (validate_instructions v prog d); [inversion H; reflexivity|].
  destruct (v_up v && match shots with Some _ => false | None => true end
            && existsb (fun i => is_meas i && negb (i_none_ok i)) prog); [inversion H; reflexivity|].
  destruct (match init with
            | Some (right_class, d0) => negb right_class || negb (d0 =? d)
            | None => false
            end); [inversion H; reflexivity|].
  destruct (if v_up v && validate then prevalidate 0 prog h [] else (true, h, [])) as [[pok h0] tr0].
  destruct pok; simpl in H; [|inversion H; reflexivity].
  destruct (do_exec v validate
              match shots with Some _ => false | None => true end 0 (range d) prog [[]] h0 tr0)
    as [[r0 p0] t0] eqn:ED.
  inversion H; subst. eapply do_exec_restores; eauto.
Qed.

Definition wf_prog (prog : list instr) : Prop := Forall wf_instr prog.

Lemma wf_prog_restorable_repaired : forall prog, wf_prog prog -> prog_restorable repaired prog.
Proof.
  intros prog H. unfold prog_restorable. eapply Forall_impl; [|exact H].
  intros i W. split; [exact W | left; reflexivity].
Qed.

(* the program left behind (second component) is the program passed in: repaired code,
   every program, every configuration, every history (= every fault position and stage,
   every outcome history), whether the run returns or raises *)
Theorem exec_restores : forall validate sim_d shots init prog h,
  wf_prog prog ->
  snd (fst (execute repaired validate sim_d shots init prog h)) = prog.
Proof.
  intros validate sim_d shots init prog h W.
  destruct (execute repaired validate sim_d shots init prog h) as [[r p] t] eqn:E. simpl.
  eapply execute_restores_gen; [apply wf_prog_restorable_repaired; exact W | exact E | left; reflexivity].
Qed.

(* a second execution on the objects left behind by any first (possibly failed) execution
   behaves as on the original objects *)
Theorem reexec_same : forall validate sim_d shots init prog h1 validate2 sim_d2 shots2 init2 h2,
  wf_prog prog ->
  execute repaired validate2 sim_d2 shots2 init2
     (snd (fst (execute repaired validate sim_d shots init prog h1))) h2
  = execute repaired validate2 sim_d2 shots2 init2 prog h2.
Proof. intros. rewrite exec_restores; auto. Qed.

(* the tree as it is: the defects are confined to failing runs and string parameters *)
Definition prog_no_str (prog : list instr) : Prop := Forall (fun i => no_str (i_params i)) prog.

Theorem current_restores_ok_except_str : forall validate sim_d shots init prog h r prog' tr,
  wf_prog prog -> prog_no_str prog ->
  execute current validate sim_d shots init prog h = (inr r, prog', tr) -> prog' = prog.
Proof.
  intros validate sim_d shots init prog h r prog' tr W NS E.
  eapply execute_restores_gen; [|exact E|right; reflexivity].
  unfold prog_restorable. unfold wf_prog in W. unfold prog_no_str in NS.
  rewrite Forall_forall in *. intros i Hi. split; [apply W; exact Hi | right; apply NS; exact Hi].
Qed.

(* only the try/finally repair: failing runs restore too when there is no string parameter *)
Theorem finally_only_restores_except_str : forall up validate sim_d shots init prog h,
  wf_prog prog -> prog_no_str prog ->
  snd (fst (execute (mkV true false up) validate sim_d shots init prog h)) = prog.
Proof.
  intros up validate sim_d shots init prog h W NS.
  destruct (execute (mkV true false up) validate sim_d shots init prog h) as [[r p] t] eqn:E. simpl.
  eapply execute_restores_gen; [|exact E|left; reflexivity].
  unfold prog_restorable. unfold wf_prog in W. unfold prog_no_str in NS.
  rewrite Forall_forall in *. intros i Hi. split; [apply W; exact Hi | right; apply NS; exact Hi].
Qed.

(* validate(program) is a function of the program only (returns nothing but an error kind) *)
Theorem validate_is_pure : forall v sim_d prog, exists e : option err, validate_program v sim_d prog = e.
Proof. intros. eexists. reflexivity. Qed.

(* ------------------------------------------------------------------ witnesses on the tree as it is *)
(* names: 1 = phi.  A caller's string "x[0]*0.5" is source 7. *)
Definition gate1 (modes : list Z) (ps : params) : instr :=
  mk_instr KGate true (Some 1) false false modes ps None.
Definition meas1 (modes : list Z) : instr :=
  mk_instr KMeas true None true true modes [] None.
Definition prep_all : instr := mk_instr KPrep true None false false [] [] None.

Definition w_str := [prep_all; meas1 [0]; gate1 [2] [(1, PStr 7)]].
Definition w_lam := [prep_all; meas1 [0]; gate1 [2] [(1, PCallable 5)]].
(* _validate, step (preparation); _validate, step (measurement, one branch with outcome 1) *)
Definition pre_ok := [EvVal 0 []; EvVal 0 [[]]; EvVal 0 []; EvVal 0 [[1]]].
(* ... then: the parameter resolves to 3, _validate, step *)
Definition all_ok := pre_ok ++ [EvVal 3 []; EvVal 0 []; EvVal 0 [[]]].

Lemma w_str_wf : wf_prog w_str.
Proof. repeat constructor; simpl; auto; intros []. Qed.
Lemma w_lam_wf : wf_prog w_lam.
Proof. repeat constructor; simpl; auto; intros []. Qed.

(* a successful run hands the caller's string back as an Expression object *)
Theorem str_param_becomes_expr_refuted_on_current :
  exists prog h r prog' tr, wf_prog prog /\
    execute current true (Some 3) (Some 1) None prog h = (inr r, prog', tr) /\ prog' <> prog.
Proof.
  exists w_str, all_ok. eexists. eexists. eexists. split; [exact w_str_wf|].
  split; [vm_compute; reflexivity | vm_compute; discriminate].
Qed.

(* a raising parameter callable after a measurement leaves modes (2,) as (1,) *)
Theorem modes_left_remapped_refuted_on_current :
  exists prog h, wf_prog prog /\ prog_no_str prog /\
    map i_modes (snd (fst (execute current true (Some 3) (Some 1) None prog h)))
    <> map i_modes prog.
Proof.
  exists w_lam, (pre_ok ++ [EvRaise]). split; [exact w_lam_wf|].
  split; [repeat (constructor; [intros kv Hkv; simpl in Hkv; repeat (destruct Hkv as [Hkv|Hkv]; [subst; reflexivity|]); destruct Hkv|]); constructor|].
  vm_compute. discriminate.
Qed.

(* a raising simulation step leaves the resolved value in params *)
Theorem params_left_resolved_refuted_on_current :
  exists prog h, wf_prog prog /\ prog_no_str prog /\
    map i_params (snd (fst (execute current true (Some 3) (Some 1) None prog h)))
    <> map i_params prog.
Proof.
  exists w_lam, (pre_ok ++ [EvVal 3 []; EvVal 0 []; EvRaise]).
  split; [exact w_lam_wf|].
  split; [repeat (constructor; [intros kv Hkv; simpl in Hkv; repeat (destruct Hkv as [Hkv|Hkv]; [subst; reflexivity|]); destruct Hkv|]); constructor|].
  vm_compute. discriminate.
Qed.

(* non-vacuity: the repaired variant.  _validate of the two outcome-independent instructions
   comes first and sees them as the caller wrote them; then step, step (one branch, outcome 1),
   the parameter resolves to 3, _validate and step of the outcome-dependent gate *)
Definition up_ok := [EvVal 0 []; EvVal 0 []; EvVal 0 [[]]; EvVal 0 [[1]]; EvVal 3 []; EvVal 0 []; EvVal 0 [[]]].

Example repaired_ok_run :
  execute repaired true (Some 3) (Some 1) None w_str up_ok
  = (inr [[1]], w_str,
     [CValidate 0 [] []; CValidate 1 [0] [];
      CStep 0 [0;1;2] [] []; CStep 1 [0] [] [];
      CParam 2 1 [1]; CValidate 2 [1] [(1, PConst 3)]; CStep 2 [1] [(1, PConst 3)] [1]]).
Proof. vm_compute. reflexivity. Qed.

Example repaired_fault_run :
  execute repaired true (Some 3) (Some 1) None w_lam
     (firstn 6 up_ok ++ [EvRaise])
  = (inl EInjected, w_lam,
     [CValidate 0 [] []; CValidate 1 [0] [];
      CStep 0 [0;1;2] [] []; CStep 1 [0] [] [];
      CParam 2 1 [1]; CValidate 2 [1] [(1, PConst 3)]; CStep 2 [1] [(1, PConst 3)] [1]]).
Proof. vm_compute. reflexivity. Qed.

(* re-use of a measured mode is refused before anything runs *)
Example repaired_inactive_upfront :
  execute repaired true (Some 3) (Some 1) None [prep_all; meas1 [0]; gate1 [0] []] up_ok
  = (inl EInactiveModes, [prep_all; meas1 [0]; gate1 [0] []], []).
Proof. vm_compute. reflexivity. Qed.
