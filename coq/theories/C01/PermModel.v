(* C01 — executable model of the algebraic core shared by the bosonic simulators.
   Definitions only (no proofs), generic over a carrier [A] with ring operations, so the
   same functions are proved over an abstract commutative ring (PermProofs.v) and *run*
   at the Gaussian rationals Q[i] (GaussQ.v, cases files of the check).

   Convention.  Every amplitude is kept in the unnormalised form
        B(t,s) = sqrt(t! s!) <t| U |s>        (t = output, s = input occupation numbers)
   in which the square roots of the code cancel:
     connectors/numpy_/interferometer.py : calculate_interferometer_on_fock_space
         rep[k,i] += U[f,j] / sqrt(t_f) * sqrt(s_j) * prev[idx(t-e_f)][idx(s-e_j)]
       becomes   B(t,s) = sum_j  s_j * U[f,j] * B(t-e_f, s-e_j)       (f = first occupied mode of t)
     passive/utils.py : calculate_state_vector (SLOS)
         UF_next[t+e_i] += sqrt((t_i+1)/(sigma_p+1)) * U[i,p] * UF_curr[t]
       becomes   B_k(t') = sum_i  t'_i * U[i,p_k] * B_{k-1}(t'-e_i)   (p_k = mode of the k-th input photon)
   The conversion back (division by sqrt(t! s!)) is done on the Python side of the tie. *)
From Coq Require Import ZArith List Bool.
From PV Require Import Comb.FockModel.
Import ListNotations.
Local Open Scope nat_scope.

Section Model.
Variable A : Type.
Variables (a0 a1 : A) (aadd amul : A -> A -> A).

Definition asum (l : list A) : A := fold_right aadd a0 l.

(* multiplication by a natural number (an occupation number) as iterated addition *)
Fixpoint nscale (n : nat) (x : A) : A :=
  match n with O => a0 | S k => aadd x (nscale k x) end.

(* U[i][j]; out-of-range entries read as 0 *)
Definition entry (U : list (list A)) (i j : nat) : A := nth j (nth i U []) a0.

(* ------------------------------------------------------------------ the permanent *)
Fixpoint remove_nth {X} (c : nat) (l : list X) : list X :=
  match l, c with
  | [], _ => []
  | _ :: r, O => r
  | x :: r, S c' => x :: remove_nth c' r
  end.

(* expansion along the first row; [n] = number of rows *)
Fixpoint perm (n : nat) (rows : list (list A)) : A :=
  match n, rows with
  | S n', r :: rest =>
      asum (map (fun c => amul (nth c r a0) (perm n' (map (remove_nth c) rest)))
                (seq 0 (length r)))
  | _, _ => a1
  end.
Definition permanent (rows : list (list A)) : A := perm (length rows) rows.

(* occupation numbers -> list of the modes of the individual photons, ascending
   (first quantisation) *)
Fixpoint photons_from (i : nat) (t : list nat) : list nat :=
  match t with [] => [] | x :: r => repeat i x ++ photons_from (S i) r end.
Definition photons (t : list nat) : list nat := photons_from 0 t.

(* matrix with one row per element of [ps] and one column per element of [qs] *)
Definition submatrix (e : nat -> nat -> A) (ps qs : list nat) : list (list A) :=
  map (fun p => map (e p) qs) ps.

(* the permanent with multiplicities: rows of U repeated t_i times, columns s_j times *)
Definition perm_mult (U : list (list A)) (t s : list nat) : A :=
  permanent (submatrix (entry U) (photons t) (photons s)).

(* the same sum organised by (chosen column, remaining columns); used by the proofs and
   evaluated against [perm] in the cases files *)
Fixpoint picks {X} (l : list X) : list (X * list X) :=
  match l with
  | [] => []
  | x :: r => (x, r) :: map (fun yr => (fst yr, x :: snd yr)) (picks r)
  end.
Fixpoint permL (e : nat -> nat -> A) (ps : list nat) (qs : list nat) : A :=
  match ps with
  | [] => a1
  | p :: ps' => asum (map (fun qr => amul (e p (fst qr)) (permL e ps' (snd qr))) (picks qs))
  end.

(* ------------------------------------------------------------------ vectors *)
Fixpoint first_nz (t : list nat) : option nat :=
  match t with
  | [] => None
  | O :: r => option_map S (first_nz r)
  | S _ :: _ => Some O
  end.
Fixpoint dec_at (j : nat) (t : list nat) : list nat :=
  match t, j with
  | [], _ => []
  | x :: r, O => pred x :: r
  | x :: r, S j' => x :: dec_at j' r
  end.
Definition total (t : list nat) : nat := fold_right Nat.add O t.

(* ------------------------------------------------------------------ Fock representation,
   as a function of the occupation vectors (the recurrence of
   calculate_interferometer_on_fock_space without its index tables) *)
Fixpoint repB (U : list (list A)) (n : nat) (t s : list nat) : A :=
  match n with
  | O => a1
  | S n' =>
      match first_nz t with
      | None => a0
      | Some f =>
          asum (map (fun j => nscale (nth j s O)
                                (amul (entry U f j) (repB U n' (dec_at f t) (dec_at j s))))
                    (seq 0 (length s)))
      end
  end.

(* ------------------------------------------------------------------ SLOS as a function of
   the output vector: [sched] = modes of the input photons, *last added first* *)
Fixpoint slosB (U : list (list A)) (sched : list nat) (t : list nat) : A :=
  match sched with
  | [] => a1
  | p :: rest =>
      asum (map (fun i => nscale (nth i t O)
                            (amul (entry U i p) (slosB U rest (dec_at i t))))
                (seq 0 (length t)))
  end.
Definition slos_amp (U : list (list A)) (s t : list nat) : A := slosB U (rev (photons s)) t.

(* ------------------------------------------------------------------ the tables of the code *)
(* n-particle sector in piquasso's order (Comb.FockModel.sector), as nat vectors *)
Definition sectorN (d n : nat) : list (list nat) := map (map Z.to_nat) (sector d n).
(* _math/indices.py:get_index_in_fock_subspace *)
Definition sidx (v : list nat) : nat := Z.to_nat (fock_subspace_index (map Z.of_nat v)).

(* fock/simulation_steps.py:calculate_interferometer_helper_indices, sector n:
   per row t: first occupied mode, sub-space index of t - e_first, the integer under
   sqrt_first_occupation_numbers; per column s and mode j: sub-space index of s - e_j
   (meaningless where s_j = 0, the code multiplies it by sqrt(0)) and s_j *)
Definition helper_first (d n : nat) : list (nat * nat * nat) :=
  map (fun t => match first_nz t with
                | Some f => (f, sidx (dec_at f t), nth f t O)
                | None => (O, O, O) end) (sectorN d n).
Definition helper_sub (d n : nat) : list (list (nat * nat)) :=
  map (fun s => map (fun j => (sidx (dec_at j s), nth j s O)) (seq 0 d)) (sectorN d n).

Definition lookup (T : list (list A)) (k i : nat) : A := nth i (nth k T []) a0.

(* connectors/numpy_/interferometer.py:calculate_interferometer_on_fock_space, one sector *)
Definition rep_sector (U : list (list A)) (d n : nat) (prev : list (list A)) : list (list A) :=
  let hsub := helper_sub d n in
  map (fun hf : nat * nat * nat =>
         let '(f, tf, _) := hf in
         map (fun hs : list (nat * nat) =>
                asum (map (fun j => let '(sj, mult) := nth j hs (O, O) in
                                    nscale mult (amul (entry U f j) (lookup prev tf sj)))
                          (seq 0 d)))
             hsub)
      (helper_first d n).

(* sectors 0 .. cutoff-1 (the *repaired* code: no failure for cutoff <= 2; the list has
   max(cutoff,2) entries exactly as the Python list has) *)
Fixpoint rep_tables_from (U : list (list A)) (d : nat) (n : nat) (count : nat)
  (prev : list (list A)) : list (list (list A)) :=
  match count with
  | O => []
  | S c => let r := rep_sector U d n prev in r :: rep_tables_from U d (S n) c r
  end.
Definition rep_tables (U : list (list A)) (d cutoff : nat) : list (list (list A)) :=
  [[a1]] :: U :: rep_tables_from U d 2 (cutoff - 2) U.

(* passive/utils.py:calculate_state_vector without post-selection, in gather form:
   UF_k as a list over sector k; [sched] in the order the photons are added *)
Definition slos_step (U : list (list A)) (d k p : nat) (cur : list A) : list A :=
  map (fun t => asum (map (fun i => nscale (nth i t O)
                                      (amul (entry U i p) (nth (sidx (dec_at i t)) cur a0)))
                          (seq 0 d)))
      (sectorN d k).
Fixpoint slos_run (U : list (list A)) (d k : nat) (sched : list nat) (cur : list A) : list A :=
  match sched with
  | [] => cur
  | p :: rest => slos_run U d (S k) rest (slos_step U d (S k) p cur)
  end.
Definition slos_vector (U : list (list A)) (d : nat) (s : list nat) : list A :=
  slos_run U d 0 (photons s) [a1].

(* ------------------------------------------------------------------ matrices, programs *)
Definition mat_mul (X Y : list (list A)) (d : nat) : list (list A) :=
  map (fun i => map (fun j => asum (map (fun k => amul (entry X i k) (entry Y k j)) (seq 0 d)))
                    (seq 0 d)) (seq 0 d).
Definition mat_id (d : nat) : list (list A) :=
  map (fun i => map (fun j => if Nat.eqb i j then a1 else a0) (seq 0 d)) (seq 0 d).

Fixpoint pos_of (x : nat) (l : list nat) : option nat :=
  match l with
  | [] => None
  | y :: r => if Nat.eqb x y then Some O else option_map S (pos_of x r)
  end.
(* passive/simulation_steps.py:_apply_matrix_on_modes: identity with the gate block written
   at np.ix_(modes, modes), multiplied from the left.
   [diag] is the entry written on the diagonal outside the addressed modes: 1 when the
   blocks are given as they are, the common denominator D of the block when the check runs
   the model over the Gaussian integers with blocks scaled to integers (U = M / D) *)
Definition embed (G : list (list A)) (diag : A) (modes : list nat) (d : nat) : list (list A) :=
  map (fun i => map (fun j =>
        match pos_of i modes, pos_of j modes with
        | Some a, Some b => entry G a b
        | _, _ => if Nat.eqb i j then diag else a0
        end) (seq 0 d)) (seq 0 d).
Definition program_unitary (d : nat) (gates : list (list nat * list (list A) * A)) : list (list A) :=
  fold_left (fun acc g => let '(modes, G, diag) := g in mat_mul (embed G diag modes d) acc d)
            gates (mat_id d).

End Model.
