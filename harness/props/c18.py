"""C18 — Program construction is faithful: round trips, nesting, preparation algebra."""
import itertools
import json
import os
import re
from fractions import Fraction

from common import (CASES_HEADER, COQ, VERIF, Check, cbool, clist, coq_eval_parallel, cq, cz,
                    parse_coq_list, repo_tree_hash, run_impl)
from props import c18_gen

GEN = os.path.join(COQ, "theories", "C18", "BlackbirdGen.v")
CORPUS = os.path.join(VERIF, "harness", "corpus", "c18.jsonl")
IMPORTS = CASES_HEADER + ("From PV Require Import Base.CasesLib C18.RegisterModel C18.PrepModel "
                          "C18.BlackbirdModel C18.BlackbirdGen C18.CodeModel C18.TokenModel.\n")

NEST_N = [1, 2, 1, None, None, 1, 2, 1]  # NUMBER_OF_MODES of c18_impl.NEST_CLASSES (re-read from the tree on every run)
ERR = {None: 0, "ErrInvalidModes": 1, "ErrIndex": 2, "ErrInvalidProgram": 3}


def F(x, y=None):
    return Fraction(x) if y is None else Fraction(x, y)


# =========================================================================== generators
def gen_nest(rng, n):
    cases = []
    while len(cases) < n:
        depth = rng.choice([0, 1, 1, 2, 2, 3, 3, 4])
        sizes = [rng.randint(1, 5)]
        for _ in range(depth):
            sizes.append(rng.randint(sizes[-1], sizes[-1] + 3))
        # sizes[0]: number of modes the inner program talks about; register j has sizes[j] entries < sizes[j+1]
        regs, use_all = [], []
        for j in range(depth):
            if rng.random() < 0.15:
                regs.append([])
                sizes[j + 1] = sizes[j]
            else:
                regs.append(rng.sample(range(sizes[j + 1]), sizes[j]))
            use_all.append(rng.random() < 0.5)
        instrs = []
        for _ in range(rng.randint(1, 4)):
            c = rng.randrange(len(NEST_N))
            nm = NEST_N[c]
            if nm is None:
                modes = None if rng.random() < 0.5 else rng.sample(range(sizes[0]), rng.randint(1, sizes[0]))
            elif nm <= sizes[0]:
                modes = rng.sample(range(sizes[0]), nm)
            else:
                modes = list(range(nm))
            instrs.append({"cls": c, "modes": modes})
        bad = rng.random()
        if bad < 0.06 and regs and regs[-1]:
            regs[rng.randrange(len(regs))] = [0, 0] + [1] * rng.randint(0, 1)      # not distinct
        elif bad < 0.10 and regs:
            r = regs[rng.randrange(len(regs))]
            if r:
                r[rng.randrange(len(r))] = -1 - rng.randint(0, 2)                  # negative
        elif bad < 0.16 and regs and any(regs):
            i = rng.choice([j for j, r in enumerate(regs) if r])
            regs[i] = regs[i][:-1] if len(regs[i]) > 1 else regs[i]                # too short: IndexError / InvalidProgram
        elif bad < 0.20:
            k = rng.randrange(len(instrs))
            if NEST_N[instrs[k]["cls"]] == 1:
                instrs[k]["modes"] = [-1 - rng.randint(0, 1)]                      # negative instruction mode (wraps)
        elif bad < 0.24:
            k = rng.randrange(len(instrs))
            if NEST_N[instrs[k]["cls"]] is not None:
                instrs[k]["modes"] = None                                          # fixed-arity gate without modes
        elif bad < 0.27:
            k = rng.randrange(len(instrs))
            if NEST_N[instrs[k]["cls"]] == 2:
                instrs[k]["modes"] = [0, 0]                                        # duplicate instruction modes
        cases.append({"instrs": instrs, "regs": regs, "use_all": use_all})
    return cases


def py_compose(regs, m):
    """Reference statement of 'mapped through the enclosing registers exactly once' (valid inputs)."""
    for r in regs:
        if not r:
            continue
        m = list(r) if not m else [r[i] for i in m]
    return m


COEFFS = [F(1), F(2), F(-1), F(1, 2), F(3), F(-3, 2), F(1, 4), F(5)]
MULS = [F(2), F(-1), F(1, 2), F(3), F(4), F(-1, 2)]
DIVS = [F(2), F(4), F(-2), F(1, 2), F(-1)]


def tree_shapes(nleaves):
    """All binary bracketings with the given number of leaves."""
    if nleaves == 1:
        return [None]
    out = []
    for k in range(1, nleaves):
        for a in tree_shapes(k):
            for b in tree_shapes(nleaves - k):
                out.append((a, b))
    return out


SHAPES = {n: tree_shapes(n) for n in range(1, 6)}


def gen_prep_case(rng, nleaves=None, alias=None):
    d = rng.choice([2, 2, 3])
    occs = [list(o) for o in itertools.product(range(3), repeat=d) if sum(o) <= 2]
    pool = rng.sample(occs, min(len(occs), rng.randint(2, 4)))
    nobj = rng.randint(1, 4)
    leaves = []
    for _ in range(nobj):
        if rng.random() < 0.5:
            leaves.append({"kind": "ns", "occ": rng.choice(pool), "c": str(rng.choice(COEFFS))})
        else:
            ks = rng.sample(pool, rng.randint(1, len(pool)))
            leaves.append({"kind": "fsv", "items": [[k, str(rng.choice(COEFFS))] for k in ks],
                           "c": str(rng.choice(COEFFS if rng.random() < 0.7 else [F(1)]))})
    nleaves = nleaves or rng.randint(1, 5)
    alias = (rng.random() < 0.35) if alias is None else alias
    if alias or nleaves > nobj:
        idx = [rng.randrange(nobj) for _ in range(nleaves)]
    else:
        idx = rng.sample(range(nobj), nleaves)
    it = iter(idx)

    def deco(e):
        r = rng.random()
        if r < 0.22:
            return ["mul", e, str(rng.choice(MULS))]
        if r < 0.40:
            return ["rmul", str(rng.choice(MULS)), e]
        if r < 0.52:
            return ["div", e, str(rng.choice(DIVS))]
        return e

    def build(shape):
        if shape is None:
            return deco(["leaf", next(it)])
        return deco(["add", build(shape[0]), build(shape[1])])

    expr = build(rng.choice(SHAPES[nleaves]))
    return {"leaves": leaves, "expr": expr, "d": d, "cutoff": 3}


def expr_leaves(e):
    if e[0] == "leaf":
        return [e[1]]
    if e[0] == "add":
        return expr_leaves(e[1]) + expr_leaves(e[2])
    if e[0] == "rmul":
        return expr_leaves(e[2])
    return expr_leaves(e[1])


def expr_has_op(e):
    return e[0] != "leaf"


def leaf_denotation(leaf):
    out = {}
    if leaf["kind"] == "ns":
        out[tuple(leaf["occ"])] = F(leaf["c"])
    else:
        for k, a in leaf["items"]:
            out[tuple(k)] = out.get(tuple(k), 0) + F(leaf["c"]) * F(a)
    return out


def expr_sem(e, leaves):
    """The linear combination written (reference semantics, exact)."""
    t = e[0]
    if t == "leaf":
        return leaf_denotation(leaves[e[1]])
    if t == "add":
        a, b = expr_sem(e[1], leaves), expr_sem(e[2], leaves)
        return {k: a.get(k, 0) + b.get(k, 0) for k in set(a) | set(b)}
    if t == "mul":
        return {k: v * F(e[2]) for k, v in expr_sem(e[1], leaves).items()}
    if t == "rmul":
        return {k: v * F(e[1]) for k, v in expr_sem(e[2], leaves).items()}
    return {k: v / F(e[2]) for k, v in expr_sem(e[1], leaves).items()}


# ---- Coq rendering
def c_occ(o):
    return clist(o)


def c_pobj(v):
    if v["kind"] == "ns":
        return "(NS %s %s)" % (c_occ(v["occ"]), cq(F(*v["c"]) if isinstance(v["c"], list) else F(v["c"])))
    return "(FSV %s %s)" % (
        clist(v["items"], lambda kv: "(%s, %s)" % (c_occ(kv[0]), cq(F(*kv[1]) if isinstance(kv[1], list) else F(kv[1])))),
        cq(F(*v["c"]) if isinstance(v["c"], list) else F(v["c"])))


def c_expr(e):
    t = e[0]
    if t == "leaf":
        return "(Leaf %d%%nat)" % e[1]
    if t == "add":
        return "(Add %s %s)" % (c_expr(e[1]), c_expr(e[2]))
    if t == "mul":
        return "(Mul %s %s)" % (c_expr(e[1]), cq(F(e[2])))
    if t == "rmul":
        return "(RMul %s %s)" % (cq(F(e[1])), c_expr(e[2]))
    return "(Div %s %s)" % (c_expr(e[1]), cq(F(e[2])))


PREP_DEFS = """
Definition pobj_eqb (a b : pobj Q) : bool :=
  match a, b with
  | NS o1 c1, NS o2 c2 => zl_eqb o1 o2 && Qeq_bool c1 c2
  | FSV m1 c1, FSV m2 c2 => list_eqb (fun x y => zl_eqb (fst x) (fst y) && Qeq_bool (snd x) (snd y)) m1 m2 && Qeq_bool c1 c2
  | _, _ => false
  end.
Definition evQ (legacy : bool) := eval Q 1%Q Qplus Qmult Qdiv legacy.
Definition denQ := denote Q 0%Q Qplus Qmult.
(* case: heap, expression, expected result object, expected leaves afterwards, amplitudes of the prepared state *)
Definition prep_ok (legacy : bool) (x : list (pobj Q) * expr Q * pobj Q * list (pobj Q) * list (list Z * Q)) : bool :=
  let '(h, e, r, after, amps) := x in
  match evQ legacy h e with
  | Some (h', i) =>
      match nth_error h' i with
      | Some o => pobj_eqb o r && list_eqb pobj_eqb (firstn (List.length h) h') after
                  && forallb (fun xa => Qeq_bool (denQ o (fst xa)) (snd xa)) amps
      | None => false
      end
  | None => false
  end.
"""

NEST_DEFS = """
Definition ent_eqb (a : option (Z * list Z * Z)) (b : Z * list Z * Z) : bool :=
  match a with Some (c, m, p) => let '(c', m', p') := b in (c =? c') && zl_eqb m m' && (p =? p') | None => false end.
Fixpoint view_eqb (a : list (option (Z * list Z * Z))) (b : list (Z * list Z * Z)) : bool :=
  match a, b with [], [] => true | x :: r, y :: s => ent_eqb x y && view_eqb r s | _, _ => false end.
Definition nest_ok (x : list instr * list (list Z) * Z * list (Z * list Z * Z) * list (Z * list Z * Z)) : bool :=
  let '(h, regs, code, expect, inner_after) := x in
  let src := seq 0 (List.length h) in
  match nest h src regs with
  | Ok (h', out) => (code =? 0) && view_eqb (view h' out) expect && view_eqb (view h' src) inner_after
  | ErrInvalidModes => code =? 1
  | ErrIndex => code =? 2
  | ErrInvalidProgram => code =? 3
  end.
"""

KW_DEFS = """
Definition kw_enc (k : kw) : Z * Q :=
  match k with
  | KSeed s => (0, inject_Z s) | KCache z => (1, inject_Z z) | KHbar q => (2, q)
  | KTor b => (3, if b then 1%Q else 0%Q) | KCutoff z => (4, inject_Z z) | KMcut z => (5, inject_Z z)
  | KDtype d => (6, match d with F32 => 32#1 | F64 => 64#1 end)
  | KValidate b => (7, if b then 1%Q else 0%Q) | KDask b => (8, if b then 1%Q else 0%Q)
  | KTrials z => (9, inject_Z z)
  end.
Definition cfg_ok (x : cfg_args * option Z * list (Z * Q) * bool) : bool :=
  let '(a, d, emitted, has_cfg) := x in
  let c := construct a in
  list_eqb (fun p q => (fst p =? fst q) && Qeq_bool (snd p) (snd q)) (map kw_enc (kw_list (as_code c))) emitted
  && Bool.eqb (match snd (sim_as_code d c) with Some _ => true | None => false end) has_cfg.
"""


def chunks(xs, n):
    return [xs[i:i + n] for i in range(0, len(xs), n)]


def eval_cases(tag, defs, ctype, okexpr, items, per=150, extra_evals=()):
    """Run `mismatches` over the rendered items; returns the global indices that mismatch
    (and, per extra evaluation, the indices it lists)."""
    bodies = []
    for part in chunks(items, per):
        b = IMPORTS + defs + "\nDefinition cases : list (%s) := [\n%s\n].\n" % (ctype, ";\n".join(part))
        b += "Eval vm_compute in mismatches (%s) cases.\n" % okexpr
        for ex in extra_evals:
            b += "Eval vm_compute in mismatches (%s) cases.\n" % ex
        bodies.append(b)
    outs = coq_eval_parallel(tag, bodies, jobs=4) if bodies else []
    res = [[] for _ in range(1 + len(extra_evals))]
    for j, o in enumerate(outs):
        g = parse_coq_list(o)
        if len(g) != 1 + len(extra_evals):
            raise RuntimeError("unexpected coqc output for %s: %s" % (tag, o[-500:]))
        for k in range(len(g)):
            res[k] += [j * per + i for i in g[k]]
    return res


# =========================================================================== value pools for the round trips
def fhex(x):
    return float(x).hex()


SCALARS = [["float", fhex(0.1)], ["float", fhex(-0.3)], ["float", fhex(1e-7)], ["float", fhex(-1e-12)],
           ["float", fhex(123456789.123)], ["float", fhex(1e20)], ["int", 2], ["float", fhex(1 / 3)],
           ["npfloat", fhex(0.7)], ["int", 0], ["int", -3], ["float", fhex(0.123456789012345)],
           ["float", fhex(1e-300)], ["float", fhex(-2.0)], ["npint", 3], ["float", fhex(5e-324)],
           ["float", fhex(1.7976931348623157e308)], ["npfloat", fhex(-0.123456789012345e-5)]]


def arr(dtype, shape, vals):
    return ["array", dtype, shape, vals]


def gen_matrix(rng, kind, n):
    """Matrix parameters: short exactly printable ones, long-mantissa ones, other dtypes, large ones."""
    if kind == "short":
        vals = [rng.choice([0.0, 1.0, 0.5, -2.0, 0.25]) for _ in range(n * n)]
        return arr("float64", [n, n], vals)
    if kind == "long":
        vals = [rng.choice([0.123456789012345, 1 / 3, 1e-12, 1e20, -0.7071067811865476, 2.0]) for _ in range(n * n)]
        return arr("float64", [n, n], vals)
    if kind == "complex":
        vals = [["complex", fhex(rng.choice([0.5, 0.6, 1 / 3])), fhex(rng.choice([0.0, -0.8, 0.1234567890123]))]
                for _ in range(n * n)]
        return arr("complex128", [n, n], vals)
    if kind == "float32":
        return arr("float32", [n, n], [rng.choice([0.5, 1.0, 0.0]) for _ in range(n * n)])
    if kind == "int":
        return arr("int64", [n, n], [rng.randint(0, 3) for _ in range(n * n)])
    if kind == "large":
        return arr("float64", [34, 34], [float((i * 7) % 11) / 8 for i in range(34 * 34)])
    raise ValueError(kind)


def gen_rt(rng, table, n, thorough):
    rows = table["rows"]
    cases = []
    mats = ["short", "long", "complex", "float32", "int"] + (["large"] if thorough else [])
    for i in range(n):
        instrs = []
        want_matrix = i % 3 == 2
        for _ in range(rng.randint(1, 5)):
            r = rng.choice(rows)
            nm = r["nmodes"]
            kwargs = []
            for j, name in enumerate(r["sig"]):
                if r["has_default"][j] and rng.random() < 0.3:
                    continue
                kwargs.append([name, rng.choice(SCALARS)])
            instrs.append({"cls": r["pq"], "kwargs": kwargs, "modes": rng.sample(range(6), nm)})
        blackbird = True
        if want_matrix:
            kind = mats[(i // 3) % len(mats)]
            m = rng.randint(2, 3)
            which = rng.choice(["Interferometer", "GaussianTransform", "Mean", "Covariance",
                                "GeneraldyneMeasurement", "Graph"])
            if kind == "large":
                which, m = "Interferometer", 34
            if which == "GaussianTransform":
                kw = [["passive", gen_matrix(rng, kind, m)], ["active", gen_matrix(rng, kind, m)]]
            elif which == "Mean":
                mat = gen_matrix(rng, kind, m)
                kw = [["mean", arr(mat[1], [m * m], mat[3])]]
            elif which == "Covariance":
                kw = [["cov", gen_matrix(rng, kind, m)]]
            elif which == "GeneraldyneMeasurement":
                kw = [["detection_covariance", gen_matrix(rng, kind, 2)]]
                m = 1
            elif which == "Graph":
                kw = [["adjacency_matrix", gen_matrix(rng, kind, m)], ["mean_photon_number", rng.choice(SCALARS)]]
            else:
                kw = [["matrix", gen_matrix(rng, kind, m)]]
            modes = list(range(m)) if which != "Mean" and which != "Covariance" else None
            instrs.insert(rng.randint(0, len(instrs)), {"cls": which, "kwargs": kw, "modes": modes,
                                                         "matrix_kind": kind})
            blackbird = False
        cfgkw = gen_config_kwargs(rng) if rng.random() < 0.7 else []
        sim = {"cls": rng.choice(["GaussianSimulator", "PureFockSimulator", "PassiveSimulator"]),
               "d": rng.choice([None, 6, 7]),
               "config": [[k, cfg_spec(k, v)] for k, v in cfgkw]}
        if want_matrix and kind == "large":
            sim["d"] = 34
        cases.append({"program": instrs, "blackbird": blackbird, "simulator": sim, "shots": rng.choice([1, 10, 420])})
    return cases


def cfg_spec(k, v):
    if k == "dtype":
        return ["dtype", v]
    if k == "hbar":
        return ["float", fhex(F(v[0], v[1]))]
    if isinstance(v, bool):
        return ["bool", v]
    return ["int", v]


CFG_OPTS = {
        "cutoff": [4, 7, 1, 12],
        "dtype": ["float32", "float64", "float"],
        "measurement_cutoff": [5, 3, 9],
        "hbar": [[2, 1], [1, 1], [3, 2], [1, 2]],
        "seed_sequence": [0, 1, 123456789012345678901234567890, 42],
        "use_torontonian": [True, False],
        "cache_size": [32, 0, 64],
        "validate": [True, False],
        "use_dask": [False, True],
    "max_sample_generation_trials": [1000, 1, 5000],
}



# =========================================================================== emitted text as tokens
TOK_DEFS = """
From Coq Require Import Qabs.
Open Scope Z_scope.
Definition fisneg (q : Q) : bool := (Qnum q <? 0)%Z.
Definition tok_eqb (a b : tok Q) : bool :=
  match a, b with
  | TInt _ x, TInt _ y => (x =? y)%Z
  | TFloat _ x, TFloat _ y => Qeq_bool x y
  | TIdent _ x, TIdent _ y => String.eqb x y
  | TMinus _, TMinus _ | TLP _, TLP _ | TRP _, TRP _ | TLB _, TLB _ | TRB _, TRB _ | TComma _, TComma _
  | TDot _, TDot _ | TEq _, TEq _ | TPipe _, TPipe _ | TColon _, TColon _ | TTrue _, TTrue _ | TFalse _, TFalse _
  | TNp _, TNp _ | TArray _, TArray _ | TDtype _, TDtype _ | TPq _, TPq _ | TQ _, TQ _ | TWith _, TWith _
  | TProgram _, TProgram _ | TAs _, TAs _ | TPass _, TPass _ | TNewline _, TNewline _ => true
  | _, _ => false
  end.
Fixpoint pval_eqb (a b : pval Q) : bool :=
  match a, b with
  | VInt _ x, VInt _ y => (x =? y)%Z
  | VBool _ x, VBool _ y => Bool.eqb x y
  | VFloat _ x, VFloat _ y => Qeq_bool x y
  | VSeq _ k xs, VSeq _ k' ys =>
      (match k, k' with Paren, Paren | Brack, Brack => true | _, _ => false end) &&
      (fix go (l1 l2 : list (pval Q)) : bool :=
         match l1, l2 with [], [] => true | x :: r, y :: s => pval_eqb x y && go r s | _, _ => false end) xs ys
  | VArr _ d x, VArr _ d' y => opt_eqb String.eqb d d' && pval_eqb x y
  | _, _ => false
  end.
Definition ci_eqb (a b : cinstr Q) : bool :=
  String.eqb (ci_cls Q a) (ci_cls Q b) && zl_eqb (ci_modes Q a) (ci_modes Q b) &&
  list_eqb (fun x y => String.eqb (fst x) (fst y) && pval_eqb (snd x) (snd y)) (ci_params Q a) (ci_params Q b) &&
  Bool.eqb (ci_cond Q a) (ci_cond Q b).
(* the model's tokens are the implementation's tokens, and reading the implementation's tokens
   with the model's reader gives the program back; a refusal on one side is one on the other *)
Definition tok_ok (x : list (cinstr Q) * option (list (tok Q))) : bool :=
  let '(p, impl) := x in
  match program_tokens Q Qabs fisneg p, impl with
  | Some a, Some b =>
      list_eqb tok_eqb a b &&
      match read_program Q Qopp b with Some p' => list_eqb ci_eqb p' p | None => false end
  | None, None => true
  | _, _ => false
  end.
"""

TOK_NAMES = {"np": "TNp", "array": "TArray", "dtype": "TDtype", "pq": "TPq", "Q": "TQ", "with": "TWith",
             "Program": "TProgram", "as": "TAs", "pass": "TPass", "True": "TTrue", "False": "TFalse"}
TOK_OPS = {"-": "TMinus", "(": "TLP", ")": "TRP", "[": "TLB", "]": "TRB", ",": "TComma", ".": "TDot",
           "=": "TEq", "|": "TPipe", ":": "TColon"}


def c_tok(t):
    """a token of Python's tokenizer (as reported by the runner) -> the model's token; None if the
    model has no such token (the case is then a disagreement)"""
    k = t[0]
    if k == "int":
        return "(TInt Q %s)" % cz(t[1])
    if k == "float":
        return "(TFloat Q %s)" % cq(F(t[1][0], t[1][1]))
    if k == "newline":
        return "(TNewline Q)"
    if k == "name":
        return "(%s Q)" % TOK_NAMES[t[1]] if t[1] in TOK_NAMES else '(TIdent Q "%s"%%string)' % t[1]
    if k == "op" and t[1] in TOK_OPS:
        return "(%s Q)" % TOK_OPS[t[1]]
    return None


def c_pval(spec):
    k = spec[0]
    if k in ("float", "npfloat"):
        return "(VFloat Q %s)" % cq(F(float.fromhex(spec[1])))
    if k in ("int", "npint"):
        return "(VInt Q %s)" % cz(spec[1])
    if k == "pybool":
        return "(VBool Q %s)" % cbool(spec[1])
    if k in ("tuple", "list"):
        return "(VSeq Q %s %s)" % ("Paren" if k == "tuple" else "Brack", clist(spec[1], c_pval))
    if k == "array":
        dtype, shape, vals = spec[1], spec[2], spec[3]
        leaf = {"float64": lambda v: "(VFloat Q %s)" % cq(F(float(v))), "float32": lambda v: "(VFloat Q %s)" % cq(F(float(v))),
                "int64": lambda v: "(VInt Q %s)" % cz(v), "bool": lambda v: "(VBool Q %s)" % cbool(v)}[dtype]

        def nest(vals, shape):
            if len(shape) == 1:
                return "(VSeq Q Brack %s)" % clist(vals, leaf)
            step = len(vals) // shape[0]
            return "(VSeq Q Brack %s)" % clist([vals[i * step:(i + 1) * step] for i in range(shape[0])],
                                              lambda part: nest(part, shape[1:]))
        return "(VArr Q %s %s)" % ('(Some "float32"%string)' if dtype == "float32" else "None", nest(vals, shape))
    raise ValueError(spec)


def c_cinstr(s):
    return '(mkCI Q "%s"%%string %s %s %s)' % (
        s["cls"], clist(s["modes"] or []), clist(s["kwargs"], lambda kv: '("%s"%%string, %s)' % (kv[0], c_pval(kv[1]))),
        cbool(bool(s.get("when"))))


TOK_SCALARS = [["float", fhex(0.1)], ["float", fhex(-0.3)], ["float", fhex(1e-7)], ["float", fhex(-1e-12)],
               ["float", fhex(123456789.123)], ["float", fhex(1e20)], ["int", 2], ["float", fhex(1 / 3)],
               ["npfloat", fhex(0.7)], ["int", 0], ["int", -3], ["float", fhex(0.123456789012345)],
               ["float", fhex(1e-300)], ["float", fhex(-2.0)], ["npint", 3], ["float", fhex(5e-324)],
               ["float", fhex(1.7976931348623157e308)], ["float", fhex(0.0)], ["int", 10 ** 25]]


def gen_tok(rng, table, n):
    """programs whose parameters lie in the rendered-exactly domain, every keyword given explicitly"""
    rows = table["rows"]
    cases = [{"program": []}]
    while len(cases) < n:
        prog = []
        for _ in range(rng.randint(1, 4)):
            r = rng.random()
            if r < 0.55:
                row = rng.choice(rows)
                prog.append({"cls": row["pq"], "kwargs": [[name, rng.choice(TOK_SCALARS)] for name in row["sig"]],
                             "modes": rng.sample(range(7), row["nmodes"])})
            elif r < 0.75:
                d = rng.randint(1, 3)
                prog.append({"cls": "NumberState",
                             "kwargs": [["occupation_numbers", ["tuple", [["int", rng.randint(0, 3)] for _ in range(d)]]],
                                        ["coefficient", rng.choice(TOK_SCALARS)]],
                             "modes": rng.choice([None, rng.sample(range(7), d)])})
            else:
                kind = rng.choice(["short", "long", "float32", "int", "bool", "vector"])
                m = rng.randint(1, 3)
                if kind == "bool":
                    a = arr("bool", [m, m], [rng.random() < 0.5 for _ in range(m * m)])
                elif kind == "vector":
                    a = arr("float64", [m + 1], [rng.choice([0.5, -1.25, 1 / 3, 1e-9, 3.0]) for _ in range(m + 1)])
                elif kind == "float32":
                    a = arr("float32", [m, m], [rng.choice([0.5, 1.0, 0.0, -0.25, 3.0]) for _ in range(m * m)])
                else:
                    a = gen_matrix(rng, kind, m)
                if rng.random() < 0.3 and kind != "vector":
                    prog.append({"cls": "GaussianTransform", "kwargs": [["passive", a], ["active", gen_matrix(rng, "short", m)]],
                                 "modes": rng.sample(range(7), m)})
                else:
                    prog.append({"cls": "Interferometer", "kwargs": [["matrix", a]], "modes": rng.sample(range(7), m)})
        if rng.random() < 0.12:
            prog[rng.randrange(len(prog))]["when"] = rng.choice(["str", "lambda"])
        cases.append({"program": prog})
    return cases


def gen_config_kwargs(rng):
    kw = []
    for k, vs in CFG_OPTS.items():
        if rng.random() < 0.45:
            kw.append([k, rng.choice(vs)])
    rng.shuffle(kw)
    return kw


def c_cfg_args(kw):
    d = dict((k, v) for k, v in kw)
    dt = {"float32": "DtFloat32", "float64": "DtFloat64", "float": "DtPyFloat"}[d.get("dtype", "float64")]
    hb = d.get("hbar", [2, 1])
    return "(mkArgs %s %s %s %s %s %s %s %s %s %s)" % (
        "(Some %s)" % cz(d["cutoff"]) if "cutoff" in d else "None", dt, cz(d.get("measurement_cutoff", 5)),
        cq(F(hb[0], hb[1])), "(Some %s)" % cz(d["seed_sequence"]) if "seed_sequence" in d else "None",
        cbool(d.get("use_torontonian", False)), cz(d.get("cache_size", 32)), cbool(d.get("validate", True)),
        cbool(d.get("use_dask", False)), cz(d.get("max_sample_generation_trials", 1000)))


# =========================================================================== the check
def replay(chk: Check, path):
    """./check C18 --replay <file>: re-runs every witness of a replay file (violations of any
    stream, and the cases quoted by broken correspondences) on the current tree through the same
    tie and search, and reports what still fails.  Proof obligations are not rebuilt."""
    data = json.load(open(path))
    cases = {"nest": [], "prep": [], "bb": [], "rt": [], "config": [], "cfgeq": [], "tok": []}
    seen = set()

    def add(c):
        if not isinstance(c, dict):
            return
        k = json.dumps(c, sort_keys=True)
        if k in seen:
            return
        seen.add(k)
        if "instrs" in c and "regs" in c:
            cases["nest"].append(c)
        elif "leaves" in c and "expr" in c:
            cases["prep"].append(c)
        elif "cls" in c and "nargs" in c:
            cases["bb"].append(c)
        elif "program" in c and "simulator" not in c:
            cases["tok"].append(c)
        elif "program" in c:
            cases["rt"].append(c)
        elif "kwargs" in c:
            cases["config"].append(c)
        elif "a" in c and "b" in c:
            cases["cfgeq"].append(c)

    for v in data.get("violations", []):
        w = v.get("witness") or {}
        add(w.get("case") if isinstance(w, dict) else None)
    dec_ = json.JSONDecoder()
    for line in data.get("broken_correspondence", []):
        i = line.find(" on {")
        if i >= 0:
            try:
                add(dec_.raw_decode(line[i + 4:])[0])
            except ValueError:
                pass
    print("replaying %d witnesses of %s (%s)" % (len(seen), path, ", ".join("%s: %d" % kv for kv in cases.items() if kv[1])))
    run(chk, replay_cases=cases)


def run(chk: Check, replay_cases=None):
    T = chk.thorough
    rng = chk.rng
    corr_broken = []

    # ---------------- translator: regenerate C18/BlackbirdGen.v from the working tree (fail closed)
    # own numba cache directory (keyed by the tree hash): the shared one is pruned by concurrently
    # running checks
    nb_cache = os.path.join(VERIF, ".run", "numba_c18", repo_tree_hash())
    os.makedirs(nb_cache, exist_ok=True)
    nb_env = {"NUMBA_CACHE_DIR": nb_cache}
    table = run_impl("c18_impl.py", {"table": 1}, extra_env=nb_env)["table"]
    text, problems = c18_gen.render(table)
    if text is not None:
        c18_gen.write_if_changed(GEN, text)
    if replay_cases is None:
        chk.proofs()
    else:
        chk.proof_broken = []
        chk.coverage.update({"obligations": 0, "discharged": 0})
    if problems:
        chk.proof_broken = list(getattr(chk, "proof_broken", [])) + ["translator failed closed: " + "; ".join(problems[:5])]
    rows = table["rows"]

    # ---------------- requests
    corpus = []
    R = replay_cases
    if R is None and os.path.exists(CORPUS):
        corpus = [json.loads(l) for l in open(CORPUS) if l.strip()]
    n_nest = 1500 if T else 300
    n_prep = 4000 if T else 360
    n_rt = 600 if T else 90
    n_cfg = 1500 if T else 200
    if R is not None:
        n_nest = n_prep = n_rt = n_cfg = 0
    nest_cases = gen_nest(rng, n_nest) if R is None else R["nest"]
    prep_cases = [c["case"] for c in corpus if c["stream"] == "prep"] + (R["prep"] if R else [])
    n_corpus_prep = len(prep_cases)
    # every bracketing of 2..4 leaves at least once with and without aliasing, then random ones
    for nl in ((2, 3, 4) if R is None else ()):
        for _ in SHAPES[nl]:
            prep_cases.append(gen_prep_case(rng, nl, alias=False))
            prep_cases.append(gen_prep_case(rng, nl, alias=True))
    while len(prep_cases) < n_prep:
        prep_cases.append(gen_prep_case(rng))
    for i, c in enumerate(prep_cases):
        c["passive"] = (i % 40 == 0)
    # Blackbird positional mapping: every row, several value vectors, every truncation of the arguments
    val_ids = {}

    def vid(spec):
        key = json.dumps(spec)
        return val_ids.setdefault(key, len(val_ids))

    bb_cases = [] if R is None else list(R["bb"])
    for r in (rows if R is None else []):
        ar = len(r["sig"])
        for rep in range(6 if T else 3):
            kwargs = [rng.choice(SCALARS) for _ in range(ar)]
            for nargs in range(ar + 1):
                bb_cases.append({"cls": r["pq"], "kwargs": kwargs, "modes": rng.sample(range(8), r["nmodes"] or 1), "nargs": nargs})
    outside = [c for c in table["all_classes"] if c not in {r["pq"] for r in rows}]
    rt_cases = [c["case"] for c in corpus if c["stream"] == "rt"] + (gen_rt(rng, table, n_rt, T) if R is None else R["rt"])
    cfg_cases = [{"kwargs": [], "d": None},
                 {"kwargs": [["cutoff", 4], ["seed_sequence", 0], ["hbar", [2, 1]], ["dtype", "float"]], "d": 2}]
    # every field alone (the sole non-default entry), then random subsets
    for k, vs in CFG_OPTS.items():
        for v in vs:
            cfg_cases.append({"kwargs": [[k, v]], "d": rng.choice([None, 2])})
    cfg_cases += [{"kwargs": gen_config_kwargs(rng), "d": rng.choice([None, 1, 3, 8])} for _ in range(n_cfg)]
    # Config.__eq__ on pairs: identical, one field changed, one field added/dropped, unrelated
    cfgeq_cases = []
    for k, vs in CFG_OPTS.items():
        for v in vs:
            cfgeq_cases.append({"a": [[k, v]], "b": []})
            cfgeq_cases.append({"a": [[k, v]], "b": [[k, vs[0]]]})
    for _ in range(n_cfg // 2):
        a = gen_config_kwargs(rng)
        r_ = rng.random()
        if r_ < 0.3:
            b = list(a)
        elif r_ < 0.8:
            k = rng.choice(list(CFG_OPTS))
            b = [kv for kv in a if kv[0] != k] + ([[k, rng.choice(CFG_OPTS[k])]] if rng.random() < 0.7 else [])
        else:
            b = gen_config_kwargs(rng)
        cfgeq_cases.append({"a": a, "b": b})
    if R is not None:
        cfg_cases, cfgeq_cases = R["config"], R["cfgeq"]
    tok_cases = gen_tok(rng, table, (400 if T else 80)) if R is None else R.get("tok", [])

    impl = run_impl("c18_impl.py", {"nest": nest_cases, "prep": prep_cases, "bb": bb_cases,
                                    "bb_unknown": ["Foogate", "Interferometer", "dgate", ""],
                                    "bb_outside": outside, "rt": rt_cases, "config": cfg_cases,
                                    "cfgeq": cfgeq_cases, "cfg_sweep": 1, "tok": tok_cases}, timeout=3000,
                    extra_env=nb_env)

    # ====================================================== 1. nesting
    items = []
    for c, r in zip(nest_cases, impl["nest"]):
        code = ERR.get(r["error"], 9)
        instrs = clist(list(enumerate(c["instrs"])), lambda js: "(mkInstr %d %s %s %s)" % (
            js[1]["cls"], "None" if r["nmodes"][js[0]] is None else "(Some %s)" % cz(r["nmodes"][js[0]]),
            "None" if js[1]["modes"] is None else "(Some %s)" % clist(js[1]["modes"]), cz(r["inner_before"][js[0]][2])))
        ent = lambda e: "(%s, %s, %s)" % (cz(e[0]), clist(e[1]), cz(e[2]))
        items.append("(%s, %s, %s, %s, %s)" % (instrs, clist(c["regs"], clist), cz(code),
                                             clist(r["result"] or [], ent), clist(r["inner_after"], ent)))
    mm, = eval_cases("c18_nest", NEST_DEFS, "list instr * list (list Z) * Z * list (Z * list Z * Z) * list (Z * list Z * Z)",
                     "nest_ok", items)
    for i in mm:
        corr_broken.append("nesting: model != implementation on %s -> %s" % (json.dumps(nest_cases[i]), json.dumps(
            {k: impl["nest"][i][k] for k in ("result", "error", "inner_after")})))
    nest_viol = {}
    for c, r in zip(nest_cases, impl["nest"]):
        problems_ = []
        if r["inner_after"] != r["inner_before"] or not r["inner_same_objects"]:
            problems_.append(("C18:Program._apply_to_program_on_register:inner-program-modified",
                              "registering a program inside another changed the inner program"))
        if not r["stack_empty"]:
            problems_.append(("C18:Program.__exit__:stack-not-empty", "program stack not empty after the with blocks"))
        if r["error"] is None:
            try:
                expect = [[e[0], py_compose(c["regs"], e[1]), e[2]] for e in r["inner_before"]]
            except IndexError:
                expect = None  # the reference says this registration cannot succeed
            if r["result"] != expect:
                problems_.append(("C18:Program._map_modes:modes-not-mapped-once",
                                  "modes of the outer program are not the inner modes sent through the registers once"))
            if r["shared_objects"]:
                problems_.append(("C18:Program._apply_to_program_on_register:objects-shared",
                                  "outer and inner program share instruction objects"))
            if not r["again_equal"]:
                problems_.append(("C18:Program._apply_to_program_on_register:not-reusable",
                                  "registering the same inner program a second time gives a different result"))
        elif r["error"] not in ERR:
            problems_.append(("C18:nesting:unexpected-exception", "unexpected exception " + r["error"]))
        for key, what in problems_:
            nest_viol.setdefault(key, (what, {"case": c, "observed": r}))
    for key, (what, w) in nest_viol.items():
        chk.violation(key, what, w)
    depth_hist = {}
    for c in nest_cases:
        depth_hist[len(c["regs"])] = depth_hist.get(len(c["regs"]), 0) + 1
    errs = {}
    for r in impl["nest"]:
        errs[r["error"] or "ok"] = errs.get(r["error"] or "ok", 0) + 1
    chk.stream("nested registration vs model (depth 0-4, random registers, empty registers, malformed stream)",
               len(nest_cases), len({json.dumps(c) for c in nest_cases if len(c["regs"]) >= 2}),
               samples=[{"case": nest_cases[0], "result": impl["nest"][0]["result"], "error": impl["nest"][0]["error"]}] if nest_cases else None,
               note="depth histogram %s; outcome mix %s" % (json.dumps(depth_hist, sort_keys=True), json.dumps(errs, sort_keys=True)))

    # ====================================================== 2. preparation algebra
    items, usable = [], []
    for i, (c, r) in enumerate(zip(prep_cases, impl["prep"])):
        if r["error"] is not None or r["result"]["kind"].startswith("other"):
            corr_broken.append("preparation algebra: implementation raised %s on %s" % (r["error"], json.dumps(c)))
            continue
        support = sorted({tuple(k) for l in c["leaves"] for k in ([l["occ"]] if l["kind"] == "ns" else [kv[0] for kv in l["items"]])})
        amps = {tuple(a[0]): (F(*a[1]), F(*a[2])) for a in r["amps_fock"]}
        r["_amps"] = amps
        amp_items = clist([(list(x), amps.get(x, (F(0), F(0)))[0]) for x in support], lambda xa: "(%s, %s)" % (clist(xa[0]), cq(xa[1])))
        items.append("(%s, %s, %s, %s, %s)" % (clist(c["leaves"], c_pobj), c_expr(c["expr"]), c_pobj(r["result"]),
                                             clist(r["leaves_after"], c_pobj), amp_items))
        usable.append(i)
    mm, legacy_mm = eval_cases("c18_prep", PREP_DEFS,
                               "list (pobj Q) * expr Q * pobj Q * list (pobj Q) * list (list Z * Q)",
                               "prep_ok false", items, per=120, extra_evals=["prep_ok true"])
    mm = [usable[i] for i in mm]
    legacy_mm = set(usable[i] for i in legacy_mm)
    n_legacy_match = sum(1 for i in mm if i not in legacy_mm)
    for i in mm[:50]:
        corr_broken.append("preparation algebra: model (repaired code) != implementation on %s -> %s%s" % (
            json.dumps(prep_cases[i]), json.dumps(impl["prep"][i]["result"]),
            " [implementation agrees with the model of the code BEFORE fixes/C18-preparation-algebra.diff]" if i not in legacy_mm else ""))
    if len(mm) > 50:
        corr_broken.append("... and %d more preparation-algebra disagreements" % (len(mm) - 50))
    if mm:
        chk.notes.append("preparation algebra: %d of %d cases disagree with the repaired model; %d of them agree with the legacy model (in-place __mul__, NumberState+FockStateVector ignoring the coefficient)" % (len(mm), len(usable), n_legacy_match))
    # search: the property stated directly on the implementation
    prep_viol = {}
    for i, (c, r) in enumerate(zip(prep_cases, impl["prep"])):
        if r["error"] is not None:
            prep_viol.setdefault("C18:preparation-algebra:exception", ("operator raised " + r["error"], {"case": c}))
            continue
        want = {k: v for k, v in expr_sem(c["expr"], c["leaves"]).items() if v != 0}
        got = {k: v[0] for k, v in r["_amps"].items()} if "_amps" in r else {}
        imag = any(v[1] != 0 for v in r.get("_amps", {}).values())
        idx = expr_leaves(c["expr"])
        aliased = len(set(idx)) < len(idx)
        size = len(json.dumps(c))
        if got != want or imag:
            key = ("C18:WeightMixin.__mul__:aliased-operand" if aliased
                   else "C18:NumberState.__add__:fsv-coefficient-ignored")
            w = {"case": c, "prepared_amplitudes": {str(k): str(v) for k, v in got.items()},
                 "expected": {str(k): str(v) for k, v in want.items()}, "result_object": r["result"]}
            if key not in prep_viol or prep_viol[key][2] > size:
                prep_viol[key] = ("the composite preparation does not denote the linear combination written", w, size)
        if "amps_passive" in r:
            gp = {tuple(a[0]): F(*a[1]) for a in r["amps_passive"]}
            if gp != got:
                prep_viol.setdefault("C18:preparation:simulators-disagree", (
                    "PassiveSimulator and PureFockSimulator prepare different states from the same object", {"case": c}, size))
        if not r["leaves_unchanged"] or (r["result_is_leaf"] and expr_has_op(c["expr"])):
            key = "C18:WeightMixin.__mul__:operand-modified"
            w = {"case": c, "leaves_after": r["leaves_after"]}
            if key not in prep_viol or prep_viol[key][2] > size:
                prep_viol[key] = ("an operand of the expression was modified (or returned as the result)", w, size)
    for key, v in prep_viol.items():
        chk.violation(key, v[0], v[1])
    nl_hist = {}
    for c in prep_cases:
        n = len(expr_leaves(c["expr"]))
        nl_hist[n] = nl_hist.get(n, 0) + 1
    chk.stream("preparation algebra: expression trees (<=5 leaves, every bracketing, aliased leaves) vs model: result object, operands afterwards, prepared amplitudes (PureFock; Passive on 1/40)",
               len(prep_cases), len({json.dumps([c["leaves"], c["expr"]]) for c in prep_cases if len(expr_leaves(c["expr"])) >= 2}),
               samples=[{"case": prep_cases[-1], "result": impl["prep"][-1]["result"]}] if prep_cases else None,
               note="leaves histogram %s; %d corpus cases first" % (json.dumps(nl_hist, sort_keys=True), n_corpus_prep))

    # ====================================================== 3. Blackbird positional mapping vs generated table
    def value_id(encv):
        return vid(encv)

    dfl = {}
    for r in rows:
        for j, dv in enumerate(r["defaults"]):
            dfl[(r["pq"], j)] = value_id(dv)
    dflt_def = "Definition dfl (c : string) (j : nat) : Z := " + "".join(
        'if (String.eqb c "%s" && Nat.eqb j %d)%%bool then %d else ' % (c, j, v) for (c, j), v in dfl.items()) + "(-1).\n"
    items, bb_idx = [], []
    bb_viol = {}
    for i, (c, r) in enumerate(zip(bb_cases, impl["bb"])):
        if "error" in r or r.get("export") == "refused":
            corr_broken.append("blackbird: %s on %s" % (r.get("error", "export refused for a mapped class"), json.dumps(c)))
            continue
        ps = [(k, value_id(v)) for k, v in r["params"]]
        ex = r["export"]
        im = r["import"]
        items.append('("%s", %s, %s, %d%%nat, ("%s", %s, %s), ("%s", %s, %s))' % (
            c["cls"], clist(ps, lambda kv: '("%s", %s)' % (kv[0], cz(kv[1]))), clist(c["modes"]), c["nargs"],
            ex["op"], clist([value_id(a) for a in ex["args"]]), clist(ex["modes"]),
            im["cls"], clist([(k, value_id(v)) for k, v in im["params"]], lambda kv: '("%s", %s)' % (kv[0], cz(kv[1]))),
            clist(im["modes"])))
        bb_idx.append(i)
        # search: full-argument import gives back the instruction
        if c["nargs"] == len(c["kwargs"]):
            if im["cls"] != c["cls"] or im["params"] != r["params"] or im["modes"] != c["modes"]:
                bb_viol.setdefault("C18:_blackbird:operation-round-trip:" + c["cls"], (
                    "importing the exported operation does not give back the instruction", {"case": c, "observed": r}))
    bb_defs = dflt_def + """
Definition sv_eqb (a b : list (string * Z)) := list_eqb (fun x y => String.eqb (fst x) (fst y) && (snd x =? snd y)) a b.
Definition bb_ok (x : string * list (string * Z) * list Z * nat * (string * list Z * list Z) * (string * list (string * Z) * list Z)) : bool :=
  let '(cls, params, modes, nargs, ex, im) := x in
  match export Z bb_table cls params modes with
  | Some (op, args, ms) =>
      let '(op', args', ms') := ex in
      String.eqb op op' && zl_eqb args args' && zl_eqb ms ms' &&
      match import Z dfl bb_table op (firstn nargs args) ms with
      | Some (c2, p2, m2) => let '(c2', p2', m2') := im in String.eqb c2 c2' && sv_eqb p2 p2' && zl_eqb m2 m2'
      | None => false
      end
  | None => false
  end.
"""
    mm, = eval_cases("c18_bb", bb_defs, "string * list (string * Z) * list Z * nat * (string * list Z * list Z) * (string * list (string * Z) * list Z)",
                     "bb_ok", items, per=200)
    for i in mm:
        j = bb_idx[i]
        corr_broken.append("blackbird: model(export/import over the generated table) != implementation on %s -> %s" % (
            json.dumps(bb_cases[j]), json.dumps(impl["bb"][j])))
    for name, st in zip(outside, impl["bb_refused"]):
        if st not in ("refused", "abstract"):
            bb_viol.setdefault("C18:_blackbird:export-outside-map:" + name, ("export of a class outside the map: " + st, {"class": name}))
    for op, st in zip(["Foogate", "Interferometer", "dgate", ""], impl["bb_unknown"]):
        if st != "refused":
            bb_viol.setdefault("C18:_blackbird:import-unknown-op", ("unknown operation " + repr(op) + ": " + st, {"op": op}))
    for key, (what, w) in bb_viol.items():
        chk.violation(key, what, w)
    chk.stream("Blackbird operation export/import vs model over the regenerated table (every mapped class, every argument truncation; refusal for every class outside the map)",
               len(bb_cases) + len(outside) + 4, len(bb_idx), samples=[{"case": bb_cases[0], "observed": impl["bb"][0]}] if bb_cases else None,
               exhaustive=False, note="%d mapped classes, %d instruction classes outside the map" % (len(rows), len(outside)))

    # ====================================================== 4. whole-program round trips (search; text layer not modelled)
    rt_viol = {}
    counts = {"blackbird": 0, "as_code": 0, "from_dict": 0, "copy": 0}
    rt_skipped = sum(1 for r in impl["rt"] if "skipped" in r)
    for c, r in zip(rt_cases, impl["rt"]):
        kinds = sorted({s.get("matrix_kind") for s in c["program"] if s.get("matrix_kind")})
        for trip in ("blackbird", "as_code", "from_dict", "copy"):
            if trip not in r:
                continue
            counts[trip] += 1
            d = r[trip]
            if d is None:
                continue
            if trip == "as_code" and kinds and ("instruction" in d.get("what", "") or "does not execute" in d.get("what", "")):
                key = "C18:Instruction._param_repr:ndarray-" + ("not-executable" if "does not execute" in d.get("what", "") else "lossy")
            else:
                key = "C18:%s:%s" % ({"blackbird": "to_blackbird_code/loads_blackbird", "as_code": "as_code/exec",
                                      "from_dict": "Program.from_dict", "copy": "Program.copy"}[trip],
                                     d.get("what", "differs").split(" ")[0])
            size = len(json.dumps(c))
            if key not in rt_viol or rt_viol[key][2] > size:
                rt_viol[key] = ("%s round trip does not reproduce the program (%s)" % (trip, d.get("what")),
                                {"case": c, "difference": d}, size)
    for key, v in rt_viol.items():
        chk.violation(key, v[0], v[1])
    chk.stream("round trips on the implementation: to_blackbird_code->loads_blackbird, as_code->exec, from_dict, copy (scalar values incl. 0.123456789012345, 1e-12, 1e20, 5e-324, ints, numpy scalars; matrix parameters of several dtypes)",
               sum(counts.values()), len({json.dumps(c["program"]) for c in rt_cases}), kind="search",
               samples=[{"program": rt_cases[-1]["program"][:2], "simulator": rt_cases[-1]["simulator"]}] if rt_cases else None,
               note="per trip: %s; %d generated programs rejected by a constructor and skipped" % (json.dumps(counts, sort_keys=True), rt_skipped))

    # ====================================================== 4b. the emitted text as tokens vs the token model
    items, tok_idx, tok_viol = [], [], {}
    outcome = {}
    for i, (c, r) in enumerate(zip(tok_cases, impl["tok"])):
        if "skipped" in r:
            outcome["skipped"] = outcome.get("skipped", 0) + 1
            continue
        outcome[r["error"] or "emitted"] = outcome.get(r["error"] or "emitted", 0) + 1
        if r["error"] not in (None, "refused"):
            corr_broken.append("program text: _as_code raised %s on %s" % (r["error"], json.dumps(c)))
            continue
        if r["tokens"] is None:
            impl_t = "None"
        else:
            ts = [c_tok(t) for t in r["tokens"]]
            if any(t is None for t in ts):
                corr_broken.append("program text: a token outside the modelled grammar (%s) in %s" % (
                    [t for t in r["tokens"] if c_tok(t) is None][:3], json.dumps(r["text"])))
                continue
            impl_t = "(Some %s)" % clist(ts, lambda x: x)
        items.append("(%s, %s)" % (clist(c["program"], c_cinstr), impl_t))
        tok_idx.append(i)
        conditioned = any(s_.get("when") for s_ in c["program"])
        if conditioned != (r["error"] == "refused"):
            tok_viol.setdefault("C18:Program._as_code:condition-handling", (
                "a conditioned instruction must be refused by _as_code and an unconditioned program must not", {"case": c, "observed": r["error"]}))
        if r["error"] is None and r.get("exec_diff"):
            tok_viol.setdefault("C18:Program._as_code/exec:" + r["exec_diff"].get("what", "differs").split(" ")[0], (
                "executing the emitted program text does not give back class, modes and parameter values", {"case": c, "difference": r["exec_diff"], "text": r["text"]}))
    mm, = eval_cases("c18_tok", TOK_DEFS, "list (cinstr Q) * option (list (tok Q))", "tok_ok", items, per=40)
    for i in mm:
        j = tok_idx[i]
        corr_broken.append("program text: token model != tokenised implementation text on %s -> %s" % (
            json.dumps(tok_cases[j]), json.dumps(impl["tok"][j].get("text"))))
    for key, (what, w) in tok_viol.items():
        chk.violation(key, what, w)
    for rec in impl.get("strparams", []):
        chk.notes.append("as_code with a %s: %s%s" % (rec["label"], rec.get("outcome"), (" [" + re.sub(r"0x[0-9a-f]+", "0x..", rec["line"]) + "]") if rec.get("line") else ""))
        if rec.get("same_class_and_modes") is False:
            chk.violation("C18:as_code:string-or-callable-parameter:class-or-modes-changed",
                          "code emitted for a " + rec["label"] + " executes but builds a different instruction", rec)
    chk.stream("Program._as_code text tokenised by Python's tokenize vs token model (tokens equal; the model's reader on the implementation's tokens returns the program; conditioned instructions refused); text re-executed",
               len(tok_cases), len({json.dumps(c) for c in tok_cases if c["program"]}),
               samples=[{"case": tok_cases[-1], "text": impl["tok"][-1].get("text")}] if tok_cases else None,
               note="outcomes %s; string/callable parameters and conditions: see notes" % json.dumps(outcome, sort_keys=True))

    # ====================================================== 5. Config / Simulator code
    items, cfg_idx = [], []
    cfg_viol = {}
    for i, (c, r) in enumerate(zip(cfg_cases, impl["config"])):
        if "error" in r:
            cfg_viol.setdefault("C18:Config._as_code:exception", ("Config code emission/execution raised " + r["error"], {"case": c}))
            continue
        items.append("(%s, %s, %s, %s)" % (c_cfg_args(c["kwargs"]), "None" if c["d"] is None else "(Some %s)" % cz(c["d"]),
                                           clist(r["emitted"], lambda e: "(%s, %s)" % (cz(e[0]), cq(F(e[1][0], e[1][1])))),
                                           cbool(r["sim_has_config"])))
        cfg_idx.append(i)
        if not r["equal"] or not r["code_again"]:
            cfg_viol.setdefault("C18:Config._as_code:not-equal-after-exec", ("Config rebuilt from its code is not == to the original", {"case": c, "observed": r}))
        if not r["sim_equal"] or r["sim_d"] != c["d"]:
            cfg_viol.setdefault("C18:Simulator._as_code:not-equal-after-exec", ("Simulator rebuilt from its code differs (attribute by attribute)", {"case": c, "observed": r}))
        if r["equal"] and not r["eq"]:
            cfg_viol.setdefault("C18:Config.__eq__:equal-attributes-compare-unequal", ("Config rebuilt with identical attributes is not == to the original", {"case": c, "observed": r}))
        if not r["copy_equal"]:
            cfg_viol.setdefault("C18:Config.copy:attributes-differ", ("Config.copy() changes an attribute or does not share the generator", {"case": c, "observed": r}))
    mm, = eval_cases("c18_cfg", KW_DEFS, "cfg_args * option Z * list (Z * Q) * bool", "cfg_ok", items, per=300)
    for i in mm:
        j = cfg_idx[i]
        corr_broken.append("config code: model != implementation on %s -> %s" % (json.dumps(cfg_cases[j]), impl["config"][j].get("code")))
    # Config.__eq__ against the model's cfg_eqb on pairs, and stated directly (== iff same attributes)
    eq_items, eq_idx = [], []
    for i, (c, r) in enumerate(zip(cfgeq_cases, impl["cfgeq"])):
        if "error" in r:
            cfg_viol.setdefault("C18:Config.__eq__:exception", ("Config comparison raised " + r["error"], {"case": c}))
            continue
        eq_items.append("(%s, %s, %s)" % (c_cfg_args(c["a"]), c_cfg_args(c["b"]), cbool(r["eq"])))
        eq_idx.append(i)
        if r["eq"] != r["attrs_equal"] or r["eq_rev"] != r["eq"] or r["ne"] == r["eq"]:
            diff = sorted({k for k, _ in c["a"]} ^ {k for k, _ in c["b"]} | {k for k, v in c["a"] if [k, v] not in c["b"]})
            cfg_viol.setdefault("C18:Config.__eq__:" + ("fields-" + "+".join(diff) if diff else "identical"), (
                "Config.__eq__ disagrees with the attribute-by-attribute comparison (== %s, attributes %s)" % (
                    r["eq"], "equal" if r["attrs_equal"] else "differ"), {"case": c, "observed": r}))
    mm, = eval_cases("c18_cfgeq", KW_DEFS, "cfg_args * cfg_args * bool",
                     "fun x => let '(a, b, r) := x in Bool.eqb (cfg_eqb (construct a) (construct b)) r", eq_items, per=300)
    for i in mm:
        j = eq_idx[i]
        corr_broken.append("Config.__eq__: model cfg_eqb != implementation on %s -> %s" % (json.dumps(cfgeq_cases[j]), json.dumps(impl["cfgeq"][j])))
    # single-field sweep generated by the runner from inspect.signature(Config): every field, alone
    sweep = impl.get("cfg_sweep", [])
    for rec in sweep:
        if rec["problems"]:
            area = rec["problems"][0].split(":")[0].split(" ")[0]
            cfg_viol.setdefault("C18:Config:single-field:%s:%s" % (rec["field"], area), (
                "a configuration whose sole non-default entry is %s=%s: %s" % (rec["field"], rec["value"], rec["problems"][0]),
                {"config": {rec["field"]: rec["value"]}, "problems": rec["problems"][:6],
                 "call": "pq.<Simulator>(d, config=pq.Config(%s=%s)); pq.as_code / _as_code / == / copy, compared attribute by attribute" % (rec["field"], rec["value"])}))
    for key, (what, w) in cfg_viol.items():
        chk.violation(key, what, w)
    chk.stream("Config: every field alone (runner-generated from the signature) through ==, copy, _as_code+eval, Simulator._as_code+eval, pq.as_code+exec for three simulator classes, attribute by attribute",
               len(sweep) * 15, len(sweep), kind="search", exhaustive=True,
               samples=[{"field": sweep[-1]["field"], "value": sweep[-1]["value"]}] if sweep else None)
    chk.stream("Config.__eq__ on pairs vs model cfg_eqb and vs attribute comparison", len(cfgeq_cases),
               len({json.dumps(c) for c in cfgeq_cases if c["a"] != c["b"]}),
               samples=[{"case": cfgeq_cases[-1], "observed": impl["cfgeq"][-1]}] if cfgeq_cases else None)
    chk.stream("Config._as_code / Simulator._as_code vs model (emitted keywords, order, values) and == after exec",
               len(cfg_cases), len({json.dumps(sorted(map(json.dumps, c["kwargs"]))) for c in cfg_cases if c["kwargs"]}),
               samples=[{"case": cfg_cases[-1], "code": impl["config"][-1].get("code")}] if cfg_cases else None)

    chk.assumptions += [
        "the Blackbird table is read from the working tree by introspection (inspect.signature, a sentinel-instantiated object); the `blackbird` package's printer/parser, repr/str of floats and exec are exercised by the round-trip stream, not modelled",
        "preparation algebra: the tie runs over dyadic rational coefficients, where float arithmetic is exact; the theorems hold over every commutative ring, floats are not one (rounding can make differently grouped sums differ in the last bits)",
        "the model of nesting takes a program to hold Instruction objects only (a Program placed inside Program.instructions has no .modes and raises AttributeError in _map_modes)",
    ]
    chk.finish(
        rule="nesting: distinct cases with depth >= 2; preparation algebra: distinct (leaves, tree) with >= 2 leaves; Blackbird: operations whose export succeeded; round trips: distinct programs; config: distinct non-empty keyword sets",
        explanation="Theorems of coq/theories/Props/C18.v about the Gallina models in coq/theories/C18 (nesting for every depth/register/program with an object heap; preparation algebra over every commutative ring and every expression tree; Blackbird parameter round trip over the table regenerated from the working tree; Config/Simulator code round trip for every argument combination). Tie = exact differential run of the models (vm_compute inside coqc) against piquasso; search = the round trips and the linearity statement evaluated directly on the implementation.",
        correspondence_broken=corr_broken,
    )
