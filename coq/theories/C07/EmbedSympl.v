(* C07 — embed_symplectic: a unitary / symplectic block pair (P, A) embedded in the identity on any
   duplicate-free tuple of modes gives a symplectic 2d x 2d ladder-operator matrix
   S diag(I,-I) S^dagger = diag(I,-I), and the corresponding real matrix of the xxpp basis satisfies
   Sr Omega Sr^T = Omega. *)
From Coq Require Import List Arith Bool Lia Ring Setoid Morphisms.
From PV Require Import C07.CxBase C07.MomentsModel C07.SumLemmas C07.MomentsProofs C07.MatF C07.StepK
  C07.SeqProofs C07.QuadProofs.
Import ListNotations.

Section Embed.
  Context {A : Type} (co : COps A).
  Local Notation "0" := (z0 co).
  Local Notation "1" := (z1 co).
  Local Infix "+" := (zadd co).
  Local Infix "*" := (zmul co).
  Local Notation conj := (zconj co).

  Hypothesis Ath : ring_theory 0 1 (zadd co) (zmul co) (zsub co) (zopp co) eq.
  Hypothesis conj_0 : conj 0 = 0.
  Hypothesis conj_1 : conj 1 = 1.
  Hypothesis conj_add : forall x y, conj (x + y) = conj x + conj y.
  Hypothesis conj_mul : forall x y, conj (x * y) = conj x * conj y.
  Hypothesis conj_conj : forall x, conj (conj x) = x.
  Add Ring Aring7 : Ath.

  Variable d : nat.

  Lemma embedded_conditions : forall modes P Am,
    modes_ok d modes -> sympl1 co (length modes) P Am -> sympl2 co (length modes) P Am ->
    eqm d (mmf co d (embedP co modes P) (trf (cjf co (embedP co modes P))))
          (addf co (idf co) (mmf co d (embedA co modes Am) (trf (cjf co (embedA co modes Am))))) /\
    eqm d (mmf co d (embedP co modes P) (trf (embedA co modes Am)))
          (mmf co d (embedA co modes Am) (trf (embedP co modes P))).
  Proof.
    intros modes P Am [Hnd Hlt] H1 H2. split; intros i j Hi Hj.
    - exact (embed_PPd co Ath conj_0 conj_1 d modes P Am Hnd Hlt H1 i j Hi Hj).
    - exact (embed_PAT_sym co Ath d modes P Am Hnd Hlt H2 i j Hi Hj).
  Qed.

  (* the blocks of a valid passive / active step satisfy both symplectic conditions *)
  Definition step_blocks (o : lop (A := A)) : option (list nat * mat (A := A) * mat (A := A)) :=
    match o with
    | LPassive T modes => Some (modes, T, [])
    | LLinear P Am modes => Some (modes, P, Am)
    | LDisp _ _ => None
    end.
  Lemma valid_blocks : forall o modes P Am, valid co d o -> step_blocks o = Some (modes, P, Am) ->
    modes_ok d modes /\ sympl1 co (length modes) P Am /\ sympl2 co (length modes) P Am.
  Proof.
    intros o modes P Am Hv Hb. destruct o as [T ms|P0 A0 ms|a ms]; simpl in Hb; inversion Hb; subst.
    - destruct Hv as [Hm HU]. split; [exact Hm|]. split; intros a b Ha Hb'.
      + rewrite (HU a b Ha Hb').
        rewrite (sumn_zero_ext co Ath (length modes) (fun c => get co [] a c * conj (get co [] b c)))
          by (intros; rewrite (get_nil co); ring). ring.
      + rewrite (sumn_zero_ext co Ath (length modes) (fun c => get co P a c * get co [] b c))
          by (intros; rewrite (get_nil co); ring).
        rewrite (sumn_zero_ext co Ath (length modes) (fun c => get co P b c * get co [] a c))
          by (intros; rewrite (get_nil co); ring). reflexivity.
    - exact Hv.
  Qed.

  (* embed_symplectic *)
  Theorem embed_symplectic : forall modes P Am,
    modes_ok d modes -> sympl1 co (length modes) P Am -> sympl2 co (length modes) P Am ->
    eqm (d + d) (cong co (d + d) (Sgate co d modes P Am) (Omc co d)) (Omc co d).
  Proof.
    intros modes P Am Hm H1 H2. destruct (embedded_conditions modes P Am Hm H1 H2) as [E1 E2].
    unfold Sgate. exact (S_symplectic co Ath conj_0 conj_1 conj_add conj_mul conj_conj d _ _ E1 E2).
  Qed.

  Variables ii half : A.
  Hypothesis Hii : ii * ii = zopp co 1.
  Hypothesis conj_ii : conj ii = zopp co ii.
  Hypothesis Hhalf : (1 + 1) * half = 1.

  Theorem embed_real_symplectic : forall modes P Am,
    modes_ok d modes -> sympl1 co (length modes) P Am -> sympl2 co (length modes) P Am ->
    let S := Sr co ii half d (embedP co modes P) (embedA co modes Am) in
    eqm (d + d) (mmf co (d + d) (mmf co (d + d) S (Om co d)) (trf S)) (Om co d).
  Proof.
    intros modes P Am Hm H1 H2 S. destruct (embedded_conditions modes P Am Hm H1 H2) as [E1 E2].
    exact (Sr_symplectic co Ath conj_0 conj_1 conj_add conj_mul conj_conj ii half Hii conj_ii Hhalf d _ _ E1 E2).
  Qed.
End Embed.
