"""Implementation side of C08: runs piquasso programs prefix by prefix and reports the state
after every instruction together with what the state says about itself."""
import json
import sys
import warnings

import numpy as np

import piquasso as pq

warnings.filterwarnings("ignore")


def exc_name(e):
    return type(e).__name__


def arr(x):
    return np.array(x, dtype=float)


def carr(re, im):
    return np.array(re, dtype=float) + 1j * np.array(im, dtype=float)


def build_instr(spec):
    op = spec["op"]
    p = spec.get("params", {})
    modes = spec.get("modes")
    if op == "Vacuum":
        ins = pq.Vacuum()
    elif op == "Thermal":
        ins = pq.Thermal(p["mean_photon_numbers"])
    elif op == "Covariance":
        ins = pq.Covariance(arr(p["cov"]))
    elif op == "Mean":
        ins = pq.Mean(arr(p["mean"]))
    elif op == "Interferometer":
        ins = pq.Interferometer(carr(p["re"], p["im"]))
    elif op == "GaussianTransform":
        ins = pq.GaussianTransform(passive=carr(p["pre"], p["pim"]), active=carr(p["are"], p["aim"]))
    elif op == "DeterministicGaussianChannel":
        ins = pq.DeterministicGaussianChannel(X=arr(p["X"]), Y=arr(p["Y"]))
    elif op == "GeneraldyneMeasurement":
        ins = pq.GeneraldyneMeasurement(detection_covariance=arr(p["detection_covariance"]))
    elif op == "SNAP":
        ins = pq.SNAP(theta=list(p["theta"]))
    elif op == "StateVector":
        ins = pq.StateVector(tuple(p["occ"]), coefficient=complex(p["re"], p["im"]))
    elif op == "DensityMatrix":
        ins = pq.DensityMatrix(tuple(p["ket"]), tuple(p["bra"]), coefficient=complex(p["re"], p["im"]))
    else:
        ins = getattr(pq, op)(**p)
    if modes is not None:
        ins = ins.on_modes(*modes)
    return ins


def gaussian_report(state, hbar, with_probs):
    rec = {}
    rec["m_re"] = np.real(state._m).tolist()
    rec["m_im"] = np.imag(state._m).tolist()
    cov = state.xpxp_covariance_matrix
    rec["cov_is_real"] = bool(np.isrealobj(cov) or np.all(np.imag(cov) == 0))
    rec["cov"] = np.real(cov).tolist()
    rec["mean"] = np.real(state.xpxp_mean_vector).tolist()
    try:
        state.validate()
        rec["validate"] = None
    except Exception as e:  # noqa
        rec["validate"] = exc_name(e)
    try:
        rec["purity"] = float(state.get_purity())
        rec["is_pure"] = bool(state.is_pure())
    except Exception as e:  # noqa
        rec["purity"] = None
        rec["is_pure"] = None
        rec["purity_exc"] = exc_name(e)
    if with_probs:
        try:
            pr = np.asarray(state.fock_probabilities, dtype=float)
            rec["probs_min"] = float(pr.min())
            rec["probs_max"] = float(pr.max())
            rec["probs_sum"] = float(pr.sum())
        except Exception as e:  # noqa
            rec["probs_exc"] = exc_name(e)
    return rec


def run_gauss(case):
    d = case["d"]
    hbar = case["hbar"][0] / case["hbar"][1]
    cfg = dict(hbar=hbar, cutoff=case.get("cutoff", 4))
    if "validate" in case:
        cfg["validate"] = case["validate"]
    out = {"prefix": []}
    specs = case["instrs"]
    for k in range(1, len(specs) + 1):
        rec = {}
        try:
            sim = pq.GaussianSimulator(d=d, config=pq.Config(**cfg))
            instrs = [build_instr(s) for s in specs[:k]]
            state = sim.execute_instructions(instrs).state
            rec = gaussian_report(state, hbar, case.get("probs", False) and k == len(specs))
            rec["exc"] = None
        except Exception as e:  # noqa
            rec = {"exc": exc_name(e), "msg": str(e)[:200]}
        out["prefix"].append(rec)
        if rec["exc"] is not None:
            break
    # conditional state of a general-dyne measurement, called directly with a chosen outcome
    dy = case.get("dyne")
    if dy is not None and out["prefix"] and out["prefix"][-1]["exc"] is None:
        try:
            from piquasso._simulators.gaussian.simulation_steps import _get_generaldyne_evolved_state

            sim = pq.GaussianSimulator(d=d, config=pq.Config(**cfg))
            state = sim.execute_instructions([build_instr(s) for s in specs]).state
            sample = np.array(dy["sample_hat"], dtype=float) * np.sqrt(hbar)
            new = _get_generaldyne_evolved_state(state, sample, tuple(dy["modes"]), arr(dy["sigma_m"]))
            rec = gaussian_report(new, hbar, False)
            rec["exc"] = None
        except Exception as e:  # noqa
            rec = {"exc": exc_name(e), "msg": str(e)[:200]}
        out["dyne"] = rec
    # measurement branches through the executor (sampled outcomes): every branch state
    ms = case.get("measure")
    if ms is not None and out["prefix"] and out["prefix"][-1]["exc"] is None:
        brs = []
        try:
            sim = pq.GaussianSimulator(d=d, config=pq.Config(seed_sequence=ms["seed"], **cfg))
            instrs = [build_instr(s) for s in specs] + [build_instr(ms["instr"])]
            res = sim.execute_instructions(instrs, shots=ms["shots"])
            for br in res.branches:
                if br.state is None:
                    continue
                r = gaussian_report(br.state, hbar, False)
                r["d"] = br.state.d
                brs.append(r)
            out["branches"] = brs
        except Exception as e:  # noqa
            out["branches_exc"] = exc_name(e) + ": " + str(e)[:200]
    return out


def channel_accept(case):
    """Does DeterministicGaussianChannel(X, Y) pass the instruction's own validity check?"""
    k = len(case["X"]) // 2
    try:
        sim = pq.GaussianSimulator(d=k, config=pq.Config(hbar=2.0))
        ins = pq.DeterministicGaussianChannel(X=arr(case["X"]), Y=arr(case["Y"])).on_modes(*range(k))
        ins._validate(sim._connector)
        return {"accepted": True}
    except pq.api.exceptions.InvalidParameter:
        return {"accepted": False}
    except Exception as e:  # noqa
        return {"accepted": None, "exc": exc_name(e)}


# ----------------------------------------------------------------------------- Fock
def fock_report(state):
    rec = {}
    pr = np.asarray(state.fock_probabilities, dtype=float)
    rec["probs"] = pr.tolist()
    rec["norm"] = float(state.norm)
    try:
        state.validate()
        rec["validate"] = None
    except Exception as e:  # noqa
        rec["validate"] = exc_name(e)
    try:
        rec["purity"] = float(state.get_purity())
    except Exception as e:  # noqa
        rec["purity"] = None
    if hasattr(state, "state_vector"):
        sv = np.asarray(state.state_vector)
        rec["sv_re"] = np.real(sv).tolist()
        rec["sv_im"] = np.imag(sv).tolist()
    else:
        dm = np.asarray(state.density_matrix)
        rec["herm_err"] = float(np.max(np.abs(dm - dm.conj().T))) if dm.size else 0.0
        ev = np.linalg.eigvalsh((dm + dm.conj().T) / 2) if dm.size else np.array([0.0])
        rec["min_eig"] = float(ev.min())
        rec["trace"] = float(np.real(np.trace(dm)))
        rec["diag"] = np.real(np.diag(dm)).tolist()
    return rec


def run_fock(case):
    d = case["d"]
    simcls = {"pure": pq.PureFockSimulator, "general": pq.FockSimulator}[case["sim"]]
    cfg = dict(cutoff=case["cutoff"], hbar=case["hbar"][0] / case["hbar"][1])
    out = {"prefix": []}
    specs = case["instrs"]
    for k in range(1, len(specs) + 1):
        try:
            sim = simcls(d=d, config=pq.Config(**cfg))
            state = sim.execute_instructions([build_instr(s) for s in specs[:k]]).state
            rec = fock_report(state)
            rec["exc"] = None
        except Exception as e:  # noqa
            rec = {"exc": exc_name(e), "msg": str(e)[:200]}
        out["prefix"].append(rec)
        if rec["exc"] is not None:
            break
    ms = case.get("measure")
    if ms is not None and out["prefix"] and out["prefix"][-1]["exc"] is None:
        try:
            sim = simcls(d=d, config=pq.Config(seed_sequence=ms["seed"], **cfg))
            instrs = [build_instr(s) for s in specs] + [build_instr(ms["instr"])]
            res = sim.execute_instructions(instrs, shots=ms["shots"])
            brs = []
            for br in res.branches:
                if br.state is None:
                    continue
                r = fock_report(br.state)
                r["outcome"] = [int(x) for x in br.outcome]
                r["frequency"] = float(br.frequency)
                brs.append(r)
            out["branches"] = brs
        except Exception as e:  # noqa
            out["branches_exc"] = exc_name(e) + ": " + str(e)[:200]
    return out


def run_fermi(case):
    """Fermionic Gaussian state: correlation matrix after each passive gate."""
    from piquasso.fermionic.gaussian.simulator import GaussianSimulator as FGS  # noqa

    d = case["d"]
    out = {"prefix": []}
    specs = case["instrs"]
    for k in range(1, len(specs) + 1):
        try:
            sim = pq.fermionic.GaussianSimulator(d=d)
            state = sim.execute_instructions([build_instr(s) for s in specs[:k]]).state
            rec = {"exc": None}
            G = np.asarray(state.correlation_matrix)
            rec["g_re"] = np.real(G).tolist()
            rec["g_im"] = np.imag(G).tolist()
            try:
                state.validate()
                rec["validate"] = None
            except Exception as e:  # noqa
                rec["validate"] = exc_name(e)
            try:
                pr = np.asarray(state.fock_probabilities, dtype=float)
                rec["probs_min"] = float(pr.min())
                rec["probs_max"] = float(pr.max())
                rec["probs_sum"] = float(pr.sum())
            except Exception as e:  # noqa
                rec["probs_exc"] = exc_name(e)
        except Exception as e:  # noqa
            rec = {"exc": exc_name(e), "msg": str(e)[:200]}
        out["prefix"].append(rec)
        if rec["exc"] is not None:
            break
    return out


def main():
    req = json.load(sys.stdin)
    out = {}
    out["gauss"] = [run_gauss(c) for c in req.get("gauss", [])]
    out["channel_accept"] = [channel_accept(c) for c in req.get("channel_accept", [])]
    out["fock"] = [run_fock(c) for c in req.get("fock", [])]
    out["fermi"] = [run_fermi(c) for c in req.get("fermi", [])]
    print(json.dumps(out))


main()
