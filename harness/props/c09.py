"""C09 -- Results do not depend on the numerical connector.

Proof part: Props/C09.v (assign laws, accumulator, generic = numba recurrence, parametricity).
Tie: the deterministic connector operations, the bosonic and the fermionic representation
recurrences of every connector against the Gallina model, exactly (integers, Gaussian integers,
dyadic Gaussian rationals).
Differential TEST (no theorem): whole programs on NumPy / TensorFlow (eager, tf.function) / JAX
(eager, jax.jit), pairwise, state vector with phases and the other observables.
"""
import json
import os
import threading
from fractions import Fraction

import numpy as np

from common import (CASES_HEADER, VERIF, Check, clist, coq_eval, coq_eval_parallel, cq, cz,
                    parse_coq_list, repo_tree_hash, run_impl)

IMPORTS = CASES_HEADER + """From PV Require Import Base.CasesLib C09.ConnModel C09.Carriers.
Definition N (l : list Z) : list nat := map Z.to_nat l.
Definition NN (l : list (list Z)) : list (list nat) := map N l.
Definition NP (l : list (Z * Z)) : list (nat * nat) := map (fun p => (Z.to_nat (fst p), Z.to_nat (snd p))) l.
Definition zlll_eqb' := list_eqb zll_eqb.
Open Scope Z_scope.
"""

KINDS = ["np", "tf", "tff", "jax"]
INDEX_ERRORS = {"IndexError", "InvalidArgumentError", "ValueError"}


# ----------------------------------------------------------------------------- Coq literals
def zl(v):
    return clist(v)


def zll(m):
    return clist(m, zl)


def zlll(t):
    return clist(t, zll)


def qi(c):
    re_, im_ = c
    return "(%s, %s)" % (cq(Fraction(re_)), cq(Fraction(im_)))


def qil(v):
    return clist(v, qi)


def qill(m):
    return clist(m, qil)


def qilll(t):
    return clist(t, qill)


def zi(c):
    re_, im_ = c
    assert re_ == int(re_) and im_ == int(im_)
    return "(%s, %s)" % (cz(int(re_)), cz(int(im_)))


def zill(m):
    return clist(m, lambda r: clist(r, zi))


def zilll(t):
    return clist(t, zill)


# ------------------------------------------------------------------------------- generators
def rints(rng, n, lo=-9, hi=9):
    return [rng.randint(lo, hi) for _ in range(n)]


def rmat(rng, n, m):
    return [rints(rng, m) for _ in range(n)]


def gen_ops(rng, count):
    """Deterministic-operation cases.  `dom` says whether the case lies in the domain on which
    the specification is unambiguous (indices in range, non-negative, not repeated); outside it
    only the NumPy connector is compared with the model (NumPy semantics: negative = from the end,
    repeated = last value stays, out of range = IndexError) and the others are recorded."""
    cases = []
    dts = ["f64", "f32", "c128", "i64"]

    def add(c):
        c.setdefault("dtype", dts[len(cases) % len(dts)])
        if c["op"] in ("block_diag", "embed") and c["dtype"] == "i64":
            # piquasso only ever passes float / complex gate blocks to these two; TensorFlow's
            # LinearOperatorFullMatrix and scatter_nd of a literal 1.0 reject integer tensors
            c["kinds"] = [k for k in c.get("kinds", KINDS) if k in ("np", "jax")]
        cases.append(c)

    # fixed corner cases first: 0-size, negative, repeated, out of range
    add({"op": "assign_list", "v": [], "idx": [], "vals": [], "dom": True})
    add({"op": "assign_list", "v": [1, 2, 3], "idx": [], "vals": [], "dom": True})
    add({"op": "assign_list", "v": [1, 2, 3, 4], "idx": [-1, 1], "vals": [7, 8], "dom": False})
    add({"op": "assign_list", "v": [1, 2, 3, 4], "idx": [1, 1, 2], "vals": [7, 8, 9], "dom": False})
    add({"op": "assign_list", "v": [1, 2, 3, 4], "idx": [4], "vals": [7], "dom": False})
    add({"op": "assign_list", "v": [1, 2, 3, 4], "idx": [-5], "vals": [7], "dom": False})
    add({"op": "assign_list", "v": [1, 2, 3, 4], "idx": [-4, 3], "vals": [7, 8], "dom": False})
    add({"op": "assign_at", "v": [1, 2, 3], "k": -1, "x": 5, "dom": False})
    add({"op": "assign_at", "v": [1, 2, 3], "k": 3, "x": 5, "dom": False})
    add({"op": "assign_ix", "M": [[1, 2, 3], [4, 5, 6]], "rows": [-1], "cols": [0, -1], "vals": [[7, 8]],
         "dom": False, "kinds": ["np", "jax"]})
    add({"op": "assign_ix", "M": [[1, 2, 3], [4, 5, 6]], "rows": [0, 0], "cols": [1, 1], "vals": [[7, 8], [9, 10]],
         "dom": False, "kinds": ["np", "jax"]})
    add({"op": "block_diag", "Ms": [[[1, 2]], [[3], [4]]], "dom": True, "kinds": ["np", "jax"]})
    add({"op": "transpose", "M": [[1, 2, 3]], "dom": True})
    add({"op": "accumulate", "rows": [[1, 2, 3]], "dom": True})
    for a, b in ((0, 3), (1, 1), (2, 5)):
        add({"op": "range", "a": a, "b": b, "dom": True})
    add({"op": "range", "a": 2, "b": 1, "dom": False})
    while len(cases) < count:
        k = rng.random()
        n = rng.randint(1, 7)
        if k < 0.08:
            add({"op": "assign_at", "v": rints(rng, n), "k": rng.randrange(n), "x": rng.randint(-9, 9), "dom": True})
        elif k < 0.25:
            m = rng.randint(0, n)
            idx = rng.sample(range(n), m)
            c = {"op": "assign_list", "v": rints(rng, n), "idx": idx, "vals": rints(rng, m), "dom": True}
            if rng.random() < 0.4:
                c["as_tuple"] = True
                c["kinds"] = ["np", "jax"]
            add(c)
        elif k < 0.40:
            a, b = rng.randint(1, 3), rng.randint(1, 3)
            n = max(n, a * b)
            idx = rng.sample(range(n), a * b)
            add({"op": "assign_mat", "v": rints(rng, n), "idx": [idx[i * b:(i + 1) * b] for i in range(a)],
                 "vals": rmat(rng, a, b), "dom": True})
        elif k < 0.46:
            r, c_ = rng.randint(1, 4), rng.randint(1, 4)
            add({"op": "assign_cell", "M": rmat(rng, r, c_), "i": rng.randrange(r), "j": rng.randrange(c_),
                 "x": rng.randint(-9, 9), "dom": True, "kinds": ["np", "jax"]})
        elif k < 0.56:
            r, c_ = rng.randint(1, 5), rng.randint(1, 5)
            rows = rng.sample(range(r), rng.randint(1, r))
            cols = rng.sample(range(c_), rng.randint(1, c_))
            add({"op": "assign_ix", "M": rmat(rng, r, c_), "rows": rows, "cols": cols,
                 "vals": rmat(rng, len(rows), len(cols)), "dom": True, "kinds": ["np", "jax"]})
        elif k < 0.64:
            # the index pair of get_operator_index(modes): R = modes as a column, C = modes as a row
            r = rng.randint(1, 5)
            modes = rng.sample(range(r), rng.randint(1, r))
            R = [[m] * len(modes) for m in modes]
            C = [list(modes) for _ in modes]
            add({"op": "assign_pairs", "M": rmat(rng, r, r), "R": R, "C": C,
                 "vals": rmat(rng, len(modes), len(modes)), "dom": True, "kinds": ["np", "jax"]})
        elif k < 0.72:
            r, c_ = rng.randint(1, 4), rng.randint(1, 4)
            cells = [(i, j) for i in range(r) for j in range(c_)]
            pick = rng.sample(cells, rng.randint(1, len(cells)))
            add({"op": "scatter2", "indices": [list(p) for p in pick], "updates": rints(rng, len(pick)),
                 "n": r, "m": c_, "dom": True})
        elif k < 0.78:
            r1, r2, c1, c2 = (rng.randint(1, 3) for _ in range(4))
            add({"op": "block2", "a": rmat(rng, r1, c1), "b": rmat(rng, r1, c2), "c": rmat(rng, r2, c1),
                 "d": rmat(rng, r2, c2), "dom": True})
        elif k < 0.84:
            c = {"op": "block_diag", "Ms": [rmat(rng, rng.randint(1, 3), rng.randint(1, 3))
                                            for _ in range(rng.randint(1, 3))], "dom": True}
            if any(len(m) != len(m[0]) for m in c["Ms"]):
                # piquasso only passes square blocks; tf.linalg.LinearOperatorBlockDiag is not
                # held to scipy's behaviour on rectangular ones
                c["kinds"] = ["np", "jax"]
            add(c)
        elif k < 0.90:
            dim = rng.randint(1, 5)
            modes = rng.sample(range(dim), rng.randint(1, dim))
            add({"op": "embed", "M": rmat(rng, len(modes), len(modes)), "modes": modes, "dim": dim, "dom": True})
        elif k < 0.94:
            add({"op": "transpose", "M": rmat(rng, rng.randint(1, 4), rng.randint(1, 4)), "dom": True})
        elif k < 0.97:
            r, c_ = rng.randint(1, 3), rng.randint(1, 4)
            a, b = rng.randint(1, 3), rng.randint(1, 3)
            add({"op": "gather", "M": rmat(rng, r, c_), "idx": [[rng.randrange(c_) for _ in range(b)] for _ in range(a)],
                 "dom": True})
        else:
            add({"op": "accumulate", "rows": rmat(rng, rng.randint(1, 4), rng.randint(1, 4)), "dom": True})
    return cases


def op_model(c):
    """(result rank, Coq expression of type option (...)) of the specification at A = Z"""
    op = c["op"]
    if op == "assign_at":
        return 1, "assign_list_z Z %s [%s] [%s]" % (zl(c["v"]), cz(c["k"]), cz(c["x"]))
    if op == "assign_list":
        return 1, "assign_list_z Z %s %s %s" % (zl(c["v"]), zl(c["idx"]), zl(c["vals"]))
    if op == "assign_mat":
        return 1, "Some (assign_mat Z %s (NN %s) %s)" % (zl(c["v"]), zll(c["idx"]), zll(c["vals"]))
    if op == "assign_cell":
        return 2, "Some (assign_cell Z %s %d%%nat %d%%nat %s)" % (zll(c["M"]), c["i"], c["j"], cz(c["x"]))
    if op == "assign_pairs":
        return 2, "Some (assign_pairs Z %s (NN %s) (NN %s) %s)" % (zll(c["M"]), zll(c["R"]), zll(c["C"]), zll(c["vals"]))
    if op == "assign_ix":
        return 2, "assign_ix_z Z %s %s %s %s" % (zll(c["M"]), zl(c["rows"]), zl(c["cols"]), zll(c["vals"]))
    if op == "scatter2":
        return 2, "Some (scatter2 Z 0 (NP %s) %s %d%%nat %d%%nat)" % (
            clist(c["indices"], lambda p: "(%d,%d)" % tuple(p)), zl(c["updates"]), c["n"], c["m"])
    if op == "block2":
        return 2, "Some (block2 Z %s %s %s %s)" % tuple(zll(c[k]) for k in "abcd")
    if op == "block_diag":
        return 2, "Some (block_diag Z 0 %s)" % zlll(c["Ms"])
    if op == "embed":
        return 2, ("(let a := embed_in_identity Z 0 1 %s (N %s) (N %s) %d%%nat in "
                   "let b := embed_in_identity_tf Z 0 1 %s (N %s) (N %s) %d%%nat in "
                   "if zll_eqb a b then Some a else None)") % (
            zll(c["M"]), zl(c["modes"]), zl(c["modes"]), c["dim"], zll(c["M"]), zl(c["modes"]), zl(c["modes"]), c["dim"])
    if op == "transpose":
        return 2, "Some (transpose Z 0 %s)" % zll(c["M"])
    if op == "gather":
        return 3, "Some (gather_axis1 Z 0 %s (NN %s))" % (zll(c["M"]), zll(c["idx"]))
    if op == "accumulate":
        return 2, ("(let a := fill_list Z %s in let b := fill_arr Z %s in if zll_eqb a b then Some a else None)"
                   % (zll(c["rows"]), zll(c["rows"])))
    if op == "range":
        return 1, "Some (map Z.of_nat (seq %d%%nat (%d - %d)%%nat))" % (c["a"], max(c["b"], c["a"]), c["a"])
    raise KeyError(op)


def impl_literal(rank, r):
    if "exc" in r:
        return "None"
    if r["v"] is None:
        return None
    return "(Some %s)" % {1: zl, 2: zll, 3: zlll}[rank](r["v"])


# ------------------------------------------------------------------------------ programs
def rfloat(rng, lo, hi):
    return round(rng.uniform(lo, hi), 6)


def unitary(rng, n):
    g = np.random.default_rng(rng.randrange(2 ** 31))
    z = g.normal(size=(n, n)) + 1j * g.normal(size=(n, n))
    q, r = np.linalg.qr(z)
    q = q * (np.diag(r) / np.abs(np.diag(r)))
    return {"matrix": np.stack([q.real, q.imag], axis=-1).tolist()}


# gates the pure Fock simulator applies through piquasso/_math/decompositions.py:euler
# (fock/pure/simulation_steps:linear)
EULER_GATES = ("Squeezing2", "QuadraticPhase", "GaussianTransform")
# errors by which JAX says "this Python code cannot be traced" (no compiled result exists)
JAX_TRACER_ERRORS = ("ConcretizationTypeError", "TracerBoolConversionError", "TracerArrayConversionError",
                     "TracerIntegerConversionError", "NonConcreteBooleanIndexError", "UnexpectedTracerError")


# piquasso's own refusals of an invalid program / parameter / state
VALIDATION_ERRORS = ("InvalidParameter", "InvalidState", "InvalidModes", "InvalidInstruction", "InvalidProgram",
                     "InvalidSimulation", "PiquassoException")


def has_euler_gate(sim, instructions):
    return sim == "pure_fock" and any(i[0] in EULER_GATES for i in instructions)


def gen_pure_fock(rng, d, cutoff, ngates, modes):
    instr = [["Vacuum", "all", {}]]
    if cutoff >= 2:
        # a normalised superposition with a relative phase
        occ1 = [0] * d
        occ1[rng.randrange(d)] = 1
        occ2 = [0] * d
        if cutoff >= 3:
            occ2[rng.randrange(d)] += 1
            occ2[rng.randrange(d)] += 1
        instr = [["StateVector", "all", {"occupation_numbers": occ1, "coefficient": 0.6}],
                 ["StateVector", "all", {"occupation_numbers": occ2, "coefficient": {"re": 0.0, "im": 0.8}}]]
        if occ1 == occ2:
            instr = [["StateVector", "all", {"occupation_numbers": occ1, "coefficient": {"re": 0.6, "im": 0.8}}]]
    traced = {}
    for _ in range(ngates):
        k = rng.random()
        a = rng.randrange(d)
        b = rng.choice([x for x in range(d) if x != a]) if d > 1 else a
        if k < 0.30 and d > 1:
            g = ["Beamsplitter", [a, b], {"theta": rfloat(rng, -3, 3), "phi": rfloat(rng, -3, 3)}]
        elif k < 0.42:
            g = ["Phaseshifter", [a], {"phi": rfloat(rng, -3, 3)}]
        elif k < 0.54:
            g = ["Displacement", [a], {"r": rfloat(rng, 0.05, 0.4), "phi": rfloat(rng, -3, 3)}]
        elif k < 0.66:
            g = ["Squeezing", [a], {"r": rfloat(rng, 0.05, 0.3), "phi": rfloat(rng, -3, 3)}]
        elif k < 0.74:
            g = ["Kerr", [a], {"xi": rfloat(rng, -1, 1)}]
        elif k < 0.80 and d > 1:
            g = ["CrossKerr", [a, b], {"xi": rfloat(rng, -1, 1)}]
        elif k < 0.88 and d > 1:
            sub = sorted(rng.sample(range(d), rng.randint(2, d)))
            rng.shuffle(sub)
            g = ["Interferometer", sub, {"matrix": unitary(rng, len(sub))}]
        elif k < 0.94 and d > 1:
            g = ["Squeezing2", [a, b], {"r": rfloat(rng, 0.05, 0.3), "phi": rfloat(rng, -3, 3)}]
        else:
            g = ["Fourier", [a], {}]
        if not traced and g[0] in ("Beamsplitter", "Phaseshifter", "Displacement", "Squeezing"):
            key = {"Beamsplitter": "theta", "Phaseshifter": "phi", "Displacement": "r", "Squeezing": "r"}[g[0]]
            traced[str(len(instr))] = {key: g[2][key]}
        instr.append(g)
    occs = [[0] * d]
    if cutoff >= 2:
        o = [0] * d
        o[rng.randrange(d)] = 1
        occs.append(o)
    if has_euler_gate("pure_fock", instr):
        # euler()/takagi() group singular values with data-dependent Python control flow, which
        # jax.jit cannot trace: such programs have no compiled form
        modes = [m for m in modes if m != "jaxjit"]
    return {"sim": "pure_fock", "d": d, "cutoff": cutoff, "instructions": instr, "occupations": occs,
            "traced": traced, "modes": modes}


def gen_gaussian(rng, d, cutoff, ngates, modes):
    """correlate (squeeze, displace, mix every mode) -> active gate on a strict subset of the modes
    -> mix again; observables include the phaseshifter expectation value with distinct angles"""
    instr = [["Vacuum", "all", {}]]
    traced = {}

    def bs():
        a = rng.randrange(d)
        b = rng.choice([x for x in range(d) if x != a])
        return ["Beamsplitter", [a, b], {"theta": rfloat(rng, 0.3, 1.2) * rng.choice([-1, 1]), "phi": rfloat(rng, -3, 3)}]

    def active(strict):
        a = rng.randrange(d)
        k = rng.random()
        if k < 0.45 or d < 3 or not strict:
            return rng.choice([["Squeezing", [a], {"r": rfloat(rng, 0.1, 0.4), "phi": rfloat(rng, -3, 3)}],
                               ["QuadraticPhase", [a], {"s": rfloat(rng, 0.1, 0.5)}]])
        b = rng.choice([x for x in range(d) if x != a])
        return rng.choice([["Squeezing2", [a, b], {"r": rfloat(rng, 0.1, 0.3), "phi": rfloat(rng, -3, 3)}],
                           ["ControlledX", [a, b], {"s": rfloat(rng, 0.1, 0.4)}]])

    for m in range(d):
        instr.append(["Squeezing", [m], {"r": rfloat(rng, 0.1, 0.4), "phi": rfloat(rng, -3, 3)}])
    instr.append(["Displacement", [rng.randrange(d)], {"r": rfloat(rng, 0.1, 0.5), "phi": rfloat(rng, -3, 3)}])
    if d > 1:
        for _ in range(d):
            instr.append(bs())
        traced[str(len(instr) - 1)] = {"theta": instr[-1][2]["theta"]}
    for _ in range(max(1, ngates - 2)):
        instr.append(active(strict=True))
        if d > 1:
            k = rng.random()
            if k < 0.6:
                instr.append(bs())
            elif k < 0.8:
                sub = sorted(rng.sample(range(d), rng.randint(2, d)))
                rng.shuffle(sub)
                instr.append(["Interferometer", sub, {"matrix": unitary(rng, len(sub))}])
            else:
                instr.append(["Phaseshifter", [rng.randrange(d)], {"phi": rfloat(rng, -3, 3)}])
    occs = [[0] * d, [1] + [0] * (d - 1)] + ([[1] * d] if cutoff > d else [])
    angles = [round(0.3 + 0.8 * i + 0.3 * rng.random(), 6) for i in range(d)]
    return {"sim": "gaussian", "d": d, "cutoff": cutoff, "instructions": instr, "occupations": occs,
            "traced": traced, "modes": modes, "angles": angles}


def gen_passive(rng, sim, d, cutoff, ngates, modes):
    n = min(cutoff - 1, d if sim != "passive" else cutoff - 1, 3)
    occ = [0] * d
    if sim == "passive":
        for _ in range(n):
            occ[rng.randrange(d)] += 1
    else:
        for i in rng.sample(range(d), min(n, d)):
            occ[i] = 1
    instr = [["StateVector", "all", {"occupation_numbers": occ}]]
    traced = {}
    for _ in range(ngates):
        k = rng.random()
        a = rng.randrange(d)
        b = rng.choice([x for x in range(d) if x != a]) if d > 1 else a
        if sim == "fermionic_fock" and d > 1:
            # the fermionic Fock simulator documents and validates consecutive ascending modes
            # ("Specified modes must be consecutive"); other mode tuples are outside its domain
            a = rng.randrange(d - 1)
            b = a + 1
        if k < 0.5 and d > 1:
            g = ["Beamsplitter", [a, b], {"theta": rfloat(rng, -3, 3), "phi": rfloat(rng, -3, 3)}]
        elif k < 0.7:
            g = ["Phaseshifter", [a], {"phi": rfloat(rng, -3, 3)}]
        elif d > 1:
            sub = sorted(rng.sample(range(d), rng.randint(2, d)))
            if sim == "fermionic_fock":
                lo = rng.randrange(d - 1)
                sub = list(range(lo, rng.randint(lo + 2, d)))
            if sim == "passive":
                rng.shuffle(sub)
            g = ["Interferometer", sub, {"matrix": unitary(rng, len(sub))}]
        else:
            g = ["Phaseshifter", [a], {"phi": rfloat(rng, -3, 3)}]
        if not traced and g[0] in ("Beamsplitter", "Phaseshifter"):
            key = {"Beamsplitter": "theta", "Phaseshifter": "phi"}[g[0]]
            traced[str(len(instr))] = {key: g[2][key]}
        instr.append(g)
    occs = [occ]
    o2 = list(occ)
    rng.shuffle(o2)
    occs.append(o2)
    return {"sim": sim, "d": d, "cutoff": cutoff, "instructions": instr, "occupations": occs,
            "traced": traced, "modes": modes}


def gen_history(rng, sim, d, cutoff, modes):
    """a prepared state used as `initial_state` of two further programs and read again afterwards;
    the first follow-up contains instructions that update the state through connector.assign"""
    if sim == "pure_fock":
        prog = gen_pure_fock(rng, d, cutoff, 3, modes)
        prog["instructions"] = [i for i in prog["instructions"] if i[0] not in EULER_GATES]
        a, b = 0, d - 1
        first = [["CrossKerr", [a, b], {"xi": rfloat(rng, 0.3, 1.0)}] if d > 1 else ["Kerr", [0], {"xi": rfloat(rng, 0.3, 1.0)}],
                 ["Displacement", [a], {"r": rfloat(rng, 0.05, 0.3), "phi": rfloat(rng, -3, 3)}]]
        second = [["Displacement", [b], {"r": rfloat(rng, 0.05, 0.3), "phi": rfloat(rng, -3, 3)}],
                  ["Kerr", [a], {"xi": rfloat(rng, -1, 1)}]]
    else:
        prog = gen_gaussian(rng, d, cutoff, 3, modes)
        first = [["Squeezing", [0], {"r": rfloat(rng, 0.1, 0.4), "phi": rfloat(rng, -3, 3)}],
                 ["Displacement", [d - 1], {"r": rfloat(rng, 0.1, 0.4), "phi": rfloat(rng, -3, 3)}]]
        second = [["Beamsplitter", [0, d - 1], {"theta": rfloat(rng, 0.3, 1.2), "phi": rfloat(rng, -3, 3)}]] if d > 1 else \
                 [["Phaseshifter", [0], {"phi": rfloat(rng, -3, 3)}]]
    prog["followups"] = [first, second]
    prog["modes"] = [m for m in modes if m != "jaxjit"]
    prog["traced"] = {}
    return prog


def gen_programs(rng, thorough):
    progs = []
    if thorough:
        for cutoff in (1, 2, 3, 4, 5):
            for rep in range(6):
                d = rng.randint(1, 3) if cutoff >= 4 else rng.randint(1, 4)
                modes = ["np", "npf", "tf", "tff", "jax", "jaxjit"] if rep < 3 else ["np", "npf", "tf", "tff", "jaxjit"]
                progs.append(gen_pure_fock(rng, d, cutoff, rng.randint(2, 7), modes))
        for rep in range(10):
            progs.append(gen_gaussian(rng, rng.randint(2, 4) if rep else 3, rng.randint(2, 4), rng.randint(3, 5),
                                      ["np", "npf", "jax", "jaxjit"]))
        for sim in ("passive", "fermionic_fock", "fermionic_gaussian"):
            for rep in range(6):
                d = rng.randint(2, 4)
                progs.append(gen_passive(rng, sim, d, rng.randint(2, 5) if sim == "passive" else d + 1,
                                         rng.randint(2, 5), ["np", "npf", "jax", "jaxjit"] if rep < 2 else ["np", "npf", "jax"]))
        for rep in range(4):
            progs.append(gen_history(rng, "pure_fock", rng.randint(1, 3), rng.randint(3, 5), ["np", "npf", "tf", "tff", "jax"]))
            progs.append(gen_history(rng, "gaussian", rng.randint(1, 3), 3, ["np", "npf", "jax"]))
    else:
        # every cutoff 1..5 on the pure Fock simulator; eager JAX is slow, so it runs on two
        for cutoff in (1, 2, 3, 4, 5):
            d = 2 if cutoff >= 4 else 3
            modes = ["np", "npf", "tf", "tff", "jaxjit"] + (["jax"] if cutoff == 2 else [])
            progs.append(gen_pure_fock(rng, d, cutoff, 4, modes))
        progs.append(gen_gaussian(rng, 3, 3, 3, ["np", "npf", "jax", "jaxjit"]))
        progs.append(gen_gaussian(rng, 2, 3, 3, ["np", "npf", "jaxjit"]))
        progs.append(gen_passive(rng, "passive", 3, 3, 3, ["np", "npf", "jax"]))
        progs.append(gen_passive(rng, "fermionic_fock", 3, 4, 3, ["np", "npf", "jax"]))
        progs.append(gen_passive(rng, "fermionic_gaussian", 3, 4, 3, ["np", "npf", "jax"]))
        progs.append(gen_history(rng, "pure_fock", 2, 4, ["np", "npf", "tf", "jax"]))
        progs.append(gen_history(rng, "gaussian", 2, 3, ["np", "npf", "jax"]))
    return progs


def to_np(o):
    a = np.array(o["v"], dtype=float)
    return a[..., 0] + 1j * a[..., 1] if o["c"] else a


def obs_base(name):
    return name.split("[")[0]


def compare_programs(chk, progs, results, tol):
    """pairwise differential; the NumPy connector is the reference of each pair"""
    nvals = 0
    npairs = 0
    notes = {}
    for prog, res in zip(progs, results):
        small = prog["cutoff"] <= 2 and prog["sim"] == "pure_fock"
        for m in res:
            sk = res[m].pop("_skipped_under_jit", None) if isinstance(res[m], dict) else None
            for name, e in (sk or {}).items():
                tag = "observable not traceable by jax.jit: %s.%s (%s)" % (prog["sim"], obs_base(name), e)
                notes[tag] = notes.get(tag, 0) + 1
        ok_modes = [m for m in res if "exc" not in res[m]]
        eager = [m for m in res if m != "jaxjit"]
        if eager and all("exc" in res[m] and res[m]["exc"] in VALIDATION_ERRORS for m in eager) \
                and len({res[m]["exc"] for m in eager}) == 1:
            # every eager connector refuses the program with the same validation error; the jax.jit run
            # is made with Config(validate=False) (validation cannot be traced), so its answer is not
            # a connector dependence
            notes["refused by validation on every eager connector"] = notes.get(
                "refused by validation on every eager connector", 0) + 1
            continue
        if not ok_modes:
            # every connector refuses the program: no result depends on the connector
            notes["all connectors raise"] = notes.get("all connectors raise", 0) + 1
            continue
        wit = {"program": prog}
        euler_prog = has_euler_gate(prog["sim"], prog["instructions"])
        for m in res:
            if m == "jaxjit" and "exc" in res[m] and res[m]["exc"] in JAX_TRACER_ERRORS:
                notes["not traceable by jax.jit (%s)" % res[m]["exc"]] = notes.get(
                    "not traceable by jax.jit (%s)" % res[m]["exc"], 0) + 1
                continue
            if "exc" in res[m]:
                key = "C09:%s:execute:%s:raises-%s%s" % (prog["sim"], m, res[m]["exc"],
                                                        ":cutoff=%d" % prog["cutoff"] if small else "")
                chk.violation(key, "%s raises %s while %s return a state (cutoff %d)" % (
                    m, res[m]["exc"], ",".join(ok_modes), prog["cutoff"]),
                    dict(wit, mode=m, error=res[m], succeeded=ok_modes))
        base = "np" if "np" in ok_modes else ok_modes[0]
        ref = res[base]
        for m in ok_modes:
            if m == base:
                continue
            for name, val in res[m].items():
                if name not in ref:
                    continue
                npairs += 1
                r = ref[name]
                if "exc" in val or "exc" in r:
                    if ("exc" in val) != ("exc" in r):
                        who, e = (m, val) if "exc" in val else (base, r)
                        chk.violation("C09:%s:%s:%s:raises-%s" % (prog["sim"], obs_base(name), who, e["exc"]),
                                      "%s raises %s on connector mode %s but not on %s" % (name, e["exc"], who,
                                                                                           base if who == m else m),
                                      dict(wit, observable=name, mode=who, error=e))
                    continue
                a, b = to_np(val), to_np(r)
                if a.shape != b.shape:
                    chk.violation("C09:%s:%s:%s:shape" % (prog["sim"], obs_base(name), m),
                                  "%s has shape %s on %s and %s on %s" % (name, a.shape, m, b.shape, base),
                                  dict(wit, observable=name, mode=m))
                    continue
                nvals += a.size
                err = float(np.max(np.abs(a - b) / (1.0 + np.abs(b)))) if a.size else 0.0
                if not (err <= tol) and euler_prog:
                    # one input class: the Euler factors are not unique (degenerate squeezings), each
                    # connector's SVD picks another basis, and the truncated product depends on it
                    chk.violation("C09:pure_fock:linear-gate:truncated-euler-nonunique:%s" % m,
                                  "%s differs between %s and %s by %.3g in a program with a gate applied through the "
                                  "Euler decomposition (%s)" % (name, m, base, err, "/".join(EULER_GATES)),
                                  dict(wit, observable=name, mode=m, reference=base, max_relative_difference=err))
                elif not (err <= tol):
                    chk.violation("C09:%s:%s:%s:differs" % (prog["sim"], obs_base(name), m),
                                  "%s differs between %s and %s by %.3g (relative, tolerance %.1g)" % (
                                      name, m, base, err, tol),
                                  dict(wit, observable=name, mode=m, reference=base, got=val, expected=r))
    return npairs, nvals, notes


# ------------------------------------------------------------------------------------ run
def run(chk: Check):
    T = chk.thorough
    rng = chk.rng
    th = threading.Thread(target=chk.proofs)
    th.start()

    # ---------------- requests
    ops = gen_ops(rng, 400 if T else 110)
    corpus_path = os.path.join(VERIF, "harness", "corpus", "c09.jsonl")
    corpus = []
    if os.path.exists(corpus_path):
        corpus = [json.loads(l) for l in open(corpus_path) if l.strip()]
    interf = []
    Uvals = [0.0, 1.0, -1.0, 0.5, -0.5, 2.0]

    def rU(n, m):
        return [[[rng.choice(Uvals), rng.choice(Uvals)] for _ in range(m)] for _ in range(n)]

    dc = [(d, c) for d in (1, 2, 3) for c in (1, 2, 3, 4, 5)] + ([(4, 3), (4, 4), (5, 3)] if T else [])
    for d, c in dc:
        if not T and (d, c) in ((3, 5),):
            continue
        case = {"mode": "dyadic", "d": d, "cutoff": c, "seed": rng.randrange(2 ** 31), "U": rU(d, d)}
        if not T and c < 3:
            # quick tier: tracing / compiling costs ~1-2 s per variant; the compiled variants run on cutoff >= 3
            case["variants"] = ["numba", "generic_np", "generic_tf", "generic_tff", "generic_jax"]
        interf.append(case)
    for _ in range(12 if T else 4):
        J = rng.randint(1, 3)
        nrow = rng.randint(1, 3)
        interf.append({"mode": "random", "seed": rng.randrange(2 ** 31), "U": rU(nrow, J),
                       "shapes": [[rng.randint(1, 4), rng.randint(1, 4)] for _ in range(rng.randint(1, 3))]})
    nexact = len(interf)
    for d, c in ((2, 4), (3, 4)) + (((2, 6), (3, 5), (4, 4)) if T else ()):
        # true sqrt weights: differential only
        g = np.random.default_rng(rng.randrange(2 ** 31))
        z = g.normal(size=(d, d)) + 1j * g.normal(size=(d, d))
        q, _ = np.linalg.qr(z)
        interf.append({"mode": "real", "d": d, "cutoff": c, "seed": 0,
                       "U": np.stack([q.real, q.imag], axis=-1).tolist()})
    fermi = []
    for d, c in [(1, 1), (1, 2), (2, 2), (2, 3), (3, 3), (3, 4), (4, 4)] + ([(4, 5), (5, 4), (5, 6)] if T else []):
        fermi.append({"M": [[[rng.randint(-3, 3), rng.randint(-3, 3)] for _ in range(d)] for _ in range(d)], "cutoff": c})
    # Euler decomposition on each connector, judged by the relation it must satisfy
    euler = [{"gate": ["Squeezing2", [0, 1], {"r": 0.3, "phi": 0.7}]},      # degenerate, complex (corpus)
             {"gate": ["Squeezing2", [0, 1], {"r": 0.2, "phi": 0.0}]},
             {"gate": ["QuadraticPhase", [0], {"s": 0.4}]}]
    for _ in range(12 if T else 3):
        euler.append({"gate": ["Squeezing2", [0, 1], {"r": rfloat(rng, 0.05, 0.6), "phi": rfloat(rng, -3, 3)}]})
    for _ in range(12 if T else 3):
        n = rng.randint(1, 3)
        g = np.random.default_rng(rng.randrange(2 ** 31))
        u = np.linalg.qr(g.normal(size=(n, n)) + 1j * g.normal(size=(n, n)))[0]
        v = np.linalg.qr(g.normal(size=(n, n)) + 1j * g.normal(size=(n, n)))[0]
        dd = np.array([0.15 + 0.2 * i + 0.1 * rng.random() for i in range(n)])
        pblock = u @ np.diag(np.cosh(dd)) @ v
        ablock = u @ np.diag(-np.sinh(dd)) @ np.conj(v)
        euler.append({"P": np.stack([pblock.real, pblock.imag], axis=-1).tolist(),
                      "A": np.stack([ablock.real, ablock.imag], axis=-1).tolist(), "n": n})
    progs = [c["program"] for c in corpus if "program" in c] + gen_programs(rng, T)
    req = {"ops": ops, "interf": interf, "fermi": fermi, "euler": euler, "programs": progs}
    cache = os.environ.get("C09_DEV_IMPL_CACHE")  # development aid only: reuse one implementation run
    if cache and os.path.exists(cache):
        impl = json.load(open(cache))
    else:
        # own numba cache directory (keyed by the tree hash): the shared one is pruned by
        # concurrently running checks
        nb_cache = os.path.join(VERIF, ".run", "numba_c09", repo_tree_hash())
        os.makedirs(nb_cache, exist_ok=True)
        impl = run_impl("c09_impl.py", req, timeout=7200, extra_env={"NUMBA_CACHE_DIR": nb_cache})
        if cache:
            json.dump(impl, open(cache, "w"))
    chk.notes.append("implementation timings (s): %s; piquasso from %s" % (impl["times"], impl["piquasso_file"]))
    corr_broken = []

    # ---------------- tie 1: deterministic operations vs the specification (exact, A = Z)
    items = {1: [], 2: [], 3: []}
    owners = {1: [], 2: [], 3: []}
    outside = {}
    n_dom = 0
    for c, r in zip(ops, impl["ops"]):
        rank, expr = op_model(c)
        kinds = c.get("kinds", KINDS)
        seen = {}
        for k in kinds:
            lit = impl_literal(rank, r[k])
            if lit is None:
                chk.violation("C09:%s:%s:non-integral" % (c["op"], k), "integer data came back non-integral", {"case": c, "got": r[k]})
                continue
            if not c["dom"] and k != "np":
                # outside the unambiguous domain: recorded, compared with NumPy below
                same = (("exc" in r[k]) == ("exc" in r["np"])) and r[k].get("v") == r["np"].get("v")
                if not same:
                    tag = "%s on %s: %s" % (c["op"], k, r[k].get("exc", "different value"))
                    outside[tag] = outside.get(tag, 0) + 1
                continue
            seen.setdefault(lit, []).append(k)
        n_dom += 1 if c["dom"] else 0
        for lit, ks in seen.items():
            items[rank].append("(%s, %s)" % (expr, lit))
            owners[rank].append((c, ks))
    eqs = {1: "zl_eqb", 2: "zll_eqb", 3: "zlll_eqb'"}
    bodies = []
    order = []
    for rank in (1, 2, 3):
        for i in range(0, len(items[rank]), 60):
            bodies.append(IMPORTS + "Definition cases := [%s].\nEval vm_compute in mismatches (fun p => opt_eqb %s (fst p) (snd p)) cases.\n"
                          % (";\n".join(items[rank][i:i + 60]), eqs[rank]))
            order.append((rank, i))
    outs = coq_eval_parallel("c09_ops", bodies, jobs=4)
    for (rank, i), o in zip(order, outs):
        for k in parse_coq_list(o)[0]:
            c, ks = owners[rank][i + k]
            msg = "operation %s: connector(s) %s differ from the specification" % (c["op"], ",".join(ks))
            corr_broken.append(msg)
            chk.violation("C09:op:%s:%s" % (c["op"], "+".join(ks)), msg, {"case": c, "connectors": ks})
    chk.stream("deterministic connector operations vs the Gallina specification (exact integers; NumPy, TensorFlow eager + tf.function connector, JAX)",
               sum(len(v) for v in items.values()), sum(1 for c in ops if c["op"] not in ("range",) and c["dom"]),
               samples=[ops[2], ops[len(ops) // 2]],
               note="outside the unambiguous domain (negative / repeated / out-of-range indices, descending range) only NumPy is held to the "
                    "specification; deviations of the others there, by kind: %s" % (outside or "none"))

    # ---------------- tie 2: bosonic representation (exact dyadic Gaussian rationals)
    lits = []
    own = []
    real_pairs = 0
    for idx, (c, r) in enumerate(zip(interf, impl["interf"])):
        if "helper_error" in r:
            corr_broken.append("helper indices failed for %s: %s" % ({k: c[k] for k in c if k != "U"}, r["helper_error"]))
            continue
        res = r["res"]
        good = {k: v for k, v in res.items() if not (isinstance(v, dict) and "exc" in v)}
        for k, v in res.items():
            if isinstance(v, dict) and "exc" in v and good:
                small = c["mode"] != "random" and c["cutoff"] <= 2
                chk.violation("C09:calculate_interferometer_on_fock_space:%s:raises-%s%s" % (
                    k, v["exc"], ":cutoff<=2" if small else ""),
                    "variant %s raises %s while %s return the representation" % (k, v["exc"], ",".join(sorted(good))),
                    {"case": {kk: c[kk] for kk in c if kk != "U"}, "U": c["U"], "error": v})
        if idx >= nexact:
            # true weights: pairwise differential against the numba kernel (or the first that ran)
            names = sorted(good)
            if not names:
                continue
            base = "numba" if "numba" in good else names[0]
            for k in names:
                if k == base:
                    continue
                real_pairs += 1
                for lvl, (a, b) in enumerate(zip(good[k], good[base])):
                    a = np.array(a)
                    b = np.array(b)
                    if a.shape != b.shape or np.max(np.abs(a - b)) > 1e-12 * (1 + np.max(np.abs(b))):
                        chk.violation("C09:calculate_interferometer_on_fock_space:%s:differs" % k,
                                      "level %d of the representation differs between %s and %s" % (lvl, k, base),
                                      {"case": {kk: c[kk] for kk in c if kk != "U"}, "U": c["U"]})
            continue
        h = r["helper"]
        levels = clist(list(range(len(h[0]))), lambda n: "(Build_level Qi (NN %s) (N %s) (N %s) %s %s)" % (
            zll(h[0][n]), zl(h[1][n]), zl(h[2][n]), clist(h[3][n], lambda row: clist(row, lambda x: qi((x, 0.0)))),
            clist(h[4][n], lambda x: qi((x, 0.0)))))
        seen = {}
        for k, v in good.items():
            seen.setdefault(json.dumps(v), []).append(k)
        for s, ks in seen.items():
            lits.append("(%s, %s, %s)" % (qill(c["U"]), levels, qilll(json.loads(s))))
            own.append((c, ks))
    bodies = []
    chunk = 6
    for i in range(0, len(lits), chunk):
        bodies.append(IMPORTS + """Definition cases := [%s].
Definition ok (x : list (list Qi) * list (level Qi) * list (list (list Qi))) : bool :=
  let '(U, hs, r) := x in
  qilll_eqb (numba_reps Qi qi0 qi1 qi_add qi_mul qi_div U hs) r &&
  qilll_eqb (generic_reps Qi qi0 qi1 qi_add qi_mul qi_div U hs) r.
Eval vm_compute in mismatches ok cases.
""" % ";\n".join(lits[i:i + chunk]))
    outs = coq_eval_parallel("c09_interf", bodies, jobs=4)
    for j, o in enumerate(outs):
        for k in parse_coq_list(o)[0]:
            c, ks = own[j * chunk + k]
            msg = "bosonic representation: %s differ from the model (%s)" % (",".join(ks), {kk: c[kk] for kk in c if kk != "U"})
            corr_broken.append(msg)
            chk.violation("C09:calculate_interferometer_on_fock_space:%s:model" % "+".join(ks), msg,
                          {"case": {kk: c[kk] for kk in c if kk != "U"}, "U": c["U"], "variants": ks})
    chk.stream("calculate_interferometer_on_fock_space: numba kernel and generic einsum version on every connector (eager, tf.function, jax.jit) vs both Gallina models, exact dyadic data",
               sum(len(ks) for _, ks in own), sum(1 for c, _ in own if c["mode"] == "random" or c["cutoff"] >= 3),
               samples=[{k: v for k, v in interf[4].items() if k != "U"}])
    # ---- the helper-index tuple itself vs its model (C09/HelperModel.v), exact
    hitems = []
    hown = []
    for c, r in zip(interf, impl["interf"]):
        if c["mode"] == "random" or "helper" not in r:
            continue
        h = r["helper"]
        sq = [[[int(round(x * x)) for x in row] for row in lvl] for lvl in h[3]] if c["mode"] == "real" else None
        sqf = [[int(round(x * x)) for x in lvl] for lvl in h[4]] if c["mode"] == "real" else None
        if sq is not None and any(abs(x * x - round(x * x)) > 1e-9 for lvl in h[3] for row in lvl for x in row):
            chk.violation("C09:calculate_interferometer_helper_indices:sqrt", "sqrt_occupation_numbers is not the square root of an integer",
                          {"d": c["d"], "cutoff": c["cutoff"]})
        hitems.append("(%d%%nat, %d%%nat, %s, %s, %s, %s, %s)" % (
            c["d"], c["cutoff"], zlll(h[0]), zll(h[1]), zll(h[2]),
            "(Some %s)" % zlll(sq) if sq is not None else "None", "(Some %s)" % zll(sqf) if sqf is not None else "None"))
        hown.append(c)
    body = IMPORTS + """From PV Require Import C09.HelperModel.
Definition cases := [%s].
Definition ok (x : nat * nat * list (list (list Z)) * list (list Z) * list (list Z) * option (list (list (list Z))) * option (list (list Z))) : bool :=
  let '(d, c, si, fnz, fsi, sq, sqf) := x in
  let hs := helper Z (fun z => z) d c in
  list_eqb zll_eqb (map (fun h => map (map Z.of_nat) (l_si Z h)) hs) si &&
  zll_eqb (map (fun h => map Z.of_nat (l_fnz Z h)) hs) fnz &&
  zll_eqb (map (fun h => map Z.of_nat (l_fsi Z h)) hs) fsi &&
  match sq with Some q => list_eqb zll_eqb (map (l_sq Z) hs) q | None => true end &&
  match sqf with Some q => zll_eqb (map (l_sqf Z) hs) q | None => true end.
Eval vm_compute in mismatches ok cases.
""" % ";\n".join(hitems)
    for k in parse_coq_list(coq_eval("c09_helper", body))[0]:
        c = hown[k]
        msg = "calculate_interferometer_helper_indices(d=%d, cutoff=%d) differs from the model" % (c["d"], c["cutoff"])
        corr_broken.append(msg)
        chk.violation("C09:calculate_interferometer_helper_indices:model", msg, {"d": c["d"], "cutoff": c["cutoff"]})
    chk.stream("calculate_interferometer_helper_indices vs the Gallina model (index arrays exactly; squared sqrt weights for the true-weight cases)",
               len(hitems), sum(1 for c in hown if c["cutoff"] >= 3), samples=[{"d": hown[-1]["d"], "cutoff": hown[-1]["cutoff"]}])
    chk.stream("same with the true sqrt weights: pairwise float comparison (differential test, no theorem)",
               real_pairs, real_pairs, kind="differential test (no theorem)")

    # ---------------- tie 3: fermionic representation (exact Gaussian integers)
    lits = []
    own = []
    for c, r in zip(fermi, impl["fermi"]):
        good = {k: v for k, v in r.items() if not (isinstance(v, dict) and "exc" in v)}
        for k, v in r.items():
            if isinstance(v, dict) and "exc" in v and good:
                chk.violation("C09:calculate_interferometer_on_fermionic_fock_space:%s:raises-%s" % (k, v["exc"]),
                              "variant %s raises %s, others do not" % (k, v["exc"]), {"case": c, "error": v})
        seen = {}
        for k, v in good.items():
            seen.setdefault(json.dumps(v), []).append(k)
        for s, ks in seen.items():
            lits.append("(%s, %d%%nat, %s)" % (zill(c["M"]), c["cutoff"], zilll(json.loads(s))))
            own.append((c, ks))
    body = IMPORTS + """Definition cases := [%s].
Definition ok (x : list (list Zi) * nat * list (list (list Zi))) : bool :=
  let '(M, c, r) := x in
  zilll_eqb (fermi_reps Zi zi1 (fermi_generic_level Zi zi0 zi_add zi_mul zi_opp) M c) r &&
  zilll_eqb (fermi_reps Zi zi1 (fermi_numba_level Zi zi0 zi_add zi_mul zi_opp) M c) r &&
  zilll_eqb (fermi_reps Zi zi1 (fermi_jax_level Zi zi0 zi_add zi_mul zi_opp) M c) r.
Eval vm_compute in mismatches ok cases.
""" % ";\n".join(lits)
    for k in parse_coq_list(coq_eval("c09_fermi", body))[0]:
        c, ks = own[k]
        msg = "fermionic representation: %s differ from the model (d=%d, cutoff=%d)" % (",".join(ks), len(c["M"]), c["cutoff"])
        corr_broken.append(msg)
        chk.violation("C09:calculate_interferometer_on_fermionic_fock_space:%s:model" % "+".join(ks), msg, {"case": c})
    chk.stream("fermionic Laplace representation: generic (NumPy and JAX assign), numba and jax versions vs the three Gallina models, exact Gaussian integers",
               sum(len(ks) for _, ks in own), sum(1 for c, _ in own if c["cutoff"] >= 3), samples=[fermi[3]])

    # ---------------- Euler decomposition: relational specification on every connector (test)
    nrel = 0
    for c, r in zip(euler, impl["euler"]):
        for kind, v in r.items():
            nrel += 1
            what = None
            if "exc" in v:
                what = "euler() raises %s" % v["exc"]
            else:
                worst = max(v.values())
                if not worst <= 1e-8:
                    bad = {k: x for k, x in v.items() if not x <= 1e-8}
                    what = ("a relational specification fails (is_polar_left / is_logm / is_sqrtm / is_svd / is_takagi / "
                            "is_euler, deviations: %s)" % ", ".join("%s %.2g" % kv for kv in sorted(bad.items())))
            if what:
                chk.violation("C09:euler:%s:not-a-decomposition" % kind,
                              "%s on the %s connector (the factors are not unique, the relation is)" % (what, kind),
                              {"case": c, "connector": kind, "result": v,
                               "call": "piquasso._math.decompositions.euler(block([[P, A], [conj A, conj P]]), connector)"})
    chk.stream("relational specifications (C09/RelSpecs.v: is_polar_left, is_logm, is_sqrtm, is_svd, is_takagi, is_euler) evaluated on the outputs of "
               "polar / logm / sqrtm / svd / takagi / euler of NumPy, TensorFlow, JAX for the symplectic matrices of Squeezing2 / QuadraticPhase / "
               "random Gaussian transforms (relational test, no theorem)", nrel, nrel,
               samples=[euler[0]], kind="differential test (no theorem)")

    # ---------------- differential test on whole programs (the search; no theorem)
    npairs, nvals, notes = compare_programs(chk, progs, impl["programs"], 1e-9)
    chk.stream("programs on every connector / execution mode, pairwise: state_vector with phases, fock_probabilities, density_matrix, "
               "get_particle_detection_probability, moments (differential test, no theorem)",
               npairs, sum(1 for p in progs if p["cutoff"] >= 3 and len(p["instructions"]) >= 3),
               samples=[{k: progs[2][k] for k in ("sim", "d", "cutoff", "modes")}],
               kind="differential test (no theorem)",
               note="%d observable pairs, %d compared numbers; %s" % (npairs, nvals, notes or ""))

    th.join()
    chk.assumptions += [
        "TensorFlow, XLA/JAX, NumPy, SciPy and numba numerics are not modelled: agreement of whole programs across connectors is a differential TEST "
        "on generated programs (cutoffs 1..5), not a theorem",
        "section hypotheses of the theorems: a commutative ring (ring_theory with Leibniz equality) and division = multiplication by an arbitrary inverse function; "
        "conn_ok (the connector meets the deterministic specification on in-range, non-repeated indices) is a premise of the parametricity theorems, "
        "established for the real connectors only by the exact differential tie",
        "the helper index tuple is modelled in C09/HelperModel.v with the square roots as an abstract weight function; the tie compares the index arrays exactly and the squared weights",
    ]
    chk.finish(
        rule="operations: in-domain cases with data (non-trivial: everything but range); representations: cutoff >= 3 or random index structure; programs: cutoff >= 3 with >= 3 instructions",
        explanation="Theorems of coq/theories/Props/C09.v about the connector specification (C09/ConnModel.v): assign frame and get-after-set laws, "
                    "accumulator equivalence, generic einsum recurrence = numba triple loop for every helper tuple and matrix over a commutative ring, "
                    "connector-independence of the modelled passive and Gaussian-mean steps.  Tie = exact run of the model (vm_compute) against every connector's "
                    "operations and representation kernels.  Whole-program agreement (NumPy / TensorFlow / JAX, eager and compiled) is a pairwise differential test.",
        correspondence_broken=corr_broken,
    )
