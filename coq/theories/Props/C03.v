(* C03 - Shot accounting and the chain rule of measurement.
   Only statements closed by [exact]; models and proofs live in C03/. *)
From Coq Require Import ZArith QArith List Bool Permutation.
From PV Require Import Base.CasesLib C03.ExecModel C03.ExecProofs C03.ExecReplay C03.ExecRefute
  C03.ProjectModel C03.ProjectProofs C03.ProjectReplay C03.ProjectNFold
  C03.DensityModel C03.DensityProofs C03.DensityReplay C03.DensityNFold
  C03.PassiveModel C03.PassiveRefute C03.PassiveReplay.
Import ListNotations.
Open Scope Z_scope.

Section Accounting.
  (* any state type, instruction type, outcome type; any program; any conditions; any
     simulation step (oracle) -- assumed only to be well formed (wf_step) *)
  Variables (St Ins Out : Type).
  Variable modes_of : Ins -> list nat.
  Variable is_meas none_ok : Ins -> bool.
  Variable cond_of : Ins -> list Out -> option bool.
  Variable step : St -> Ins -> list nat -> list Out -> option Z -> res (list (sub St Out)).
  Notation execute := (execute St Ins Out modes_of is_meas none_ok cond_of step).

  (* with shots = N every branch frequency is k/N, k >= 1 an integer, the k sum to N and the
     frequencies to 1: for every program, every interleaving of conditioned instructions and
     mid-circuit measurements, every outcome history *)
  Theorem C03_shots_invariant :
    wf_step St Ins Out step ->
    forall prog N s0 d act bs, 1 <= N -> execute prog (Some N) s0 d = Ok (act, bs) ->
      counts_ok N (map b_freq bs) /\ (sumQ (map b_freq bs) == 1)%Q.
  Proof. exact (shots_invariant St Ins Out modes_of is_meas none_ok cond_of step). Qed.

  (* Result.samples has exactly N entries whatever permutation the shuffle applies *)
  Theorem C03_samples_length :
    wf_step St Ins Out step ->
    forall prog N s0 d act bs shuffled, 1 <= N -> execute prog (Some N) s0 d = Ok (act, bs) ->
      Permutation (samples_pre St Out N bs) shuffled -> length shuffled = Z.to_nat N.
  Proof. exact (samples_length St Ins Out modes_of is_meas none_ok cond_of step). Qed.

  Theorem C03_samples_are_branch_outcomes :
    forall N (bs : list (branch St Out)) shuffled o,
      Permutation (samples_pre St Out N bs) shuffled -> In o shuffled ->
      exists b, In b bs /\ b_out b = o.
  Proof. exact (samples_are_branch_outcomes St Out). Qed.

  (* the counts of get_counts (as repaired by fixes/C03-get-counts-duplicate-outcomes.diff)
     sum to N *)
  Theorem C03_counts_sum :
    wf_step St Ins Out step ->
    forall key_eqb prog N s0 d act bs, 1 <= N -> execute prog (Some N) s0 d = Ok (act, bs) ->
      sumZ (values Out (get_counts St Out key_eqb N bs)) = N.
  Proof. exact (counts_sum St Ins Out modes_of is_meas none_ok cond_of step). Qed.

  (* the overwriting get_counts of the pinned commit is right only when all branch outcomes
     are distinct *)
  Theorem C03_counts_sum_overwrite_distinct_outcomes :
    wf_step St Ins Out step ->
    forall key_eqb, (forall a b, key_eqb a b = true -> a = b) ->
    forall prog N s0 d act bs, 1 <= N -> execute prog (Some N) s0 d = Ok (act, bs) ->
      NoDup (map b_out bs) ->
      sumZ (values Out (get_counts_overwrite St Out key_eqb N bs)) = N.
  Proof. exact (counts_sum_overwrite_distinct_outcomes St Ins Out modes_of is_meas none_ok cond_of step). Qed.

  (* weights (any shots, also None) keep summing to 1 when every oracle answer does *)
  Theorem C03_weights_sum_preserved :
    forall prog shots s0 d act bs,
      normalised_step St Ins Out step -> execute prog shots s0 d = Ok (act, bs) ->
      (sumQ (map b_freq bs) == 1)%Q.
  Proof. exact (weights_sum_preserved St Ins Out modes_of is_meas none_ok cond_of step). Qed.

  (* the register of every branch state is the executor's active-mode tuple, provided no
     measurement is skipped by a condition (finding C03:_do_execute_instructions:conditioned-measurement) *)
  Theorem C03_labels_invariant_except_conditioned_measurement :
    forall prog shots active bs act' bs',
      (forall i, In i prog -> is_meas i = true -> forall o, cond_of i o <> Some false) ->
      regs_are St Out active bs ->
      exec St Ins Out modes_of is_meas none_ok cond_of step prog shots active bs = Ok (act', bs') ->
      regs_are St Out act' bs'.
  Proof. exact (labels_invariant_except_conditioned_measurement St Ins Out modes_of is_meas none_ok cond_of step). Qed.
End Accounting.
Print Assumptions C03_shots_invariant.
Print Assumptions C03_samples_length.
Print Assumptions C03_samples_are_branch_outcomes.
Print Assumptions C03_counts_sum.
Print Assumptions C03_counts_sum_overwrite_distinct_outcomes.
Print Assumptions C03_weights_sum_preserved.
Print Assumptions C03_labels_invariant_except_conditioned_measurement.

Theorem C03_remap_inverse : forall active ms,
  incl ms active -> remap_modes_inverse active (remap_modes active ms) = ms.
Proof. exact remap_inverse. Qed.
Print Assumptions C03_remap_inverse.

Theorem C03_delete_active_spec : forall active ms,
  incl ms active ->
  delete_modes_from_active active (remap_modes active ms) = filter (fun m => negb (memb m ms)) active.
Proof. exact delete_active_spec. Qed.
Print Assumptions C03_delete_active_spec.

Theorem C03_positions_denote_labels : forall St Out active ms (b : branch St Out),
  b_reg b = active -> forallb (fun m => memb m active) ms = true ->
  remap_modes_inverse (b_reg b) (remap_modes active ms) = ms.
Proof. exact positions_denote_labels. Qed.
Print Assumptions C03_positions_denote_labels.

(* the repaired executor validates before any evolution: _validate_active_modes accepts
   exactly the programs that pass the loop's own active-mode test at every instruction, so an
   invalid program is refused up front and a validated one is never refused mid-run *)
Theorem C03_validate_active_agrees : forall Ins modes_of is_meas (prog : list Ins) active,
  validate_active Ins modes_of is_meas prog active = loop_checks Ins modes_of is_meas prog active.
Proof. exact validate_active_agrees. Qed.
Print Assumptions C03_validate_active_agrees.

(* the two shapes of oracle answer the simulators produce are well formed *)
Theorem C03_binning_wf : forall Out key_eqb (samples : list (list Out)) k,
  Z.of_nat (length samples) = k -> counts_ok k (map snd (binning_freqs Out key_eqb samples k)).
Proof. exact binning_wf. Qed.
Print Assumptions C03_binning_wf.

Theorem C03_per_sample_wf : forall Out (samples : list (list Out)) k,
  Z.of_nat (length samples) = k -> counts_ok k (map snd (per_sample_freqs Out samples k)).
Proof. exact per_sample_wf. Qed.
Print Assumptions C03_per_sample_wf.

Theorem C03_imperfect_multiplicity_is_count : forall f c k,
  0 < k -> (f == frac c k)%Q -> imperfect_multiplicity f k = c.
Proof. exact imperfect_multiplicity_is_count. Qed.
Print Assumptions C03_imperfect_multiplicity_is_count.

(* ------------------------------------------------------------------ chain rule (shots=None) *)
(* measuring L1 and then L2 = measuring L1 ++ L2: same outcome tuples, same unnormalised branch
   states, same registers, equal weights -- for every finitely supported state with non-zero
   listed amplitudes (any amplitude type with a squared modulus), every d, every disjoint
   L1, L2 below d in any order *)
Theorem C03_sequential_eq_joint : forall (A : Type) (nrm : A -> Q) d L1 L2 (psi : pstate A),
  positive A nrm psi ->
  Forall (fun m => (m < d)%nat) L1 -> incl L2 (aux L1 d) ->
  (forall b, In b (measure_seq A nrm [L1; L2] (pinitial A d psi)) ->
             exists b', In b' (measure_seq A nrm [L1 ++ L2] (pinitial A d psi)) /\ same_branch A b b') /\
  (forall b', In b' (measure_seq A nrm [L1 ++ L2] (pinitial A d psi)) ->
              exists b, In b (measure_seq A nrm [L1; L2] (pinitial A d psi)) /\ same_branch A b b').
Proof. exact sequential_eq_joint. Qed.
Print Assumptions C03_sequential_eq_joint.

(* the branch state after the second measurement is the projection of the ORIGINAL state on
   the joint outcome: the two index selections commute with the re-labelling of positions *)
Theorem C03_branch_state_is_projection : forall (A : Type) d M1 M2 s1 s2 (psi : pstate A),
  incl M2 (aux M1 d) -> length s1 = length M1 ->
  project A (length (aux M1 d)) (remap_modes (aux M1 d) M2) s2 (project A d M1 s1 psi)
  = project A d (M1 ++ M2) (s1 ++ s2) psi.
Proof. exact project_project. Qed.
Print Assumptions C03_branch_state_is_projection.

(* the weights of the outcomes partition the squared norm of the measured state *)
Theorem C03_weights_sum_norm : forall (A : Type) (nrm : A -> Q) d M (psi : pstate A),
  (fold_right (fun s acc => weight A nrm (project A d M s psi) + acc) 0 (outcomes A M psi)
   == weight A nrm psi)%Q.
Proof. exact weights_sum_norm. Qed.
Print Assumptions C03_weights_sum_norm.

(* with shots=None the weights of a measurement sum to the squared norm of the measured state
   (times the weight of the branch), for ANY branch state: unnormalised preparation, state
   left by a post-selection, ... -- not to 1 *)
Theorem C03_measure_branch_weights_sum : forall (A : Type) (nrm : A -> Q) L (b : pbranch A),
  (sumQ (map (pb_freq A) (measure_branch A nrm L b)) == branch_norm A nrm b * pb_freq A b)%Q.
Proof. exact measure_branch_weights_sum. Qed.
Print Assumptions C03_measure_branch_weights_sum.

Theorem C03_exact_weights_sum : forall (A : Type) (nrm : A -> Q) d L (psi : pstate A),
  (sumQ (map (pb_freq A) (measure_seq A nrm [L] (pinitial A d psi))) == weight A nrm psi)%Q.
Proof. exact exact_weights_sum. Qed.
Print Assumptions C03_exact_weights_sum.

(* the executor's new register is the old one read at the auxiliary positions: the link
   between _delete_modes_from_active and get_auxiliary_modes used by the projection *)
Theorem C03_delete_is_select_aux : forall X L, NoDup X -> incl L X ->
  delete_modes_from_active X (remap_modes X L) = select (aux (remap_modes X L) (length X)) X.
Proof. exact delete_is_select_aux. Qed.
Print Assumptions C03_delete_is_select_aux.

(* non-vacuity: (3/5)|1,0> + (4i/5)|0,1>, measure mode 1 then mode 0: two branches, weights
   9/25 and 16/25, and the sequential run equals the joint one *)
Example C03_nonvacuous_chain :
  let psi : qstate := [([1;0]%nat, (3#5, 0)); ([0;1]%nat, (0, 4#5))]%Q in
  map (fun b => (pb_out Qi b, Qred (pb_freq Qi b))) (run_proj 2 psi [[1%nat]; [0%nat]])
  = [([0;1]%nat, 9#25); ([1;0]%nat, 16#25)]%Q
  /\ seq_joint_model_ok 2 psi [1%nat] [0%nat] = true.
Proof. vm_compute. split; reflexivity. Qed.

(* non-vacuity for unnormalised states: (1/2)|1,0> + (1/2)|0,1> has squared norm 1/2; the
   weights of measuring mode 0 are 1/4 and 1/4 (not 1/2, 1/2); after post-selecting 0 photons
   in mode 0 the measurement of mode 1 has the single weight 1/4 *)
Example C03_nonvacuous_unnormalised :
  let psi : qstate := [([1;0]%nat, (1#2, 0)); ([0;1]%nat, (1#2, 0))]%Q in
  map (fun b => (pb_out Qi b, Qred (pb_freq Qi b))) (run_steps 2 psi [PMeasure [0%nat]])
  = [([1]%nat, 1#4); ([0]%nat, 1#4)]%Q
  /\ map (fun b => (pb_out Qi b, Qred (pb_freq Qi b)))
         (run_steps 2 psi [PPost [0%nat] [0%nat]; PMeasure [1%nat]])
     = [([1]%nat, 1#4)]%Q.
Proof. vm_compute. split; reflexivity. Qed.

(* ------------------------------------------------------------------ k measurements = one *)
(* from ANY reachable branch (any register without repetitions, any positive scale, any vector
   with non-zero listed amplitudes): measuring L1 and then L2 gives exactly the branches of the
   joint measurement of L1 ++ L2 (same outcome, vector, register; equal weight and scale) *)
Theorem C03_two_step_from_branch : forall (A : Type) (nrm : A -> Q) (b : pbranch A) L1 L2,
  good A nrm b -> incl L1 (pb_reg A b) ->
  incl L2 (filter (fun m => negb (memb m L1)) (pb_reg A b)) ->
  equiv A (measure A nrm L2 (measure_branch A nrm L1 b)) (measure_branch A nrm (L1 ++ L2) b).
Proof. exact two_step_from_branch. Qed.
Print Assumptions C03_two_step_from_branch.

(* the chain rule in full: for every state, every d and every non-empty list of pairwise
   disjoint mode lists L1, ..., Lk below d (any order within and between), measuring them one
   after another gives the same outcome-weight map, branch vectors, scales and registers as
   measuring L1 ++ ... ++ Lk at once -- by induction over k *)
Theorem C03_nfold_sequential_eq_joint : forall (A : Type) (nrm : A -> Q) d (psi : pstate A) Ls,
  positive A nrm psi -> Ls <> [] -> disjoint_in (seq 0 d) Ls ->
  equiv A (measure_seq A nrm Ls (pinitial A d psi)) (measure_seq A nrm [concat Ls] (pinitial A d psi)).
Proof. exact nfold_sequential_eq_joint. Qed.
Print Assumptions C03_nfold_sequential_eq_joint.

Theorem C03_nfold_from_branch : forall (A : Type) (nrm : A -> Q) n Ls (b : pbranch A),
  (length Ls <= n)%nat -> Ls <> [] -> good A nrm b -> disjoint_in (pb_reg A b) Ls ->
  equiv A (measure_seq A nrm Ls [b]) (measure_seq A nrm [concat Ls] [b]).
Proof. exact nfold_from_branch. Qed.
Print Assumptions C03_nfold_from_branch.

(* ------------------------------------------------------------------ mixed states (FockSimulator) *)
(* the block of a block is the block of the joint outcome: the branch state of a second
   measurement is the projection of the ORIGINAL density matrix *)
Theorem C03_density_block_of_block : forall (A : Type) d M1 M2 s1 s2 (rho : dstate A),
  incl M2 (aux M1 d) -> length s1 = length M1 ->
  dproject A (length (aux M1 d)) (remap_modes (aux M1 d) M2) s2 (dproject A d M1 s1 rho)
  = dproject A d (M1 ++ M2) (s1 ++ s2) rho.
Proof. exact dproject_dproject. Qed.
Print Assumptions C03_density_block_of_block.

(* p(s) = sum of the diagonal of the block; the weights of the outcomes sum to the trace *)
Theorem C03_density_weights_sum_trace : forall (A : Type) (tr : A -> Q) d M (rho : dstate A),
  dwf A d rho ->
  (gsum (fun s => dtrace A tr (dproject A d M s rho)) (doutcomes A M rho) == dtrace A tr rho)%Q.
Proof. exact dweights_sum_trace. Qed.
Print Assumptions C03_density_weights_sum_trace.

Theorem C03_density_branch_weights_sum : forall (A : Type) (tr : A -> Q) L (b : dbranch A),
  dwf A (length (db_reg A b)) (db_rho A b) ->
  (sumQ (map (db_freq A) (dmeasure_branch A tr L b)) == dbranch_trace A tr b * db_freq A b)%Q.
Proof. exact dmeasure_branch_weights_sum. Qed.
Print Assumptions C03_density_branch_weights_sum.

(* chain rule for mixed states, from any branch: p(s1) p(s2|s1) = p(s1 ++ s2), same block,
   same register, equal scale (outcomes of non-zero probability) *)
Theorem C03_density_two_step : forall (A : Type) (tr : A -> Q) (b : dbranch A) L1 L2 s1 s2,
  NoDup (db_reg A b) -> incl L1 (db_reg A b) ->
  incl L2 (filter (fun m => negb (memb m L1)) (db_reg A b)) ->
  length s1 = length L1 ->
  ~ (db_scale A b == 0)%Q ->
  ~ (dtrace A tr (dproject A (length (db_reg A b)) (remap_modes (db_reg A b) L1) s1 (db_rho A b)) == 0)%Q ->
  ~ (dtrace A tr (dproject A (length (db_reg A b)) (remap_modes (db_reg A b) (L1 ++ L2)) (s1 ++ s2) (db_rho A b)) == 0)%Q ->
  dsame A (dchild A tr L2 (dchild A tr L1 b s1) s2) (dchild A tr (L1 ++ L2) b (s1 ++ s2)).
Proof. exact dtwo_step_child. Qed.
Print Assumptions C03_density_two_step.

(* mixed states, outcome sets included: from any reachable branch, measuring L1 and then L2
   gives exactly the branches of the joint measurement (same outcome, block, register; equal
   weight and scale) ... *)
Theorem C03_density_two_step_from_branch : forall (A : Type) (tr : A -> Q) (b : dbranch A) L1 L2,
  dgood A tr b -> incl L1 (db_reg A b) ->
  incl L2 (filter (fun m => negb (memb m L1)) (db_reg A b)) ->
  dequiv A (dmeasure A tr L2 (dmeasure_branch A tr L1 b)) (dmeasure_branch A tr (L1 ++ L2) b).
Proof. exact dtwo_step_from_branch. Qed.
Print Assumptions C03_density_two_step_from_branch.

(* ... and the k-fold chain rule for density matrices, as for pure states: any matrix indexed
   by vectors of length d with positive listed diagonal entries (trace not necessarily 1), any
   non-empty list of pairwise disjoint mode lists below d in any order *)
Theorem C03_density_nfold_sequential_eq_joint : forall (A : Type) (tr : A -> Q) d (rho : dstate A) Ls,
  dwf A d rho -> dpositive A tr rho -> Ls <> [] -> disjoint_in (seq 0 d) Ls ->
  dequiv A (dmeasure_seq A tr Ls (dinitial A d rho)) (dmeasure_seq A tr [concat Ls] (dinitial A d rho)).
Proof. exact dnfold_sequential_eq_joint. Qed.
Print Assumptions C03_density_nfold_sequential_eq_joint.

Theorem C03_density_nfold_from_branch : forall (A : Type) (tr : A -> Q) n Ls (b : dbranch A),
  (length Ls <= n)%nat -> Ls <> [] -> dgood A tr b -> disjoint_in (db_reg A b) Ls ->
  dequiv A (dmeasure_seq A tr Ls [b]) (dmeasure_seq A tr [concat Ls] [b]).
Proof. exact dnfold_from_branch. Qed.
Print Assumptions C03_density_nfold_from_branch.

Example C03_nonvacuous_density_nfold :
  let rho : qdstate := [(([1;0;1], [1;0;1])%nat, (1#2, 0)); (([0;1;1], [0;1;1])%nat, (1#4, 0));
                        (([1;0;1], [0;1;1])%nat, (1#8, 1#8)); (([0;1;1], [1;0;1])%nat, (1#8, -1#8))]%Q in
  map (fun b => (db_out Qi b, Qred (db_freq Qi b))) (run_dens 3 rho [[2%nat]; [0%nat]; [1%nat]])
  = map (fun b => (db_out Qi b, Qred (db_freq Qi b))) (run_dens 3 rho [[2%nat; 0%nat; 1%nat]])
  /\ length (run_dens 3 rho [[2%nat]; [0%nat]; [1%nat]]) = 2%nat.
Proof. vm_compute. split; reflexivity. Qed.

(* non-vacuity: rho = 1/2 |1,0><1,0| + 1/4 |0,1><0,1| (trace 3/4): measuring mode 0 gives the
   weights 1/2 and 1/4, each branch matrix rescaled to trace 1 *)
Example C03_nonvacuous_density :
  let rho : qdstate := [(([1;0], [1;0])%nat, (1#2, 0)); (([0;1], [0;1])%nat, (1#4, 0))]%Q in
  map (fun b => (db_out Qi b, Qred (db_freq Qi b), Qred (dbranch_trace Qi qtr b))) (run_dens 2 rho [[0%nat]])
  = [([1]%nat, 1#2, 1); ([0]%nat, 1#4, 1)]%Q.
Proof. vm_compute. reflexivity. Qed.

(* non-vacuity of the k-fold statement: three single-mode measurements of a 3-mode state *)
Example C03_nonvacuous_nfold :
  let psi : qstate := [([1;0;2]%nat, (3#5, 0)); ([0;1;1]%nat, (0, 4#5))]%Q in
  disjoint_in (seq 0 3) [[2%nat]; [0%nat]; [1%nat]] /\
  map (fun b => (pb_out Qi b, Qred (pb_freq Qi b))) (run_proj 3 psi [[2%nat]; [0%nat]; [1%nat]])
  = map (fun b => (pb_out Qi b, Qred (pb_freq Qi b))) (run_proj 3 psi [[2%nat; 0%nat; 1%nat]]).
Proof.
  split.
  - simpl. repeat split; intros x [<-|[]]; simpl; auto.
  - vm_compute. reflexivity.
Qed.

(* ------------------------------------------------------------------ passive simulator, lazy post-selection *)
(* what is right: _set_postselection maps the register positions it is handed back to the
   state's own labels (for every state, label list and counts) *)
Theorem C03_passive_set_postselection_records_labels : forall st L counts,
  incl L (lazy_active st) -> length counts = length L ->
  map fst (ls_posts (set_postselection st (remap_modes (lazy_active st) L) counts)) = post_modes st ++ L.
Proof. exact set_postselection_records_labels. Qed.
Print Assumptions C03_passive_set_postselection_records_labels.

(* the open finding C03:passive:mid-circuit-measurement-exact-weights on the faithful model
   (finite witnesses): get_marginal_fock_probabilities reads the positions as labels and returns
   probabilities joint with the earlier outcomes, which the executor multiplies again -- the
   weights do not sum to 1 and an outcome of joint probability 0 gets a non-zero weight ... *)
Theorem C03_passive_mid_circuit_exact_weights_refuted :
  exists dist d Ls,
    (fold_right (fun vw acc => snd vw + acc) 0 dist == 1)%Q /\
    match lazy_exec dist Ls (lazy_initial d 4) with
    | LErr => False
    | LOk bs =>
        ~ (fold_right (fun b acc => lb_freq b + acc) 0 bs == 1)%Q /\
        exists b, In b bs /\ ~ (lb_freq b == 0)%Q /\ (spec_weight dist Ls (lb_out b) == 0)%Q
    end.
Proof. exact passive_mid_circuit_exact_weights_refuted. Qed.
Print Assumptions C03_passive_mid_circuit_exact_weights_refuted.

(* ... and a valid second partial measurement raises *)
Theorem C03_passive_mid_circuit_spurious_raise_refuted :
  exists dist d Ls, lazy_exec dist Ls (lazy_initial d 4) = LErr /\
                    NoDup (concat Ls) /\ Forall (fun m => (m < d)%nat) (concat Ls).
Proof. exact passive_mid_circuit_spurious_raise_refuted. Qed.
Print Assumptions C03_passive_mid_circuit_spurious_raise_refuted.

Example C03_passive_witness_values :
  lazy_weights (lazy_exec w_dist [[0%nat]; [2%nat]] (lazy_initial 3 4))
  = Some [([1;0]%nat, (1#4)%Q); ([0;1]%nat, (1#4)%Q)].
Proof. exact passive_witness_values. Qed.

(* refuted on the tree as found (finite witnesses) *)
Theorem C03_get_counts_overwrite_refuted :
  exists tbl prog N d act bs,
    wf_table tbl = true /\ run tbl prog (Some N) d = Ok (act, bs) /\
    sumZ (map snd (get_counts_overwrite nat Q ql_eq N bs)) <> N /\
    sumZ (map snd (get_counts nat Q ql_eq N bs)) = N.
Proof. exact get_counts_overwrite_refuted. Qed.
Print Assumptions C03_get_counts_overwrite_refuted.

Theorem C03_labels_invariant_refuted :
  exists tbl prog shots d act bs,
    run tbl prog shots d = Ok (act, bs) /\ ~ regs_are nat Q act bs.
Proof. exact labels_invariant_refuted. Qed.
Print Assumptions C03_labels_invariant_refuted.

(* non-vacuity: the recorded-table oracle of the refutation witness is a well-formed oracle,
   and the executor really produces three branches of frequency 1/3 for it *)
Example C03_nonvacuous_run :
  match run w_tbl w_prog (Some 3) 1 with
  | Ok (_, bs) => map b_freq bs = [frac 1 3 * 1; frac 1 3 * 1; frac 1 3 * 1]%Q
  | Err _ => False
  end.
Proof. vm_compute. reflexivity. Qed.
