(* C09 -- model of the helper-index tuple consumed by calculate_interferometer_on_fock_space.
   piquasso/_simulators/fock/simulation_steps.py:calculate_interferometer_helper_indices
   Definitions only.  The square roots are an abstract function [sqrtA] of the occupation number. *)
From Coq Require Import ZArith List Bool.
From PV Require Import Comb.FockModel C09.ConnModel.
Import ListNotations.
Local Open Scope nat_scope.

Section Helper.
Variable A : Type.
Variable sqrtA : Z -> A.

(* current_basis[j] -= 1 *)
Definition dec_at (v : list Z) (j : nat) : list Z := upd v j (nth j v 0%Z - 1)%Z.

(* first j with current_basis[j] - 1 >= 0 (0 when there is none: the code leaves the entry
   uninitialised, which only happens for the vacuum, outside the levels n >= 2) *)
Definition first_nonzero (v : list Z) (d : nat) : nat :=
  match find (fun j => (1 <=? nth j v 0%Z)%Z) (seq 0 d) with Some j => j | None => 0 end.

(* level n (2 <= n < cutoff): one row per basis vector of the n-particle sector *)
Definition helper_level (d n : nat) : level A :=
  let vs := sector d n in
  let modulus := sym_card (Z.of_nat d) (Z.of_nat n - 1) in      (* indices[n-1] - indices[n-2] *)
  {| l_si := map (fun v => map (fun j => Z.to_nat (fock_subspace_index (dec_at v j) mod modulus)) (seq 0 d)) vs;
     l_fnz := map (fun v => first_nonzero v d) vs;
     l_fsi := map (fun v => Z.to_nat (fock_subspace_index (dec_at v (first_nonzero v d)))) vs;
     l_sq := map (fun v => map (fun j => sqrtA (nth j v 0%Z)) (seq 0 d)) vs;
     l_sqf := map (fun v => sqrtA (nth (first_nonzero v d) v 0%Z)) vs |}.

Definition helper (d cutoff : nat) : list (level A) :=
  map (helper_level d) (seq 2 (cutoff - 2)).
End Helper.
