"""Make `import piquasso` load the Python sources of the tree named first in PYTHONPATH.

The scikit-build editable install puts a redirecting finder in front of sys.path which
maps every piquasso module to the tree the package was installed from; PYTHONPATH alone
therefore cannot select a scratch worktree (VERIF_REPO).  This helper re-targets the
finder's source map to the requested tree (the compiled extension modules stay the
shipped ones: pybind11 is not installed, they cannot be rebuilt) and returns the tree."""
import os
import sys


def select_repo():
    want = os.path.realpath(os.environ.get("PYTHONPATH", "").split(os.pathsep)[0] or ".")
    if not os.path.isdir(os.path.join(want, "piquasso")):
        return None
    for f in sys.meta_path:
        if type(f).__name__ != "ScikitBuildRedirectingFinder":
            continue
        src = f.known_source_files.get("piquasso")
        if not src:
            continue
        base = os.path.dirname(os.path.dirname(src))
        if os.path.realpath(base) == want:
            return want

        def mv(p):
            return want + p[len(base):] if p.startswith(base + os.sep) or p == base else p

        f.known_source_files = {k: mv(v) for k, v in f.known_source_files.items()}
        f.submodule_search_locations = {
            k: {mv(p) for p in v} for k, v in f.submodule_search_locations.items()
        }
    return want


def loaded_from():
    import piquasso

    return os.path.dirname(os.path.dirname(os.path.realpath(piquasso.__file__)))
