(* C04 -- a whole job of permanent_cpp / permanent_laplace_cpp: started at offset a with upper
   boundary b, the Gray loop runs b-a iterations, never overflows under the size bound, never
   divides by zero, and accumulates exactly the Glynn addends of the Gray codes of the offsets
   a..b; the kernel's result is the sum of its jobs. *)
From Coq Require Import ZArith List Bool Lia ZifyBool Ring InitialRing Setoid.
From PV Require Import Comb.Binom C04.PermModel C04.PermProofs C04.LoopProofs C04.GrayProofs.
Import ListNotations.
Local Close Scope Z_scope.
Local Open Scope nat_scope.

Lemma nth_map_S : forall r i, i < length r -> nth i (map S r) 0 = S (nth i r 0).
Proof. induction r as [|x r IH]; intros [|i] H; cbn in *; try lia; auto. apply IH. lia. Qed.

Lemma wf_map_S r : wf_limits (map S r).
Proof. apply Forall_forall. intros x Hx. apply in_map_iff in Hx. destruct Hx as (y & <- & _). lia. Qed.

Section Job.
Variable A : Type.
Variables (rO rI : A) (radd rmul rsub : A -> A -> A) (ropp : A -> A).
Hypothesis Rth : ring_theory rO rI radd rmul rsub ropp (@eq A).
Variable wb : Z.

Notation vadd' := (vadd A radd).
Notation term' := (glynn_term A rO rI radd rmul ropp).
Notation Inv' := (Inv A rO rI radd rmul ropp).

(* the Glynn addends of the Gray codes of the offsets k+1 .. k+fuel *)
Definition terms_from (F : list A -> list A) row0 rest r (k fuel : nat) : list (list A) :=
  map (fun j => term' F row0 rest r (gray_of (map S r) j)) (seq (S k) fuel).

Definition gstate_at (limits : list nat) (k omax : nat) : gstate :=
  {| g_chain := chain_of limits k; g_code := gray_of limits k; g_offset := k; g_offset_max := omax |}.

Theorem job_loop_spec w F row0 rest r :
  length r = length rest -> weight_ok wb w r ->
  forall fuel k omax st,
    k + fuel <= omax -> omax < idx_max (map S r) ->
    Inv' row0 rest r (gray_of (map S r) k) st ->
    exists st',
      job_loop A rO rI radd rmul ropp w F (map S r) rest r fuel (gstate_at (map S r) k omax) st = Ok st' /\
      Inv' row0 rest r (gray_of (map S r) (k + fuel)) st' /\
      p_acc A st' = fold_left vadd' (terms_from F row0 rest r k fuel) (p_acc A st).
Proof.
  intros Hlen Hw. induction fuel as [|fuel IH]; intros k omax st Hk Homax HInv.
  - exists st. rewrite Nat.add_0_r. split; [reflexivity|]. split; [exact HInv | reflexivity].
  - pose proof (wf_map_S r) as Hwf.
    destruct (gray_next_spec (map S r) k omax Hwf ltac:(lia) Homax)
      as (i & pv & nv & Hnext & Hi & Hpv & Hmove & Hlim & Hset).
    rewrite map_length in Hi.
    cbn [job_loop]. unfold gstate_at at 1. rewrite Hnext.
    pose proof (gray_of_range (map S r) k Hwf i ltac:(rewrite map_length; lia)) as Hrange.
    rewrite nth_map_S in Hrange, Hlim by lia. rewrite Hpv in Hrange.
    destruct (gray_step_invariant A rO rI radd rmul rsub ropp Rth w F row0 rest r
                (gray_of (map S r) k) st i pv nv) as (st1 & Hstep & HInv1 & Hacc1); auto.
    + lia.
    + rewrite gray_of_length, map_length. lia.
    + destruct Hmove as [->| ->]; [left|right]; split; auto; lia.
    + apply (weight_ok_step wb w r Hw).
    + rewrite Hstep. cbn [obind]. rewrite <- Hset in HInv1, Hacc1.
      destruct (IH (S k) omax st1 ltac:(lia) Homax HInv1) as (st' & Hloop & HInv' & Hacc').
      exists st'. split; [exact Hloop|]. split.
      * replace (k + S fuel) with (S k + fuel) by lia. exact HInv'.
      * rewrite Hacc', Hacc1. unfold terms_from. cbn [seq map fold_left]. reflexivity.
Qed.

(* one job, offsets a .. b *)
Theorem run_job_spec w F row0 rest r a b :
  length r = length rest -> weight_ok wb w r -> a <= b -> b < idx_max (map S r) ->
  run_job A rO rI radd rmul ropp wb w F row0 rest r a b
  = Ok (fold_left vadd' (terms_from F row0 rest r a (b - a)) (term' F row0 rest r (gray_of (map S r) a))).
Proof.
  intros Hlen Hw Hab Hb. unfold run_job, gray_init. cbn [g_code].
  change (gray_of_chain (map S r) (chain_of (map S r) a)) with (gray_of (map S r) a).
  destruct (job_init_invariant A rO rI radd rmul ropp wb w F row0 rest r (gray_of (map S r) a) Hw)
    as (st & Hinit & HInv & Hacc).
  rewrite Hinit. cbn [obind].
  destruct (job_loop_spec w F row0 rest r Hlen Hw (b - a) a b st ltac:(lia) Hb HInv)
    as (st' & Hloop & _ & Hacc').
  unfold gstate_at in Hloop. rewrite Hloop. cbn [obind]. now rewrite Hacc', Hacc.
Qed.

(* the whole kernel loop: every job succeeds; the result is the sum of the jobs *)
Definition job_value (F : list A -> list A) row0 rest r (idx_max conc j : nat) : list A :=
  let '(a, b) := job_bounds idx_max conc j in
  fold_left vadd' (terms_from F row0 rest r a (b - a)) (term' F row0 rest r (gray_of (map S r) a)).

Lemma idx_max_pos : forall l, wf_limits l -> 1 <= idx_max l.
Proof.
  induction l as [|n t IH]; intros H; [cbn; lia|]. inversion H; subst. rewrite idx_max_cons.
  specialize (IH ltac:(assumption)). nia.
Qed.

Lemma job_bounds_ok im conc j : 1 <= conc -> conc <= im -> j < conc ->
  let '(a, b) := job_bounds im conc j in a <= b /\ b < im.
Proof.
  intros Hc Hle Hj. unfold job_bounds.
  pose proof (Nat.div_mod im conc ltac:(lia)) as E.
  pose proof (Nat.mod_upper_bound im conc ltac:(lia)) as Hm.
  assert (Hwb : 1 <= im / conc) by (apply Nat.div_le_lower_bound; lia).
  destruct (j =? conc - 1) eqn:Ej.
  - assert (j = conc - 1) by lia. subst j. split; nia.
  - assert (j + 1 <= conc - 1) by lia. split; nia.
Qed.

Lemma sum_jobs_ok : forall zero (vals : list (list A)),
  sum_jobs A radd zero (map Ok vals) = Ok (fold_right vadd' zero vals).
Proof.
  induction vals as [|v vals IH]; [reflexivity|].
  cbn [map sum_jobs obind]. rewrite IH. reflexivity.
Qed.

Theorem run_all_spec w threads F nout row0 rest r :
  length r = length rest -> weight_ok wb w r -> 1 <= threads ->
  let im := idx_max (map S r) in
  let conc := Nat.min (threads * 4) im in
  run_all A rO rI radd rmul ropp wb w threads F nout row0 rest r
  = Ok (fold_right vadd' (repeat rO nout) (map (job_value F row0 rest r im conc) (seq 0 conc))).
Proof.
  intros Hlen Hw Ht im conc. unfold run_all.
  change (fold_right Nat.mul 1 (map S r)) with im. fold conc.
  pose proof (idx_max_pos (map S r) (wf_map_S r)) as Him. fold im in Him.
  rewrite <- sum_jobs_ok. f_equal. rewrite map_map.
  apply map_ext_in. intros j Hj. apply in_seq in Hj.
  pose proof (job_bounds_ok im conc j ltac:(lia) ltac:(lia) ltac:(lia)) as Hb.
  unfold job_value. destruct (job_bounds im conc j) as [a b]. destruct Hb as [Hab Hbi].
  apply run_job_spec; auto.
Qed.

End Job.
