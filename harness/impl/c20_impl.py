"""Implementation side of C20.  For every requested string: construct piquasso's Expression
(recording audit events and any call of _eval during construction), parse it with CPython's ast
and serialise the tree for the Coq model, decide the grammar independently, and — for accepted
strings — evaluate on every requested outcome tuple three ways: Expression(src)(x), CPython
eval(src, {"__builtins__": {}}, {"x": x}), and both again with a tuple that records every
subscription (evaluation order, short-circuit, evaluate-once)."""
import ast
import inspect
import json
import signal
import sys

import c20_astser as S

from piquasso.core import _expressions as E
from piquasso.api.exceptions import InvalidExpression

AUDIT = None


def _hook(event, args):
    if AUDIT is not None:
        AUDIT.append(event)


sys.addaudithook(_hook)


class Timeout(Exception):
    pass


def _alarm(signum, frame):
    raise Timeout()


signal.signal(signal.SIGALRM, _alarm)


def dec(v):
    """tagged JSON -> Python value"""
    if v is None:
        return None
    k, a = next(iter(v.items()))
    if k == "i":
        return int(a)
    if k == "b":
        return bool(a)
    if k == "f":
        return float.fromhex(a) if a not in ("nan",) else float("nan")
    if k == "t":
        return tuple(dec(e) for e in a)
    if k == "l":
        return [dec(e) for e in a]
    raise ValueError(k)


def enc(v):
    """Python value -> tagged JSON, exact types"""
    if v is None:
        return {"n": 0}
    t = type(v)
    if t is bool:
        return {"b": bool(v)}
    if t is int:
        return {"i": str(v)}
    if t is float:
        return {"f": "nan" if v != v else v.hex()}
    if isinstance(v, tuple) and t.__name__ in ("tuple", "RecTuple"):
        return {"t": [enc(e) for e in v]}
    if t is list:
        return {"l": [enc(e) for e in v]}
    if t is slice:
        return {"s": [enc(v.start), enc(v.stop), enc(v.step)]}
    return {"o": t.__name__}


class RecTuple(tuple):
    """An outcome tuple that records every subscription made on it."""
    log = None

    def __getitem__(self, k):
        RecTuple.log.append(repr(k))
        return tuple.__getitem__(self, k)


def guarded(f):
    signal.setitimer(signal.ITIMER_REAL, 5.0)
    try:
        return {"v": enc(f())}
    except Timeout:
        return {"e": "Timeout"}
    except InvalidExpression as ex:
        return {"e": "InvalidExpression", "m": str(ex)[:60]}
    except BaseException as ex:  # noqa
        return {"e": type(ex).__name__}
    finally:
        signal.setitimer(signal.ITIMER_REAL, 0)


def tables():
    """Runtime view of the whitelist tables, to cross-check the static translator."""
    def fn(f):
        return getattr(f, "__name__", repr(f))
    return {
        "BINOPS": [[k.__name__, fn(v)] for k, v in E.BINOPS.items()],
        "UNARYOPS": [[k.__name__, fn(v)] for k, v in E.UNARYOPS.items()],
        "BOOLOPS": [[k.__name__, fn(v)] for k, v in E.BOOLOPS.items()],
        "CMPOPS": [[k.__name__, fn(v)] for k, v in E.CMPOPS.items()],
        "ALLOWED": sorted(k.__name__ for k in E.ALLOWED),
        "source_file": inspect.getsourcefile(E),
    }


def one(src, xs):
    global AUDIT
    rec = {"src": src}
    # --- construction, observed
    calls = []
    orig_eval = E.Expression._eval

    def spy(self, node, x):
        calls.append(type(node).__name__)
        return orig_eval(self, node, x)

    E.Expression._eval = spy
    AUDIT = []
    expr = None
    try:
        expr = E.Expression(src)
        rec["construct"] = "ok"
    except InvalidExpression as ex:
        rec["construct"] = "InvalidExpression"
        rec["message"] = str(ex)[:48]
    except BaseException as ex:  # noqa
        rec["construct"] = type(ex).__name__
    events = AUDIT
    AUDIT = None
    E.Expression._eval = orig_eval
    rec["events"] = sorted(set(events) - {"compile"})
    rec["eval_calls_in_init"] = len(calls)
    # --- CPython's own view of the string
    tree = None
    try:
        tree = S.parse(src)
        rec["parse"] = "ok"
    except SyntaxError:
        rec["parse"] = "SyntaxError"
    except BaseException as ex:  # noqa
        rec["parse"] = type(ex).__name__
    # CPython's own verdict on the *string* (after the strip() the code applies): does it compile
    # as one expression?  Nothing is executed.
    try:
        compile(src.strip(), "<s>", "eval")
        rec["compile"] = "ok"
    except BaseException as ex:  # noqa
        rec["compile"] = type(ex).__name__
    # the tree the Expression holds must be the tree CPython's parser gives for the stripped string
    if expr is not None and tree is not None and hasattr(expr, "_tree"):
        try:
            rec["same_tree"] = ast.dump(expr._tree) == ast.dump(tree)
        except RecursionError:
            pass
    if tree is not None:
        try:
            rec["coq"] = S.ser(tree.body)
        except S.SerialiseError as ex:
            rec["coq"] = None
            rec["ser_error"] = str(ex)
        except RecursionError:
            rec["coq"] = None
            rec["ser_error"] = "RecursionError"
        try:
            rec["in_grammar"] = S.in_grammar(tree.body)
            rec["slice_in_tuple"] = S.has_slice_in_tuple(tree.body)
            if not rec["in_grammar"]:
                rec["offender"] = S.offender(tree.body)
            rec["nodes"] = sum(1 for _ in ast.walk(tree.body))
        except RecursionError:
            rec["in_grammar"] = None
    # --- evaluation
    rec["evals"] = []
    if expr is not None and tree is not None and rec.get("in_grammar"):
        try:
            big = S.bound(tree.body) == S.INF
        except RecursionError:
            big = True
        if big:
            rec["resource_skipped"] = True
            return rec
        code = src.strip()
        for xj in xs:
            x = dec(xj)
            r = {"x": xj}
            r["impl"] = guarded(lambda: expr(x))
            xe = x if x is not None else ()
            r["cpy"] = guarded(lambda: eval(code, {"__builtins__": {}}, {"x": xe}))
            if isinstance(xe, tuple):
                RecTuple.log = []
                ti = guarded(lambda: expr(RecTuple(xe)))
                li = RecTuple.log
                RecTuple.log = []
                tc = guarded(lambda: eval(code, {"__builtins__": {}}, {"x": RecTuple(xe)}))
                lc = RecTuple.log
                r["traced_equal"] = (ti == tc)
                if li != lc or ti != tc:
                    r["trace_impl"] = li
                    r["trace_cpy"] = lc
                else:
                    r["trace_len"] = len(li)
            rec["evals"].append(r)
    return rec


def use_sites(src, xs):
    """The two places of piquasso/api/instruction.py where a string becomes an Expression:
    Instruction.when(str) and a str-valued parameter; and the two places where it is called:
    _is_condition_met(outcomes) and _resolve_params(outcomes)."""
    import piquasso as pq
    from piquasso.api.exceptions import InvalidParameter, PiquassoException

    def cls_of(f):
        try:
            return "ok", f()
        except InvalidExpression:
            return "InvalidExpression", None
        except BaseException as ex:  # noqa
            return type(ex).__name__, None

    rec = {}
    rec["when"], cond = cls_of(lambda: pq.Phaseshifter(phi=0.25).when(src))
    rec["param"], par = cls_of(lambda: pq.Phaseshifter(phi=src))
    rec["evals"] = []
    if cond is not None and par is not None:
        for xj in xs:
            x = dec(xj)
            if not isinstance(x, tuple):
                continue
            r = {"x": xj}
            try:
                r["condition"] = {"v": enc(cond._is_condition_met(x))}
            except PiquassoException as ex:
                r["condition"] = {"e": type(ex.__cause__).__name__, "wrapped": type(ex).__name__}
            except BaseException as ex:  # noqa
                r["condition"] = {"e": type(ex).__name__, "wrapped": None}
            try:
                par._resolve_params(x)
                r["param"] = {"v": enc(par.params["phi"])}
                par._unresolve_params()
            except InvalidParameter as ex:
                r["param"] = {"e": type(ex.__cause__).__name__, "wrapped": "InvalidParameter"}
            except BaseException as ex:  # noqa
                r["param"] = {"e": type(ex).__name__, "wrapped": None}
            rec["evals"].append(r)
    return rec


def main():
    req = json.load(sys.stdin)
    out = {"records": []}
    want_use = set(req.get("use_sites", []))
    for k, (src, xs) in enumerate(req["strings"]):
        rec = one(src, xs)
        if k in want_use and not rec.get("resource_skipped"):
            rec["use"] = use_sites(src, xs if rec.get("evals") else [])
        out["records"].append(rec)
    out["tables"] = tables()  # read after the run: a table mutated while evaluating would show
    print(json.dumps(out))


main()
