(* C07 — the complex numbers over R are a commutative ring with involution: the instance at
   which the moment-update theorems speak about real gate parameters. *)
From Coq Require Import List Reals Ring.
From PV Require Import C07.CxBase C07.RealOps.
Open Scope R_scope.

Lemma RC_ring : ring_theory (z0 RC) (z1 RC) (zadd RC) (zmul RC) (zsub RC) (zopp RC) eq.
Proof.
  constructor; intros; repeat match goal with x : Cx R |- _ => destruct x end;
    unfold RC, CxOps, z0, z1, zadd, zmul, zsub, zopp, c0, c1, cadd, cmul, csub, copp; cbn;
    apply f_equal2; ring.
Qed.
Lemma RC_conj_0 : zconj RC (z0 RC) = z0 RC.
Proof. unfold RC, CxOps, zconj, z0, cconj, c0; cbn. apply f_equal2; ring. Qed.
Lemma RC_conj_1 : zconj RC (z1 RC) = z1 RC.
Proof. unfold RC, CxOps, zconj, z1, cconj, c1; cbn. apply f_equal2; ring. Qed.
Lemma RC_conj_add : forall x y, zconj RC (zadd RC x y) = zadd RC (zconj RC x) (zconj RC y).
Proof. intros [a b] [c d]. unfold RC, CxOps, zconj, zadd, cconj, cadd; cbn. apply f_equal2; ring. Qed.
Lemma RC_conj_mul : forall x y, zconj RC (zmul RC x y) = zmul RC (zconj RC x) (zconj RC y).
Proof. intros [a b] [c d]. unfold RC, CxOps, zconj, zmul, cconj, cmul; cbn. apply f_equal2; ring. Qed.
Lemma RC_conj_conj : forall x, zconj RC (zconj RC x) = x.
Proof. intros [a b]. unfold RC, CxOps, zconj, cconj; cbn. apply f_equal2; ring. Qed.
