(* C02 — _utils.py:get_counts / sample_from_probability_map binning, for every list of draws:
   the multiplicities add up to the number of shots, the multiplicity of an outcome is the number
   of times it was drawn, and the frequencies k/shots add up to 1. *)
From Coq Require Import ZArith QArith List Bool Arith Lia.
From PV Require Import C02.DistModel.
Import ListNotations.

Section Binning.
  Variable A : Type.
  Variable eqb : A -> A -> bool.

  Definition sumc (cs : list (A * nat)) : nat := fold_right (fun ak acc => (snd ak + acc)%nat) O cs.

  Lemma sumc_bump : forall a cs, sumc (bump_count eqb a cs) = S (sumc cs).
  Proof.
    intros a cs. induction cs as [|[b k] cs IH]; simpl; auto.
    destruct (eqb a b); simpl; [lia | rewrite IH; lia].
  Qed.

  Lemma sumc_fold : forall samples cs,
    sumc (fold_left (fun cs a => bump_count eqb a cs) samples cs) = (sumc cs + length samples)%nat.
  Proof.
    induction samples as [|a l IH]; intros cs; simpl; [lia|]. rewrite IH, sumc_bump. lia.
  Qed.

  (* the multiplicities add up to the number of shots *)
  Theorem counts_total : forall samples, sumc (get_counts eqb samples) = length samples.
  Proof. intros. unfold get_counts. rewrite sumc_fold. reflexivity. Qed.

  Hypothesis eqb_spec : forall x y, eqb x y = true <-> x = y.

  Fixpoint lookup (a : A) (cs : list (A * nat)) : nat :=
    match cs with [] => O | (b, k) :: r => if eqb a b then k else lookup a r end.
  Fixpoint count (a : A) (l : list A) : nat :=
    match l with [] => O | c :: r => ((if eqb a c then 1 else 0) + count a r)%nat end.

  Lemma eqb_refl' : forall a, eqb a a = true.
  Proof. intros. apply eqb_spec. reflexivity. Qed.

  Lemma lookup_bump_same : forall a cs, lookup a (bump_count eqb a cs) = S (lookup a cs).
  Proof.
    intros a cs. induction cs as [|[b k] cs IH]; simpl.
    - rewrite eqb_refl'. reflexivity.
    - destruct (eqb a b) eqn:E; simpl; rewrite E; auto.
  Qed.

  Lemma lookup_bump_other : forall a c cs, a <> c -> lookup a (bump_count eqb c cs) = lookup a cs.
  Proof.
    intros a c cs H. assert (Hac : eqb a c = false).
    { destruct (eqb a c) eqn:E; auto. apply eqb_spec in E. contradiction. }
    induction cs as [|[b k] cs IH]; simpl.
    - rewrite Hac. reflexivity.
    - destruct (eqb c b) eqn:E; simpl.
      + apply eqb_spec in E. subst. rewrite Hac. reflexivity.
      + destruct (eqb a b); auto.
  Qed.

  Lemma lookup_fold : forall a samples cs,
    lookup a (fold_left (fun cs a => bump_count eqb a cs) samples cs) = (lookup a cs + count a samples)%nat.
  Proof.
    intros a samples. induction samples as [|c l IH]; intros cs; simpl; [lia|].
    rewrite IH. destruct (eqb a c) eqn:E.
    - apply eqb_spec in E. subst. rewrite lookup_bump_same. lia.
    - rewrite lookup_bump_other; [lia|]. intros ->. rewrite eqb_refl' in E. discriminate.
  Qed.

  (* the multiplicity binned for an outcome is the number of times it was drawn *)
  Theorem counts_value : forall a samples, lookup a (get_counts eqb samples) = count a samples.
  Proof. intros. unfold get_counts. rewrite lookup_fold. reflexivity. Qed.
End Binning.

Definition sumQ (l : list Q) : Q := fold_right Qplus 0%Q l.

Lemma sumQ_counts : forall A (cs : list (A * nat)) p,
  (sumQ (map (fun ak : A * nat => Z.of_nat (snd ak) # p) cs) == Z.of_nat (sumc A cs) # p)%Q.
Proof.
  intros A cs p. induction cs as [|[b k] cs IH]; simpl.
  - unfold Qeq. simpl. reflexivity.
  - rewrite IH. unfold Qeq, Qplus. simpl. rewrite Nat2Z.inj_add.
    rewrite Pos2Z.inj_mul. ring.
Qed.

(* sample_from_probability_map: the frequencies Fraction(multiplicity, shots) add up to 1 *)
Theorem binning_frequencies_sum : forall A (eqb : A -> A -> bool) (samples : list A),
  samples <> [] -> (sumQ (map snd (frequencies eqb samples)) == 1)%Q.
Proof.
  intros A eqb samples H. unfold frequencies. rewrite map_map. cbn [snd].
  rewrite sumQ_counts, counts_total.
  destruct samples as [|a l]; [congruence|].
  remember (length (a :: l)) as n eqn:En. assert (Hn : n <> O) by (subst; simpl; lia).
  unfold Qeq. cbn [Qnum Qden].
  rewrite <- (positive_nat_Z (Pos.of_nat n)), Nat2Pos.id by exact Hn. ring.
Qed.

(* every frequency is multiplicity/shots with the multiplicity of counts_value *)
Theorem binning_frequency_value : forall A (eqb : A -> A -> bool) (samples : list A) a q,
  In (a, q) (frequencies eqb samples) ->
  exists k, In (a, k) (get_counts eqb samples) /\ q = (Z.of_nat k # Pos.of_nat (length samples))%Q.
Proof.
  intros A eqb samples a q H. unfold frequencies in H. apply in_map_iff in H.
  destruct H as [[b k] [E HI]]. inversion E; subst. exists k. split; auto.
Qed.
