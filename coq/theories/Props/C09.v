(* C09 -- Results do not depend on the numerical connector.
   Only statements closed by [exact]; proofs live in C09/.  What is proved is the *logic* of the
   connector layer (assignment laws, accumulator, equality of the re-implemented recurrences,
   independence of the modelled steps from the connector); agreement of the NumPy / TensorFlow /
   JAX numerics themselves is a differential test in the check, not a theorem. *)
From Coq Require Import List Arith Ring QArith.
From PV Require Import C09.ConnModel C09.ListLemmas C09.ConnProofs C09.Carriers C09.FermiProofs C09.RelSpecs C09.HelperModel C09.HelperProofs.
From PV Require Import C15.ClementsModel C15.MatProofs C15.EulerModel C09.EulerBridge.
Import ListNotations.
Open Scope nat_scope.

Section Laws.
Variable A : Type.
Variable zero : A.

(* assign, frame: a position that is not in the index array keeps its value *)
Theorem C09_assign_frame : forall (v : list A) idx vals k,
  ~ In k idx -> nth k (assign_list A v idx vals) zero = nth k v zero.
Proof. exact (assign_list_frame A zero). Qed.

(* assign, get-after-set: position idx[a] reads vals[a] unless a later entry repeats idx[a]
   (so with repeated indices the last value stays) *)
Theorem C09_assign_get_after_set : forall (v : list A) idx vals a,
  a < length idx -> a < length vals -> nth a idx 0 < length v ->
  ~ In (nth a idx 0) (skipn (S a) idx) ->
  nth (nth a idx 0) (assign_list A v idx vals) zero = nth a vals zero.
Proof. exact (assign_list_get A zero). Qed.

Theorem C09_assign_length : forall (v : list A) idx vals,
  length (assign_list A v idx vals) = length v.
Proof. exact (assign_list_length A). Qed.

(* matrix assignment through a pair of index arrays (get_operator_index / np.ix_) *)
Theorem C09_assign_pairs_frame : forall (M : list (list A)) R C vals i j,
  ~ In (i, j) (combine (concat R) (concat C)) ->
  get2 A zero (assign_pairs A M R C vals) i j = get2 A zero M i j.
Proof. exact (assign_pairs_frame A zero). Qed.

Theorem C09_assign_pairs_get_after_set : forall (M : list (list A)) R C vals a,
  let P := combine (concat R) (concat C) in
  NoDup P -> a < length P -> a < length (concat vals) ->
  fst (nth a P (0, 0)) < length M -> snd (nth a P (0, 0)) < length (nth (fst (nth a P (0, 0))) M []) ->
  get2 A zero (assign_pairs A M R C vals) (fst (nth a P (0, 0))) (snd (nth a P (0, 0)))
  = nth a (concat vals) zero.
Proof. exact (assign_pairs_get A zero). Qed.

(* np.ix_(rows, cols) after broadcasting writes exactly rows x cols, nothing else changes *)
Theorem C09_assign_ix_frame : forall (M : list (list A)) rows cols vals i j,
  ~ (In i rows /\ In j cols) ->
  get2 A zero (assign_ix A M rows cols vals) i j = get2 A zero M i j.
Proof. exact (assign_ix_frame A zero). Qed.

(* the Python-list accumulator (append, index ignored) and the TensorArray accumulator (slot
   writes) stack to the same matrix for the write order 0, 1, 2, ... used by gate_matrices.py *)
Theorem C09_accumulators_agree : forall rows : list (list A), fill_list A rows = fill_arr A rows.
Proof. exact (accumulators_agree A). Qed.
End Laws.
Print Assumptions C09_assign_frame.
Print Assumptions C09_assign_get_after_set.
Print Assumptions C09_assign_length.
Print Assumptions C09_assign_pairs_frame.
Print Assumptions C09_assign_pairs_get_after_set.
Print Assumptions C09_assign_ix_frame.
Print Assumptions C09_accumulators_agree.

Section Algebra.
Variable A : Type.
Variables (zero one : A) (add mul sub : A -> A -> A) (opp inv : A -> A).
Hypothesis Rth : ring_theory zero one add mul sub opp (@eq A).
Let dv := div A mul inv.

(* BuiltinConnector.calculate_interferometer_on_fock_space (einsum, used by TensorFlow and JAX)
   and the numba triple loop of NumpyConnector compute the same list of representations, for
   every number of levels (cutoff), every well-shaped helper tuple (every d) and every matrix
   over a commutative ring *)
Theorem C09_generic_rep_eq_numba_rep : forall U hs,
  Forall (wf_level A U) hs ->
  generic_reps A zero one add mul dv U hs = numba_reps A zero one add mul dv U hs.
Proof. exact (generic_reps_eq_numba_reps A zero one add mul sub opp inv Rth). Qed.

(* ... and each entry is the documented sum (Eq. (71) of the reference, divided by the weight) *)
Theorem C09_numba_rep_entry : forall U prev h k i,
  k < length (l_fnz A h) -> i < length (l_sq A h) ->
  nth i (nth k (numba_level A zero add mul dv U prev h) []) zero
  = spec_entry A zero add mul dv U prev h k i.
Proof. exact (numba_level_spec A zero one add mul sub opp inv Rth). Qed.

(* parametricity: the pure-Fock passive step, written once over a connector record, gives the
   same state vector for any two connectors that meet the deterministic specification *)
Theorem C09_passive_step_connector_independent : forall c1 c2 sv U hs index_list,
  conn_ok A zero one add mul inv c1 -> conn_ok A zero one add mul inv c2 ->
  Forall (wf_level A U) hs ->
  Forall (fun idx => valid_idx (length sv) (concat idx)) index_list ->
  passive_step A zero add mul c1 sv U hs index_list = passive_step A zero add mul c2 sv U hs index_list.
Proof. exact (passive_step_connector_independent A zero one add mul inv). Qed.

Theorem C09_gaussian_mean_step_connector_independent : forall c1 c2 m T modes,
  conn_ok A zero one add mul inv c1 -> conn_ok A zero one add mul inv c2 ->
  valid_idx (length m) modes ->
  gaussian_mean_step A zero add mul c1 m T modes = gaussian_mean_step A zero add mul c2 m T modes.
Proof. exact (gaussian_mean_step_connector_independent A zero one add mul inv). Qed.

(* non-vacuity of conn_ok: the NumPy-semantics connector and the one using the generic
   recurrence both satisfy it *)
Theorem C09_reference_connectors_ok :
  conn_ok A zero one add mul inv (numpy_connector A zero one add mul dv) /\
  conn_ok A zero one add mul inv (generic_connector A zero one add mul dv).
Proof.
  exact (conj (numpy_connector_ok A zero one add mul inv)
              (generic_connector_ok A zero one add mul sub opp inv Rth)).
Qed.

(* calculate_interferometer_on_fermionic_fock_space: the generic version (connections.py, run with
   every connector's assign), the numba version (numpy_/connections.py, precomputed tables) and the
   vectorised JAX version (jax_/connections.py, sign vector and sum over the last axis), modelled
   as written, return the same representations for every matrix over a commutative ring and
   every cutoff *)
Theorem C09_fermi_variants_agree : forall M cutoff,
  fermi_reps A one (fermi_numba_level A zero add mul opp) M cutoff =
  fermi_reps A one (fermi_generic_level A zero add mul opp) M cutoff /\
  fermi_reps A one (fermi_jax_level A zero add mul opp) M cutoff =
  fermi_reps A one (fermi_generic_level A zero add mul opp) M cutoff.
Proof. exact (fermi_variants_agree A zero one add mul sub opp Rth). Qed.
End Algebra.
Print Assumptions C09_generic_rep_eq_numba_rep.
Print Assumptions C09_numba_rep_entry.
Print Assumptions C09_passive_step_connector_independent.
Print Assumptions C09_gaussian_mean_step_connector_independent.
Print Assumptions C09_reference_connectors_ok.
Print Assumptions C09_fermi_variants_agree.

(* with the helper-index tuple itself modelled (C09/HelperModel.v, tied exactly to
   calculate_interferometer_helper_indices): for every number of modes d >= 1, every cutoff, every
   d x d matrix over a commutative ring and any weight function, the einsum version and the numba
   kernel return the same representations on the tuple the simulator really passes *)
Theorem C09_generic_rep_eq_numba_rep_on_helper :
  forall (A : Type) (zero one : A) (add mul sub : A -> A -> A) (opp inv : A -> A) (sqrtA : Z -> A),
  ring_theory zero one add mul sub opp (@eq A) ->
  forall (U : list (list A)) d cutoff, 1 <= d ->
  (forall k, k < d -> length (nth k U []) = d) ->
  generic_reps A zero one add mul (div A mul inv) U (helper A sqrtA d cutoff)
  = numba_reps A zero one add mul (div A mul inv) U (helper A sqrtA d cutoff).
Proof. exact generic_eq_numba_on_helper. Qed.
Print Assumptions C09_generic_rep_eq_numba_rep_on_helper.

(* Non-unique library operations (polar, svd, Takagi, sqrtm, logm, Euler) are specified by the
   relation their result must satisfy (C09/RelSpecs.v: is_polar_left, is_svd, is_takagi, is_sqrtm,
   is_logm, is_euler), over an abstract matrix algebra given by its laws. *)
Section Relational.
Variable Mx : Type.
Variables (mmul madd : Mx -> Mx -> Mx) (adj conj tr : Mx -> Mx) (I O : Mx) (mexp : Mx -> Mx).
Variables (is_psd is_diag_nonneg : Mx -> Prop) (ch sh : Mx -> Mx).
Hypothesis mmul_assoc : forall a b c, mmul a (mmul b c) = mmul (mmul a b) c.
Hypothesis mmul_O_r : forall a, mmul a O = O.
Hypothesis mmul_O_l : forall a, mmul O a = O.
Hypothesis madd_O_r : forall a b, madd (mmul a b) O = mmul a b.
Hypothesis madd_O_l : forall a b, madd O (mmul a b) = mmul a b.
Hypothesis conj_O : conj O = O.

(* the Euler-decomposed `linear` gate of the pure Fock simulator WITHOUT truncation (its
   Heisenberg-picture action passive(U_first); squeezing(D); passive(U_last)) is the same for any
   two connectors whose euler() satisfies the relation, however different their factors are *)
Theorem C09_linear_gate_untruncated_connector_independent :
  forall (euler1 euler2 : bogo Mx -> Mx * Mx * Mx) (G : bogo Mx),
  is_euler Mx mmul adj conj I ch sh G (euler1 G) ->
  is_euler Mx mmul adj conj I ch sh G (euler2 G) ->
  linear_action Mx mmul madd conj O ch sh euler1 G = linear_action Mx mmul madd conj O ch sh euler2 G.
Proof.
  exact (linear_action_connector_independent Mx mmul madd adj conj tr I O mexp is_psd is_diag_nonneg ch sh
           mmul_assoc mmul_O_r mmul_O_l madd_O_r madd_O_l conj_O).
Qed.

(* ... and it is the instruction's own (passive, active) block pair *)
Theorem C09_linear_gate_untruncated_is_blocks :
  forall (euler_fn : bogo Mx -> Mx * Mx * Mx) (G : bogo Mx),
  euler_reconstructs Mx mmul conj ch sh G (euler_fn G) ->
  linear_action Mx mmul madd conj O ch sh euler_fn G = G.
Proof.
  exact (linear_action_is_blocks Mx mmul madd conj O ch sh
           mmul_assoc mmul_O_r mmul_O_l madd_O_r madd_O_l conj_O).
Qed.

(* the factors themselves are not determined: a real Q with Q Q^dagger = I that commutes with the
   squeezing blocks (any real orthogonal Q for degenerate squeezings, e.g. Squeezing2) turns valid
   factors into other valid factors.  The code applies the three factors on the TRUNCATED Fock space
   with per-mode truncated squeezers, which is not a function of the block pair alone: that case is
   the visible exception, the open finding C09:pure_fock:linear-gate:truncated-euler-nonunique *)
Hypothesis conj_mmul : forall a b, conj (mmul a b) = mmul (conj a) (conj b).
Hypothesis mmul_I_r : forall a, mmul a I = a.
Theorem C09_euler_factors_not_unique : forall (G : bogo Mx) (U D V Q : Mx),
  euler_reconstructs Mx mmul conj ch sh G (U, D, V) ->
  mmul Q (adj Q) = I -> conj (adj Q) = adj Q ->
  mmul Q (ch D) = mmul (ch D) Q -> mmul Q (sh D) = mmul (sh D) Q ->
  euler_reconstructs Mx mmul conj ch sh G (mmul U Q, D, mmul (adj Q) V).
Proof. exact (euler_factors_not_unique Mx mmul adj conj I ch sh mmul_assoc conj_mmul mmul_I_r). Qed.
End Relational.
Print Assumptions C09_linear_gate_untruncated_connector_independent.
Print Assumptions C09_linear_gate_untruncated_is_blocks.
Print Assumptions C09_euler_factors_not_unique.

(* Bridge to C15's glue theorem for decompositions.py:euler (C15/EulerGlue.v:euler_glue, imported,
   not re-proved).  RelSpecs' abstract algebra is instantiated with C15's d x d list-matrices over a
   ring with involution (its laws are proved for the instance in C09/EulerBridge.v); the contracts
   of polar / logm / takagi on the OUTPUTS are visible premises, written per block:
     polar_left_blocks : S = R U_orig with U_orig = diag(u, conj u) unitary;
     logm_blocks       : R = exp [[0,-Z],[-conj Z,0]] through the even / odd parts fc, fs of exp;
     takagi_out        : RelSpecs.is_takagi (Z = U D U^T, U unitary, D real);
     similarity_invariant : fc, fs commute with the unitary similarity by U.
   Then the three values returned by euler() satisfy is_euler ... *)
Theorem C09_euler_model_is_euler :
  forall (A : Type) (Ops : ROps A) (L : RLaws Ops) (d : nat) (fc fs : mat A -> mat A)
         (G : mat A * mat A) Rp Ra Z U D u,
  wf d U -> wf d D -> wf d u -> wf d (chf d fc D) -> wf d (fs (mmul d D D)) ->
  polar_left_blocks d G Rp Ra u -> logm_blocks d fc fs Rp Ra Z -> takagi_out d Z D U ->
  similarity_invariant d fc fs U ->
  is_euler (mat A) (mmul d) (madj d) (mconj d) (mid d) (chf d fc) (shf d fs) G (euler_model d U D u).
Proof. exact @euler_model_is_euler. Qed.
Print Assumptions C09_euler_model_is_euler.

(* ... hence for any two connectors whose polar / logm / takagi outputs satisfy these contracts
   (the relations the check evaluates numerically per connector), the untruncated linear gate
   acts identically, whatever factors each of them returns *)
Theorem C09_linear_gate_independent_of_shims :
  forall (A : Type) (Ops : ROps A) (L : RLaws Ops) (d : nat) (fc fs : mat A -> mat A)
         (G : mat A * mat A) Rp1 Ra1 Z1 U1 D1 u1 Rp2 Ra2 Z2 U2 D2 u2,
  wf d U1 -> wf d D1 -> wf d u1 -> wf d (chf d fc D1) -> wf d (fs (mmul d D1 D1)) ->
  wf d U2 -> wf d D2 -> wf d u2 -> wf d (chf d fc D2) -> wf d (fs (mmul d D2 D2)) ->
  polar_left_blocks d G Rp1 Ra1 u1 -> logm_blocks d fc fs Rp1 Ra1 Z1 -> takagi_out d Z1 D1 U1 ->
  similarity_invariant d fc fs U1 ->
  polar_left_blocks d G Rp2 Ra2 u2 -> logm_blocks d fc fs Rp2 Ra2 Z2 -> takagi_out d Z2 D2 U2 ->
  similarity_invariant d fc fs U2 ->
  linear_action (mat A) (mmul d) (msum d) (mconj d) (mzero d) (chf d fc) (shf d fs)
                (fun _ => euler_model d U1 D1 u1) G
  = linear_action (mat A) (mmul d) (msum d) (mconj d) (mzero d) (chf d fc) (shf d fs)
                (fun _ => euler_model d U2 D2 u2) G.
Proof. exact @linear_gate_independent_of_shims. Qed.
Print Assumptions C09_linear_gate_independent_of_shims.

(* the laws assumed of the matrix algebra are satisfiable (1 x 1 integer matrices), and the
   untruncated action of factors (2, 3, 5) with ch = sh = identity is the expected pair *)
Example C09_example_relational_instance :
  linear_action Z Z.mul Z.add (fun x => x) 0%Z (fun x => x) (fun x => x) (fun _ => (2, 3, 5)%Z) (30, 30)%Z
  = (30, 30)%Z.
Proof. reflexivity. Qed.

(* non-vacuity: repeated index, last value stays; negative index normalisation *)
Example C09_example_repeated_index :
  assign_list nat [10; 20; 30] [1; 1; 2] [7; 8; 9] = [10; 8; 9].
Proof. reflexivity. Qed.
Example C09_example_negative_index :
  assign_list_z nat [10; 20; 30] [(-1)%Z; 0%Z] [7; 8] = Some [8; 20; 7]
  /\ assign_list_z nat [10; 20; 30] [3%Z] [7] = None.
Proof. split; reflexivity. Qed.

(* the model runs at the Gaussian rationals (the carrier used by the tie): both recurrences on
   one small well-shaped level, and the result is not the trivial one *)
Example C09_example_reps_at_Qi :
  let U := [[(1, 0); (0, 1)]; [(1 # 2, 1 # 2); (-1 # 1, 0)]]%Q in
  let h := Build_level Qi [[0; 1]; [1; 0]] [0; 1] [0; 1]
             [[(1, 0); (2, 0)]; [(1, 0); (1, 0)]]%Q [(1, 0); (2, 0)]%Q in
  qilll_eqb (numba_reps Qi qi0 qi1 qi_add qi_mul qi_div U [h])
            (generic_reps Qi qi0 qi1 qi_add qi_mul qi_div U [h]) = true
  /\ qilll_eqb (numba_reps Qi qi0 qi1 qi_add qi_mul qi_div U [h]) [[[qi1]]; U; [[qi0; qi0]; [qi0; qi0]]] = false.
Proof. split; vm_compute; reflexivity. Qed.

(* the premises of the bridge are jointly satisfiable (d = 1 over Z with the trivial involution,
   fc = const 1, fs = const 0: P = u = U = D = 1, A = Z = 0) *)
Definition C09_ZOps : ROps Z :=
  {| r0 := 0%Z; r1 := 1%Z; radd := Z.add; rmul := Z.mul; rsub := Z.sub; ropp := Z.opp; rconj := fun x => x |}.
Lemma C09_ZLaws : RLaws C09_ZOps.
Proof. constructor; simpl; intros; auto. exact InitialRing.Zth. Qed.
Example C09_example_bridge_premises :
  let one := [[1%Z]] in let zer := [[0%Z]] in
  polar_left_blocks (Ops := C09_ZOps) 1 (one, zer) one zer one /\
  logm_blocks (Ops := C09_ZOps) 1 (fun _ => one) (fun _ => zer) one zer zer /\
  takagi_out (Ops := C09_ZOps) 1 zer zer one /\
  similarity_invariant (Ops := C09_ZOps) 1 (fun _ => one) (fun _ => zer) one.
Proof. repeat split. Qed.
