"""C19 — Dual-rail translation preserves qubit-circuit statistics."""
import ast
import json
import math
import os
import re
from fractions import Fraction

from common import CASES_HEADER, COQ, REPO, Check, coq_eval_parallel, run_impl

GEN_PATH = os.path.join(COQ, "theories", "C19", "EncodeGen.v")


# =========================================================================== translator
class TranslateError(Exception):
    pass


def _src(path):
    with open(os.path.join(REPO, path)) as f:
        return f.read()


def _find_class_method(tree, cls, meth):
    for node in tree.body:
        if isinstance(node, ast.ClassDef) and node.name == cls:
            for b in node.body:
                if isinstance(b, ast.FunctionDef) and b.name == meth:
                    return b
    raise TranslateError("no %s.%s in gates.py" % (cls, meth))


def _is_np(call, name):
    f = call.func
    return (isinstance(call, ast.Call) and isinstance(f, ast.Attribute) and f.attr == name
            and isinstance(f.value, ast.Name) and f.value.id == "np" and len(call.args) == 1 and not call.keywords)


def translate_block(cls, params):
    """The array literal returned by <cls>._get_passive_block as Coq terms over cplx.
    Grammar: np.cos(p), np.sin(p), np.exp(1j * p), np.conj(e), e * e, -e, local names, 0, 1.
    Anything else: TranslateError (the check then reports the obligation as broken)."""
    tree = ast.parse(_src("piquasso/instructions/gates.py"))
    fn = _find_class_method(tree, cls, "_get_passive_block")
    local = {}
    bound = set()
    ret = None
    for st in fn.body:
        if isinstance(st, ast.Expr) and isinstance(st.value, ast.Constant):
            continue  # docstring
        if isinstance(st, ast.Assign) and len(st.targets) == 1 and isinstance(st.targets[0], ast.Name):
            tgt, v = st.targets[0].id, st.value
            if tgt == "np" and isinstance(v, ast.Attribute) and v.attr == "np":
                continue
            if (isinstance(v, ast.Subscript) and isinstance(v.value, ast.Attribute) and v.value.attr == "_params"
                    and isinstance(v.slice, ast.Constant) and v.slice.value == tgt and tgt in params):
                bound.add(tgt)
                continue
            local[tgt] = v
            continue
        if isinstance(st, ast.Return):
            ret = st.value
            continue
        raise TranslateError("%s._get_passive_block: unsupported statement %s" % (cls, ast.dump(st)[:80]))
    if ret is None or not (isinstance(ret, ast.Call) and isinstance(ret.func, ast.Attribute) and ret.func.attr == "array"):
        raise TranslateError("%s._get_passive_block: no np.array(...) return" % cls)
    for kw in ret.keywords:
        if kw.arg != "dtype":
            raise TranslateError("unexpected keyword " + str(kw.arg))
    lit = ret.args[0]
    if not isinstance(lit, ast.List) or not all(isinstance(r, ast.List) for r in lit.elts):
        raise TranslateError("array literal expected")

    def tr(e, conj):
        """-> (is_real, coq term); is_real terms have type A, others type cplx"""
        if isinstance(e, ast.Name):
            if e.id in local:
                return tr(local[e.id], conj)
            raise TranslateError("free name " + e.id)
        if isinstance(e, ast.Constant) and isinstance(e.value, (int, float)) and not isinstance(e.value, bool):
            if e.value == 0:
                return (True, "(o0 O)")
            if e.value == 1:
                return (True, "(o1 O)")
            raise TranslateError("constant %r" % (e.value,))
        if isinstance(e, ast.Call):
            for nm in ("cos", "sin"):
                if _is_np(e, nm) and isinstance(e.args[0], ast.Name) and e.args[0].id in bound:
                    return (True, "%s_%s" % (nm, e.args[0].id))
            if _is_np(e, "exp"):
                a = e.args[0]
                if (isinstance(a, ast.BinOp) and isinstance(a.op, ast.Mult) and isinstance(a.left, ast.Constant)
                        and a.left.value == 1j and isinstance(a.right, ast.Name) and a.right.id in bound):
                    return (False, ("expc_%s" if conj else "exp_%s") % a.right.id)
            if _is_np(e, "conj"):
                return tr(e.args[0], not conj)
            raise TranslateError("call " + ast.dump(e)[:80])
        if isinstance(e, ast.UnaryOp) and isinstance(e.op, ast.USub):
            r, t = tr(e.operand, conj)
            return (r, "(oopp O %s)" % t) if r else (False, "(copp O %s)" % t)
        if isinstance(e, ast.BinOp) and isinstance(e.op, ast.Mult):
            r1, t1 = tr(e.left, conj)
            r2, t2 = tr(e.right, conj)
            if r1 and r2:
                return (True, "(omul O %s %s)" % (t1, t2))
            return (False, "(cmul O %s %s)" % (promote(r1, t1), promote(r2, t2)))
        raise TranslateError("expression " + ast.dump(e)[:80])

    def promote(r, t):
        return "(cre O %s)" % t if r else t

    rows = []
    for row in lit.elts:
        rows.append([promote(*tr(x, False)) for x in row.elts])
    return rows


def klm_angles():
    """The two decimal literals of _cz_on_two_bosonic_qubits, as exact fractions of a turn/2 (x/180)."""
    tree = ast.parse(_src("piquasso/dual_rail_encoding.py"))
    fn = [n for n in tree.body if isinstance(n, ast.FunctionDef) and n.name == "_cz_on_two_bosonic_qubits"]
    if not fn:
        raise TranslateError("no _cz_on_two_bosonic_qubits")
    src = _src("piquasso/dual_rail_encoding.py")
    out = []
    for st in fn[0].body:
        if isinstance(st, ast.Assign) and isinstance(st.value, ast.BinOp):
            v = st.value  # (<num> / 180) * np.pi
            if (isinstance(v.op, ast.Mult) and isinstance(v.right, ast.Attribute) and v.right.attr == "pi"
                    and isinstance(v.left, ast.BinOp) and isinstance(v.left.op, ast.Div)
                    and isinstance(v.left.left, ast.Constant) and isinstance(v.left.right, ast.Constant)
                    and v.left.right.value == 180):
                lit = ast.get_source_segment(src, v.left.left) or repr(v.left.left.value)
                out.append((st.targets[0].id, Fraction(lit) / 180))
            else:
                raise TranslateError("angle assignment not of the form <literal> / 180 * np.pi")
    if len(out) != 2:
        raise TranslateError("expected two fixed angles in _cz_on_two_bosonic_qubits, found %d" % len(out))
    return out[0][1], out[1][1]


def qlit(fr):
    fr = Fraction(fr)
    return "((%d) # %d)%%Q" % (fr.numerator, fr.denominator)


def const_turns(x):
    """float -> exact multiple of pi (denominator 18000), or TranslateError"""
    p = x / math.pi * 18000
    if abs(p - round(p)) > 1e-7:
        raise TranslateError("parameter %r is not a multiple of pi/18000" % x)
    return Fraction(round(p), 18000)


def translate_angle(desc, k1, k2, allow_klm):
    if "sym" in desc:
        lin = desc["sym"]
        if len(lin) != 1 or abs(desc.get("const", 0.0)) > 0:
            raise TranslateError("angle is not a multiple of one parameter: %r" % desc)
        (k, (n, d)), = lin.items()
        return "(APar %d %s)" % (int(k), qlit(Fraction(n, d)))
    if set(desc) == {"const"}:
        t = const_turns(desc["const"])
        if allow_klm:
            for name, val in (("AK1", k1), ("AK2", k2)):
                if t == val:
                    return "(%s false)" % name
                if t == -val:
                    return "(%s true)" % name
        return "(ATurn %s)" % qlit(t)
    raise TranslateError("parameter %r" % desc)


def translate_emitted(name, lst, k1, k2):
    out = []
    for ins in lst:
        cls, modes, params = ins["cls"], ins["modes"], ins["params"]
        klm = name in ("cz", "cx")
        if cls == "Phaseshifter" and len(modes) == 1 and set(params) == {"phi"}:
            out.append("EPS %d %s" % (modes[0], translate_angle(params["phi"], k1, k2, klm)))
        elif cls == "Beamsplitter" and len(modes) == 2 and set(params) == {"theta", "phi"}:
            out.append("EBS %d %d %s %s" % (modes[0], modes[1], translate_angle(params["theta"], k1, k2, klm),
                                           translate_angle(params["phi"], k1, k2, klm)))
        elif cls == "PostSelectPhotons" and len(modes) == 2 and set(params) == {"photon_counts"} and "list" in params["photon_counts"]:
            n = params["photon_counts"]["list"]
            out.append("EPost %d %d %d %d" % (modes[0], modes[1], n[0], n[1]))
        elif cls == "ParticleNumberMeasurement" and len(modes) == 2 and not params:
            out.append("EMeas %d %d" % (modes[0], modes[1]))
        else:
            raise TranslateError("emitted instruction not understood: %r" % ins)
    return "[" + "; ".join(out) + "]"


GATE_NAMES = ["h", "x", "y", "z", "rx", "ry", "rz", "u", "u3", "p", "cz", "cx", "measure"]


def generate_encodegen(sent):
    bs = translate_block("Beamsplitter", ["theta", "phi"])
    ps = translate_block("Phaseshifter", ["phi"])
    if len(bs) != 2 or any(len(r) != 2 for r in bs) or len(ps) != 1 or len(ps[0]) != 1:
        raise TranslateError("unexpected block shape")
    k1, k2 = klm_angles()
    em = sent["emitted"]
    for nm in GATE_NAMES:
        if nm not in em:
            raise TranslateError("gate %s not emitted" % nm)
    for nm, ok in sent["refused"]:
        if ok is not True:
            raise TranslateError("unsupported gate name %r is not refused with ValueError" % nm)
    lines = [
        "(* GENERATED on every run by harness/props/c19.py from the working tree of the repository:",
        "   - bs_block / ps_block: the array literals of Beamsplitter/Phaseshifter._get_passive_block",
        "     (piquasso/instructions/gates.py), by a fail-closed ast translator;",
        "   - emitted: the instruction lists returned by dual_rail_encoding._map_qiskit_instr_to_pq for each",
        "     supported gate name, called with symbolic parameters and sentinel modes;",
        "   - klm_theta*_turns: the two decimal literals of _cz_on_two_bosonic_qubits, divided by 180.",
        "   Do not edit. *)",
        "From Coq Require Import ZArith QArith List Bool String.",
        "From PV Require Import C19.DRBase.",
        "Import ListNotations.",
        "Open Scope string_scope.",
        "",
        "Section Blocks.",
        "  Context {A : Type} (O : ops A).",
        "  Definition bs_block (cos_theta sin_theta : A) (exp_phi expc_phi : @cplx A) : @mat2 A :=",
        "    ((%s, %s), (%s, %s))." % (bs[0][0], bs[0][1], bs[1][0], bs[1][1]),
        "  Definition ps_block (exp_phi expc_phi : @cplx A) : @cplx A := %s." % ps[0][0],
        "End Blocks.",
        "",
        "Definition klm_theta1_turns : Q := %s." % qlit(k1),
        "Definition klm_theta2_turns : Q := %s." % qlit(k2),
        "",
    ]
    for nm in GATE_NAMES:
        lines.append("Definition emitted_%s : list einstr := %s." % (nm, translate_emitted(nm, em[nm], k1, k2)))
    lines.append("Definition emitted_p_zero : list einstr := %s." % translate_emitted("p", em["p_zero"], k1, k2))
    lines.append("")
    lines.append("Definition emitted (name : string) : option (list einstr) :=")
    for nm in GATE_NAMES:
        lines.append('  if String.eqb name "%s" then Some emitted_%s else' % (nm, nm))
    lines.append("  None.")
    return "\n".join(lines) + "\n"


def write_if_changed(path, text):
    try:
        if open(path).read() == text:
            return False
    except FileNotFoundError:
        pass
    with open(path, "w") as f:
        f.write(text)
    return True


# =========================================================================== circuits
ONEQ = ["h", "x", "y", "z", "rx", "ry", "rz", "u", "p"]
NPAR = {"h": 0, "x": 0, "y": 0, "z": 0, "rx": 1, "ry": 1, "rz": 1, "u": 3, "p": 1}
UNITS = {"rx": [Fraction(1, 2)], "ry": [Fraction(1, 2)], "rz": [Fraction(1, 2)],
         "u": [Fraction(1, 2), Fraction(1), Fraction(1)], "p": [Fraction(1)]}
COQ_GATE = {"h": "GH", "x": "GX", "y": "GY", "z": "GZ", "rx": "GRx", "ry": "GRy", "rz": "GRz", "u": "GU", "p": "GP"}
TS = [Fraction(a, b) for a in range(-4, 5) for b in (1, 2, 3) if math.gcd(abs(a), b) == 1 or a == 0]


def cs_of(t):
    t = Fraction(t)
    return (1 - t * t) / (1 + t * t), 2 * t / (1 + t * t)


def gen_gate(rng, q):
    g = rng.choice(ONEQ)
    ts = []
    for k in range(NPAR[g]):
        t = rng.choice(TS)
        while g == "p" and t == 0:
            t = rng.choice(TS)
        ts.append(t)
    return mk_gate(g, q, ts)


def mk_gate(g, q, ts):
    op = {"g": g, "q": [q]}
    if ts:
        op["t"] = [[Fraction(t).numerator, Fraction(t).denominator] for t in ts]
        angles = []
        for t, u in zip(ts, UNITS[g]):
            c, s = cs_of(t)
            angles.append(math.atan2(float(s), float(c)) / float(u))
        op["a"] = angles
    return op


def gen_circuit(rng, max_modes, variant=None):
    """In-domain circuits (variant None): the k-th measurement writes clbit k, a measured qubit is
    not used again, conditioned blocks act on one qubit and have no else part.
    Variants for the search: 'else', 'multi', 'clorder'."""
    while True:
        n = rng.choice([1, 2, 2, 3, 3, 3])
        if variant in ("multi", "clorder") and n < 3:
            n = 3
        if variant == "else" and n < 2:
            n = 2
        nops = rng.randint(1, 8)
        live = list(range(n))
        ops, ncz, nm, napp = [], 0, 0, 0
        clperm = list(range(n))
        if variant == "clorder":
            while clperm == list(range(n)):
                rng.shuffle(clperm)
        written = []
        for _ in range(nops):
            r = rng.random()
            if r < 0.17 and len(live) >= 2 and 2 * n + 2 * (ncz + 1) <= max_modes:
                a, b = rng.sample(live, 2)
                ops.append({"g": rng.choice(["cz", "cx"]), "q": [a, b]})
                ncz += 1
            elif r < 0.32 and live and (len(live) > 1 or rng.random() < 0.3):
                q = rng.choice(live)
                live.remove(q)
                c = clperm[nm]
                ops.append({"g": "measure", "q": [q], "c": c})
                written.append(c)
                nm += 1
            elif r < 0.50 and nm > 0 and live and napp < 9:
                c = rng.choice(written)
                q = rng.choice(live)
                body = [gen_gate(rng, q) for _ in range(rng.randint(1, 2))]
                op = {"g": "if", "c": c, "v": rng.randint(0, 1), "body": body}
                if variant == "multi" and len(live) >= 2:
                    q2 = rng.choice([z for z in live if z != q])
                    body.append(gen_gate(rng, q2))
                    rng.shuffle(body)
                if variant == "else":
                    op["else"] = [gen_gate(rng, q) for _ in range(rng.randint(1, 2))]
                napp += len(body)
                ops.append(op)
            elif live and napp < 10:
                ops.append(gen_gate(rng, rng.choice(live)))
                napp += 1
        if rng.random() < 0.5:
            rest = list(live)
            rng.shuffle(rest)
            for q in rest:
                ops.append({"g": "measure", "q": [q], "c": clperm[nm]})
                nm += 1
        c = {"n": n, "ncl": n, "ops": ops}
        if not ops:
            continue
        if variant == "else" and not any(o.get("else") for o in ops):
            continue
        if variant == "multi" and not any(o["g"] == "if" and len({b["q"][0] for b in o["body"]}) > 1 for o in ops):
            continue
        if variant == "clorder":
            ms = [o["c"] for o in ops if o["g"] == "measure"]
            if ms == list(range(len(ms))) or not any(o["g"] == "if" for o in ops):
                continue
        finalize(c)
        return c


PS_END = ["p", "z", "rz", "u", "y"]        # emitted list ends with a phaseshifter on rail 1
PS_BEGIN = ["p", "z", "rz", "u", "h", "x"]  # emitted list begins with a phaseshifter (rail 1; rz: rail 0)
PATTERNS = ["N", "F", "S", "B", "D"]        # which of two adjacent gates is conditioned: neither, first, second,
                                            # both in one block, both in blocks with different conditions


def generic_gate(rng, g, q):
    ts = []
    for _ in range(NPAR[g]):
        t = rng.choice([x for x in TS if x not in (0, 1, -1)])
        ts.append(t)
    return mk_gate(g, q, ts)


def pair_circuit(rng, g1, g2, pattern):
    """Two adjacent gates g1, g2 on the same qubit, with the conditioning pattern, between a generic
    preparation and a generic interfering rotation; the controlling qubits are measured in a
    superposition so that both branches of every condition are taken."""
    n = 3 if pattern == "D" else 2
    tq = 1
    ops = [{"g": "h", "q": [0]}, {"g": "measure", "q": [0], "c": 0}]
    if pattern == "D":
        ops += [generic_gate(rng, "ry", 2), {"g": "measure", "q": [2], "c": 1}]
    ops.append(generic_gate(rng, "u", tq))
    a, b = generic_gate(rng, g1, tq), generic_gate(rng, g2, tq)
    v0, v1 = rng.randint(0, 1), rng.randint(0, 1)
    if pattern == "N":
        ops += [a, b]
    elif pattern == "F":
        ops += [{"g": "if", "c": 0, "v": v0, "body": [a]}, b]
    elif pattern == "S":
        ops += [a, {"g": "if", "c": 0, "v": v0, "body": [b]}]
    elif pattern == "B":
        ops += [{"g": "if", "c": 0, "v": v0, "body": [a, b]}]
    else:
        ops += [{"g": "if", "c": 0, "v": v0, "body": [a]}, {"g": "if", "c": 1, "v": v1, "body": [b]}]
    ops.append(generic_gate(rng, rng.choice(["ry", "rx", "h"]), tq))
    if rng.random() < 0.5:
        ops.append({"g": "measure", "q": [tq], "c": 2 if pattern == "D" else 1})
    return finalize({"n": n, "ncl": n, "ops": ops, "kind": "pair:%s,%s,%s" % (g1, g2, pattern)})


def all_pairs():
    return [(g1, g2, pt) for g1 in ONEQ for g2 in ONEQ for pt in PATTERNS]


def boundary_pairs():
    return [(g1, g2, pt) for g1 in PS_END for g2 in PS_BEGIN for pt in ("F", "S")]


def ent_pair_circuit(rng, n, a, b, gate):
    """cz/cx on the ordered pair (a, b) of an n-qubit register, between generic single-qubit gates"""
    ops = [generic_gate(rng, "u", q) for q in range(n)]
    ops.append({"g": gate, "q": [a, b]})
    ops += [generic_gate(rng, rng.choice(["ry", "rx"]), q) for q in range(n)]
    return finalize({"n": n, "ncl": n, "ops": ops, "kind": "ent:%s(%d,%d)/%d" % (gate, a, b, n)})


def ordered_ent_pairs(full):
    out = [(2, a, b, g) for a, b in ((0, 1), (1, 0)) for g in ("cx", "cz")]
    out += [(3, a, b, "cx") for a in range(3) for b in range(3) if a != b]
    if full:
        out += [(3, a, b, "cz") for a in range(3) for b in range(3) if a != b]
    return out


def finalize(c):
    """cutoff: photons+1, one more if a gate follows a measurement (piquasso lowers the cutoff by the
    measured photons and refuses passive gates below cutoff 3: finding 9 of DESIGN section 5, C13/C01)."""
    seen_m = False
    after = False
    for o in c["ops"]:
        if o["g"] == "measure":
            seen_m = True
        elif seen_m:
            after = True
    c["extra_cutoff"] = 2 if after else 1
    return c


def in_domain(c):
    ms = [o["c"] for o in c["ops"] if o["g"] == "measure"]
    if ms != list(range(len(ms))):
        return False
    for o in c["ops"]:
        if o["g"] == "if" and (o.get("else") or len({b["q"][0] for b in o["body"]}) != 1):
            return False
    return True


def n_ent(c):
    return sum(1 for o in c["ops"] if o["g"] in ("cz", "cx"))


def features(c):
    f = set()
    for o in c["ops"]:
        f.add(o["g"])
        if o["g"] == "if":
            for b in o["body"] + (o.get("else") or []):
                f.add("if:" + b["g"])
    return f


# --------------------------------------------------------------------------- Coq terms
def s2(fr):
    fr = Fraction(fr)
    return "(s2q ((%d) # %d))" % (fr.numerator, fr.denominator)


def coq_gate(op):
    g = op["g"]
    args = []
    for t in op.get("t", []):
        c, s = cs_of(Fraction(t[0], t[1]))
        args += [s2(c), s2(s)]
    return COQ_GATE[g] if not args else "(%s %s)" % (COQ_GATE[g], " ".join(args))


def coq_circuit(c):
    items = []
    for o in c["ops"]:
        g = o["g"]
        if g == "measure":
            items.append("QM %d %d" % (o["q"][0], o["c"]))
        elif g == "cz":
            items.append("QCZ %d %d" % tuple(o["q"]))
        elif g == "cx":
            items.append("QCX %d %d" % tuple(o["q"]))
        elif g == "if":
            q = o["body"][0]["q"][0]
            items.append("QIf %d %s %d [%s]" % (o["c"], "true" if o["v"] else "false", q,
                                                "; ".join(coq_gate(b) for b in o["body"])))
        else:
            items.append("QG %s %d" % (coq_gate(o), o["q"][0]))
    return "(%d, [%s])" % (c["n"], "; ".join(items))


CASES_IMPORTS = (CASES_HEADER.replace("Open Scope Z_scope.", "") +
                 "From PV Require Import C19.DRBase C19.EncodeGen C19.DRModel C19.RunInst.\nOpen Scope nat_scope.\n")


def cases_body(circuits):
    return CASES_IMPORTS + """
Definition cases : list (nat * list (@qop S2)) := [
%s].
Eval vm_compute in map (fun '(n, p) => prob_table n p) cases.
Eval vm_compute in map (fun '(n, p) => photonic_agrees n p) cases.
Eval vm_compute in map (fun '(n, p) => encode_out n p) cases.
""" % ";\n".join(coq_circuit(c) for c in circuits)


def parse_nested(txt):
    """'[[1%Z; 2%Z]; [3%Z]]' -> nested python lists of ints"""
    txt = re.sub(r"%[A-Za-z]+", "", txt)
    txt = txt.replace(";", ",").replace("(", "").replace(")", "")
    txt = re.sub(r"\bnil\b", "[]", txt)
    return json.loads(txt)


def parse_evals(out):
    res = []
    for m in re.finditer(r"=\s*(.*?)\n\s*:\s*list", out, re.S):
        res.append(parse_nested(m.group(1)))
    return res


def s2float(v4):
    return Fraction(v4[0], v4[1]), Fraction(v4[2], v4[3])


def s2val(v4):
    a, b = s2float(v4)
    return float(a) + float(b) * math.sqrt(2.0)


# --------------------------------------------------------------------------- implementation results
def impl_distribution(c, run):
    """Joint distribution over bit strings from the branches of the simulator, post-selected on the
    code space and renormalised.  Returns (table, code weight, leaked weight) or raises ValueError."""
    n = c["n"]
    mq = [o["q"][0] for o in c["ops"] if o["g"] == "measure"]
    rest = [q for q in range(n) if q not in mq]
    table = [0.0] * (2 ** n)
    leak = 0.0
    for b in run["branches"]:
        oc = b["outcome"]
        if len(oc) != 2 * len(mq):
            raise ValueError("branch outcome %r has not 2 entries per measurement" % (oc,))
        bits = {}
        ok = True
        for j, q in enumerate(mq):
            pair = (oc[2 * j], oc[2 * j + 1])
            if pair == (1, 0):
                bits[q] = 0
            elif pair == (0, 1):
                bits[q] = 1
            else:
                ok = False
        for occ, p in b["final"]:
            w = b["freq"] * p
            if len(occ) != 2 * len(rest):
                raise ValueError("final state on %d modes, expected %d" % (len(occ), 2 * len(rest)))
            good = ok
            x = dict(bits)
            for j, q in enumerate(rest):
                pair = (occ[2 * j], occ[2 * j + 1])
                if pair == (1, 0):
                    x[q] = 0
                elif pair == (0, 1):
                    x[q] = 1
                else:
                    good = False
            if good:
                table[sum(x[q] << q for q in range(n))] += w
            else:
                leak += w
    W = sum(table)
    if W <= 0:
        raise ValueError("no weight on the code space")
    return [p / W for p in table], W, leak


KIND = {"Phaseshifter": 1, "Beamsplitter": 2, "PostSelectPhotons": 3, "ParticleNumberMeasurement": 4}


def compare_program(model, run, k1, k2):
    """model: encode_out of the Coq model; run: the implementation's program.  -> None or a message"""
    prog = run["program"]
    if not model:
        return "model encoder fails"
    if len(prog) < 2 or prog[0]["cls"] != "Vacuum" or prog[1]["cls"] != "Create":
        return "program does not start with Vacuum, Create"
    if prog[0]["modes"] != model[0] or prog[1]["modes"] != model[1]:
        return "preparation modes differ: impl %r/%r model %r/%r" % (prog[0]["modes"], prog[1]["modes"], model[0], model[1])
    body = prog[2:]
    if len(body) != len(model) - 2:
        return "program length differs: impl %d model %d" % (len(body), len(model) - 2)
    for i, (ins, m) in enumerate(zip(body, model[2:])):
        kind = KIND.get(ins["cls"])
        if kind != m[0]:
            return "instruction %d: class %s vs model kind %d" % (i, ins["cls"], m[0])
        modes = [x for x in m[1:3] if x >= 0]
        if ins["modes"] != modes:
            return "instruction %d: modes %r vs model %r" % (i, ins["modes"], modes)
        cond = ins["cond"]
        if m[3] < 0:
            if cond is not None:
                return "instruction %d: unexpected condition" % i
        else:
            if cond is None or cond.get("reads") != [m[3]] or cond.get("value") != m[4]:
                return "instruction %d: condition %r vs model (pair %d == %d)" % (i, cond, m[3], m[4])
        rest = m[5:]
        if kind in (1, 2):
            names = ["phi"] if kind == 1 else ["theta", "phi"]
            for j, nm in enumerate(names):
                cm, sm = rest[8 * j:8 * j + 4], rest[8 * j + 4:8 * j + 8]
                ang = ins["params"][nm].get("const")
                if ang is None:
                    return "instruction %d: parameter %s is not a number" % (i, nm)
                if cm[0] in (1000, 2000) and cm[1] == 1:
                    exp = float(k1 if cm[0] == 1000 else k2) * math.pi * (1 if sm[0] > 0 else -1)
                    if abs(ang - exp) > 1e-12:
                        return "instruction %d: %s = %r, expected fixed angle %r" % (i, nm, ang, exp)
                else:
                    if abs(math.cos(ang) - s2val(cm)) > 1e-12 or abs(math.sin(ang) - s2val(sm)) > 1e-12:
                        return "instruction %d: %s = %r, model cos/sin %r/%r" % (i, nm, ang, s2val(cm), s2val(sm))
        elif kind == 3:
            if ins["params"]["photon_counts"].get("list") != rest[:2]:
                return "instruction %d: photon_counts" % i
    return None


def tol_for(c):
    k = n_ent(c)
    return 1e-9 if k == 0 else 5e-4 * k


def classify(c):
    if any(o.get("else") for o in c["ops"]):
        return "C19:if_else:else-branch-dropped"
    if any(o["g"] == "if" and len({b["q"][0] for b in o["body"]}) > 1 for o in c["ops"]):
        return "C19:if_else:multi-qubit-body-uses-first-qubit-modes"
    ms = [o["c"] for o in c["ops"] if o["g"] == "measure"]
    if ms != list(range(len(ms))):
        return "C19:condition:reads-outcome-position-of-clbit-index"
    kind = c.get("kind", "")
    if kind.startswith("pair:"):
        pt = kind.rsplit(",", 1)[1]
        return "C19:adjacent-gates:" + {"N": "unconditioned", "F": "first-conditioned", "S": "second-conditioned",
                                        "B": "one-block", "D": "two-blocks"}[pt]
    if kind.startswith("ent:"):
        ent = [o for o in c["ops"] if o["g"] in ("cz", "cx")]
        if ent:
            o = ent[0]
            return "C19:entangling:%s:first-qubit-%s-second" % (o["g"], "above" if o["q"][0] > o["q"][1] else "below")
    return "C19:statistics:" + "+".join(sorted(features(c)))


def impl_fails(c, run):
    """The property stated on the implementation: its post-selected distribution equals Qiskit's."""
    if run.get("error"):
        return "implementation raises " + run["error"]
    if "qiskit" not in run:
        return None
    try:
        dist, W, leak = impl_distribution(c, run)
    except ValueError as e:
        return str(e)
    d = max(abs(a - b) for a, b in zip(dist, run["qiskit"]))
    if d > tol_for(c) + 1e-9:
        return "max |p_impl - p_qiskit| = %.3g > %.3g" % (d, tol_for(c))
    return None


def shrink(c, rounds=4, silent=False):
    """drop operations while the implementation still disagrees with Qiskit (same class)"""
    key = classify(c)
    cur = c
    for _ in range(rounds):
        cands = []
        for i in range(len(cur["ops"])):
            ops = cur["ops"][:i] + cur["ops"][i + 1:]
            d = dict(cur, ops=ops)
            # keep clbit references meaningful
            written = set()
            okc = True
            for o in ops:
                if o["g"] == "measure":
                    written.add(o["c"])
                if o["g"] == "if" and o["c"] not in written:
                    okc = False
            if ops and okc and classify(d) == key:
                cands.append(finalize(d))
        if not cands:
            break
        res = run_impl("c19_impl.py", {"circuits": cands, "reference": True}, timeout=1800)["runs"]
        nxt = None
        for d, r in zip(cands, res):
            w = None if str(r.get("error", "")).startswith("qiskit") else impl_fails(d, r)
            if w and (w.startswith("max |p_impl") or not silent):
                nxt = d
                break
        if nxt is None:
            break
        cur = nxt
    return cur


CORPUS = os.path.join(os.path.dirname(os.path.dirname(os.path.abspath(__file__))), "corpus", "c19.jsonl")


def load_corpus():
    out = []
    if os.path.exists(CORPUS):
        for line in open(CORPUS):
            line = line.strip()
            if line and not line.startswith("#"):
                out.append(finalize(json.loads(line)))
    return out


class ImplJobs:
    """The circuits are run in `jobs` interpreter processes (round robin: the expensive circuits are
    spread), started in the background so that the Coq build can proceed meanwhile."""

    def __init__(self, circuits, jobs):
        from concurrent.futures import ThreadPoolExecutor

        self.circuits = circuits
        jobs = max(1, min(jobs, len(circuits)))
        self.parts = [list(range(j, len(circuits), jobs)) for j in range(jobs)]
        self.ex = ThreadPoolExecutor(max_workers=jobs)
        self.futs = [self.ex.submit(run_impl, "c19_impl.py",
                                    {"circuits": [circuits[i] for i in part], "reference": True}, 6000)
                     for part in self.parts]

    def results(self):
        res = [None] * len(self.circuits)
        for part, f in zip(self.parts, self.futs):
            for i, r in zip(part, f.result()["runs"]):
                res[i] = r
        self.ex.shutdown()
        return res


def run_impl_parallel(circuits, jobs=3):
    return ImplJobs(circuits, jobs).results()


# =========================================================================== the check
def run(chk: Check):
    T = chk.thorough
    import time as _time
    _marks = [("start", _time.time())]

    def _tick(name):
        _marks.append((name, _time.time()))
    corr_broken = []
    # ---- inputs (independent of the translator): started first, run in the background
    n_dom = 300 if T else 36
    n_var = 30 if T else 5

    def mm():
        # total modes (2 per qubit + 2 per entangling gate): the simulator's Create builds dense operators
        r = chk.rng.random()
        if T:
            return 6 if r < 0.5 else (8 if r < 0.93 else 10)
        return 6 if r < 0.8 else 8

    corpus = load_corpus()
    circuits = list(corpus)
    circuits += [gen_circuit(chk.rng, mm()) for _ in range(n_dom)]
    for v in ("else", "multi", "clorder"):
        circuits += [gen_circuit(chk.rng, 6, v) for _ in range(n_var)]
    # systematic: every ordered qubit pair under cx (and cz), every adjacent gate pair on one qubit
    # with each conditioning pattern (quick: the phaseshifter-boundary pairs and a sample of the rest)
    ent_specs = ordered_ent_pairs(T)
    circuits += [ent_pair_circuit(chk.rng, *sp) for sp in ent_specs]
    pair_specs = all_pairs() if T else boundary_pairs() + chk.rng.sample(
        [x for x in all_pairs() if x not in set(boundary_pairs())], 30)
    circuits += [pair_circuit(chk.rng, *sp) for sp in pair_specs]
    raws = [[[1, 0, 0, 1], [0, 1, 0, 1]], [[1, 0], [0, 1]], [[1, 1]], [[1, 0, 1]], [[]], [[], [1, 0]], [[2, 0]], [[0, 0, 1, 0]],
            [[0, 1, 1, 0, 0, 1]], [[1]], []]
    for _ in range(40 if T else 12):
        raws.append([[chk.rng.choice([0, 1, 1, 0, 2]) for _ in range(chk.rng.choice([0, 1, 2, 2, 4, 4, 6, 3]))]
                     for _ in range(chk.rng.randint(1, 3))])
    jobs = ImplJobs(circuits, 5 if T else 4)

    # ---- translator (fail closed)
    first = run_impl("c19_impl.py", {"sentinel": True, "postproc": raws})
    sent = first
    trans_err = None
    try:
        text = generate_encodegen(sent)
        write_if_changed(GEN_PATH, text)
        k1, k2 = klm_angles()
    except TranslateError as e:
        trans_err = str(e)
        k1, k2 = Fraction(5474, 18000), Fraction(1763, 18000)
    if os.environ.get("C19_SKIP_PROOFS") and not trans_err:
        # developer switch for mutation experiments while the shared build lock is busy: the
        # model's existing .vo files are used, the obligations are reported as NOT discharged
        chk.proof = {"ok": False, "log": "skipped"}
        chk.proof_broken = ["proofs skipped (C19_SKIP_PROOFS set): this run cannot be green"]
        chk.coverage.update({"obligations": 0, "discharged": 0, "theorems": [], "trusted_base": []})
    else:
        chk.proofs()
    if trans_err:
        chk.proof_broken = ["translator failed closed: " + trans_err] + list(chk.proof_broken)
        chk.notes.append("EncodeGen.v could not be regenerated: %s (the theorems were NOT re-proved against this tree)" % trans_err)
    _tick("translator+proofs")
    model_ok = chk.proof.get("ok") or os.path.exists(os.path.join(COQ, "theories", "C19", "RunInst.vo"))
    res = jobs.results()

    _tick("implementation runs")
    # ---- correspondence: model (Coq, exact) vs implementation
    dom = [(c, r) for c, r in zip(circuits, res) if in_domain(c)]
    chunk = 35
    bodies = [cases_body([c for c, _ in dom[i:i + chunk]]) for i in range(0, len(dom), chunk)]
    post_body = "Definition raws : list (list (list nat)) := [%s].\nEval vm_compute in map samples_out raws.\n" % (
        "; ".join("[" + "; ".join("[" + "; ".join(str(x) for x in t) + "]" for t in raw) + "]" for raw in raws))
    if bodies:
        bodies[-1] += post_body
    post_model = None
    tables, agrees, encs = [], [], []
    if model_ok:
        try:
            outs = coq_eval_parallel("c19_cases", bodies, jobs=5)
            for j, o in enumerate(outs):
                ev = parse_evals(o)
                if j == len(outs) - 1 and len(ev) == 4:
                    post_model = ev[3]
                tables += ev[0]
                agrees += ev[1]
                encs += ev[2]
        except Exception as e:  # noqa
            corr_broken.append("model could not be evaluated: %s" % str(e)[-400:])
    else:
        corr_broken.append("model does not compile; correspondence not evaluated")
    _tick("model evaluation (coqc)")
    n_struct = n_sem = n_sem_ent = 0
    maxdev = {0: 0.0}
    seen = set()
    samples = []
    if len(tables) == len(dom):
        for (c, r), tab, ag, enc in zip(dom, tables, agrees, encs):
            desc = json.dumps(c["ops"])
            if "program" in r:
                n_struct += 1
                msg = compare_program(enc, r, k1, k2)
                if msg:
                    corr_broken.append("emitted program: %s; circuit %s" % (msg, desc[:300]))
            if ag == 0:
                corr_broken.append("model: photonic run of the encoded program differs from the qubit run; circuit %s" % desc[:300])
            if r.get("error"):
                continue  # reported by the search below
            try:
                dist, W, leak = impl_distribution(c, r)
            except ValueError as e:
                corr_broken.append("implementation result not understood (%s); circuit %s" % (e, desc[:300]))
                continue
            n = c["n"]
            model = [s2val(tab[4 * i:4 * i + 4]) for i in range(2 ** n)]
            k = n_ent(c)
            d = max(abs(a - b) for a, b in zip(dist, model))
            maxdev[k] = max(maxdev.get(k, 0.0), d)
            n_sem += 1
            n_sem_ent += 1 if k else 0
            if d > tol_for(c) * (1 + max(model)):
                corr_broken.append("probabilities: max |impl - model| = %.3g (tolerance %.3g); circuit %s" % (d, tol_for(c), desc[:300]))
            if desc not in seen and len(c["ops"]) >= 2:
                seen.add(desc)
            if len(samples) < 2 and k and any(o["g"] == "if" for o in c["ops"]):
                samples.append({"circuit": c["ops"], "model": model, "impl": dist, "code_weight": W, "leak": leak})
    chk.stream("emitted program (modes, classes, conditions, parameters) vs model encoder", n_struct,
               sum(1 for c, _ in dom if len(c["ops"]) >= 2), samples=[{"circuit": dom[len(corpus)][0]["ops"]}] if len(dom) > len(corpus) else None)
    chk.stream("PureFockSimulator(shots=None) on the encoded program, post-selected on the code space, vs exact model probabilities",
               n_sem, len(seen), samples=samples,
               note="%d with entangling gates; max deviation by number of entangling gates: %s" % (
                   n_sem_ent, {k: float("%.3g" % v) for k, v in sorted(maxdev.items())}))

    # get_bosonic_qubit_samples
    pp = first["postproc"]
    if model_ok:
        if post_model is None:
            corr_broken.append("post-processing model could not be evaluated")
        else:
            for raw, m, p in zip(raws, post_model, pp):
                exp = None if m == [[-1]] else m
                got = p.get("ok")
                if exp != got:
                    corr_broken.append("get_bosonic_qubit_samples(%r): impl %r model %r" % (raw, p, m))
    chk.stream("get_bosonic_qubit_samples vs model", len(raws), sum(1 for p in pp if "ok" in p), samples=[{"raw": raws[0], "impl": pp[0]}])

    _tick("post-processing stream")
    # ---- search: implementation vs Qiskit (independent of the model)
    failing = {}
    n_search = 0
    for c, r in zip(circuits, res):
        if str(r.get("error", "")).startswith("qiskit"):
            continue
        n_search += 1
        why = impl_fails(c, r)
        if why:
            failing.setdefault(classify(c), []).append((c, why))
    if (corr_broken or getattr(chk, "proof_broken", [])) and not failing and not T:
        # an obligation or the correspondence broke and no circuit of this tier fails: widen the
        # search to the systematic sets of the thorough tier (DESIGN.md section 3, step 4)
        done = {c.get("kind") for c in circuits}
        extra = [pair_circuit(chk.rng, *sp) for sp in all_pairs()]
        extra += [ent_pair_circuit(chk.rng, *sp) for sp in ordered_ent_pairs(True)]
        extra = [c for c in extra if c["kind"] not in done]
        extra += [gen_circuit(chk.rng, 8) for _ in range(60)]
        eres = run_impl_parallel(extra, jobs=5)
        for c, r in zip(extra, eres):
            if str(r.get("error", "")).startswith("qiskit"):
                continue
            n_search += 1
            why = impl_fails(c, r)
            if why:
                failing.setdefault(classify(c), []).append((c, why))
        circuits = circuits + extra
        res = res + eres
        chk.notes.append("search widened to %d further circuits because an obligation or the correspondence broke" % len(extra))
    open_known = {k.get("key") for k in chk.known if k.get("status") == "open"}
    for key, lst in sorted(failing.items()):
        # prefer silently wrong statistics to a raised error, then the shortest circuit
        c, why = min(lst, key=lambda cw: (not cw[1].startswith("max |p_impl"), len(json.dumps(cw[0]["ops"]))))
        small = c if key in open_known else shrink(c, silent=why.startswith("max |p_impl"))
        if small is c:
            rr = res[[id(x) for x in circuits].index(id(c))]
        else:
            rr = run_impl("c19_impl.py", {"circuits": [small], "reference": True})["runs"][0]
        why2 = impl_fails(small, rr) or why
        obs = None
        try:
            obs = impl_distribution(small, rr)[0]
        except Exception:  # noqa
            pass
        chk.violation(key, "dual-rail encoded circuit does not reproduce Qiskit's outcome probabilities: " + why2,
                      {"circuit": small, "qiskit_probabilities": rr.get("qiskit"), "piquasso_probabilities": obs,
                       "error": rr.get("error"), "failing_inputs_of_this_class": len(lst),
                       "call": "dual_rail_encode_from_qiskit(qc) on PureFockSimulator(shots=None); bit string index: qubit 0 least significant"})
    chk.stream("encoded circuit on PureFockSimulator vs Qiskit statevector (search, incl. else-parts, multi-qubit blocks, permuted clbits)",
               n_search, len({json.dumps(c["ops"]) for c in circuits if len(c["ops"]) >= 2}), kind="search",
               samples=[{"circuit": circuits[-1]["ops"], "qiskit": res[-1].get("qiskit")}])
    # gate names that must be refused
    for nm, ok in sent["refused"]:
        if ok is not True:
            chk.violation("C19:unsupported-gate-not-refused:%s" % nm, "gate name %r is not refused" % nm, {"name": nm, "result": ok})

    _tick("search + shrinking")
    chk.notes.append("stage seconds: " + ", ".join("%s %.0f" % (b[0], b[1] - a[1]) for a, b in zip(_marks, _marks[1:])))
    chk.assumptions += [
        "first-quantised semantics: a passive gate acts on the photon of a rail pair by its gates.py block (psi -> U psi); tied by the simulation stream, proved nowhere (C01)",
        "Qiskit's circuit data model (instruction.name, params, operation.condition, Clbit._index) is used as is; the harness feeds real Qiskit 2.x objects",
        "cutoff = photons + 1 (+1 when a gate follows a measurement: piquasso lowers the cutoff by the measured photons and refuses passive gates below cutoff 3, finding 9 of DESIGN section 5)",
        "domain of the model and of theorem C19_encode_homomorphism: the k-th measurement writes clbit k, a measured qubit is not used again, a conditioned block acts on one qubit and has no else part; outside this domain only the search against Qiskit looks",
    ]
    chk.finish(
        rule="a circuit is non-trivial when it has >= 2 operations; distinct = distinct operation lists",
        explanation="Theorems of coq/theories/Props/C19.v about DRModel.v instantiated with EncodeGen.v (regenerated from the tree on this run); tie = emitted programs compared structurally with the model encoder and simulated probabilities compared with the model's exact values in Q(sqrt 2) (tolerance 1e-9, or 5e-4 per entangling gate for the rounded KLM angles); search = the same runs against Qiskit's statevector semantics.",
        correspondence_broken=corr_broken,
    )
