(* C09 -- bridge between the relational specifications of C09/RelSpecs.v (abstract matrix algebra)
   and C15's glue theorem for piquasso/_math/decompositions.py:euler (d x d list-matrices over a
   ring with involution, C15/EulerGlue.v:euler_glue, used as is -- its proof is not repeated).

   The abstract algebra of RelSpecs is instantiated with C15's matrices:
       Mx := mat A,  *m := mmul d,  +m := entrywise sum,  conj/adj/tr := mconj/madj/mtr d,
       I := mid d,  O := zero matrix,
       ch D := fc (D D),  sh D := -(fs (D D) D)      (cosh D and -sinh D: the blocks of Squeezing(D, 0))
   where fc, fs are the even and odd parts of the matrix exponential as in C15.  The laws that
   RelSpecs assumes are proved for this instance, and the contracts of polar / logm / takagi on
   the outputs are written per d x d block, as C15 has them. *)
From Coq Require Import List Arith Bool Lia Ring.
From PV Require Import C15.ClementsModel C15.MatProofs C15.EulerModel C15.EulerGlue C09.RelSpecs.
Import ListNotations.

Section Bridge.
Context {A : Type} {Ops : ROps A} {L : RLaws Ops}.
Local Open Scope rng_scope.
Add Ring AringB : (rth (RLaws := L)).
Variable d : nat.
Variable fc fs : mat A -> mat A.

Definition mzero : mat A := mk d (fun _ _ => r0).
Definition msum (X Y : mat A) : mat A := mk d (fun i j => get X i j + get Y i j).
Definition chf (D : mat A) : mat A := fc (mmul d D D).
Definition shf (D : mat A) : mat A := mopp d (mmul d (fs (mmul d D D)) D).

(* ---- the laws RelSpecs asks of its matrix algebra hold of this instance *)
Lemma b_assoc : forall a b c : mat A, mmul d a (mmul d b c) = mmul d (mmul d a b) c.
Proof. intros. symmetry. apply mmul_assoc. Qed.
Lemma b_O_r : forall a, mmul d a mzero = mzero.
Proof.
  intros. unfold mmul, mzero. apply mk_ext. intros i j Hi Hj. apply sumn_zero. intros k Hk.
  rewrite get_mk by assumption. ring.
Qed.
Lemma b_O_l : forall a, mmul d mzero a = mzero.
Proof.
  intros. unfold mmul, mzero. apply mk_ext. intros i j Hi Hj. apply sumn_zero. intros k Hk.
  rewrite get_mk by assumption. ring.
Qed.
Lemma b_add_O_r : forall a b, msum (mmul d a b) mzero = mmul d a b.
Proof.
  intros. transitivity (mk d (get (mmul d a b))); [| symmetry; apply wf_mmul].
  unfold msum. apply mk_ext. intros i j Hi Hj.
  unfold mzero. rewrite get_mk by assumption. ring.
Qed.
Lemma b_add_O_l : forall a b, msum mzero (mmul d a b) = mmul d a b.
Proof.
  intros. transitivity (mk d (get (mmul d a b))); [| symmetry; apply wf_mmul].
  unfold msum. apply mk_ext. intros i j Hi Hj.
  unfold mzero. rewrite get_mk by assumption. ring.
Qed.
Lemma b_conj_O : mconj d mzero = mzero.
Proof.
  unfold mconj, mzero. apply mk_ext. intros i j Hi Hj. rewrite get_mk by assumption. apply conj_0.
Qed.

(* ---- the contracts on the outputs, per block (S = [[P, Aa], [conj Aa, conj P]]):
   polar(S, "left") = (U_orig, R) with U_orig = diag(u, conj u), R = [[Rp, Ra], [conj Ra, conj Rp]]:
   S = R U_orig and U_orig unitary *)
Definition polar_left_blocks (G : mat A * mat A) (Rp Ra u : mat A) : Prop :=
  fst G = mmul d Rp u /\ snd G = mmul d Ra (mconj d u) /\
  is_unitary (mat A) (mmul d) (madj d) (mid d) u.
(* logm(R) = [[0, -Z], [-conj Z, 0]], i.e. R = exp of it, written with the even / odd parts *)
Definition logm_blocks (Rp Ra Z : mat A) : Prop :=
  Rp = fc (mmul d Z (mconj d Z)) /\ Ra = mopp d (mmul d (fs (mmul d Z (mconj d Z))) Z).
(* takagi(Z) = (D, U): RelSpecs.is_takagi with "diagonal, non-negative" weakened to "real" *)
Definition takagi_out (Z D U : mat A) : Prop :=
  is_takagi (mat A) (mmul d) (madj d) (mtr d) (mid d) (fun D => mconj d D = D) Z (D, U).
(* analytic functions of a matrix commute with the unitary similarity by U *)
Definition similarity_invariant (U : mat A) : Prop :=
  (forall X, fc (mmul d (mmul d U X) (madj d U)) = mmul d (mmul d U (fc X)) (madj d U)) /\
  (forall X, fs (mmul d (mmul d U X) (madj d U)) = mmul d (mmul d U (fs X)) (madj d U)).

(* decompositions.py:euler returns (U, D, conj(U).T @ U_orig[:d, :d]) *)
Definition euler_model (U D u : mat A) : mat A * mat A * mat A := (U, D, euler_first d U u).

(* is_polar /\ is_logm /\ is_takagi on the outputs  ==>  is_euler of what euler() returns *)
Theorem euler_model_is_euler : forall (G : mat A * mat A) Rp Ra Z U D u,
  wf d U -> wf d D -> wf d u -> wf d (chf D) -> wf d (fs (mmul d D D)) ->
  polar_left_blocks G Rp Ra u -> logm_blocks Rp Ra Z -> takagi_out Z D U -> similarity_invariant U ->
  is_euler (mat A) (mmul d) (madj d) (mconj d) (mid d) chf shf G (euler_model U D u).
Proof.
  intros G Rp Ra Z U D u HwU HwD Hwu HwCh HwFs (HP & HA & Hu1 & Hu2) (HRp & HRa)
         (HZ & (HU1 & HU2) & HD) (Hfc & Hfs).
  destruct G as [P Aa]. simpl in HP, HA.
  destruct (euler_glue fc fs d P Aa Rp Ra Z U D u (chf D) (mmul d (fs (mmul d D D)) D))
    as (E1 & E2 & E3); auto using wf_mmul.
  unfold euler_model, is_euler, euler_reconstructs, is_unitary. simpl. repeat split.
  - exact E1.
  - rewrite E2. unfold euler_active_block, shf. rewrite mmul_opp_r, mmul_opp_l. reflexivity.
  - exact HU1.
  - exact HU2.
  - (* V V^dagger = U^dagger u u^dagger U = 1 *)
    unfold euler_first. rewrite madj_mmul, madj_madj by assumption.
    transitivity (mmul d (madj d U) (mmul d (mmul d u (madj d u)) U)).
    { now rewrite ?mmul_assoc. }
    rewrite Hu1, mmul_id_l by assumption. exact HU2.
  - exact E3.
Qed.

(* two connectors: whatever their polar / logm / takagi return, if the outputs satisfy the
   contracts then the untruncated linear gate acts identically (as the blocks G themselves) *)
Theorem linear_gate_independent_of_shims : forall (G : mat A * mat A)
    Rp1 Ra1 Z1 U1 D1 u1 Rp2 Ra2 Z2 U2 D2 u2,
  wf d U1 -> wf d D1 -> wf d u1 -> wf d (chf D1) -> wf d (fs (mmul d D1 D1)) ->
  wf d U2 -> wf d D2 -> wf d u2 -> wf d (chf D2) -> wf d (fs (mmul d D2 D2)) ->
  polar_left_blocks G Rp1 Ra1 u1 -> logm_blocks Rp1 Ra1 Z1 -> takagi_out Z1 D1 U1 -> similarity_invariant U1 ->
  polar_left_blocks G Rp2 Ra2 u2 -> logm_blocks Rp2 Ra2 Z2 -> takagi_out Z2 D2 U2 -> similarity_invariant U2 ->
  linear_action (mat A) (mmul d) msum (mconj d) mzero chf shf (fun _ => euler_model U1 D1 u1) G
  = linear_action (mat A) (mmul d) msum (mconj d) mzero chf shf (fun _ => euler_model U2 D2 u2) G.
Proof.
  intros.
  apply (linear_action_connector_independent (mat A) (mmul d) msum (madj d) (mconj d) (mtr d) (mid d) mzero
           (fun X => X) (fun _ => True) (fun _ => True) chf shf
           b_assoc b_O_r b_O_l b_add_O_r b_add_O_l b_conj_O
           (fun _ => euler_model U1 D1 u1) (fun _ => euler_model U2 D2 u2) G).
  - eapply euler_model_is_euler; eauto.
  - eapply euler_model_is_euler; eauto.
Qed.
End Bridge.
