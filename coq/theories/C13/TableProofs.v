(* C13 — finite checks on the generated per-simulator tables and non-vacuity examples.
   These are evaluated against SimTablesGen.v, which is regenerated on every run. *)
From Coq Require Import ZArith List Bool.
From PV Require Import C13.SimTypes C13.ValidateModel C13.SimTablesGen.
Import ListNotations.
Open Scope Z_scope.

Definition find_cls (classes : list cls) (id : Z) : option cls :=
  find (fun c => c_id c =? id) classes.

Definition is_meas_id (classes : list cls) (id : Z) : bool :=
  match find_cls classes id with Some c => kind_eqb (c_kind c) KMeas | None => false end.

Definition known_id (classes : list cls) (id : Z) : bool :=
  match find_cls classes id with Some _ => true | None => false end.

(* class ids are distinct, every class lists itself first among its ancestors and all
   ancestors are known; every table entry is a known class; the measurement tables contain
   measurement classes only; NUMBER_OF_MODES is not negative *)
Definition tables_sane (classes : list cls) (sims : list simtab) : bool :=
  distinctb (map c_id classes) &&
  forallb (fun c => match c_anc c with a :: _ => a =? c_id c | [] => false end &&
                    forallb (known_id classes) (c_anc c) &&
                    match c_nmodes c with Some n => 0 <=? n | None => true end) classes &&
  distinctb (map s_id sims) &&
  forallb (fun s => forallb (known_id classes) (s_imap s) && distinctb (s_imap s) &&
                    forallb (is_meas_id classes) (s_mid s) &&
                    forallb (is_meas_id classes) (s_none s)) sims.

Lemma tables_sane_ok : tables_sane all_classes all_sims = true.
Proof. vm_compute. reflexivity. Qed.

Definition ex_prog (reuse : bool) : list instr :=
  [ mkinstr cls_Vacuum [] true true;
    mkinstr cls_Squeezing [0] true true;
    mkinstr cls_HomodyneMeasurement [0] true true;
    mkinstr cls_Phaseshifter [if reuse then 0 else 1] true true;
    mkinstr cls_ParticleNumberMeasurement [] true true ].

Definition example_accept : bool :=
  match run sim_GaussianSimulator (oracle_of []) (mkreq (Some 2) true (SInt 3) None (ex_prog false)) with
  | Done 1 5 5 => true
  | _ => false
  end.
Lemma example_accept_ok : example_accept = true.
Proof. vm_compute. reflexivity. Qed.

Definition example_reject : bool :=
  match run sim_GaussianSimulator (oracle_of []) (mkreq (Some 2) true (SInt 3) None (ex_prog true)) with
  | Refused RActive 0 => true
  | _ => false
  end.
Lemma example_reject_ok : example_reject = true.
Proof. vm_compute. reflexivity. Qed.
