"""C10 — Automatic derivatives equal the true derivatives.

Proof part: Props/C10.v (gradient rules = dual-number derivative of the forward models).
Tie: the Gallina models run by vm_compute on rational / Gaussian-rational data against
  * grad_perm / permanent_cpp of <repo>/src/permanent.cpp compiled fresh (native/c10/driver.cpp),
  * the Python rule functions called directly (TensorFlow process, eager and tf.function),
Tests (labelled, no theorem): JAX permanent VJP against the exact model gradient; tf.GradientTape /
jax.jacrev / jax.jit of simulator outputs against Richardson-extrapolated central differences of the
NumPy simulation.
"""
import json
import math
import os
import subprocess
from concurrent.futures import ThreadPoolExecutor
from fractions import Fraction as Fr
from math import comb

from common import (CASES_HEADER, REPO, RUN, VERIF, Check, clist, coq_eval_parallel, cq,
                    parse_coq_list, run_impl)

IMPORTS = CASES_HEADER + ("From PV Require Import Base.CasesLib C10.Alg C10.PermModel C10.GateModel "
                          "C10.RepModel.\nOpen Scope nat_scope.\n")
TOL = "(1 # 1000000000)"  # 1e-9 (1 + |model|)


# ----------------------------------------------------------------------------- helpers
def rq(rng, big=4):
    return Fr(rng.randint(-4 * big, 4 * big), rng.choice([1, 2, 4]))


def rcq(rng, big=4):
    return (rq(rng, big), rq(rng, big))


def fl(z):
    return [float(z[0]), float(z[1])]


def cqi(z):
    return "(%s, %s)" % (cq(Fr(z[0])), cq(Fr(z[1])))


def cnat(n):
    return "%d" % int(n)


def cmat(m, f=cqi):
    return clist(m, lambda r: clist(r, f))


def fqi(z):
    """implementation float pair -> exact Coq Q pair"""
    return "(%s, %s)" % (cq(Fr(float(z[0]))), cq(Fr(float(z[1]))))


def finite(x):
    if isinstance(x, (list, tuple)):
        return all(finite(y) for y in x)
    return isinstance(x, (int, float)) and math.isfinite(x)


def mismatch_groups(tag, bodies, jobs=4):
    outs = coq_eval_parallel("%s_%d" % (tag, os.getpid()), bodies, jobs=jobs)
    return [parse_coq_list(o) for o in outs]


# ----------------------------------------------------------------------------- permanent
def gen_perm_cases(rng, n_random, thorough):
    """Matrix / multiplicity patterns: every small multiplicity pattern on 1..3 rows (zeros
    included), rectangular shapes, plus random ones; entries Gaussian rationals."""
    cases = []

    def mk(n, m, r, c, cls):
        A = [[rcq(rng, 2) for _ in range(m)] for _ in range(n)]
        cases.append({"n": n, "m": m, "r": list(r), "c": list(c), "A": A, "cls": cls})

    # corpus first: minimised past failures (harness/corpus/c10.jsonl)
    corpus = os.path.join(VERIF, "harness", "corpus", "c10.jsonl")
    if os.path.exists(corpus):
        for line in open(corpus):
            if line.strip():
                e = json.loads(line)
                if e.get("stream") == "perm":
                    cases.append({"n": e["n"], "m": e["m"], "r": e["r"], "c": e["c"], "cls": e["cls"],
                                  "A": [[(Fr(z[0]), Fr(z[1])) for z in row] for row in e["A"]]})
    import itertools
    maxmult = 3
    for n in (1, 2, 3):
        pats = [p for p in itertools.product(range(maxmult + 1), repeat=n)]
        for r in pats:
            for cpat in pats:
                if sum(r) == sum(cpat) and 0 < sum(r) <= (6 if thorough else 5):
                    if n == 3 and not thorough and rng.random() < 0.75:
                        continue
                    mk(n, n, r, cpat, "square-zero" if (0 in r or 0 in cpat) else "square")
    # rectangular: n != m
    for (n, m) in ((1, 2), (2, 3), (1, 3), (2, 4), (2, 1), (3, 2), (3, 1)):
        for _ in range(3 if not thorough else 8):
            tot = rng.randint(1, 4)
            r = [0] * n
            cc = [0] * m
            for _ in range(tot):
                r[rng.randrange(n)] += 1
                cc[rng.randrange(m)] += 1
            mk(n, m, r, cc, "rectangular-wide" if m > n else "rectangular-tall")
    for _ in range(n_random):
        n = rng.randint(2, 4)
        tot = rng.randint(2, 6)
        r = [0] * n
        cc = [0] * n
        for _ in range(tot):
            r[rng.randrange(n)] += 1
            cc[rng.randrange(n)] += 1
        mk(n, n, r, cc, "random-square")
    return cases


def build_native(chk):
    d = os.path.join(RUN, "c10")
    os.makedirs(d, exist_ok=True)
    exe = os.path.join(d, "drv_%d" % os.getpid())
    cmd = ["g++", "-std=c++17", "-O0", "-fopenmp", "-I", os.path.join(REPO, "src"),
           os.path.join(VERIF, "native", "c10", "driver.cpp"), os.path.join(REPO, "src", "permanent.cpp"),
           "-o", exe]
    p = subprocess.run(cmd, capture_output=True, text=True, timeout=600)
    if p.returncode != 0:
        return None, p.stderr[-2000:]
    return exe, ""


def run_native(exe, cases):
    lines = [str(len(cases))]
    for cs in cases:
        toks = [str(cs["n"]), str(cs["m"])] + [str(x) for x in cs["r"]] + [str(x) for x in cs["c"]]
        for row in cs["A"]:
            for z in row:
                toks += [repr(float(z[0])), repr(float(z[1]))]
        lines.append(" ".join(toks))
    env = dict(os.environ)
    env["OMP_NUM_THREADS"] = "2"
    p = subprocess.run([exe], input="\n".join(lines) + "\n", capture_output=True, text=True,
                       timeout=900, env=env)
    outs = p.stdout.strip().splitlines()
    res = []
    for i, cs in enumerate(cases):
        if i >= len(outs):
            res.append({"error": "driver died (exit %s): %s" % (p.returncode, p.stderr[-200:])})
            continue
        t = outs[i].split()
        if t[0] != "OK":
            res.append({"error": " ".join(t[1:])})
            continue
        gr, gc = int(t[1]), int(t[2])
        vals = [float.fromhex(x) for x in t[3:]]
        g = [[(vals[2 * (i2 * gc + j)], vals[2 * (i2 * gc + j) + 1]) for j in range(gc)] for i2 in range(gr)]
        res.append({"shape": [gr, gc], "grad": g, "perm": (vals[-2], vals[-1])})
    return res


def perm_case_term(cs, grad, permv):
    """Coq tuple (A, r, c, impl grad, impl perm)"""
    return "(%s, %s, %s, %s, %s)" % (cmat(cs["A"]), clist(cs["r"], cnat), clist(cs["c"], cnat),
                                       cmat(grad, fqi), fqi(permv))


PERM_OK = """
Definition ok (x : list (list (Q*Q)) * list nat * list nat * list (list (Q*Q)) * (Q*Q)) : bool :=
  let '(A, r, c, g, p) := x in
  let M := mat_fun QiOps A in
  all2 (all2 (qi_close %s)) (grad_perm QiOps M r c) g && qi_close %s (perm_mult QiOps M r c) p.
""" % (TOL, TOL)


def py_perm_mult(A, r, c):
    """independent exact reference: permanent of the expanded matrix by permutations"""
    import itertools
    rows = [i for i, k in enumerate(r) for _ in range(k)]
    cols = [j for j, k in enumerate(c) for _ in range(k)]
    if len(rows) != len(cols):
        return None
    tot = 0
    for p in itertools.permutations(range(len(cols))):
        prod = 1
        for a, b in enumerate(p):
            z = A[rows[a]][cols[b]]
            prod *= complex(float(z[0]), float(z[1]))
        tot += prod
    return tot


def py_grad_fd(A, r, c):
    """exact gradient by the *definition*: d/dA_ij of the expanded permanent (product rule over
    the expanded copies), independent of the Coq model"""
    n, m = len(r), len(c)
    G = [[0j] * m for _ in range(n)]
    for i in range(n):
        for j in range(m):
            if r[i] == 0 or c[j] == 0:
                continue
            r2 = list(r)
            c2 = list(c)
            r2[i] -= 1
            c2[j] -= 1
            G[i][j] = r[i] * c[j] * py_perm_mult(A, r2, c2)
    return G


# ----------------------------------------------------------------------------- gate rules
def gen_gate_cases(rng, n, thorough):
    cases = []
    for t in range(n):
        kind = "active" if t % 2 == 0 else "passive"
        real = rng.random() < 0.6
        bs = rng.choice([0, 0, 2, 3])
        cs = {"kind": kind, "index": "real" if real else "random", "bs": bs, "graph": (t % 3 == 0)}
        if real:
            d = rng.randint(1, 3)
            cutoff = rng.randint(2, 4 if d < 3 else 3)
            N = comb(d + cutoff - 1, d)
            cs.update(d=d, cutoff=cutoff)
            if kind == "active":
                cs["mode"] = rng.randrange(d)
                cs["matrix"] = [[rcq(rng) for _ in range(cutoff)] for _ in range(cutoff)]
            else:
                k = rng.randint(1, d)
                modes = rng.sample(range(d), k)
                cs["modes"] = modes
                sizes = [comb(k + q - 1, q) for q in range(cutoff)]
                cs["matrices"] = [[[rcq(rng) for _ in range(s)] for _ in range(s)] for s in sizes]
        else:
            # arbitrary block structure: a permutation of range(N) cut into (limit x size) blocks
            nblocks = rng.randint(1, 4)
            shapes = [(rng.randint(1, 4), rng.randint(1, 3)) for _ in range(nblocks)]
            N = sum(a * b for a, b in shapes)
            perm = list(range(N))
            rng.shuffle(perm)
            blocks, pos = [], 0
            for a, b in shapes:
                blocks.append([[perm[pos + i * b + j] for j in range(b)] for i in range(a)])
                pos += a * b
            cs["blocks"] = blocks
            if kind == "active":
                cutoff = max(a for a, _ in shapes) + rng.randint(0, 1)
                cs["cutoff"] = cutoff
                cs["matrix"] = [[rcq(rng) for _ in range(cutoff)] for _ in range(cutoff)]
            else:
                cs["matrices"] = [[[rcq(rng) for _ in range(a)] for _ in range(a)] for a, _ in shapes]
        shape_b = bs if bs else None

        def vecq():
            if shape_b:
                return [[rcq(rng) for _ in range(shape_b)] for _ in range(N)]
            return [rcq(rng) for _ in range(N)]

        cs["N"] = N
        cs["state"] = vecq()
        cs["upstream"] = vecq()
        cases.append(cs)
    return cases


def gate_request(cs):
    r = {k: cs[k] for k in ("kind", "index", "graph") if k in cs}
    for k in ("d", "cutoff", "mode", "modes", "blocks"):
        if k in cs:
            r[k] = cs[k]
    bs = cs["bs"]

    def v(x):
        return [[fl(z) for z in row] for row in x] if bs else [fl(z) for z in x]

    r["state"] = v(cs["state"])
    r["upstream"] = v(cs["upstream"])
    if cs["kind"] == "active":
        r["matrix"] = [[fl(z) for z in row] for row in cs["matrix"]]
    else:
        r["matrices"] = [[[fl(z) for z in row] for row in m] for m in cs["matrices"]]
    return r


def vec2(x, bs):
    """(N,) or (N,bs) nested -> N x max(bs,1) nested"""
    return x if bs else [[z] for z in x]


GATE_OK = """
Definition okA (x : list (list (list nat)) * nat * nat * list (list (Q*Q)) * list (list (Q*Q)) * list (list (Q*Q))
                  * (list (list (Q*Q)) * list (list (Q*Q)) * list (list (Q*Q)))) : bool :=
  let '(blocks, N, bs, M, v, g, (fwd, gs, gm)) := x in
  let Is := map imat_of_lists blocks in
  let Mf := mat_fun QiOps M in let vf := vec_of_lists QiOps v in let gf := vec_of_lists QiOps g in
  let bl := active_blocks Mf Is in
  all2 (all2 (qi_close TOL)) (vec_to_lists N bs (apply_blocks QiOps bl vf (fun _ _ => (0,0)%%Q))) fwd &&
  all2 (all2 (qi_close TOL)) (vec_to_lists N bs (grad_state QiOps bl gf)) gs &&
  all2 (all2 (qi_close TOL)) (mat_to_lists (List.length M) (List.length M) (active_grad_matrix QiOps Is bs vf gf)) gm.
Definition okP (x : list (list (list nat)) * nat * nat * list (list (list (Q*Q))) * list (list (Q*Q)) * list (list (Q*Q))
                  * (list (list (Q*Q)) * list (list (Q*Q)) * list (list (list (Q*Q))))) : bool :=
  let '(blocks, N, bs, Ms, v, g, (fwd, gs, gms)) := x in
  let Is := map imat_of_lists blocks in
  let vf := vec_of_lists QiOps v in let gf := vec_of_lists QiOps g in
  let bl := combine (map (mat_fun QiOps) Ms) Is in
  all2 (all2 (qi_close TOL)) (vec_to_lists N bs (apply_blocks QiOps bl vf (fun _ _ => (0,0)%%Q))) fwd &&
  all2 (all2 (qi_close TOL)) (vec_to_lists N bs (grad_state QiOps bl gf)) gs &&
  all2 (fun mI g1 => all2 (all2 (qi_close TOL)) (mat_to_lists (ilim (snd mI)) (ilim (snd mI)) (fst mI)) g1)
       (combine (passive_grad_matrices QiOps Is bs vf gf) Is) gms.
"""


def gate_term(cs, r, suffix=""):
    bs = cs["bs"]
    B = bs if bs else 1
    fwd = vec2(r["fwd"], bs)
    gs = vec2(r["gs" + suffix], bs)
    gm = r["gm" + suffix]
    head = "(%s, %d, %d, " % (clist(r["blocks"], lambda b: clist(b, lambda row: clist(row, cnat))), cs["N"], B)
    if cs["kind"] == "active":
        return head + "%s, %s, %s, (%s, %s, %s))" % (
            cmat(cs["matrix"]), cmat(vec2(cs["state"], bs)), cmat(vec2(cs["upstream"], bs)),
            cmat(fwd, fqi), cmat(gs, fqi), cmat(gm, fqi))
    return head + "%s, %s, %s, (%s, %s, %s))" % (
        clist(cs["matrices"], cmat), cmat(vec2(cs["state"], bs)), cmat(vec2(cs["upstream"], bs)),
        cmat(fwd, fqi), cmat(gs, fqi), clist(gm, lambda m: cmat(m, fqi)))


def py_adjoint_defect(cs, r):
    """search, directly on the implementation's outputs: <g, J v> = <J^H g, v> cannot be tested
    from one evaluation, but linearity gives an independent check: re-derive both gradients from
    the implementation's own *forward* function by exact linear algebra on the index blocks."""
    import numpy as np

    bs = cs["bs"]

    def arr(x):
        a = np.array([[complex(float(z[0]), float(z[1])) for z in row] for row in vec2(x, bs)])
        return a

    v, g = arr(cs["state"]), arr(cs["upstream"])
    N, B = v.shape
    blocks = [np.array(b, dtype=int).reshape(len(b), -1) for b in r["blocks"]]
    gs = np.zeros((N, B), complex)
    bad = []
    if cs["kind"] == "active":
        M = np.array([[complex(float(z[0]), float(z[1])) for z in row] for row in cs["matrix"]])
        gm = np.zeros_like(M)
    gms = []
    for q, I in enumerate(blocks):
        lim = I.shape[0]
        Mq = M[:lim, :lim] if cs["kind"] == "active" else np.array(
            [[complex(float(z[0]), float(z[1])) for z in row] for row in cs["matrices"][q]])
        # J restricted to the block: out[I[a,k]] = sum_b Mq[a,b] v[I[b,k]]
        for k in range(I.shape[1]):
            gs[I[:, k]] += Mq.conj().T @ g[I[:, k]]
        part = np.einsum("akl,bkl->ab", g[I], v[I].conj())
        if cs["kind"] == "active":
            gm[:lim, :lim] += part
        else:
            gms.append(part)

    def cl(a):
        return np.array([[complex(z[0], z[1]) for z in row] for row in a])

    got_gs = cl(vec2(r["gs"], bs))
    if np.abs(got_gs - gs).max() > 1e-9 * (1 + np.abs(gs).max()):
        bad.append("gradient w.r.t. the state")
    if cs["kind"] == "active":
        if np.abs(cl(r["gm"]) - gm).max() > 1e-9 * (1 + np.abs(gm).max()):
            bad.append("gradient w.r.t. the matrix")
    else:
        for q, part in enumerate(gms):
            if np.abs(cl(r["gm"][q]) - part).max() > 1e-9 * (1 + np.abs(part).max()):
                bad.append("gradient w.r.t. matrix %d" % q)
                break
    return bad


# ----------------------------------------------------------------------------- representation rules
def gen_rep_cases(rng, n):
    cases = []
    for _ in range(n):
        d = rng.randint(1, 3)
        L = rng.randint(1, 3)
        dims = [d] + [rng.randint(1, 4) for _ in range(L)]
        tabs = []
        for p in range(1, L + 1):
            dn, dp = dims[p], dims[p - 1]
            tabs.append({
                "si": [[rng.randrange(dp) for _ in range(d)] for _ in range(dn)],
                "fnz": [rng.randrange(d) for _ in range(dn)],
                "fs": [rng.randrange(dp) for _ in range(dn)],
                "w": [[Fr(rng.randint(0, 6), rng.choice([1, 2])) for _ in range(d)] for _ in range(dn)],
                "sf": [rng.choice([Fr(1), Fr(2), Fr(1, 2), Fr(4), Fr(-1), Fr(-2)]) for _ in range(dn)],
            })
        U = [[rcq(rng, 1) for _ in range(d)] for _ in range(d)]
        ups = [[[rcq(rng, 1)]]] + [[[rcq(rng, 1) for _ in range(dm)] for _ in range(dm)] for dm in dims]
        cases.append({"d": d, "dims": dims, "tabs": tabs, "U": U, "row": rng.randrange(d),
                      "col": rng.randrange(d), "upstream": ups})
    return cases


def rep_request(cs):
    return {"U": [[fl(z) for z in row] for row in cs["U"]], "row": cs["row"], "col": cs["col"],
            "tabs": [{"si": t["si"], "fnz": t["fnz"], "fs": t["fs"],
                      "w": [[float(x) for x in row] for row in t["w"]],
                      "sf": [float(x) for x in t["sf"]]} for t in cs["tabs"]],
            "upstream": [[[fl(z) for z in row] for row in u] for u in cs["upstream"]]}


REP_OK = """
Definition mk (t : list (list nat) * list nat * list nat * list (list (Q*Q)) * list (Q*Q)) : rtab (Q*Q) :=
  let '(si, fnz, fs, w, isf) := t in rtab_of_lists QiOps si fnz fs w isf.
Definition ok (x : list (list (Q*Q)) * nat * nat * list (list (list nat) * list nat * list nat * list (list (Q*Q)) * list (Q*Q))
                 * list (list (list (Q*Q))) * (list (list (list (Q*Q))) * list (list (list (Q*Q))) * list (list (Q*Q)))) : bool :=
  let '(Ul, row, col, ts, ups, (reps, grads, full)) := x in
  let U := mat_fun QiOps Ul in let tabs := map mk ts in
  let d := List.length Ul in
  all2 (fun tR r1 => all2 (all2 (qi_close TOL)) (mat_to_lists (rdim (fst tR)) (rdim (fst tR)) (snd tR)) r1)
       (combine tabs (rep_chain QiOps U U tabs)) reps &&
  all2 (fun tR r1 => all2 (all2 (qi_close TOL)) (mat_to_lists (rdim (fst tR)) (rdim (fst tR)) (snd tR)) r1)
       (combine tabs (grad_chain QiOps U row col U (unit_mat QiOps row col) tabs)) grads &&
  all2 (all2 (qi_close TOL))
       (mat_to_lists d d (interferometer_gradient QiOps U tabs (mat_fun QiOps (nth 1 ups [])) (map (mat_fun QiOps) (skipn 2 ups))))
       full.
"""


def rep_term(cs, r):
    def tab(t):
        return "(%s, %s, %s, %s, %s)" % (
            clist(t["si"], lambda row: clist(row, cnat)), clist(t["fnz"], cnat), clist(t["fs"], cnat),
            cmat([[(x, Fr(0)) for x in row] for row in t["w"]]),
            clist([(1 / x, Fr(0)) for x in t["sf"]], cqi))
    return "(%s, %d, %d, %s, %s, (%s, %s, %s))" % (
        cmat(cs["U"]), cs["row"], cs["col"], clist(cs["tabs"], tab), clist(cs["upstream"], cmat),
        clist(r["reps"], lambda m: cmat(m, fqi)), clist(r["grads"], lambda m: cmat(m, fqi)),
        cmat(r["full"], fqi))


# ----------------------------------------------------------------------------- parameter grids
def special_amplitudes(rng, hi=0.5):
    """exact zero, +-tiny, a negative and a positive generic value"""
    return [0.0, 1e-7, -1e-7, -rng.uniform(0.1, hi), rng.uniform(0.1, hi)]


def special_angles(rng):
    """zero, generic, negative, beyond pi"""
    return [0.0, rng.uniform(0.2, 1.4), -rng.uniform(0.2, 3.0), rng.uniform(3.3, 6.0)]


def gen_disp_cases(rng, thorough):
    """(r, phi) over the special points of the box and both signs, for both matrix rules"""
    cases = []
    for rep in range(3 if thorough else 1):
        for kind in ("displacement", "squeezing"):
            for r in special_amplitudes(rng, 0.8):
                for phi in special_angles(rng):
                    cutoff = rng.randint(2, 7)
                    cases.append({"kind": kind, "cutoff": cutoff, "r": r, "phi": phi,
                                  "upstream": [[fl(rcq(rng, 1)) for _ in range(cutoff)] for _ in range(cutoff)]})
    return cases


def gen_grid_specs(rng, thorough):
    """One gate under test per circuit, EVERY parameter of it differentiated, parameter values over
    the special points of the box (exact 0, +-tiny, negative, positive; angles 0, generic, negative,
    > pi); the gate acts on a populated superposition on d = 1, 2, 3 modes."""
    specs = []
    k = [0]

    def add(gate, nmodes, params):
        k[0] += 1
        d = max(nmodes, 1 + k[0] % 3)
        cutoff = {1: 5, 2: 4, 3: 3}[d]
        modes = rng.sample(range(d), nmodes)
        theta = list(params.values())
        occ, occ2 = [0] * d, [0] * d
        occ[rng.randrange(d)] = 1
        occ2[rng.randrange(d)] = min(2, cutoff - 1)
        prep = [["number", occ, 0.6], ["number", occ2, 0.8]] if occ != occ2 else [["number", occ, 1.0]]
        pre = [["Displacement", [modes[0]], {"r": ["c", 0.3], "phi": ["c", 0.4]}]]
        post = []
        if d >= 2:
            pre.append(["Beamsplitter", [0, 1], {"theta": ["c", 0.7], "phi": ["c", 0.3]}])
            post.append(["Beamsplitter", [d - 2, d - 1], {"theta": ["c", 0.5], "phi": ["c", -0.4]}])
        if d == 3:
            pre.append(["Beamsplitter", [1, 2], {"theta": ["c", 0.9], "phi": ["c", 0.1]}])
        else:
            post.append(["Displacement", [modes[0]], {"r": ["c", 0.2], "phi": ["c", -0.9]}])
        gates = pre + [[gate, modes, {name: ["p", i] for i, name in enumerate(params)}]] + post
        out = ["state_re_im", "probs", "mean_position0", "state_re_im", "mean_photon"][k[0] % 5]
        specs.append({"spec": {"d": d, "cutoff": cutoff, "prep": prep, "gates": gates, "output": out},
                      "theta": theta, "grid": "%s(%s)" % (gate, ", ".join("%s=%r" % kv for kv in params.items()))})

    for rep in range(2 if thorough else 1):
        for gate in ("Displacement", "Squeezing"):
            for r in special_amplitudes(rng):
                for phi in special_angles(rng):
                    add(gate, 1, {"r": r, "phi": phi})
        phis = special_angles(rng)
        for i, th in enumerate(special_angles(rng)):
            for phi in (phis if thorough else (phis[i], phis[(i + 1) % 4])):
                add("Beamsplitter", 2, {"theta": th, "phi": phi})
        for phi in special_angles(rng):
            add("Phaseshifter", 1, {"phi": phi})
        for xi in (0.0, rng.uniform(0.1, 1.0), -rng.uniform(0.1, 1.0)):
            add("Kerr", 1, {"xi": xi})
            add("CrossKerr", 2, {"xi": xi})
    return specs


# ----------------------------------------------------------------------------- end-to-end specs
def gen_specs(rng, n, thorough, for_jax=False):
    """Circuits of differentiable gates on d<=3 modes at points of the box r in [-0.5,0.5] (exact 0
    and +-tiny included), angles in [-3,6] (0 and > pi included), Kerr in [-1,1]."""
    specs = []
    for t in range(n):
        d = rng.choice([1, 2, 2, 3]) if not for_jax else rng.choice([1, 2])
        cutoff = rng.choice([3, 4]) if d < 3 else 3
        theta = []

        def par(lo, hi):
            theta.append(rng.uniform(lo, hi))
            return ["p", len(theta) - 1]

        def const(lo, hi):
            return ["c", rng.uniform(lo, hi)]

        all_params = rng.random() < 0.5  # every parameter of every gate differentiated

        def parv(v):
            theta.append(v)
            return ["p", len(theta) - 1]

        def amp():
            u = rng.random()
            v = (0.0 if u < 0.12 else rng.choice([1e-7, -1e-7]) if u < 0.2
                 else -rng.uniform(0.05, 0.5) if u < 0.55 else rng.uniform(0.05, 0.5))
            return parv(v) if (all_params or rng.random() < 0.8) else ["c", v]

        def ang():
            u = rng.random()
            v = 0.0 if u < 0.1 else rng.uniform(3.2, 6.0) if u < 0.25 else rng.uniform(-3.0, 3.0)
            return parv(v) if (all_params or rng.random() < 0.7) else ["c", v]

        gates = []
        ngates = rng.randint(2, 4 if not for_jax else 3)
        for _ in range(ngates):
            m = rng.randrange(d)
            choices = ["Displacement", "Squeezing", "Phaseshifter", "Kerr"]
            if d >= 2:
                choices += ["Beamsplitter", "Beamsplitter", "CrossKerr"]
            g = rng.choice(choices)
            if g == "Displacement":
                gates.append([g, [m], {"r": amp(), "phi": ang()}])
            elif g == "Squeezing":
                gates.append([g, [m], {"r": amp(), "phi": ang()}])
            elif g == "Phaseshifter":
                gates.append([g, [m], {"phi": ang()}])
            elif g == "Kerr":
                gates.append([g, [m], {"xi": par(-1.0, 1.0)}])
            elif g == "CrossKerr":
                a, b = rng.sample(range(d), 2)
                gates.append([g, [a, b], {"xi": par(-1.0, 1.0)}])
            else:
                a, b = rng.sample(range(d), 2)
                gates.append([g, [a, b], {"theta": ang(), "phi": ang()}])
        if not theta:
            gates.append(["Phaseshifter", [0], {"phi": par(-3.0, 3.0)}])
        spec = {"d": d, "cutoff": cutoff, "gates": gates}

        def prep():
            occ = [0] * d
            for _ in range(rng.randint(0, min(2, cutoff - 1))):
                occ[rng.randrange(d)] += 1
            items = [["number", occ, 1.0]]
            if rng.random() < 0.4:
                occ2 = [0] * d
                occ2[rng.randrange(d)] = 1
                if occ2 != occ:
                    items = [["number", occ, 0.6], ["number", occ2, 0.8]]
            return items

        batched = (not for_jax) and rng.random() < 0.35
        if batched:
            spec["batch"] = [prep(), prep()]
            spec["output"] = rng.choice(["probs", "mean_position0"])
        else:
            spec["prep"] = prep()
            spec["output"] = rng.choice(["probs", "probs", "mean_photon", "mean_position0", "state_re_im"])
        specs.append({"spec": spec, "theta": theta})
    return specs


def param_owner(spec, theta, k):
    """which gate argument the k-th differentiated parameter is, and the class of its value"""
    for name, modes, argspec in spec["gates"]:
        for arg, (kind, val) in argspec.items():
            if kind == "p" and val == k:
                v = theta[k]
                cls = "=0" if v == 0.0 else "=+-tiny" if abs(v) < 1e-5 else "<0" if v < 0 else ">pi" if v > 3.1416 else ">0"
                return "%s.%s" % (name, arg), "%s%s" % (arg, cls), v
    return "?", "?", None


def compare_jac(J, Jfd, tol=1e-6):
    import numpy as np
    J, Jfd = np.asarray(J, float), np.asarray(Jfd, float)
    if J.shape != Jfd.shape:
        return "shape %s vs %s" % (J.shape, Jfd.shape), None
    if not np.all(np.isfinite(J)):
        return "non-finite gradient", None
    err = np.abs(J - Jfd)
    bad = err > tol * (1 + np.abs(Jfd))
    if bad.any():
        i = np.unravel_index(np.argmax(err), err.shape)
        return "max |autodiff - finite difference| = %.3e at output %d, parameter %d (autodiff %.9g, fd %.9g)" % (
            err.max(), i[0], i[1], J[i], Jfd[i]), [int(i[0]), int(i[1])]
    return None, None


# ----------------------------------------------------------------------------- run
def timed(times, name, f, *a):
    import time
    t0 = time.time()
    try:
        return f(*a)
    finally:
        times[name] = round(time.time() - t0, 1)


def run(chk: Check):
    import time
    corr_broken = []
    times = {}
    timed(times, "proofs", chk.proofs)
    T = chk.thorough
    rng = chk.rng

    # ---- inputs
    perm_cases = gen_perm_cases(rng, 60 if T else 12, T)
    gate_cases = gen_gate_cases(rng, 120 if T else 16, T)
    rep_cases = gen_rep_cases(rng, 60 if T else 8)
    disp_cases = gen_disp_cases(rng, T)
    grid_specs = gen_grid_specs(rng, T)
    rand_specs = gen_specs(rng, 40 if T else 4, T)
    for i, s in enumerate(grid_specs):  # the hand-written rules live in eager mode: always eager
        s["modes"] = ["eager_jacobian"] + (["eager_rows"] if i % (2 if T else 4) == 0 else []) + \
                     (["function"] if i % (3 if T else 23) == 0 else [])
    for i, s in enumerate(rand_specs):
        s["modes"] = ["eager_rows", "eager_jacobian"] + (["function"] if i % 4 == 0 else []) + \
                     (["outer_function"] if i % 4 == 1 else [])
    specs_tf = grid_specs + rand_specs
    # JAX differentiates the forward recursion itself (no hand-written rule): a few grid points
    # (r = 0 exactly, negative r) and random circuits
    jax_grid = [s for s in grid_specs if s["spec"]["d"] == 1 and s["grid"].split("(")[0] in ("Displacement", "Squeezing")
                and (s["theta"][0] == 0.0 or s["theta"][0] < -0.05)]
    nj = 8 if T else 1
    specs_jax = [{"spec": s["spec"], "theta": s["theta"], "grid": s["grid"]}
                 for s in jax_grid[:: max(1, len(jax_grid) // nj)][:nj]] + gen_specs(rng, 8 if T else 1, T, for_jax=True)
    for i, s in enumerate(specs_jax):
        s["modes"] = ["jacrev", "jit_jacfwd"] if (T or i == len(specs_jax) - 1) else ["jacrev"]
    # the JAX VJP stream is a test of the shipped FFI binary: a third of the square patterns in the
    # quick tier, every pattern in the thorough tier; tall matrices are left out (a binary built
    # before the grad_perm repair corrupts the heap on them, see corpus) - they are covered by the
    # native stream
    jax_perm_cases = [cs for i, cs in enumerate(perm_cases) if cs["cls"] != "rectangular-tall"
                      and (T or cs["cls"].startswith("rectangular") or i % 3 == 0)]

    # ---- implementation side: three processes side by side + the native driver
    exe, err = timed(times, "g++", build_native, chk)
    t_impl = time.time()
    with ThreadPoolExecutor(max_workers=3) as ex:
        f_tf = ex.submit(timed, times, "tf", run_impl, "c10_tf.py", {
            "gate": [gate_request(c) for c in gate_cases], "rep": [rep_request(c) for c in rep_cases],
            "disp": disp_cases, "e2e": specs_tf}, 3000)
        f_jax = ex.submit(timed, times, "jax", run_impl, "c10_jax.py", {
            "perm": [{"A": [[fl(z) for z in row] for row in c["A"]], "r": c["r"], "c": c["c"],
                      "jit": (i % 3 == 0 or T)} for i, c in enumerate(jax_perm_cases)],
            "e2e": specs_jax}, 3000)
        f_np = ex.submit(timed, times, "numpy", run_impl, "c10_np.py", {"e2e": specs_tf + specs_jax}, 3000)
        nat = timed(times, "native", run_native, exe, perm_cases) if exe else None
        impl_tf, impl_jax, impl_np = f_tf.result(), f_jax.result(), f_np.result()
    times["impl_total"] = round(time.time() - t_impl, 1)
    t_coq = time.time()
    if exe:
        try:
            os.remove(exe)
        except OSError:
            pass

    # ======================================================================= permanent
    if nat is None:
        corr_broken.append("native driver does not compile against %s/src: %s" % (REPO, err[-300:]))
        nat = [{"error": "no driver"}] * len(perm_cases)
    terms, idxs = [], []
    for i, (cs, r) in enumerate(zip(perm_cases, nat)):
        expect = py_grad_fd(cs["A"], cs["r"], cs["c"])
        cs["expect"] = expect
        if "error" in r or r["shape"] != [cs["n"], cs["m"]] or not finite(r["grad"]):
            what = r.get("error") or ("grad_perm returns a %dx%d array for a %dx%d matrix (loops run to rows.size())"
                                      % (r["shape"][0], r["shape"][1], cs["n"], cs["m"]))
            key = "C10:grad_perm:" + ("rectangular" if cs["cls"].startswith("rectangular") else cs["cls"])
            chk.violation(key, "src/permanent.cpp:grad_perm wrong for this matrix/multiplicity pattern: " + what,
                          {"A": [[fl(z) for z in row] for row in cs["A"]], "rows": cs["r"], "cols": cs["c"],
                           "got": r, "expected_gradient": [[[z.real, z.imag] for z in row] for row in expect],
                           "call": "grad_perm(A, rows, cols) via native/c10/driver.cpp"})
            continue
        terms.append(perm_case_term(cs, r["grad"], r["perm"]))
        idxs.append(i)
    chunk = 40
    bodies = [IMPORTS + PERM_OK + "Definition cases := [%s].\nEval vm_compute in mismatches ok cases.\n"
              % ";\n".join(terms[i:i + chunk]) for i in range(0, len(terms), chunk)]
    for j, g in enumerate(mismatch_groups("c10_perm", bodies)):
        for k in g[0]:
            cs = perm_cases[idxs[j * chunk + k]]
            corr_broken.append("grad_perm/permanent model != native kernel at rows=%s cols=%s" % (cs["r"], cs["c"]))
            chk.violation("C10:grad_perm:" + cs["cls"], "grad_perm differs from r_i c_j perm(minor) (exact model)",
                          {"A": [[fl(z) for z in row] for row in cs["A"]], "rows": cs["r"], "cols": cs["c"],
                           "got": nat[idxs[j * chunk + k]]})
    chk.stream("grad_perm + permanent_cpp of src/permanent.cpp (fresh g++ build) vs Gallina model, Gaussian-rational matrices",
               len(perm_cases), len({(tuple(c["r"]), tuple(c["c"])) for c in perm_cases if sum(c["r"]) >= 2}),
               samples=[{"rows": perm_cases[0]["r"], "cols": perm_cases[0]["c"], "native": nat[0]}],
               note="classes: %s" % json.dumps({k: sum(1 for c in perm_cases if c["cls"] == k)
                                                for k in sorted({c["cls"] for c in perm_cases})}))

    # JAX VJP of the FFI permanent (shipped binary, not rebuildable here): test
    import numpy as np
    n_j = 0
    n_jv = 0
    stale = 0
    if impl_jax.get("perm_error"):
        chk.notes.append("piquasso.jax_extensions does not import: " + impl_jax["perm_error"])
    else:
        for cs, r in zip(jax_perm_cases, impl_jax["perm"]):  # (empty when the stream is switched off)
            n_j += 1
            E = np.array(cs["expect"])
            natr = nat[perm_cases.index(cs)]
            native_ok = ("grad" in natr and natr["shape"] == [cs["n"], cs["m"]] and
                         np.abs(np.array([[complex(*z) for z in row] for row in natr["grad"]]) - E).max()
                         <= 1e-9 * (1 + np.abs(E).max()))
            for name in ("vjp", "vjp_jit"):
                if name not in r and "error" not in r:
                    continue
                n_jv += 1
                if "error" in r:
                    bad = r["error"]
                else:
                    G = np.array([[complex(*z) for z in row] for row in r[name]])
                    ct = complex(*r["ct"])
                    bad = None
                    if G.shape != E.shape or not np.all(np.isfinite(G)) or \
                            np.abs(G - ct * E).max() > 1e-9 * (1 + np.abs(ct * E).max()):
                        bad = "JAX VJP of perm differs from cotangent * r_i c_j perm(minor)"
                if bad:
                    if cs["cls"].startswith("rectangular") and native_ok:
                        stale += 1  # the shipped FFI binary predates the working tree's kernel
                    else:
                        key = "C10:grad_perm:rectangular" if cs["cls"].startswith("rectangular") \
                            else "C10:jax-perm-vjp:" + cs["cls"]
                        chk.violation(key, bad, {"A": [[fl(z) for z in row] for row in cs["A"]], "rows": cs["r"],
                                                 "cols": cs["c"], "got": r, "call": "jax.vjp(piquasso.jax_extensions.perm)"})
                    break
        if stale:
            chk.notes.append("%d rectangular patterns: the shipped jax_perm FFI binary (not rebuildable here, no pybind11/XLA "
                             "headers) returns a wrong VJP while grad_perm compiled from the working tree is right" % stale)
    chk.stream("JAX custom VJP of jax_extensions.perm (eager and jit) vs cotangent * exact gradient", n_jv,
               len({(tuple(c["r"]), tuple(c["c"])) for c in jax_perm_cases if sum(c["r"]) >= 2}), kind="differential test (no theorem)",
               samples=[{"rows": jax_perm_cases[1]["r"], "cols": jax_perm_cases[1]["c"],
                         "vjp": (impl_jax.get("perm") or [None, None])[1]}] if len(jax_perm_cases) > 1 else [])

    # ======================================================================= gate rules
    termsA, termsP, idxA, idxP = [], [], [], []
    n_gate_eval = 0
    for i, (cs, r) in enumerate(zip(gate_cases, impl_tf["gate"])):
        if "error" in r:
            chk.violation("C10:linear-gate-gradient:%s:%s" % (cs["kind"], "batched" if cs["bs"] else "single"),
                          "gradient function raised: " + r["error"], {"case": gate_request(cs)})
            continue
        for suffix in ("", "_graph") if "gs_graph" in r else ("",):
            n_gate_eval += 1
            (termsA if cs["kind"] == "active" else termsP).append(gate_term(cs, r, suffix))
            (idxA if cs["kind"] == "active" else idxP).append((i, suffix))
        for what in py_adjoint_defect(cs, r):
            chk.violation("C10:linear-gate-gradient:%s:%s" % (cs["kind"], "batched" if cs["bs"] else "single"),
                          "%s is not the adjoint of the implementation's own forward map" % what,
                          {"case": gate_request(cs), "got": r})
    chunk = 8
    hdr = IMPORTS + "Definition TOL := %s.\n" % TOL + (GATE_OK % ())
    bodies, owners = [], []
    for terms_, idx_, okname in ((termsA, idxA, "okA"), (termsP, idxP, "okP")):
        for i in range(0, len(terms_), chunk):
            bodies.append(hdr + "Definition cases := [%s].\nEval vm_compute in mismatches %s cases.\n"
                          % (";\n".join(terms_[i:i + chunk]), okname))
            owners.append(idx_[i:i + chunk])
    for own, g in zip(owners, mismatch_groups("c10_gate", bodies)):
        for k in g[0]:
            i, suffix = own[k]
            cs = gate_cases[i]
            corr_broken.append("linear gate forward/gradient model != implementation (%s, %s index, bs=%s%s)"
                               % (cs["kind"], cs["index"], cs["bs"], suffix))
            chk.violation("C10:linear-gate-gradient:%s:%s" % (cs["kind"], "batched" if cs["bs"] else "single"),
                          "forward map or gradient function differs from the model (gather-matmul-scatter adjoint)%s" % suffix,
                          {"case": gate_request(cs), "got": impl_tf["gate"][i]})
    chk.stream("state-vector application + its two gradient functions (active/passive, single/batched, own and arbitrary "
               "index matrices, eager and tf.function) vs Gallina model over Q[i]", n_gate_eval,
               sum(1 for c in gate_cases if c["N"] >= 3),
               samples=[{"kind": gate_cases[0]["kind"], "blocks": impl_tf["gate"][0].get("blocks"),
                         "gm": impl_tf["gate"][0].get("gm")}] if gate_cases else [])

    # ======================================================================= representation rules
    terms, idxs = [], []
    for i, (cs, r) in enumerate(zip(rep_cases, impl_tf["rep"])):
        if "error" in r:
            chk.violation("C10:interferometer-gradient:rule", "rule function raised: " + r["error"], {"case": rep_request(cs)})
            continue
        terms.append(rep_term(cs, r))
        idxs.append(i)
    chunk = 6
    hdr = IMPORTS + "Definition TOL := %s.\n" % TOL + REP_OK
    bodies = [hdr + "Definition cases := [%s].\nEval vm_compute in mismatches ok cases.\n"
              % ";\n".join(terms[i:i + chunk]) for i in range(0, len(terms), chunk)]
    for j, g in enumerate(mismatch_groups("c10_rep", bodies)):
        for k in g[0]:
            cs = rep_cases[idxs[j * chunk + k]]
            corr_broken.append("interferometer representation / gradient model != implementation (d=%d, dims=%s)" % (cs["d"], cs["dims"]))
            chk.violation("C10:interferometer-gradient:rule",
                          "calculate_interferometer_on_fock_space / _calculate_subspace_grad / interferometer_gradient differ from the model",
                          {"case": rep_request(cs), "got": impl_tf["rep"][idxs[j * chunk + k]]})
    chk.stream("interferometer representation recurrence, _calculate_subspace_grad chain and the contracted gradient with "
               "supplied rational helper tables vs Gallina model", len(rep_cases) * 3,
               sum(1 for c in rep_cases if len(c["tabs"]) >= 2 or c["d"] >= 2),
               samples=[{"d": rep_cases[0]["d"], "dims": rep_cases[0]["dims"], "full": impl_tf["rep"][0].get("full")}]
               if rep_cases else [])

    # ======================================================================= displacement / squeezing rules (test)
    n_disp = 0
    for cs, r in zip(disp_cases, impl_tf.get("disp", [])):
        n_disp += 1
        key = "C10:%s-matrix-gradient:rule" % cs["kind"]
        if "error" in r:
            chk.violation(key, "rule function raised: " + r["error"], {"case": cs})
            continue
        rcls = "r=0" if cs["r"] == 0.0 else "r<0" if cs["r"] < 0 else "r>0"
        failed = False
        for name, a, b in zip(("r", "phi"), r["grad"], r["fd"]):
            if not (math.isfinite(a) and abs(a - b) <= 1e-6 * (1 + abs(b))):
                chk.violation(key + ":d/d%s:%s" % (name, rcls),
                              "at (r, phi) = (%r, %r), cutoff %d: d/d%s from create_single_mode_%s_gradient = %.9g, "
                              "finite difference of the matrix function = %.9g"
                              % (cs["r"], cs["phi"], cs["cutoff"], name, cs["kind"], a, b),
                              {"case": cs, "got": r["grad"], "finite_difference": r["fd"]})
                failed = True
                break
        if failed:
            continue
        if r["entry_matrix_err"] > 1e-9:
            chk.violation("C10:%s-operator:value:%s" % (cs["kind"], rcls),
                          "get_single_mode_%s_operator differs from the NumPy matrix function at (r, phi) = (%r, %r)"
                          % (cs["kind"], cs["r"], cs["phi"]), {"case": cs, "error": r["entry_matrix_err"]})
            continue
        for name, a, b, none in zip(("r", "phi"), r["tape"], r["fd"], r["tape_none"]):
            if not (math.isfinite(a) and abs(a - b) <= 1e-6 * (1 + abs(b))):
                chk.violation("C10:%s-operator:tape:d/d%s:%s" % (cs["kind"], name, rcls),
                              "at (r, phi) = (%r, %r), cutoff %d: eager tf.GradientTape through get_single_mode_%s_operator "
                              "gives d/d%s = %.9g%s, finite difference of the matrix function = %.9g"
                              % (cs["r"], cs["phi"], cs["cutoff"], cs["kind"], name, a, " (None)" if none else "", b),
                              {"case": cs, "tape": r["tape"], "finite_difference": r["fd"]})
                break
    chk.stream("create_single_mode_displacement/squeezing_gradient called directly, and eager tf.GradientTape through "
               "get_single_mode_*_operator, both parameters, vs Richardson differences of the NumPy matrix functions on the grid "
               "r in {0.0, +-1e-7, negative, positive} x phi in {0, generic, negative, > pi}, cutoff 2..7", 2 * n_disp, sum(1 for c in disp_cases if c["cutoff"] >= 3),
               kind="differential test (no theorem)",
               samples=[{"case": disp_cases[0], "got": (impl_tf.get("disp") or [None])[0]}] if disp_cases else [])

    # ======================================================================= end to end (test)
    n_e2e, n_par = 0, 0
    allspecs = specs_tf + specs_jax
    for i, s in enumerate(allspecs):
        ref = impl_np["e2e"][i]
        is_tf = i < len(specs_tf)
        got = impl_tf["e2e"][i] if is_tf else impl_jax["e2e"][i - len(specs_tf)]
        if "error" in ref:
            chk.notes.append("NumPy simulation raised on a generated circuit: " + ref["error"])
            continue
        n_par += len(s["theta"])
        for mode, r in got.items():
            n_e2e += 1
            cls = "%s:%s:%s" % ("tf" if is_tf else "jax", mode, "batched" if s["spec"].get("batch") else "single")
            gates = "+".join(sorted({g[0] for g in s["spec"]["gates"]}))
            if "error" in r:
                chk.violation("C10:e2e:%s:raises" % cls, "differentiation raised: " + r["error"],
                              {"spec": s["spec"], "theta": s["theta"], "mode": mode})
                continue
            v = np.asarray(r["value"], float)
            vref = np.asarray(ref["value"], float)
            if v.shape != vref.shape or np.abs(v - vref).max() > 1e-8 * (1 + np.abs(vref).max()):
                chk.violation("C10:e2e:%s:value" % cls, "forward value differs from the NumPy simulation",
                              {"spec": s["spec"], "theta": s["theta"], "mode": mode, "got": r["value"], "numpy": ref["value"]})
                continue
            bad, where = compare_jac(r["jac"], ref["jac"])
            if bad:
                owner, pcls, pval = param_owner(s["spec"], s["theta"], where[1]) if where else ("?", "?", None)
                chk.violation("C10:e2e:%s:d/d(%s):%s" % (cls, owner, pcls),
                              "%s of %s w.r.t. %s at theta = %s%s (d=%d, cutoff %d): %s"
                              % (mode, s["spec"]["output"], owner, s["theta"],
                                 " [grid point %s]" % s["grid"] if s.get("grid") else "", s["spec"]["d"], s["spec"]["cutoff"], bad),
                              {"spec": s["spec"], "theta": s["theta"], "mode": mode, "autodiff": r["jac"],
                               "finite_difference": ref["jac"], "fd_error_estimate": ref.get("fd_err")})
    chk.stream("tf.GradientTape (rows, jacobian/pfor, TensorflowConnector(tf.function), outer tf.function) and jax.jacrev / jit "
               "of probabilities, expectation values and amplitudes vs Richardson central differences of the NumPy simulation: "
               "one-gate grid (every parameter of Displacement, Squeezing, Beamsplitter, Phaseshifter, Kerr, CrossKerr differentiated at "
               "r in {0.0, +-1e-7, negative, positive} x angle in {0, generic, negative, > pi}, d = 1..3, eager always) + random circuits",
               n_e2e, len(allspecs), kind="differential test (no theorem)",
               samples=[{"spec": specs_tf[0]["spec"], "theta": specs_tf[0]["theta"],
                         "jac_tf": impl_tf["e2e"][0].get("eager_rows"), "jac_fd": impl_np["e2e"][0].get("jac")}]
               if specs_tf else [],
               note="%d parameters differentiated; tolerance 1e-6 (1+|fd|)" % n_par)

    times["model_eval_and_compare"] = round(time.time() - t_coq, 1)
    chk.notes.append("wall seconds per phase: " + json.dumps(times))
    for k in sorted({v["key"] for v in chk.violations})[:12]:
        print("  failing: " + k)
    chk.assumptions += [
        "finite differences (central, Richardson-extrapolated, h=1e-3 and h/2) of the NumPy simulation approximate its true derivative to 1e-6 on the bounded box (the property's own oracle)",
        "the src/jax_perm FFI binary and the pybind glue are the shipped ones (not rebuildable in this sandbox); grad_perm / permanent_cpp are compiled from the working tree",
        "TensorFlow / JAX compose the hand-written rules correctly (tested end to end, not proved)",
    ]
    chk.finish(
        rule="perm: distinct multiplicity patterns with >=2 photons; gate rules: cases with >=3 basis states; representation: >=2 levels or d>=2; end-to-end: distinct circuits",
        explanation="Theorems of coq/theories/Props/C10.v: the hand-written gradient rules (permanent with multiplicities, gather-matmul-scatter application w.r.t. state and matrix, interferometer representation) equal the dual-number derivative / adjoint of the forward models for every ring element, index table and multiplicity pattern. Tie: the models run by vm_compute over Q[i] against the rule functions of the implementation on rational data. The composition by TensorFlow/JAX is a finite-difference test, labelled as such.",
        correspondence_broken=corr_broken,
    )
