"""C07 — Built-in linear gates are physical and act as documented."""
import itertools
import math
import os
import sys
from fractions import Fraction

import numpy as np

import time

import common
from common import Check, coq_eval_parallel, parse_coq_list, run_impl

sys.path.insert(0, os.path.join(common.VERIF, "harness", "impl"))
import c07_translate  # noqa: E402

GEN_PATH = os.path.join(common.COQ, "theories", "C07", "GatesGen.v")

HEADER = """From Coq Require Import ZArith QArith List Bool.
From PV Require Import Base.CasesLib C07.CxBase C07.GatesGen C07.MomentsModel C07.GatesModel C07.Run.
Import ListNotations.
Open Scope nat_scope.
Set Printing Width 1000000.
Set Printing Depth 1000000.
"""

HEADER_QS = HEADER + "Notation ofq := qs_of_Q.\nNotation envq := env_Q.\nNotation seq_ok := seq_ok_QS.\nNotation seq_case := (@seq_case QS).\n"
HEADER_Q = HEADER + "Notation ofq := Qred.\nNotation envq := env_Qplain.\nNotation seq_ok := seq_ok_Q.\nNotation seq_case := (@seq_case Q).\n"

ONE_MODE = ["Phaseshifter", "Fourier", "Squeezing", "QuadraticPhase"]
TWO_MODE = ["Beamsplitter", "Beamsplitter5050", "MachZehnder", "Squeezing2", "ControlledX", "ControlledZ"]
DISPL = ["Displacement", "PositionDisplacement", "MomentumDisplacement"]
GATE_PARAMS = {
    "Beamsplitter": ["theta", "phi"], "Beamsplitter5050": [], "Phaseshifter": ["phi"],
    "MachZehnder": ["int_", "ext"], "Fourier": [], "Squeezing": ["r", "phi"],
    "QuadraticPhase": ["s"], "Squeezing2": ["r", "phi"], "ControlledX": ["s"], "ControlledZ": ["s"],
}
HBARS = [Fraction(1, 2), Fraction(1), Fraction(2), Fraction(37, 10)]
TS = [Fraction(p, q) for q in (1, 2, 3, 5, 7) for p in range(-9, 10) if math.gcd(p, q) == 1 and abs(Fraction(p, q)) <= 4]
US = [Fraction(1, 2), Fraction(2, 3), Fraction(3, 4), Fraction(1), Fraction(5, 4), Fraction(3, 2), Fraction(2), Fraction(3)]
SS = [Fraction(p, q) for q in (1, 2, 3, 4) for p in range(-7, 8) if math.gcd(p, q) == 1]


# --------------------------------------------------------------------------- Coq literals
def qz(fr):
    fr = Fraction(fr)
    n = fr.numerator
    return "(qq %s %d)" % ("(%d)" % n if n < 0 else str(n), fr.denominator)


SCALE = 10 ** 12


def zf(x):
    """a float as the integer round(x * 10^12) (Coq side: fz)"""
    n = round(Fraction(float(x)) * SCALE)
    return "(%d)" % n if n < 0 else str(n)


def cxq(re, im):
    return "(ofq %s, ofq %s)" % (qz(re), qz(im))


def nlist(xs):
    return "[" + "; ".join(str(int(x)) for x in xs) + "]"


def cmat(rows):
    return "[" + "; ".join("[" + "; ".join(cxq(a, b) for a, b in r) + "]" for r in rows) + "]"


def fmat(rows):
    """matrix of complex floats [[ [re,im] ]] -> Coq list (list (Q*Q))"""
    return "[" + "; ".join("[" + "; ".join("(%s, %s)" % (zf(a), zf(b)) for a, b in r) + "]" for r in rows) + "]%Z"


# --------------------------------------------------------------------------- parameters
class Par:
    """one draw of all symbolic parameters: rational seeds and the floats given to piquasso"""

    def __init__(self, rng, special=False):
        pick = (lambda xs: rng.choice(xs))
        self.t = {k: pick(TS) for k in ("theta", "phi", "int_", "ext")}
        self.u = pick(US)
        self.s = pick(SS)
        if special:
            for k in self.t:
                self.t[k] = pick([Fraction(0), Fraction(1), Fraction(-1), self.t[k]])
            self.u = pick([Fraction(1), self.u])
            self.s = pick([Fraction(0), self.s])

    def env(self):
        return "(envq %s %s %s %s %s %s)" % (qz(self.t["theta"]), qz(self.t["phi"]), qz(self.t["int_"]),
                                             qz(self.t["ext"]), qz(self.u), qz(self.s))

    def floats(self, gate):
        out = {}
        for p in GATE_PARAMS[gate]:
            if p == "r":
                out[p] = math.log(self.u)
            elif p == "s":
                out[p] = float(self.s)
            else:
                out[p] = 2.0 * math.atan(float(self.t[p]))
        return out

    def key(self, gate):
        return (gate,) + tuple((p, self.u if p == "r" else self.s if p == "s" else self.t[p]) for p in GATE_PARAMS[gate])


def rand_cx(rng):
    return (Fraction(rng.randint(-4, 4), rng.choice((1, 2, 3, 4))), Fraction(rng.randint(-4, 4), rng.choice((1, 2, 3))))


def rand_matrix(rng, k):
    return [[rand_cx(rng) for _ in range(k)] for _ in range(k)]


def fl_matrix(m):
    return [[[float(a), float(b)] for a, b in row] for row in m]


# --------------------------------------------------------------------------- ops
def make_op(rng, kind, modes, special=False):
    """-> (impl op dict, Coq op term, descriptor)"""
    ml = nlist(modes)
    if kind in GATE_PARAMS:
        p = Par(rng, special)
        return ({"k": "gate", "name": kind, "params": p.floats(kind), "modes": list(modes)},
                "OGate %s %s %s" % (kind, p.env(), ml), (kind, tuple(modes)))
    if kind == "Displacement":
        r = rng.choice(SS)
        t = rng.choice(TS)
        c, s = (1 - t * t) / (1 + t * t), 2 * t / (1 + t * t)
        return ({"k": "gate", "name": kind, "params": {"r": float(r), "phi": 2.0 * math.atan(float(t))}, "modes": list(modes)},
                "ODisplacement (ofq %s) (ofq %s) (ofq %s) %s" % (qz(r), qz(c), qz(s), ml), (kind, tuple(modes)))
    if kind == "PositionDisplacement":
        x = rng.choice(SS)
        return ({"k": "gate", "name": kind, "params": {"x": float(x)}, "modes": list(modes)},
                "OPositionDisplacement (ofq %s) %s" % (qz(x), ml), (kind, tuple(modes)))
    if kind == "MomentumDisplacement":
        x = rng.choice(SS)
        return ({"k": "gate", "name": kind, "params": {"p": float(x)}, "modes": list(modes)},
                "OMomentumDisplacement (ofq %s) %s" % (qz(x), ml), (kind, tuple(modes)))
    k = len(modes)
    if kind == "Interferometer":
        m = rand_matrix(rng, k)
        return ({"k": "interf", "matrix": fl_matrix(m), "modes": list(modes)},
                "OInterferometer %s %s" % (cmat(m), ml), (kind, tuple(modes)))
    if kind == "raw_passive":
        m = rand_matrix(rng, k)
        return ({"k": "rawp", "P": fl_matrix(m), "modes": list(modes)},
                "OInterferometer %s %s" % (cmat(m), ml), (kind, tuple(modes)))
    if kind == "raw_linear":
        m, a = rand_matrix(rng, k), rand_matrix(rng, k)
        return ({"k": "raw", "P": fl_matrix(m), "A": fl_matrix(a), "modes": list(modes)},
                "OTransform %s %s %s" % (cmat(m), cmat(a), ml), (kind, tuple(modes)))
    raise ValueError(kind)


def small_int_matrix(rng, k):
    return [[(Fraction(rng.randint(-2, 2)), Fraction(rng.randint(-2, 2))) for _ in range(k)] for _ in range(k)]


def prefix_ops(rng, d):
    """cheap preparation of a generic state with Hermitian C, symmetric G and non-zero m, all with
    small integer entries: displacements, then one _apply_linear on all modes with A = P D
    (D real diagonal), so that G = P D P^T and C = conj(P) D^2 P^T"""
    ops = [make_op(rng, "Displacement", (i,)) for i in range(d)]
    P = small_int_matrix(rng, d)
    D = [Fraction(rng.choice([-2, -1, 1, 2, 3])) for _ in range(d)]
    A = [[(P[i][j][0] * D[j], P[i][j][1] * D[j]) for j in range(d)] for i in range(d)]
    modes = tuple(range(d))
    ops.append(({"k": "raw", "P": fl_matrix(P), "A": fl_matrix(A), "modes": list(modes)},
                "OTransform %s %s %s" % (cmat(P), cmat(A), nlist(modes)), ("raw_linear", modes)))
    return ops


def kinds_for(k):
    if k == 1:
        return ONE_MODE + DISPL + ["Interferometer", "raw_linear", "raw_passive"]
    if k == 2:
        return TWO_MODE + ["Interferometer", "raw_linear", "raw_passive"]
    return ["Interferometer", "raw_linear", "raw_passive"]


def ordered_subsets(d):
    for k in range(1, d + 1):
        for t in itertools.permutations(range(d), k):
            yield t


def seq_case(d, hbar, ops):
    return {"d": d, "hbar": hbar, "ops": ops}


def gen_sequences(chk):
    """subset sweep (every ordered subset of every d<=5) + random programs"""
    rng = chk.rng
    cases = []
    hb = 0
    reps = 3 if chk.thorough else 1
    for d in range(1, 6):
        subs = list(ordered_subsets(d))
        if d == 5 and not chk.thorough:
            subs = rng.sample(subs, 60)
        for modes in subs:
            kinds = kinds_for(len(modes))
            chosen = kinds if chk.thorough and len(modes) <= 2 else [rng.choice(kinds) for _ in range(reps)]
            for kind in chosen:
                ops = prefix_ops(rng, d) + [make_op(rng, kind, modes, special=(rng.random() < 0.2))]
                cases.append(seq_case(d, HBARS[hb % 4], ops))
                hb += 1
    nrand = NRAND_T if chk.thorough else NRAND_Q
    for _ in range(nrand):
        d = rng.randint(1, 5)
        ops = []
        for _ in range(rng.randint(3, 7)):
            k = rng.randint(1, min(d, 3))
            modes = tuple(rng.sample(range(d), k))
            ops.append(make_op(rng, rng.choice(kinds_for(k)), modes, special=(rng.random() < 0.15)))
        cases.append(seq_case(d, HBARS[hb % 4], ops))
        hb += 1
    return cases


NRAND_Q, NRAND_T = 24, 400
SQRT_DIGITS = 40


def qsqrt(fr):
    """rational approximation of sqrt(fr) to ~40 digits"""
    fr = Fraction(fr)
    scale = 10 ** SQRT_DIGITS
    n = math.isqrt(fr.numerator * fr.denominator * scale * scale)
    return Fraction(n, fr.denominator * scale)


# --------------------------------------------------------------------------- the check
_T = [time.time()]


def lap(chk, what):
    now = time.time()
    chk.notes.append("timing: %s %.1fs" % (what, now - _T[0]))
    if os.environ.get("VERIF_TIMING"):
        print("timing: %s %.1fs" % (what, now - _T[0]), file=sys.stderr)
    _T[0] = now


def regenerate(chk, corr_broken):
    try:
        text, meta = c07_translate.translate(common.REPO)
    except c07_translate.TranslateError as e:
        msg = str(e).replace("*)", "* )")
        text = ("(* GENERATED: the translator failed closed on gates.py:\n   %s *)\n"
                "Definition translator_failed_closed : True := 0.\n" % msg)
        corr_broken.append("translator failed closed: %s" % e)
        meta = None
    c07_translate.write_if_changed(GEN_PATH, text)
    return meta


def run(chk: Check):
    corr_broken = []
    meta = regenerate(chk, corr_broken)
    lap(chk, "translate")
    chk.proofs(timeout=2400)
    lap(chk, "coq proofs")
    if meta is None or not chk.proof["ok"]:
        # model not available: only the direct search can run
        search(chk, None)
        finish(chk, corr_broken)
        return
    rng = chk.rng

    # ---------------- tie 1: gate blocks, implementation vs generated model at Q(sqrt 2)[i]
    nper = 60 if chk.thorough else 12
    bcases = []
    for gate in GATE_PARAMS:
        seen = set()
        for i in range(nper):
            p = Par(rng, special=(i % 4 == 0))
            if p.key(gate) in seen:
                continue
            seen.add(p.key(gate))
            bcases.append((gate, p))
    impl_blocks = run_impl("c07_impl.py", {"blocks": [{"gate": g, "params": p.floats(g)} for g, p in bcases]})["blocks"]
    lap(chk, "impl blocks")
    items = []
    for (g, p), r in zip(bcases, impl_blocks):
        items.append("(%s, %s, %s, %s)" % (g, p.env(), fmat(r["P"]),
                                          "None" if r["A"] is None else "(Some %s)" % fmat(r["A"])))
    bodies = []
    chunk = 60
    for i in range(0, len(items), chunk):
        bodies.append(HEADER_QS + "Definition cases : list block_case := [%s].\nEval vm_compute in mismatches block_ok cases.\n"
                      % ";\n".join(items[i:i + chunk]))
    outs = coq_eval_parallel("c07_blocks", bodies, jobs=4)
    for j, o in enumerate(outs):
        for k in parse_coq_list(o)[0]:
            g, p = bcases[j * chunk + k]
            corr_broken.append("gate block model!=impl: %s %s" % (g, p.floats(g)))
    lap(chk, "coq blocks")
    chk.stream("gate blocks: _get_passive_block/_get_active_block vs generated model (exact Q(sqrt2)[i] vs float)",
               len(bcases), sum(1 for g, p in bcases if GATE_PARAMS[g]),
               samples=[{"gate": g, "params": p.floats(g)} for g, p in bcases[:2]])

    # ---------------- tie 2: GaussianSimulator after gate sequences vs the moment model
    cases = gen_sequences(chk)
    impl = run_impl("c07_impl.py", {"seqs": [{"d": c["d"], "hbar": float(c["hbar"]), "ops": [o[0] for o in c["ops"]]} for c in cases]},
                    timeout=3000)["seqs"]
    lap(chk, "impl sequences")
    items = []
    for c, r in zip(cases, impl):
        prog = "[" + ";\n  ".join(o[1] for o in c["ops"]) + "]"
        items.append("(%d, %s, %s, %s,\n  [%s]%%Z, [%s]%%Z)" % (
            c["d"], qz(c["hbar"]), qz(qsqrt(2 * c["hbar"])), prog,
            "; ".join(zf(x) for x in r["mean"]),
            "; ".join("[" + "; ".join(zf(x) for x in row) + "]" for row in r["cov"])))
    bodies, index = [], []
    chunk = 80
    for variant, hdr in ((False, HEADER_Q), (True, HEADER_QS)):
        idx = [i for i, c in enumerate(cases) if any(o[2][0] == "Beamsplitter5050" for o in c["ops"]) == variant]
        for i in range(0, len(idx), chunk):
            part = idx[i:i + chunk]
            index.append(part)
            bodies.append(hdr + "Definition cases : list seq_case := [%s].\nEval vm_compute in mismatches seq_ok cases.\n"
                          % ";\n".join(items[k] for k in part))
    outs = coq_eval_parallel("c07_seq", bodies, jobs=4, timeout=2400)
    lap(chk, "coq sequences")
    bad = []
    for part, o in zip(index, outs):
        for k in parse_coq_list(o)[0]:
            bad.append(part[k])
    for i in bad[:10]:
        c = cases[i]
        corr_broken.append("simulator xxpp mean/cov != moment model: d=%d hbar=%s ops=%s" % (
            c["d"], c["hbar"], [o[2] for o in c["ops"]]))
    distinct = len({(c["d"], c["ops"][-1][2]) for c in cases})
    chk.stream("GaussianSimulator xxpp mean/covariance after gate sequences vs exact moment model "
               "(every ordered subset of d<=%s modes%s, hbar in {1/2,1,2,37/10})" % (("5", "") if chk.thorough else ("4", " and 60 sampled ones of d=5")),
               len(cases), distinct,
               samples=[{"d": c["d"], "hbar": str(c["hbar"]), "ops": [list(map(str, o[2])) for o in c["ops"]]} for c in cases[100:102]],
               note="%d of the sequences end in an operation on an ordered subset enumerated exhaustively" % (len(cases) - (NRAND_T if chk.thorough else NRAND_Q)))

    search(chk, cases)
    finish(chk, corr_broken)


def _c(m):
    a = np.array(m, dtype=float)
    return a[..., 0] + 1j * a[..., 1]


def _embed(d, modes, P, A):
    """2d x 2d complex-form matrix [[Pf, Af], [conj Af, conj Pf]] of (P, A) on `modes`"""
    Pf = np.identity(d, dtype=complex)
    Af = np.zeros((d, d), dtype=complex)
    for a, ma in enumerate(modes):
        for b, mb in enumerate(modes):
            Pf[ma, mb] = P[a][b]
            Af[ma, mb] = 0 if A is None else A[a][b]
    return np.block([[Pf, Af], [Af.conj(), Pf.conj()]])


GRID_ANGLE = [0.0, math.pi / 2, math.pi, -math.pi / 3, 1e-8, 1e3, 2.5]
GRID_R = [0.0, 1e-8, 0.5, -1.3, 3.0]
GRID_S = [0.0, 1e-8, -2.5, 1e3]


def search(chk, cases):
    """the property stated directly on the implementation (numerically, no model)"""
    rng = chk.rng
    # ---- (a) blocks on a parameter grid
    greq = []
    for g, ps in GATE_PARAMS.items():
        grids = [GRID_R if p == "r" else GRID_S if p == "s" else GRID_ANGLE for p in ps]
        for vals in itertools.product(*grids):
            greq.append({"gate": g, "params": dict(zip(ps, vals))})
    # ---- (b) congruence on every (quick: sampled) ordered subset, (c) documented identities
    sreq, smeta = [], []
    subsets = [(d, m) for d in range(1, 6) for m in ordered_subsets(d)]
    if not chk.thorough:
        subsets = [x for x in subsets if x[0] <= 3] + rng.sample([x for x in subsets if x[0] > 3], 50)

    def fgate(name, modes, **params):
        return {"k": "gate", "name": name, "params": params, "modes": list(modes)}

    def prefix(d):
        ops = []
        for i in range(d):
            ops.append(fgate("Displacement", (i,), r=rng.uniform(-1, 1), phi=rng.uniform(-3, 3)))
            ops.append(fgate("Squeezing", (i,), r=rng.uniform(-0.7, 0.7), phi=rng.uniform(-3, 3)))
        order = list(range(d))
        rng.shuffle(order)
        for a, b in zip(order, order[1:]):
            ops.append(fgate("Beamsplitter", (a, b), theta=rng.uniform(-3, 3), phi=rng.uniform(-3, 3)))
        return ops

    for n, (d, modes) in enumerate(subsets):
        k = len(modes)
        hbar = float(HBARS[n % 4])
        if k <= 2 and rng.random() < 0.8:
            name = rng.choice(ONE_MODE if k == 1 else TWO_MODE)
            par = {p: (rng.uniform(-0.8, 0.8) if p == "r" else rng.uniform(-2, 2) if p == "s" else rng.uniform(-4, 4)) for p in GATE_PARAMS[name]}
            op = fgate(name, modes, **par)
            greq.append({"gate": name, "params": par})
            smeta.append(("cong", d, modes, len(greq) - 1, None, name))
        else:
            z = np.array([[complex(rng.gauss(0, 1), rng.gauss(0, 1)) for _ in range(k)] for _ in range(k)])
            q, _ = np.linalg.qr(z)
            U = [[[float(x.real), float(x.imag)] for x in row] for row in q]
            op = {"k": "interf", "matrix": U, "modes": list(modes)}
            smeta.append(("cong", d, modes, None, q, "Interferometer"))
        sreq.append({"d": d, "hbar": hbar, "ops": prefix(d) + [{"k": "snap"}, op, {"k": "snap"}]})
    # identities: pairs of programs that must give the same state
    nid = 40 if chk.thorough else 8
    for n in range(nid):
        d = rng.randint(2, 4)
        i, j = rng.sample(range(d), 2)
        hbar = float(HBARS[n % 4])
        pre = prefix(d)
        r, phi, a1, a2 = rng.uniform(-0.8, 0.8), rng.uniform(-3, 3), rng.uniform(-3, 3), rng.uniform(-3, 3)
        pairs = [
            ("Fourier = Phaseshifter(pi/2)", [fgate("Fourier", (i,))], [fgate("Phaseshifter", (i,), phi=math.pi / 2)]),
            ("Beamsplitter5050 = Beamsplitter(pi/4, 0)", [fgate("Beamsplitter5050", (i, j))],
             [fgate("Beamsplitter", (i, j), theta=math.pi / 4, phi=0.0)]),
            ("MachZehnder decomposition", [fgate("MachZehnder", (i, j), int_=a1, ext=a2)],
             [fgate("Phaseshifter", (i,), phi=a2), fgate("Beamsplitter", (i, j), theta=math.pi / 4, phi=math.pi / 2),
              fgate("Phaseshifter", (i,), phi=a1), fgate("Beamsplitter", (i, j), theta=math.pi / 4, phi=math.pi / 2)]),
            ("Squeezing2 decomposition", [fgate("Squeezing2", (i, j), r=r, phi=phi)],
             [fgate("Beamsplitter", (i, j), theta=-math.pi / 4, phi=0.0), fgate("Squeezing", (i,), r=-r, phi=phi),
              fgate("Squeezing", (j,), r=r, phi=phi), fgate("Beamsplitter", (i, j), theta=math.pi / 4, phi=0.0)]),
        ]
        for what, lhs, rhs in pairs:
            sreq.append({"d": d, "hbar": hbar, "ops": pre + lhs})
            sreq.append({"d": d, "hbar": hbar, "ops": pre + rhs})
            smeta.append(("ident", what, d, (i, j), hbar))
            smeta.append(None)
        # displacement shift
        rr, ph = rng.uniform(-2, 2), rng.uniform(-3, 3)
        kind = rng.choice(DISPL)
        par = {"Displacement": {"r": rr, "phi": ph}, "PositionDisplacement": {"x": rr}, "MomentumDisplacement": {"p": rr}}[kind]
        alpha = {"Displacement": rr * complex(math.cos(ph), math.sin(ph)), "PositionDisplacement": complex(rr, 0), "MomentumDisplacement": complex(0, rr)}[kind]
        sreq.append({"d": d, "hbar": hbar, "ops": pre})
        sreq.append({"d": d, "hbar": hbar, "ops": pre + [fgate(kind, (i,), **par)]})
        smeta.append(("disp", kind, d, i, hbar, alpha, par))
        smeta.append(None)
    res = run_impl("c07_impl.py", {"blocks": greq, "seqs": sreq}, timeout=3000)
    lap(chk, "impl search")
    neval = 0
    K2 = lambda n: np.diag([1.0] * n + [-1.0] * n)
    # (a)
    ngrid = sum(len(list(itertools.product(*[GRID_R if p == "r" else GRID_S if p == "s" else GRID_ANGLE for p in ps]))) for ps in GATE_PARAMS.values())
    for q, r in list(zip(greq, res["blocks"]))[:ngrid]:
        neval += 1
        P = _c(r["P"])
        A = None if r["A"] is None else _c(r["A"])
        n = len(P)
        S = _embed(n, list(range(n)), P, A)
        scale = 1 + np.abs(S).max() ** 2
        err = np.abs(S @ K2(n) @ S.conj().T - K2(n)).max()
        if not err <= 1e-9 * scale:
            chk.violation("C07:%s:block-not-%s" % (q["gate"], "unitary" if A is None else "symplectic"),
                          "S K S^dagger != K for the gate's ladder-operator matrix", {"gate": q["gate"], "params": q["params"], "error": float(err)})
    # (b), (c)
    it = iter(zip(smeta, res["seqs"]))
    allres = res["seqs"]
    for idx, meta in enumerate(smeta):
        if meta is None:
            continue
        r = allres[idx]
        neval += 1
        if meta[0] == "cong":
            _, d, modes, bi, U, name = meta
            if bi is not None:
                b = res["blocks"][bi]
                S = _embed(d, modes, _c(b["P"]), None if b["A"] is None else _c(b["A"]))
            else:
                S = _embed(d, modes, U, None)
            s0, s1 = r["snaps"]
            mu0, mu1 = _c(s0["mu_c"]), _c(s1["mu_c"])
            sg0, sg1 = _c(s0["sigma_c"]), _c(s1["sigma_c"])
            tolm = 1e-9 * (1 + np.abs(mu1).max())
            tols = 1e-9 * (1 + np.abs(sg1).max())
            if not (np.abs(S @ mu0 - mu1).max() <= tolm and np.abs(S @ sg0 @ S.conj().T - sg1).max() <= tols):
                chk.violation("C07:GaussianSimulator:%s:not-a-congruence:k=%d" % (name, len(modes)),
                              "state after the gate is not S mu, S sigma S^dagger with the embedded symplectic matrix",
                              {"d": d, "modes": list(modes), "gate": name, "ops": sreq[idx]["ops"],
                               "mean_error": float(np.abs(S @ mu0 - mu1).max()),
                               "cov_error": float(np.abs(S @ sg0 @ S.conj().T - sg1).max())})
        elif meta[0] == "ident":
            _, what, d, ij, hbar = meta
            r2_ = allres[idx + 1]
            e1 = np.abs(np.array(r["mean"]) - np.array(r2_["mean"])).max()
            e2 = np.abs(np.array(r["cov"]) - np.array(r2_["cov"])).max()
            tol = 1e-9 * (1 + np.abs(np.array(r["cov"])).max())
            if not (e1 <= tol and e2 <= tol):
                chk.violation("C07:identity:%s" % what, "documented identity fails on GaussianSimulator",
                              {"d": d, "modes": list(ij), "hbar": hbar, "lhs": sreq[idx]["ops"][-1:], "rhs": sreq[idx + 1]["ops"][-4:],
                               "mean_error": float(e1), "cov_error": float(e2)})
        elif meta[0] == "disp":
            _, kind, d, i, hbar, alpha, par = meta
            r2_ = allres[idx + 1]
            shift = np.zeros(2 * d)
            shift[i] = math.sqrt(2 * hbar) * alpha.real
            shift[d + i] = math.sqrt(2 * hbar) * alpha.imag
            e1 = np.abs(np.array(r2_["mean"]) - np.array(r["mean"]) - shift).max()
            e2 = np.abs(np.array(r2_["cov"]) - np.array(r["cov"])).max()
            if not (e1 <= 1e-9 * (1 + np.abs(shift).max()) and e2 <= 1e-12):
                chk.violation("C07:%s:shift" % kind, "displacement does not shift the xxpp mean by sqrt(2 hbar) alpha",
                              {"d": d, "mode": i, "hbar": hbar, "params": par, "mean_error": float(e1), "cov_error": float(e2)})
    chk.stream("direct search on the implementation: symplecticity on a parameter grid (0, pi/2, pi, negative, 1e-8, 1e3), "
               "congruence with the embedded matrix on ordered subsets, documented identities, displacement shift",
               neval, neval // 2, kind="search",
               samples=[{"gate": greq[3]["gate"], "params": greq[3]["params"]}])


def finish(chk, corr_broken):
    chk.assumptions += [
        "np.cos/np.sin/np.exp/np.cosh/np.sinh/np.sqrt return the mathematical functions to float64 accuracy (symbols of the generated model)",
        "NumPy fancy-index reads copy and assignments write entry by entry (model: tabulate-from-reads)",
    ]
    chk.finish(
        rule="blocks: distinct (gate, parameter) draws with at least one parameter; sequences: distinct (d, final operation kind, ordered mode tuple)",
        explanation="Theorems of coq/theories/Props/C07.v about the generated gate blocks (GatesGen.v, regenerated from gates.py on every run) and the Gallina transcription of the block-wise moment updates; tie = translator + exact differential run of the model (vm_compute at Q(sqrt 2)[i]) against piquasso; search = symplecticity/congruence/documented identities evaluated numerically on the implementation.",
        correspondence_broken=corr_broken,
    )
