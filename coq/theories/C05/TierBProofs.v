(* C05 - tier-B statements:
   (1) definition of the inclusion-exclusion (Ryser) sum over the subset row sums computed by
       the model of _precompute_subset_row_sums (proved equal to the permanent for every size
       in RyserGeneral.v / RyserLink.v);
   (2) the coefficient-extraction formula as coded (outer(v, conj v)) equals the repaired one
       (outer(conj v, v)) whenever the transmission matrix is real -- the open finding lives
       exactly on complex transmission entries;
   (3) two photons: the total probability over all outcomes of an isometry is one (algebraic
       core: Lagrange-type identity over any commutative ring, any number of modes). *)
From Coq Require Import ZArith QArith List Arith Lia Ring Bool PArith.
From PV Require Import Comb.FockModel C05.PassiveModel.
Import ListNotations.
Local Open Scope nat_scope.

(* ====================================================================== (2) *)
Definition real_matrix (M : list (list Zi)) : Prop :=
  forall r c, snd (mget zi0 M r c) = 0%Z.

Lemma ziconj_real v : snd v = 0%Z -> ziconj v = v.
Proof. destruct v as [a b]. simpl. intros ->. reflexivity. Qed.

Lemma ryser_Brow_real T G K d inp idx lab p :
  real_matrix T ->
  ryser_Brow true T G K d inp idx lab p = ryser_Brow false T G K d inp idx lab p.
Proof.
  intros HT. unfold ryser_Brow. destruct (Nat.eqb lab d); [reflexivity |].
  apply map_ext. intros q. cbv zeta.
  rewrite !ziconj_real by apply HT. reflexivity.
Qed.

Theorem ryser_tot_coded_eq_repaired_on_real N D d G s t :
  real_matrix (firstn d N) ->
  ryser_tot true N D d G s t = ryser_tot false N D d G s t.
Proof.
  intros HT. unfold ryser_tot. cbv zeta. f_equal.
  apply map_ext. intros a. f_equal. apply map_ext. intros p.
  apply ryser_Brow_real. exact HT.
Qed.

(* for EVERY Gram matrix, input, outcome: with a real transmission matrix the formula as
   coded and the repaired formula coincide *)
Theorem ryser_coded_eq_repaired_on_real N D d G Dg s t :
  real_matrix (firstn d N) ->
  ryser_coeff true N D d G Dg s t = ryser_coeff false N D d G Dg s t.
Proof.
  intros HT. unfold ryser_coeff.
  rewrite (ryser_tot_coded_eq_repaired_on_real N D d G s t HT). reflexivity.
Qed.

(* ====================================================================== (1) *)
Fixpoint popcount (p : positive) : nat :=
  match p with xH => 1 | xO q => popcount q | xI q => S (popcount q) end.

Section Ryser.
  Variable A : Type.
  Variables (a0 a1 : A) (aadd amul asub : A -> A -> A) (aopp : A -> A).
  Hypothesis Aring : ring_theory a0 a1 aadd amul asub aopp (@eq A).
  Add Ring AringB : Aring.

  (* sign = -1 if (n - subset.bit_count()) % 2 else 1 *)
  Definition ryser_sign (n k : nat) : A := if Nat.even (n - k) then a1 else aopp a1.

  (* probabilities.py: for subset in range(1, 2^n): coefficients += sign * prod_row (row sum) --
     the scalar part of the loop (no detected modes), on the table of the model of
     _precompute_subset_row_sums *)
  Definition ryser_sum (M : list (list A)) : A :=
    let n := length M in
    let tab := subset_row_sums A a0 aadd M in
    asum A a0 aadd
         (map (fun p => amul (ryser_sign n (popcount p))
                             (aprod A a1 amul (nth (Pos.to_nat p) tab [])))
              (positives_from 1%positive (2 ^ n - 1))).

  Notation perm := (perm A a0 a1 aadd amul).

  (* sanity: the 2 x 2 case by computation (the general statement is RyserLink.ryser_is_permanent) *)
  Lemma ryser_is_permanent_2 a b c d : ryser_sum [[a; b]; [c; d]] = perm [[a; b]; [c; d]].
  Proof. cbv. ring. Qed.
End Ryser.

(* ====================================================================== (3) *)
(* Two photons, any number of output modes (detected + loss): x_i, y_i are the entries of the
   two input columns in output row i.  The sum over ORDERED pairs of output rows of
   |perm [[x_i, y_i]; [x_j, y_j]]|^2 is 2 |x|^2 |y|^2 + 2 |<y,x>|^2; for an isometry
   (|x|^2 = |y|^2 = D^2, <y,x> = 0) it is 2 D^4, i.e. the unordered outcomes with their
   1/t! weights carry total probability one.  Gaussian integers, as in the model. *)
Local Open Scope Z_scope.

Definition S1 (f : Zi * Zi -> Z) (l : list (Zi * Zi)) : Z := fold_right (fun i acc => f i + acc) 0 l.
Definition S2 (f : Zi * Zi -> Zi * Zi -> Z) (l : list (Zi * Zi)) : Z := S1 (fun i => S1 (f i) l) l.

Lemma S1_ext f g l : (forall i, f i = g i) -> S1 f l = S1 g l.
Proof. intros H. induction l as [| a l IH]; simpl; [reflexivity | now rewrite H, IH]. Qed.
Lemma S1_add f g l : S1 (fun i => f i + g i) l = S1 f l + S1 g l.
Proof. induction l as [| a l IH]; simpl; [reflexivity | rewrite IH; ring]. Qed.
Lemma S1_scal c f l : S1 (fun i => c * f i) l = c * S1 f l.
Proof. induction l as [| a l IH]; simpl; [ring | rewrite IH; ring]. Qed.
Lemma S1_scal_r c f l : S1 (fun i => f i * c) l = S1 f l * c.
Proof. induction l as [| a l IH]; simpl; [ring | rewrite IH; ring]. Qed.

Lemma S2_ext f g l : (forall i j, f i j = g i j) -> S2 f l = S2 g l.
Proof. intros H. unfold S2. apply S1_ext. intros i. apply S1_ext. intros j. apply H. Qed.
Lemma S2_add f g l : S2 (fun i j => f i j + g i j) l = S2 f l + S2 g l.
Proof.
  unfold S2. rewrite <- S1_add. apply S1_ext. intros i. apply S1_add.
Qed.
Lemma S2_prod g h l : S2 (fun i j => g i * h j) l = S1 g l * S1 h l.
Proof.
  unfold S2. rewrite <- S1_scal_r. apply S1_ext. intros i. apply S1_scal.
Qed.
Lemma S2_prod_swap g h l : S2 (fun i j => g j * h i) l = S1 g l * S1 h l.
Proof.
  unfold S2. transitivity (S1 (fun i => S1 g l * h i) l).
  - apply S1_ext. intros i. apply S1_scal_r.
  - rewrite S1_scal. reflexivity.
Qed.

Definition nx (i : Zi * Zi) : Z := zin2 (fst i).
Definition ny (i : Zi * Zi) : Z := zin2 (snd i).
(* x_i * conj(y_i) *)
Definition pr (i : Zi * Zi) : Z := fst (zimul (fst i) (ziconj (snd i))).
Definition pim (i : Zi * Zi) : Z := snd (zimul (fst i) (ziconj (snd i))).
Definition overlap_xy (l : list (Zi * Zi)) : Zi :=
  fold_right (fun i acc => ziadd (zimul (fst i) (ziconj (snd i))) acc) zi0 l.

Lemma overlap_xy_parts l : overlap_xy l = (S1 pr l, S1 pim l).
Proof.
  induction l as [| a l IH]; simpl; [reflexivity |].
  rewrite IH. unfold ziadd, pr, pim. simpl. reflexivity.
Qed.

Definition amp2 (i j : Zi * Zi) : Z := zin2 (ziperm [[fst i; snd i]; [fst j; snd j]]).

Lemma amp2_expand i j :
  amp2 i j = nx i * ny j + nx j * ny i + (2 * pr i) * pr j + (2 * pim i) * pim j.
Proof.
  destruct i as [[xr xi] [yr yi]], j as [[ur ui] [vr vi]].
  cbv [amp2 nx ny pr pim zin2 ziperm perm perm_n zimul ziconj ziadd asum fold_right map seq
       length nth drop_nth fst snd zi0 zi1].
  ring.
Qed.

Theorem two_photon_total (l : list (Zi * Zi)) :
  S2 amp2 l = 2 * S1 nx l * S1 ny l + 2 * zin2 (overlap_xy l).
Proof.
  rewrite (S2_ext amp2 _ l amp2_expand).
  rewrite !S2_add, S2_prod, S2_prod_swap, !S2_prod.
  rewrite overlap_xy_parts. unfold zin2. simpl fst. simpl snd.
  rewrite !S1_scal. ring.
Qed.

(* distinct input modes of an isometry scaled by D *)
Corollary two_photon_total_isometry (l : list (Zi * Zi)) (D : Z) :
  S1 nx l = D * D -> S1 ny l = D * D -> overlap_xy l = zi0 ->
  S2 amp2 l = 2 * D ^ 4.
Proof.
  intros Hx Hy Ho. rewrite two_photon_total, Hx, Hy, Ho. unfold zin2, zi0. cbn [fst snd]. ring.
Qed.

(* both photons in the same input mode: sum over ordered pairs of |perm|^2 = 4 |x|^4
   (divided by s! = 2 and by the outcome factorials again total probability one) *)
Corollary two_photon_total_bunched (l : list Zi) (D : Z) :
  S1 nx (map (fun x => (x, x)) l) = D * D ->
  S2 amp2 (map (fun x => (x, x)) l) = 4 * D ^ 4.
Proof.
  intros Hx. rewrite two_photon_total.
  assert (Hny : S1 ny (map (fun x => (x, x)) l) = S1 nx (map (fun x => (x, x)) l)).
  { clear Hx. induction l as [| a l IH]; simpl; [reflexivity | rewrite IH; reflexivity]. }
  assert (Ho : overlap_xy (map (fun x => (x, x)) l) = (S1 nx (map (fun x => (x, x)) l), 0)).
  { clear Hx Hny. rewrite overlap_xy_parts.
    assert (H : S1 pr (map (fun x => (x, x)) l) = S1 nx (map (fun x => (x, x)) l) /\
                S1 pim (map (fun x => (x, x)) l) = 0).
    { induction l as [| [a b] l [IH1 IH2]]; [split; reflexivity |].
      cbn [map S1 fold_right]. fold (S1 pr (map (fun x => (x, x)) l)).
      fold (S1 nx (map (fun x => (x, x)) l)). fold (S1 pim (map (fun x => (x, x)) l)).
      rewrite IH1, IH2.
      cbv [pr pim nx zin2 zimul ziconj fst snd]. split; ring. }
    destruct H as [-> ->]. reflexivity. }
  rewrite Hny, Ho, Hx. unfold zin2. cbn [fst snd]. ring.
Qed.
