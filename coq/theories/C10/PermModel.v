(* C10 — model of the permanent with multiplicities and of its hand-written gradient rule.

   perm            : the definition of the permanent (expansion along the first row over the
                     list of still-available columns; for sum rows = sum cols this is the sum
                     over all bijections).  It is the forward model ("perm_def").
   perm_mult       : src/permanent.cpp:permanent_cpp seen as a function — the permanent of the
                     matrix in which row i is repeated rows[i] times and column j cols[j] times.
   grad_perm_entry,
   grad_perm       : src/permanent.cpp:grad_perm   (repaired: the column loop runs over
                     cols.size(), see fixes/C10-grad-perm-rectangular.diff)
   grad_perm_square_loop : src/permanent.cpp:grad_perm as shipped (both loops run to rows.size()).
   perm_bwd        : src/jax_perm/jax_perm_core.cpp:ComputePermBwd / jax_extensions/permanent.py:_perm_bwd
                     (ct_x[i][j] = cotangent * grad(i,j)).
   Definitions only. *)
From Coq Require Import List Arith Bool.
From PV Require Import C10.Alg.
Import ListNotations.

(* every way of taking one element out of a list, keeping the order of the rest *)
Fixpoint select {X : Type} (l : list X) : list (X * list X) :=
  match l with
  | [] => []
  | x :: r => (x, r) :: map (fun p => (fst p, x :: snd p)) (select r)
  end.

(* x_s repeated ms[0] times, x_{s+1} repeated ms[1] times, ... *)
Fixpoint rep_from {X : Type} (f : nat -> X) (s : nat) (ms : list nat) : list X :=
  match ms with
  | [] => []
  | k :: ms' => repeat (f s) k ++ rep_from f (S s) ms'
  end.

(* grad_rows[i] -= 1 *)
Fixpoint dec (i : nat) (ms : list nat) : list nat :=
  match ms, i with
  | [], _ => []
  | k :: ms', 0 => (k - 1) :: ms'
  | k :: ms', S i' => k :: dec i' ms'
  end.

Section Perm.
  Context {T : Type} (O : Ops T).

  Fixpoint perm (rows : list (nat -> T)) (cols : list nat) : T :=
    match rows with
    | [] => o1 O
    | r :: rs => sum_map O (fun p => omul O (r (fst p)) (perm rs (snd p))) (select cols)
    end.

  Definition perm_mult (A : nat -> nat -> T) (r c : list nat) : T :=
    perm (rep_from A 0 r) (rep_from (fun j => j) 0 c).

  Definition grad_perm_entry (A : nat -> nat -> T) (r c : list nat) (i j : nat) : T :=
    if (nth i r 0 =? 0) || (nth j c 0 =? 0) then o0 O
    else omul O (omul O (of_nat O (nth i r 0)) (of_nat O (nth j c 0)))
                (perm_mult A (dec i r) (dec j c)).

  Definition grad_perm (A : nat -> nat -> T) (r c : list nat) : list (list T) :=
    map (fun i => map (fun j => grad_perm_entry A r c i j) (seq 0 (length c))) (seq 0 (length r)).

  (* the shipped loop bounds: an n x n result with n = rows.size(); reading cols[j] for
     j >= cols.size() is outside the buffer (modelled as None) *)
  Definition grad_perm_square_loop (A : nat -> nat -> T) (r c : list nat) : list (list (option T)) :=
    map (fun i => map (fun j => if j <? length c then Some (grad_perm_entry A r c i j) else None)
                      (seq 0 (length r))) (seq 0 (length r)).

  Definition perm_bwd (A : nat -> nat -> T) (r c : list nat) (ct : T) : list (list T) :=
    map (map (omul O ct)) (grad_perm A r c).

  (* <G, V> = sum_ij G[i][j] * V i j for a list-of-lists G *)
  Definition pair_mat (G : list (list T)) (V : nat -> nat -> T) : T :=
    sum_map O (fun ig => sum_map O (fun jg => omul O (snd jg) (V (fst ig) (fst jg)))
                                   (combine (seq 0 (length (snd ig))) (snd ig)))
              (combine (seq 0 (length G)) G).
End Perm.

(* the directional derivative of the permanent with multiplicities at A in direction V *)
Definition D_perm_mult {T} (O : Ops T) (A V : nat -> nat -> T) (r c : list nat) : T :=
  epsp (perm_mult (dualOps O) (fun i j => (A i j, V i j)) r c).

(* matrix given as list of lists (cases files) *)
Definition mat_fun {T} (O : Ops T) (M : list (list T)) : nat -> nat -> T :=
  fun i j => nth j (nth i M []) (o0 O).
