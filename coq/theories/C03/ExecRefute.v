(* C03 - statements that are FALSE of the code as found at the pinned commit, with
   concrete witnesses computed by vm_compute (finite checks, not theorems about all inputs). *)
From Coq Require Import ZArith QArith List Bool Arith Lia.
From PV Require Import Base.CasesLib C03.ExecModel C03.ExecProofs C03.ExecReplay.
Import ListNotations.
Open Scope Z_scope.

(* ---- Result.get_counts with dictionary assignment (ret[outcome] = ...) loses shots as
   soon as two branches carry the same outcome.  Witness: one measurement answered by the
   per-sample oracle of the Gaussian simulator (one branch per shot, Fraction(1, shots))
   with shots = 3 and samples (0), (1), (0). *)
Definition w_prog : list instr := [mkI 0 [0%nat] true false CTrue PFixed].
Definition w_tbl : list call :=
  [mkC 0 0 [0%nat] None (Some 3)
       (Ok (map (fun p => mkSub (fst p) [snd p] (frac 1 3))
                [(1%nat, 0%Q); (2%nat, 1%Q); (3%nat, 0%Q)]))].

Lemma w_tbl_wf : wf_table w_tbl = true.
Proof. vm_compute. reflexivity. Qed.

Theorem get_counts_overwrite_refuted :
  exists tbl prog N d act bs,
    wf_table tbl = true /\ run tbl prog (Some N) d = Ok (act, bs) /\
    sumZ (map snd (get_counts_overwrite nat Q ql_eq N bs)) <> N /\
    sumZ (map snd (get_counts nat Q ql_eq N bs)) = N.
Proof.
  exists w_tbl, w_prog, 3, 1%nat.
  destruct (run w_tbl w_prog (Some 3) 1) as [[act bs]|] eqn:E; [|vm_compute in E; discriminate].
  exists act, bs. vm_compute in E. inversion E; subst. vm_compute.
  repeat split; congruence.
Qed.

(* ---- the executor keeps one tuple of active modes for all branches: a measurement that is
   skipped by its condition on some branch still removes its modes from that tuple, so the
   register of that branch is no longer the tuple the next instruction is remapped with.
   Witness: measure mode 0 (outcome 0), measure mode 1 only when x[0] > 0. *)
Definition c_prog : list instr :=
  [mkI 0 [0%nat] true true CTrue PFixed; mkI 1 [1%nat] true true (CCmp 0 CGt 0) PFixed].
Definition c_tbl : list call :=
  [mkC 0 0 [0%nat] None None (Ok [mkSub 1%nat [0%Q] 1%Q])].

Theorem labels_invariant_refuted :
  exists tbl prog shots d act bs,
    run tbl prog shots d = Ok (act, bs) /\
    ~ regs_are nat Q act bs.
Proof.
  exists c_tbl, c_prog, None, 3%nat.
  destruct (run c_tbl c_prog None 3) as [[act bs]|] eqn:E; [|vm_compute in E; discriminate].
  exists act, bs. split; auto. vm_compute in E. inversion E; subst.
  intros H. inversion H; subst. simpl in H2. discriminate.
Qed.
