(* C18 -- code emission of Config and Simulator and its re-execution (definitions only).
   Transcribes piquasso/api/config.py:Config.__init__, __eq__, _as_code and
   piquasso/api/simulator.py:Simulator._as_code (keyword lists instead of text; the text
   layer -- str() of the values, Python's parser -- is tied by execution, not modelled). *)
From Coq Require Import ZArith QArith List Bool.
Import ListNotations.
Open Scope Z_scope.

Inductive dtype_arg := DtFloat32 | DtFloat64 | DtPyFloat.   (* np.float32, np.float64, float *)
Inductive dtype := F32 | F64.

(* the keyword arguments of Config(...); an omitted keyword is its default value *)
Record cfg_args := mkArgs {
  a_cutoff : option Z;            (* default None *)
  a_dtype : dtype_arg;            (* default np.float64 *)
  a_measurement_cutoff : Z;       (* 5 *)
  a_hbar : Q;                     (* 2.0 *)
  a_seed : option Z;              (* None *)
  a_use_torontonian : bool;       (* False *)
  a_cache_size : Z;               (* 32 *)
  a_validate : bool;              (* True *)
  a_use_dask : bool;              (* False *)
  a_trials : Z                    (* 1000 *)
}.

Definition default_args : cfg_args :=
  mkArgs None DtFloat64 5 (2#1) None false 32 true false 1000.

(* the attributes __eq__ and _as_code read (the effective seed_sequence and rng are not
   among them) *)
Record cfg := mkCfg {
  c_original_seed : option Z;
  c_cache_size : Z;
  c_hbar : Q;
  c_use_torontonian : bool;
  c_cutoff_was_explicit : bool;
  c_cutoff : Z;
  c_measurement_cutoff : Z;
  c_dtype : dtype;
  c_validate : bool;
  c_use_dask : bool;
  c_trials : Z
}.

(* config.py:Config.__init__ *)
Definition construct (a : cfg_args) : cfg :=
  mkCfg (a_seed a) (a_cache_size a) (a_hbar a) (a_use_torontonian a)
        (match a_cutoff a with Some _ => true | None => false end)
        (match a_cutoff a with Some c => c | None => 4 end)
        (a_measurement_cutoff a)
        (match a_dtype a with DtFloat32 => F32 | _ => F64 end)
        (a_validate a) (a_use_dask a) (a_trials a).

Definition optz_eqb (a b : option Z) : bool :=
  match a, b with Some x, Some y => x =? y | None, None => true | _, _ => false end.
Definition dtype_eqb (a b : dtype) : bool :=
  match a, b with F32, F32 | F64, F64 => true | _, _ => false end.

(* config.py:Config.__eq__ *)
Definition cfg_eqb (x y : cfg) : bool :=
  optz_eqb (c_original_seed x) (c_original_seed y)
  && (c_cache_size x =? c_cache_size y)
  && Qeq_bool (c_hbar x) (c_hbar y)
  && Bool.eqb (c_use_torontonian x) (c_use_torontonian y)
  && Bool.eqb (c_cutoff_was_explicit x) (c_cutoff_was_explicit y)
  && (c_cutoff x =? c_cutoff y)
  && (c_measurement_cutoff x =? c_measurement_cutoff y)
  && dtype_eqb (c_dtype x) (c_dtype y)
  && Bool.eqb (c_validate x) (c_validate y)
  && Bool.eqb (c_use_dask x) (c_use_dask y)
  && (c_trials x =? c_trials y).

(* the emitted keyword arguments: one optional slot per keyword (a Python call cannot repeat a
   keyword); [kw_list] gives them in the order _as_code writes them *)
Record code := mkCode {
  k_seed : option Z; k_cache : option Z; k_hbar : option Q; k_tor : option bool;
  k_cutoff : option Z; k_mcut : option Z; k_dtype : option dtype; k_validate : option bool;
  k_dask : option bool; k_trials : option Z
}.

Definition opt_kw {X} (cond : bool) (v : X) : option X := if cond then Some v else None.

(* config.py:Config._as_code: compare each attribute with that of Config() *)
Definition as_code (c : cfg) : code :=
  let d := construct default_args in
  mkCode
    (c_original_seed c)
    (opt_kw (negb (c_cache_size c =? c_cache_size d)) (c_cache_size c))
    (opt_kw (negb (Qeq_bool (c_hbar c) (c_hbar d))) (c_hbar c))
    (opt_kw (negb (Bool.eqb (c_use_torontonian c) (c_use_torontonian d))) (c_use_torontonian c))
    (opt_kw (c_cutoff_was_explicit c) (c_cutoff c))
    (opt_kw (negb (c_measurement_cutoff c =? c_measurement_cutoff d)) (c_measurement_cutoff c))
    (opt_kw (negb (dtype_eqb (c_dtype c) (c_dtype d))) (c_dtype c))
    (opt_kw (negb (Bool.eqb (c_validate c) (c_validate d))) (c_validate c))
    (opt_kw (negb (Bool.eqb (c_use_dask c) (c_use_dask d))) (c_use_dask c))
    (opt_kw (negb (c_trials c =? c_trials d)) (c_trials c)).

Inductive kw :=
| KSeed (s : Z) | KCache (z : Z) | KHbar (q : Q) | KTor (b : bool) | KCutoff (z : Z)
| KMcut (z : Z) | KDtype (d : dtype) | KValidate (b : bool) | KDask (b : bool) | KTrials (z : Z).
Definition ol {X} (f : X -> kw) (o : option X) : list kw :=
  match o with Some x => [f x] | None => [] end.
Definition kw_list (k : code) : list kw :=
  ol KSeed (k_seed k) ++ ol KCache (k_cache k) ++ ol KHbar (k_hbar k) ++ ol KTor (k_tor k)
  ++ ol KCutoff (k_cutoff k) ++ ol KMcut (k_mcut k) ++ ol KDtype (k_dtype k)
  ++ ol KValidate (k_validate k) ++ ol KDask (k_dask k) ++ ol KTrials (k_trials k).

Definition dflt {X} (d : X) (o : option X) : X := match o with Some x => x | None => d end.

(* executing `pq.Config(k=v, ...)`: each keyword given overrides the default *)
Definition exec_code (k : code) : cfg :=
  construct (mkArgs (k_cutoff k)
                    (match k_dtype k with Some F32 => DtFloat32 | _ => DtFloat64 end)
                    (dflt 5 (k_mcut k)) (dflt (2#1) (k_hbar k)) (k_seed k)
                    (dflt false (k_tor k)) (dflt 32 (k_cache k)) (dflt true (k_validate k))
                    (dflt false (k_dask k)) (dflt 1000 (k_trials k))).

(* simulator.py:Simulator._as_code: `d=` unless None; `config=` unless config == Config() *)
Definition sim_as_code (d : option Z) (c : cfg) : option Z * option code :=
  (d, if cfg_eqb c (construct default_args) then None else Some (as_code c)).
Definition sim_exec_code (code : option Z * option code) : option Z * cfg :=
  (fst code, match snd code with Some ks => exec_code ks | None => construct default_args end).
