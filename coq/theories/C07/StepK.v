(* C07 — one gate as a congruence of the full 2d x 2d moment matrix
     K = [[C^T + I, G], [G^dagger, C]]  |->  S K S^dagger,   S = [[Pf, Af], [conj Af, conj Pf]],
   given the G and C blocks (MomentsProofs) and the symplectic condition Pf Pf^dagger - Af Af^dagger = I.
   Pure d x d block algebra over a commutative ring with involution. *)
From Coq Require Import List Arith Bool Lia Ring Setoid Morphisms.
From PV Require Import C07.CxBase C07.MomentsModel C07.SumLemmas C07.MatF.
Import ListNotations.

Section StepAlgebra.
  Context {A : Type} (co : COps A).
  Local Notation "0" := (z0 co).
  Local Notation "1" := (z1 co).
  Local Infix "+" := (zadd co).
  Local Infix "*" := (zmul co).
  Local Notation conj := (zconj co).

  Hypothesis Ath : ring_theory 0 1 (zadd co) (zmul co) (zsub co) (zopp co) eq.
  Hypothesis conj_0 : conj 0 = 0.
  Hypothesis conj_1 : conj 1 = 1.
  Hypothesis conj_add : forall x y, conj (x + y) = conj x + conj y.
  Hypothesis conj_mul : forall x y, conj (x * y) = conj x * conj y.
  Hypothesis conj_conj : forall x, conj (conj x) = x.
  Add Ring Aring4 : Ath.

  Variable d : nat.
  Local Notation mm := (mmf co d).
  Local Notation tr := (trf (A := A)).
  Local Notation cj := (cjf co).
  Local Notation ad := (addf co).
  Local Notation I := (idf co).
  Local Notation "X == Y" := (eqm d X Y) (at level 70).

  (* the d x d blocks *)
  Definition Sof (Pf Af : @fmat A) : @fmat A := blk d Pf Af (cj Af) (cj Pf).
  Definition Kblocks (Cf Gf : @fmat A) : @fmat A := blk d (ad (tr Cf) I) Gf (tr (cj Gf)) Cf.

  (* the G and C blocks of S K S^dagger, as products *)
  Definition Gexpr (Pf Af Cf Gf : @fmat A) : @fmat A :=
    ad (ad (ad (mm (mm Pf Gf) (tr Pf)) (mm (mm Af (tr (cj Gf))) (tr Af)))
           (mm (mm Pf (ad (tr Cf) I)) (tr Af)))
       (mm (mm Af Cf) (tr Pf)).
  Definition Cexpr (Pf Af Cf Gf : @fmat A) : @fmat A :=
    ad (ad (ad (mm (mm (cj Pf) Cf) (tr Pf)) (mm (mm (cj Af) (ad (tr Cf) I)) (tr Af)))
           (mm (mm (cj Pf) (tr (cj Gf))) (tr Af)))
       (mm (mm (cj Af) Gf) (tr Pf)).

  Variables Pf Af Cf Gf C' G' : @fmat A.
  Hypothesis HC : tr (cj Cf) == Cf.
  Hypothesis HG : tr Gf == Gf.
  Hypothesis Hsym1 : mm Pf (tr (cj Pf)) == ad I (mm Af (tr (cj Af))).
  Hypothesis HG' : G' == Gexpr Pf Af Cf Gf.
  Hypothesis HC' : C' == Cexpr Pf Af Cf Gf.

  Lemma cjC : cj Cf == tr Cf.
  Proof. rewrite <- HC at 2. rewrite (trf_trf d). reflexivity. Qed.
  Lemma cjtrC : cj (tr Cf) == Cf.
  Proof. rewrite <- (trf_cjf co d). exact HC. Qed.

  Lemma trcjtr : forall X : @fmat A, tr (cj (tr X)) == cj X.
  Proof. intros X i j _ _. reflexivity. Qed.

  Ltac distr := repeat (rewrite (mmf_addf_l co Ath d) || rewrite (mmf_addf_r co Ath d)).
  Ltac push_tr := repeat (rewrite (trf_addf co d) || rewrite (trf_mmf co Ath d)
                          || rewrite (trf_trf d) || rewrite (trf_idf co d)).
  Ltac push_cj := repeat (rewrite (cjf_addf co conj_add d) || rewrite (cjf_mmf co conj_0 conj_add conj_mul d)
                          || rewrite (cjf_cjf co conj_conj d) || rewrite (cjf_idf co conj_0 conj_1 d)).
  Ltac pointwise_ring := let i := fresh "i" in let j := fresh "j" in
    intros i j _ _; unfold addf; cbv beta; ring.

  Theorem step_full_K :
    eqm (Nat.add d d) (Kblocks C' G') (cong co (Nat.add d d) (Sof Pf Af) (Kblocks Cf Gf)).
  Proof.
    unfold cong, Sof, Kblocks. rewrite (adjf_blk co d). unfold adjf.
    rewrite (mmf_blk co Ath d). rewrite (mmf_blk co Ath d).
    apply blk_proper.
    - (* C'^T + I *)
      rewrite HC'. unfold Cexpr.
      push_tr. rewrite HG. distr. rewrite !(mmf_assoc co Ath d).
      rewrite !(mmf_idf_l co Ath d).
      rewrite Hsym1. rewrite (trf_cjf co d Gf), HG. pointwise_ring.
    - (* G' *)
      rewrite HG'. unfold Gexpr. rewrite !(cjf_cjf co conj_conj d). distr. pointwise_ring.
    - (* G'^dagger *)
      rewrite HG'. unfold Gexpr.
      push_cj. push_tr. rewrite !trcjtr. rewrite (cjf_cjf co conj_conj d). rewrite HC, cjC.
      distr. rewrite !(mmf_assoc co Ath d). pointwise_ring.
    - (* C' *)
      rewrite HC'. unfold Cexpr. rewrite !(cjf_cjf co conj_conj d). distr. pointwise_ring.
  Qed.
End StepAlgebra.
