(* C07 — matrices as functions nat -> nat -> A, equality on a range (setoid), products, adjoints,
   2x2 block matrices.  Used for the 2d x 2d congruence S K S^dagger and its composition. *)
From Coq Require Import List Arith Bool Lia Ring Setoid Morphisms.
From PV Require Import C07.CxBase C07.MomentsModel C07.SumLemmas.
Import ListNotations.

Section MatF.
  Context {A : Type} (co : COps A).
  Local Notation "0" := (z0 co).
  Local Notation "1" := (z1 co).
  Local Infix "+" := (zadd co).
  Local Infix "*" := (zmul co).
  Local Notation conj := (zconj co).
  Local Notation sumn := (sumn co).

  Hypothesis Ath : ring_theory 0 1 (zadd co) (zmul co) (zsub co) (zopp co) eq.
  Hypothesis conj_0 : conj 0 = 0.
  Hypothesis conj_1 : conj 1 = 1.
  Hypothesis conj_add : forall x y, conj (x + y) = conj x + conj y.
  Hypothesis conj_mul : forall x y, conj (x * y) = conj x * conj y.
  Hypothesis conj_conj : forall x, conj (conj x) = x.
  Add Ring Aring3 : Ath.

  Definition fmat := nat -> nat -> A.
  Definition fvec := nat -> A.
  Definition eqm (n : nat) (X Y : fmat) : Prop := forall i j, i < n -> j < n -> X i j = Y i j.
  Definition eqv (n : nat) (u v : fvec) : Prop := forall i, i < n -> u i = v i.

  Global Instance eqm_equiv n : Equivalence (eqm n).
  Proof.
    split.
    - intros X i j _ _. reflexivity.
    - intros X Y H i j Hi Hj. symmetry. apply H; assumption.
    - intros X Y Z H1 H2 i j Hi Hj. rewrite H1, H2 by assumption. reflexivity.
  Qed.
  Global Instance eqv_equiv n : Equivalence (eqv n).
  Proof.
    split.
    - intros X i _. reflexivity.
    - intros X Y H i Hi. symmetry. apply H; assumption.
    - intros X Y Z H1 H2 i Hi. rewrite H1, H2 by assumption. reflexivity.
  Qed.

  Definition mmf (n : nat) (X Y : fmat) : fmat := fun i j => sumn n (fun k => X i k * Y k j).
  Definition trf (X : fmat) : fmat := fun i j => X j i.
  Definition cjf (X : fmat) : fmat := fun i j => conj (X i j).
  Definition adjf (X : fmat) : fmat := trf (cjf X).
  Definition addf (X Y : fmat) : fmat := fun i j => X i j + Y i j.
  Definition idf : fmat := fun i j => if Nat.eqb i j then 1 else 0.
  Definition zerof : fmat := fun _ _ => 0.
  Definition mvf (n : nat) (X : fmat) (v : fvec) : fvec := fun i => sumn n (fun k => X i k * v k).
  Definition addv (u v : fvec) : fvec := fun i => u i + v i.

  Global Instance mmf_proper n : Proper (eqm n ==> eqm n ==> eqm n) (mmf n).
  Proof.
    intros X X' HX Y Y' HY i j Hi Hj. unfold mmf. apply (sumn_ext co). intros k Hk.
    rewrite HX, HY by assumption. reflexivity.
  Qed.
  Global Instance trf_proper n : Proper (eqm n ==> eqm n) trf.
  Proof. intros X X' HX i j Hi Hj. unfold trf. apply HX; assumption. Qed.
  Global Instance cjf_proper n : Proper (eqm n ==> eqm n) cjf.
  Proof. intros X X' HX i j Hi Hj. unfold cjf. rewrite HX by assumption. reflexivity. Qed.
  Global Instance adjf_proper n : Proper (eqm n ==> eqm n) adjf.
  Proof. intros X X' HX. unfold adjf. rewrite HX. reflexivity. Qed.
  Global Instance addf_proper n : Proper (eqm n ==> eqm n ==> eqm n) addf.
  Proof.
    intros X X' HX Y Y' HY i j Hi Hj. unfold addf. rewrite HX, HY by assumption. reflexivity.
  Qed.
  Global Instance mvf_proper n : Proper (eqm n ==> eqv n ==> eqv n) (mvf n).
  Proof.
    intros X X' HX v v' Hv i Hi. unfold mvf. apply (sumn_ext co). intros k Hk.
    rewrite HX, Hv by assumption. reflexivity.
  Qed.
  Global Instance addv_proper n : Proper (eqv n ==> eqv n ==> eqv n) addv.
  Proof. intros u u' Hu v v' Hv i Hi. unfold addv. rewrite Hu, Hv by assumption. reflexivity. Qed.

  (* ---- algebra (all pointwise, hence on every range) *)
  Lemma mmf_assoc : forall n X Y Z, eqm n (mmf n (mmf n X Y) Z) (mmf n X (mmf n Y Z)).
  Proof.
    intros n X Y Z i j _ _. unfold mmf.
    rewrite (sumn_ext co n _ (fun l => sumn n (fun k => X i k * Y k l * Z l j)))
      by (intros; rewrite <- (sumn_mul_r co Ath); reflexivity).
    rewrite (sumn_swap co Ath). apply (sumn_ext co). intros k _.
    rewrite <- (sumn_mul_l co Ath). apply (sumn_ext co). intros; ring.
  Qed.
  Lemma mmf_addf_l : forall n X Y Z, eqm n (mmf n (addf X Y) Z) (addf (mmf n X Z) (mmf n Y Z)).
  Proof.
    intros n X Y Z i j _ _. unfold mmf, addf. rewrite <- (sumn_add co Ath).
    apply (sumn_ext co). intros; ring.
  Qed.
  Lemma mmf_addf_r : forall n X Y Z, eqm n (mmf n X (addf Y Z)) (addf (mmf n X Y) (mmf n X Z)).
  Proof.
    intros n X Y Z i j _ _. unfold mmf, addf. rewrite <- (sumn_add co Ath).
    apply (sumn_ext co). intros; ring.
  Qed.
  Lemma mmf_idf_r : forall n X, eqm n (mmf n X idf) X.
  Proof.
    intros n X i j Hi Hj. unfold mmf, idf.
    rewrite (sumn_ext co n _ (fun k => X i k * unit co j k))
      by (intros; unfold SumLemmas.unit; reflexivity).
    apply (sum_unit_r co Ath n j (fun k => X i k) Hj).
  Qed.
  Lemma mmf_idf_l : forall n X, eqm n (mmf n idf X) X.
  Proof.
    intros n X i j Hi Hj. unfold mmf, idf.
    rewrite (sumn_ext co n _ (fun k => unit co i k * X k j))
      by (intros k _; unfold SumLemmas.unit; rewrite (Nat.eqb_sym i k); reflexivity).
    apply (sum_unit_l co Ath n i (fun k => X k j) Hi).
  Qed.
  Lemma trf_mmf : forall n X Y, eqm n (trf (mmf n X Y)) (mmf n (trf Y) (trf X)).
  Proof. intros n X Y i j _ _. unfold trf, mmf. apply (sumn_ext co). intros; ring. Qed.
  Lemma cjf_mmf : forall n X Y, eqm n (cjf (mmf n X Y)) (mmf n (cjf X) (cjf Y)).
  Proof.
    intros n X Y i j _ _. unfold cjf, mmf. rewrite (sumn_conj co conj_0 conj_add).
    apply (sumn_ext co). intros. apply conj_mul.
  Qed.
  Lemma trf_addf : forall n X Y, eqm n (trf (addf X Y)) (addf (trf X) (trf Y)).
  Proof. intros n X Y i j _ _. reflexivity. Qed.
  Lemma cjf_addf : forall n X Y, eqm n (cjf (addf X Y)) (addf (cjf X) (cjf Y)).
  Proof. intros n X Y i j _ _. unfold cjf, addf. apply conj_add. Qed.
  Lemma trf_trf : forall n X, eqm n (trf (trf X)) X.
  Proof. intros n X i j _ _. reflexivity. Qed.
  Lemma cjf_cjf : forall n X, eqm n (cjf (cjf X)) X.
  Proof. intros n X i j _ _. unfold cjf. apply conj_conj. Qed.
  Lemma trf_cjf : forall n X, eqm n (trf (cjf X)) (cjf (trf X)).
  Proof. intros n X i j _ _. reflexivity. Qed.
  Lemma trf_idf : forall n, eqm n (trf idf) idf.
  Proof. intros n i j _ _. unfold trf, idf. rewrite Nat.eqb_sym. reflexivity. Qed.
  Lemma cjf_idf : forall n, eqm n (cjf idf) idf.
  Proof. intros n i j _ _. unfold cjf, idf. destruct (Nat.eqb i j); [apply conj_1|apply conj_0]. Qed.
  Lemma adjf_mmf : forall n X Y, eqm n (adjf (mmf n X Y)) (mmf n (adjf Y) (adjf X)).
  Proof. intros. unfold adjf. rewrite cjf_mmf, trf_mmf. reflexivity. Qed.
  Lemma adjf_addf : forall n X Y, eqm n (adjf (addf X Y)) (addf (adjf X) (adjf Y)).
  Proof. intros. unfold adjf. rewrite cjf_addf, trf_addf. reflexivity. Qed.
  Lemma adjf_adjf : forall n X, eqm n (adjf (adjf X)) X.
  Proof. intros n X i j _ _. unfold adjf, trf, cjf. apply conj_conj. Qed.
  Lemma adjf_idf : forall n, eqm n (adjf idf) idf.
  Proof. intros. unfold adjf. rewrite cjf_idf, trf_idf. reflexivity. Qed.

  Lemma mvf_mmf : forall n X Y v, eqv n (mvf n (mmf n X Y) v) (mvf n X (mvf n Y v)).
  Proof.
    intros n X Y v i _. unfold mvf, mmf.
    rewrite (sumn_ext co n _ (fun l => sumn n (fun k => X i k * Y k l * v l)))
      by (intros; rewrite <- (sumn_mul_r co Ath); reflexivity).
    rewrite (sumn_swap co Ath). apply (sumn_ext co). intros k _.
    rewrite <- (sumn_mul_l co Ath). apply (sumn_ext co). intros; ring.
  Qed.
  Lemma mvf_addv : forall n X u v, eqv n (mvf n X (addv u v)) (addv (mvf n X u) (mvf n X v)).
  Proof.
    intros n X u v i _. unfold mvf, addv. rewrite <- (sumn_add co Ath).
    apply (sumn_ext co). intros; ring.
  Qed.
  Lemma mvf_idf : forall n v, eqv n (mvf n idf v) v.
  Proof.
    intros n v i Hi. unfold mvf, idf.
    rewrite (sumn_ext co n _ (fun k => unit co i k * v k))
      by (intros k _; unfold SumLemmas.unit; rewrite (Nat.eqb_sym i k); reflexivity).
    apply (sum_unit_l co Ath n i v Hi).
  Qed.
  Lemma addv_assoc : forall n u v w, eqv n (addv (addv u v) w) (addv u (addv v w)).
  Proof. intros n u v w i _. unfold addv. ring. Qed.

  (* ---- congruence S K S^dagger and its composition *)
  Definition cong (n : nat) (S K : fmat) : fmat := mmf n (mmf n S K) (adjf S).

  Global Instance cong_proper n : Proper (eqm n ==> eqm n ==> eqm n) (cong n).
  Proof. intros S S' HS K K' HK. unfold cong. rewrite HS, HK. reflexivity. Qed.

  Lemma cong_comp : forall n S2 S1 K,
    eqm n (cong n S2 (cong n S1 K)) (cong n (mmf n S2 S1) K).
  Proof.
    intros. unfold cong. rewrite adjf_mmf. rewrite !mmf_assoc. reflexivity.
  Qed.
  Lemma cong_idf : forall n K, eqm n (cong n idf K) K.
  Proof. intros. unfold cong. rewrite adjf_idf, mmf_idf_l, mmf_idf_r. reflexivity. Qed.

  (* ---- 2 x 2 block matrices of d x d blocks *)
  Section Blocks.
    Variable d : nat.
    Definition blk (X11 X12 X21 X22 : fmat) : fmat := fun i j =>
      if Nat.ltb i d
      then (if Nat.ltb j d then X11 i j else X12 i (j - d))
      else (if Nat.ltb j d then X21 (i - d) j else X22 (i - d) (j - d)).
    Definition blkv (u v : fvec) : fvec := fun i => if Nat.ltb i d then u i else v (i - d).

    Global Instance blk_proper :
      Proper (eqm d ==> eqm d ==> eqm d ==> eqm d ==> eqm (Nat.add d d)) blk.
    Proof.
      intros X11 Y11 H11 X12 Y12 H12 X21 Y21 H21 X22 Y22 H22 i j Hi Hj. unfold blk.
      destruct (Nat.ltb_spec i d); destruct (Nat.ltb_spec j d);
        [apply H11|apply H12|apply H21|apply H22]; lia.
    Qed.
    Global Instance blkv_proper : Proper (eqv d ==> eqv d ==> eqv (Nat.add d d)) blkv.
    Proof.
      intros u u' Hu v v' Hv i Hi. unfold blkv.
      destruct (Nat.ltb_spec i d); [apply Hu|apply Hv]; lia.
    Qed.

    Lemma blk_lo : forall X11 X12 X21 X22 i k, k < d ->
      blk X11 X12 X21 X22 i k = if Nat.ltb i d then X11 i k else X21 (i - d) k.
    Proof. intros. unfold blk. rewrite (proj2 (Nat.ltb_lt k d)) by assumption. reflexivity. Qed.
    Lemma blk_hi : forall X11 X12 X21 X22 i k,
      blk X11 X12 X21 X22 i (Nat.add d k) = if Nat.ltb i d then X12 i k else X22 (i - d) k.
    Proof.
      intros. unfold blk. rewrite (proj2 (Nat.ltb_ge (Nat.add d k) d)) by lia.
      replace (Nat.add d k - d) with k by lia. reflexivity.
    Qed.
    Lemma blk_row_lo : forall X11 X12 X21 X22 k j, k < d ->
      blk X11 X12 X21 X22 k j = if Nat.ltb j d then X11 k j else X12 k (j - d).
    Proof. intros. unfold blk. rewrite (proj2 (Nat.ltb_lt k d)) by assumption. reflexivity. Qed.
    Lemma blk_row_hi : forall X11 X12 X21 X22 k j,
      blk X11 X12 X21 X22 (Nat.add d k) j = if Nat.ltb j d then X21 k j else X22 k (j - d).
    Proof.
      intros. unfold blk. rewrite (proj2 (Nat.ltb_ge (Nat.add d k) d)) by lia.
      replace (Nat.add d k - d) with k by lia. reflexivity.
    Qed.

    (* block-matrix multiplication *)
    Lemma mmf_blk : forall X11 X12 X21 X22 Y11 Y12 Y21 Y22,
      eqm (Nat.add d d) (mmf (Nat.add d d) (blk X11 X12 X21 X22) (blk Y11 Y12 Y21 Y22))
        (blk (addf (mmf d X11 Y11) (mmf d X12 Y21)) (addf (mmf d X11 Y12) (mmf d X12 Y22))
             (addf (mmf d X21 Y11) (mmf d X22 Y21)) (addf (mmf d X21 Y12) (mmf d X22 Y22))).
    Proof.
      intros X11 X12 X21 X22 Y11 Y12 Y21 Y22 i j Hi Hj. unfold mmf at 1.
      rewrite (sumn_split_add co Ath).
      rewrite (sumn_ext co d (fun k => blk X11 X12 X21 X22 i k * blk Y11 Y12 Y21 Y22 k j)
                 (fun k => (if Nat.ltb i d then X11 i k else X21 (i - d) k)
                           * (if Nat.ltb j d then Y11 k j else Y12 k (j - d))))
        by (intros k Hk; rewrite blk_lo, blk_row_lo by assumption; reflexivity).
      rewrite (sumn_ext co d (fun k => blk X11 X12 X21 X22 i (Nat.add d k) * blk Y11 Y12 Y21 Y22 (Nat.add d k) j)
                 (fun k => (if Nat.ltb i d then X12 i k else X22 (i - d) k)
                           * (if Nat.ltb j d then Y21 k j else Y22 k (j - d))))
        by (intros k Hk; rewrite blk_hi, blk_row_hi; reflexivity).
      unfold blk, addf, mmf. destruct (Nat.ltb i d); destruct (Nat.ltb j d); reflexivity.
    Qed.
    Lemma adjf_blk : forall X11 X12 X21 X22,
      eqm (Nat.add d d) (adjf (blk X11 X12 X21 X22)) (blk (adjf X11) (adjf X21) (adjf X12) (adjf X22)).
    Proof.
      intros X11 X12 X21 X22 i j _ _. unfold adjf, trf, cjf, blk.
      destruct (Nat.ltb i d); destruct (Nat.ltb j d); reflexivity.
    Qed.
    Lemma mvf_blk : forall X11 X12 X21 X22 u v,
      eqv (Nat.add d d) (mvf (Nat.add d d) (blk X11 X12 X21 X22) (blkv u v))
        (blkv (addv (mvf d X11 u) (mvf d X12 v)) (addv (mvf d X21 u) (mvf d X22 v))).
    Proof.
      intros X11 X12 X21 X22 u v i Hi. unfold mvf at 1.
      rewrite (sumn_split_add co Ath).
      rewrite (sumn_ext co d (fun k => blk X11 X12 X21 X22 i k * blkv u v k)
                 (fun k => (if Nat.ltb i d then X11 i k else X21 (i - d) k) * u k)).
      2:{ intros k Hk. rewrite blk_lo by assumption. unfold blkv.
          rewrite (proj2 (Nat.ltb_lt k d)) by assumption. reflexivity. }
      rewrite (sumn_ext co d (fun k => blk X11 X12 X21 X22 i (Nat.add d k) * blkv u v (Nat.add d k))
                 (fun k => (if Nat.ltb i d then X12 i k else X22 (i - d) k) * v k)).
      2:{ intros k Hk. rewrite blk_hi. unfold blkv.
          rewrite (proj2 (Nat.ltb_ge (Nat.add d k) d)) by lia.
          replace (Nat.add d k - d) with k by lia. reflexivity. }
      unfold blkv, addv, mvf. destruct (Nat.ltb i d); reflexivity.
    Qed.
  End Blocks.
End MatF.
