(* C04 -- the Glynn/BBFG identity with multiplicities: sign vectors on r copies of the same row
   only matter through the number g of minus signs, and there are C(r,g) of them (Pascal), so
   the plain Glynn sum over the expanded rows is the sum over the box prod [0..r_i] with
   binomial weights; together with C04/GlynnPlain.v this proves [glynn_mult_statement]. *)
From Coq Require Import ZArith List Bool Lia ZifyBool Ring Permutation.
From PV Require Import Comb.Binom C04.PermModel C04.PermProofs C04.LoopProofs C04.GrayProofs C04.SumProofs
  C04.FinalProofs C04.LaplaceProofs C04.GlynnPlain.
Import ListNotations.
Local Close Scope Z_scope.
Local Open Scope nat_scope.

Section Mult.
Variable A : Type.
Variables (rO rI : A) (radd rmul rsub : A -> A -> A) (ropp : A -> A).
Hypothesis Rth : ring_theory rO rI radd rmul rsub ropp (@eq A).
Add Ring AringM : Rth.

Notation sumA' := (sumA A rO radd).
Notation ofZ' := (ofZ A rO rI radd rmul ropp).
Notation sgn' := (sgn A rI ropp).
Notation pw' := (pw A rI rmul).
Notation Gd' := (Gd A rI radd rmul rsub).
Notation permF' := (permF A rO rI radd rmul).
Notation two := (radd rI rI).

(* ---- finite sums *)
Lemma sumA_cons2 x l : sumA' (x :: l) = radd x (sumA' l).
Proof. reflexivity. Qed.

Lemma sumA_app2 : forall a b, sumA' (a ++ b) = radd (sumA' a) (sumA' b).
Proof.
  induction a as [|x a IH]; intros b.
  - change (sumA' b = radd rO (sumA' b)). ring.
  - cbn [app]. rewrite !sumA_cons2, IH. ring.
Qed.

Lemma sumA_add {X} (f g : X -> A) : forall l,
  sumA' (map (fun x => radd (f x) (g x)) l) = radd (sumA' (map f l)) (sumA' (map g l)).
Proof.
  induction l as [|x l IH]; [change (rO = radd rO rO); ring|].
  cbn [map]. rewrite !sumA_cons2, IH. ring.
Qed.

Lemma sumA_zero {X} : forall (l : list X), sumA' (map (fun _ => rO) l) = rO.
Proof. induction l as [|x l IH]; [reflexivity|]. cbn [map]. rewrite sumA_cons2, IH. ring. Qed.

Lemma sumA_swap {X Y} (f : X -> Y -> A) : forall la lb,
  sumA' (map (fun a => sumA' (map (fun b => f a b) lb)) la)
  = sumA' (map (fun b => sumA' (map (fun a => f a b) la)) lb).
Proof.
  induction la as [|a la IH]; intros lb.
  - cbn [map]. change (sumA' []) with rO. now rewrite sumA_zero.
  - cbn [map]. rewrite sumA_cons2, IH.
    rewrite <- sumA_add. f_equal.
Qed.

Lemma sumA_flat_map {X Y} (f : Y -> A) (h : X -> list Y) : forall l,
  sumA' (map f (flat_map h l)) = sumA' (map (fun x => sumA' (map f (h x))) l).
Proof.
  induction l as [|x l IH]; [reflexivity|].
  cbn [flat_map map]. rewrite map_app, sumA_app2, sumA_cons2, IH. reflexivity.
Qed.

(* ---- signs and integer coefficients *)
Definition sg (g : nat) : A := sgn' (Nat.odd g).
Definition cb (r g : nat) : A := ofZ' (binom r g).

Lemma sg_0 : sg 0 = rI.
Proof. reflexivity. Qed.

Lemma sg_S g : sg (S g) = ropp (sg g).
Proof.
  unfold sg. rewrite Nat.odd_succ, <- Nat.negb_odd. destruct (Nat.odd g); cbn; ring.
Qed.

Lemma sg_add a b : sg (a + b) = rmul (sg a) (sg b).
Proof.
  unfold sg. rewrite Nat.odd_add. destruct (Nat.odd a), (Nat.odd b); cbn; ring.
Qed.

Lemma ofZ_0 : ofZ' 0%Z = rO.
Proof. reflexivity. Qed.

Lemma ofZ_1 : ofZ' 1%Z = rI.
Proof. reflexivity. Qed.

Lemma cb_S_S r g : cb (S r) (S g) = radd (cb r g) (cb r (S g)).
Proof. unfold cb. rewrite binom_S_S. apply (ofZ_add A rO rI radd rmul rsub ropp Rth). Qed.

Lemma cb_r_0 r : cb r 0 = rI.
Proof. unfold cb. now rewrite binom_n_0. Qed.

Lemma cb_gt r : cb r (S r) = rO.
Proof. unfold cb. now rewrite binom_gt by lia. Qed.

Lemma sum_first (f : nat -> A) n :
  sumA' (map f (seq 0 (S n))) = radd (f 0) (sumA' (map (fun g => f (S g)) (seq 0 n))).
Proof. cbn [seq map]. rewrite sumA_cons2, <- seq_shift, map_map. reflexivity. Qed.

Lemma sum_last (f : nat -> A) n :
  sumA' (map f (seq 0 (S n))) = radd (sumA' (map f (seq 0 n))) (f n).
Proof.
  rewrite seq_S, map_app, sumA_app2. cbn [map Nat.add]. rewrite sumA_cons2.
  change (sumA' []) with rO. ring.
Qed.

(* Pascal's rule inside a signed sum *)
Lemma pascal_signed r (phi : nat -> A) :
  rsub (sumA' (map (fun g => rmul (rmul (sg g) (cb r g)) (phi g)) (seq 0 (S r))))
       (sumA' (map (fun g => rmul (rmul (sg g) (cb r g)) (phi (S g))) (seq 0 (S r))))
  = sumA' (map (fun g => rmul (rmul (sg g) (cb (S r) g)) (phi g)) (seq 0 (S (S r)))).
Proof.
  set (X := fun g => rmul (rmul (sg g) (cb r g)) (phi (S g))).
  set (Y := fun g => rmul (rmul (sg g) (cb r (S g))) (phi (S g))).
  rewrite (sum_first (fun g => rmul (rmul (sg g) (cb (S r) g)) (phi g)) (S r)).
  rewrite (map_ext (fun g => rmul (rmul (sg (S g)) (cb (S r) (S g))) (phi (S g)))
                   (fun g => radd (rmul (ropp rI) (X g)) (rmul (ropp rI) (Y g))))
    by (intros g; unfold X, Y; rewrite sg_S, cb_S_S; ring).
  rewrite sumA_add, !(sumA_scal A rO rI radd rmul rsub ropp Rth).
  rewrite (sum_last Y r).
  rewrite (sum_first (fun g => rmul (rmul (sg g) (cb r g)) (phi g)) r).
  rewrite (map_ext (fun g => rmul (rmul (sg (S g)) (cb r (S g))) (phi (S g)))
                   (fun g => rmul (ropp rI) (Y g)))
    by (intros g; unfold Y; rewrite sg_S; ring).
  rewrite (sumA_scal A rO rI radd rmul rsub ropp Rth).
  unfold Y at 3. rewrite cb_gt, !cb_r_0.
  fold X. unfold sg at 1 2. cbn [Nat.odd sgn]. ring.
Qed.

(* ---- r copies of the same row *)
Lemma Gd_repeat : forall r rho R u av,
  Gd' (repeat rho r ++ R) u av
  = sumA' (map (fun g => rmul (rmul (sg g) (cb r g))
                              (Gd' R (fun j => radd (u j) (rmul (ofZ' (Z.of_nat r - 2 * Z.of_nat g)) (rho j))) av))
               (seq 0 (S r))).
Proof.
  induction r as [|r IH]; intros rho R u av.
  - cbn [repeat app seq map]. rewrite sumA_cons2. change (sumA' []) with rO.
    rewrite cb_r_0, sg_0.
    rewrite (Gd_ext A rI radd rmul rsub R (fun j => radd (u j) (rmul (ofZ' (Z.of_nat 0 - 2 * Z.of_nat 0)) (rho j))) u)
      by (intros; cbn; ring).
    ring.
  - cbn [repeat app Gd]. rewrite !IH.
    rewrite <- (pascal_signed r (fun g => Gd' R (fun j => radd (u j)
                   (rmul (ofZ' (Z.of_nat (S r) - 2 * Z.of_nat g)) (rho j))) av)).
    f_equal; f_equal; apply map_ext; intros g; f_equal; apply Gd_ext; intros j.
    + replace (Z.of_nat (S r) - 2 * Z.of_nat g)%Z with ((Z.of_nat r - 2 * Z.of_nat g) + 1)%Z by lia.
      rewrite (ofZ_add A rO rI radd rmul rsub ropp Rth), ofZ_1. ring.
    + replace (Z.of_nat r - 2 * Z.of_nat g)%Z with ((Z.of_nat (S r) - 2 * Z.of_nat (S g)) + 1)%Z by lia.
      rewrite (ofZ_add A rO rI radd rmul rsub ropp Rth), ofZ_1. ring.
Qed.

(* ---- all groups: the column sums as functions, mirroring colsum_init *)
Fixpoint colf (u : nat -> A) (Mf : list (nat -> A)) (r g : list nat) : nat -> A :=
  match Mf, r, g with
  | rho :: Mf', ri :: r', gi :: g' =>
      colf (fun j => radd (u j) (rmul (ofZ' (Z.of_nat ri - 2 * Z.of_nat gi)) (rho j))) Mf' r' g'
  | _, _, _ => u
  end.

Theorem Gd_expand : forall Mf r u av, length Mf = length r ->
  Gd' (expand Mf r) u av
  = sumA' (map (fun g => rmul (rmul (sg (sum_nat g)) (ofZ' (binom_prod r g))) (pw' (colf u Mf r g) av)) (box r)).
Proof.
  induction Mf as [|rho Mf IH]; intros r u av Hlen.
  - destruct r; [|cbn in Hlen; lia]. cbn. unfold sg. cbn. ring.
  - destruct r as [|ri r]; [cbn in Hlen; lia|]. cbn in Hlen.
    cbn [expand]. rewrite Gd_repeat.
    cbn [box]. rewrite sumA_flat_map.
    rewrite (map_ext (fun g' => sumA' (map _ (map (fun gi => gi :: g') (seq 0 (S ri)))))
                     (fun g' => sumA' (map (fun gi => rmul (rmul (sg gi) (cb ri gi))
                        (rmul (rmul (sg (sum_nat g')) (ofZ' (binom_prod r g')))
                              (pw' (colf (fun j => radd (u j) (rmul (ofZ' (Z.of_nat ri - 2 * Z.of_nat gi)) (rho j))) Mf r g') av)))
                        (seq 0 (S ri))))).
    2:{ intros g'. rewrite map_map. f_equal. apply map_ext. intros gi.
        rewrite sum_nat_cons, sg_add, binom_prod_cons, (ofZ_mul A rO rI radd rmul rsub ropp Rth).
        cbn [colf]. unfold cb. ring. }
    rewrite <- sumA_swap. f_equal. apply map_ext. intros gi.
    rewrite (IH r _ av) by lia.
    now rewrite (sumA_scal A rO rI radd rmul rsub ropp Rth).
Qed.

End Mult.
