"""C04: defining sums computed exactly in Python (fractions / integers), generators for the
hafnian, Pfaffian and torontonian streams, and the comparison of those kernels.
Imported by harness/props/c04.py (not an implementation runner)."""
import itertools
import json
import math
from fractions import Fraction
from functools import lru_cache


# ------------------------------------------------------------------ Gaussian integers as pairs
def gmul(a, b):
    return (a[0] * b[0] - a[1] * b[1], a[0] * b[1] + a[1] * b[0])


def gadd(a, b):
    return (a[0] + b[0], a[1] + b[1])


def gscale(k, a):
    return (k * a[0], k * a[1])


def perm_ref(M, rows, cols):
    """permanent of M with row i repeated rows[i] times and column j repeated cols[j] times:
    sum over the bijections of the expanded matrix, organised as an expansion over the expanded
    rows with the remaining column multiplicities as state (exact)."""
    exp_rows = [i for i, r in enumerate(rows) for _ in range(r)]
    if len(exp_rows) != sum(cols):
        raise ValueError("totals differ")
    A = [[(int(x[0]), int(x[1])) for x in row] for row in M]
    memo = {}

    def f(pos, c):
        if pos == len(exp_rows):
            return (1, 0)
        key = (pos, c)
        if key in memo:
            return memo[key]
        i = exp_rows[pos]
        acc = (0, 0)
        for j, cj in enumerate(c):
            if cj:
                c2 = c[:j] + (cj - 1,) + c[j + 1:]
                acc = gadd(acc, gscale(cj, gmul(A[i][j], f(pos + 1, c2))))
        memo[key] = acc
        return acc

    v = f(0, tuple(cols))
    return (Fraction(v[0]), Fraction(v[1]))


def laplace_ref(M, rows, cols):
    """entry j = permanent with one copy of column j removed (None where cols[j] = 0);
    the kernel returns the single entry [1] when there is nothing to expand"""
    if len(M) == 0 or len(cols) == 0 or sum(rows) == 0 or sum(cols) == 0:
        return [(Fraction(1), Fraction(0))]
    out = []
    for j, cj in enumerate(cols):
        if cj == 0:
            out.append(None)
        else:
            c2 = list(cols)
            c2[j] -= 1
            out.append(perm_ref(M, rows, c2))
    return out


def haf_ref(M, occ, diag=None):
    """hafnian (diag None) / loop hafnian of the matrix expanded by the occupation numbers:
    sum over perfect matchings (with loops of weight diag[i])"""
    A = [[(int(x[0]), int(x[1])) for x in row] for row in M]
    D = None if diag is None else [(int(x[0]), int(x[1])) for x in diag]
    memo = {}

    def f(c):
        if sum(c) == 0:
            return (1, 0)
        if c in memo:
            return memo[c]
        i = next(k for k, x in enumerate(c) if x)
        c1 = c[:i] + (c[i] - 1,) + c[i + 1:]
        acc = (0, 0)
        if D is not None:
            acc = gmul(D[i], f(c1))
        for j, cj in enumerate(c1):
            if cj:
                c2 = c1[:j] + (cj - 1,) + c1[j + 1:]
                acc = gadd(acc, gscale(cj, gmul(A[i][j], f(c2))))
        memo[c] = acc
        return acc

    if sum(occ) % 2 and D is None:
        return (Fraction(0), Fraction(0))
    v = f(tuple(occ))
    return (Fraction(v[0]), Fraction(v[1]))


def pf_ref(M):
    n = len(M)
    if n % 2:
        return Fraction(0)

    def f(av):
        if not av:
            return 1
        i, rest = av[0], av[1:]
        s = 0
        for k, j in enumerate(rest):
            if M[i][j]:
                s += (-1) ** k * M[i][j] * f(rest[:k] + rest[k + 1:])
        return s

    return Fraction(f(tuple(range(n))))


def det_frac(B):
    n = len(B)
    B = [row[:] for row in B]
    d = Fraction(1)
    for k in range(n):
        p = next((i for i in range(k, n) if B[i][k] != 0), None)
        if p is None:
            return Fraction(0)
        if p != k:
            B[k], B[p] = B[p], B[k]
            d = -d
        d *= B[k][k]
        for i in range(k + 1, n):
            f = B[i][k] / B[k][k]
            if f:
                for j in range(k, n):
                    B[i][j] -= f * B[k][j]
    return d


def tor_terms(M, y=None):
    """per mode subset Z: (N-|Z|, det(I-A_Z), y_Z^T (I-A_Z)^{-1} y_Z) exactly (xpxp ordering)"""
    n = len(M) // 2
    out = []
    for k in range(n + 1):
        for Z in itertools.combinations(range(n), k):
            idx = [i for m in Z for i in (2 * m, 2 * m + 1)]
            B = [[(1 if i == j else 0) - M[i][j] for j in idx] for i in idx]
            d = det_frac(B)
            q = Fraction(0)
            if y is not None and idx:
                Bb = [B[a] + [y[idx[a]]] for a in range(len(idx))] + [[y[i] for i in idx] + [Fraction(0)]]
                q = -det_frac(Bb) / d
            out.append((n - k, d, q))
    return out


def tor_value(terms):
    """sum (-1)^(N-|Z|) exp(q/2) / sqrt(det): the only inexact step (float sqrt/exp of exact rationals,
    accumulated with fsum)"""
    return math.fsum(((-1) ** s) * math.exp(float(q) / 2) / math.sqrt(float(d)) for s, d, q in terms)


# ------------------------------------------------------------------ generators
def sym_gauss(rng, n, real_only=False):
    M = [[[0, 0] for _ in range(n)] for _ in range(n)]
    for i in range(n):
        for j in range(i, n):
            x = [rng.randint(-3, 3), 0 if real_only else rng.randint(-3, 3)]
            M[i][j] = x
            M[j][i] = list(x)
    return M


def gen_haf_cases(rng, thorough):
    cases = []
    n_each = 60 if thorough else 14
    occs_fixed = [[1, 1], [2, 2], [0, 2], [1, 1, 1, 1], [2, 0, 2], [3, 1], [0, 0], [1, 0], [1, 2], [4], [1, 1, 1, 1, 1, 1],
                  [2, 2, 2], [3, 3], [1, 3, 2, 0], [6, 0, 2], [2, 1, 1]]
    for t in range(n_each):
        if t < len(occs_fixed):
            occ = occs_fixed[t]
        else:
            d = rng.randint(1, 6)
            occ = [0] * d
            for _ in range(rng.randint(0, 8 if d > 3 else 10)):
                occ[rng.randrange(d)] += 1
        d = len(occ)
        M = sym_gauss(rng, d, rng.random() < 0.2)
        diag = [[rng.randint(-3, 3), rng.randint(-3, 3)] for _ in range(d)]
        for kind in ("haf", "lhaf"):
            cases.append({"kind": kind, "M": M, "occ": occ, "diag": diag, "prec": "d", "strided": t % 3 == 1,
                          "via": "connector" if t % 4 == 0 else "module"})
            if t % 2 == 0:
                cases.append({"kind": kind, "M": M, "occ": occ, "diag": diag, "prec": "f", "strided": t % 3 == 2})
    # plain hafnians of dimension up to 8 (all occupations 1) and a high-repetition pattern
    for n in (2, 4, 6, 8):
        M = sym_gauss(rng, n)
        diag = [[rng.randint(-2, 2), rng.randint(-2, 2)] for _ in range(n)]
        for kind in ("haf", "lhaf"):
            cases.append({"kind": kind, "M": M, "occ": [1] * n, "diag": diag, "prec": "d", "strided": False})
    for occ in ([10, 10], [7, 9, 4], [20, 0], [12]) if thorough else ([6, 6], [5, 4, 3]):
        M = sym_gauss(rng, len(occ), True)
        diag = [[rng.randint(-1, 1), 0] for _ in occ]
        for kind in ("haf", "lhaf"):
            cases.append({"kind": kind, "M": M, "occ": occ, "diag": diag, "prec": "d", "strided": False, "cls": "high"})
    # batched variants: entry i is the value with occupation[-1] = i
    for t in range(12 if thorough else 4):
        d = rng.randint(2, 4)
        occ = [rng.randint(0, 3) for _ in range(d)]
        occ[-1] = 0
        M = sym_gauss(rng, d)
        diag = [[rng.randint(-2, 2), rng.randint(-2, 2)] for _ in range(d)]
        cut = rng.randint(1, 7)
        cases.append({"kind": "haf_batch", "M": M, "occ": occ, "cutoff": cut, "prec": "d", "strided": False})
        cases.append({"kind": "lhaf_batch", "M": M, "occ": occ, "diag": diag, "cutoff": cut, "prec": "d", "strided": False})
    return cases


def gen_real_cases(rng, thorough):
    cases = []
    # Pfaffian: integer antisymmetric matrices, n <= 8 (odd n and singular leading blocks included)
    for t in range(80 if thorough else 20):
        n = [0, 1, 2, 3, 4, 4, 6, 6, 8, 8, 5, 7][t % 12]
        M = [[0] * n for _ in range(n)]
        for i in range(n):
            for j in range(i + 1, n):
                x = rng.randint(-3, 3)
                if t % 5 == 3 and j == i + 1 and i % 2 == 0:
                    x = 0          # zero on the first super-diagonal: pivoting needed
                M[i][j], M[j][i] = x, -x
        for prec in ("d", "f"):
            cases.append({"kind": "pf", "M": M, "prec": prec, "strided": t % 3 == 1, "via": "connector" if t % 4 == 0 else "module"})
    # torontonians: symmetric dyadic matrices with I - A diagonally dominant (positive definite)
    for t in range(40 if thorough else 12):
        nm = [0, 1, 2, 2, 3, 3, 4, 4, 1, 2, 3, 4][t % 12]
        n = 2 * nm
        den = 64
        M = [[Fraction(0)] * n for _ in range(n)]
        for i in range(n):
            for j in range(i, n):
                lim = 24 if i == j else max(1, 30 // max(1, n - 1))
                x = Fraction(rng.randint(-lim, lim), den)
                M[i][j] = M[j][i] = x
        y = [Fraction(rng.randint(-32, 32), 32) for _ in range(n)]
        Mf = [[float(x) for x in row] for row in M]
        for prec in ("d", "f"):
            cases.append({"kind": "tor", "M": Mf, "prec": prec, "strided": t % 3 == 1})
            cases.append({"kind": "ltor", "M": Mf, "y": [float(v) for v in y], "prec": prec, "strided": t % 3 == 2})
    return cases


def _close_c(got, exact, tol):
    if any(math.isnan(x) or math.isinf(x) for x in got):
        return False
    return abs(Fraction(got[0]) - exact[0]) <= tol and abs(Fraction(got[1]) - exact[1]) <= tol


def check_other_kernels(chk, impl, haf_cases, real_cases, plain_exe, san_exe, run_native, corr_broken, IMPORTS, parse_all_ints, san_key):
    from common import clist, coq_eval_parallel, cz
    notes = chk.notes
    EPS = {"d": 2.0 ** -52, "f": 2.0 ** -23}

    def zi_m(M):
        return clist(M, lambda row: clist(row, lambda x: "(%s,%s)" % (cz(x[0]), cz(x[1]))))

    def nat_list(v):
        return "[" + "; ".join("%d%%nat" % x for x in v) + "]"

    # ------------------------------------------------ hafnians: model (Coq definition) on small cases, reference everywhere
    coq_items, coq_idx, item_keys = [], [], []
    for i, c in enumerate(haf_cases):
        if c["kind"] in ("haf", "lhaf") and sum(c["occ"]) <= 8 and c["prec"] == "d":
            if c["kind"] == "haf":
                coq_items.append("Eval vm_compute in zi_list (haf_zi %s %s)." % (zi_m(c["M"]), nat_list(c["occ"])))
            else:
                coq_items.append("Eval vm_compute in zi_list (lhaf_zi %s %s %s)." % (
                    zi_m(c["M"]), clist(c["diag"], lambda x: "(%s,%s)" % (cz(x[0]), cz(x[1]))), nat_list(c["occ"])))
            coq_idx.append(i)
            item_keys.append(("haf", i))
    # Pfaffian and torontonian model values
    pf_idx, tor_idx = [], []
    for i, c in enumerate(real_cases):
        if c["prec"] != "d":
            continue
        if c["kind"] == "pf":
            coq_items.append("Eval vm_compute in [pf_z %s]." % clist(c["M"], lambda r: clist(r)))
            pf_idx.append(i)
            item_keys.append(("pf", i))
        elif len(c["M"]) <= 6:
            def q(x):
                f = Fraction(x)
                return "(%s # %d)" % (cz(f.numerator), f.denominator)
            y = c.get("y") or [0.0] * len(c["M"])
            coq_items.append("Eval vm_compute in enc_tor (tor_q %s %s)." % (clist(c["M"], lambda r: clist(r, q)), clist(y, q)))
            tor_idx.append(i)
            item_keys.append(("tor", i))
    nch = 4
    bodies = [IMPORTS + "\n".join(coq_items[k::nch]) + "\n" for k in range(nch)]
    outs = coq_eval_parallel("c04_defs", bodies, timeout=1800, jobs=4)
    groups = [None] * len(coq_items)
    for k, o in enumerate(outs):
        g = parse_all_ints(o)
        if len(g) != len(coq_items[k::nch]):
            raise RuntimeError("definition output: %d groups for %d items" % (len(g), len(coq_items[k::nch])))
        for t, ints in enumerate(g):
            groups[k + t * nch] = ints
    assert len(item_keys) == len(coq_items)
    model = {key: ints for key, ints in zip(item_keys, groups)}

    # ------------------------------------------------ hafnian family
    n_eval = n_nt = 0
    distinct = set()
    samples = []
    unsupported_f32 = set()
    for i, (c, r) in enumerate(zip(haf_cases, impl["haf"])):
        kind = c["kind"]
        call = {"haf": "hafnian_with_reduction", "lhaf": "loop_hafnian_with_reduction",
                "haf_batch": "hafnian_with_reduction_batch", "lhaf_batch": "loop_hafnian_with_reduction_batch"}[kind]
        wit = {"call": "piquasso._math.hafnian.%s" % call, "matrix": c["M"], "occupation_numbers": c["occ"],
               "diagonal": c.get("diag") if "l" == kind[0] else None, "cutoff": c.get("cutoff"), "precision": c["prec"],
               "strided": c.get("strided"), "via": c.get("via")}
        diag = c.get("diag") if kind.startswith("lhaf") else None
        if kind in ("haf", "lhaf"):
            refs = [haf_ref(c["M"], c["occ"], diag)]
        else:
            refs = []
            for k in range(c["cutoff"]):
                occ = list(c["occ"])
                occ[-1] += k
                refs.append(haf_ref(c["M"], occ, diag))
        n_eval += 1
        nt = len(c["occ"]) >= 4 or max(c["occ"] + [0]) >= 2
        if nt:
            distinct.add((kind, json.dumps(c["M"]), tuple(c["occ"])))
        if ("haf", i) in model:
            mv = model[("haf", i)]
            if (Fraction(mv[0]), Fraction(mv[1])) != refs[0]:
                corr_broken.append("Coq %s definition differs from the Python defining sum at occ=%s" % (kind, c["occ"]))
        if "err" in r and c["prec"] == "f" and "TypingError" in r["err"]:
            unsupported_f32.add(call)
            continue
        if "err" in r:
            chk.violation("C04:%s:exception" % call, "%s raised %s" % (call, r["err"][:120]), dict(wit, error=r["err"], tb=r.get("tb")))
            continue
        got = [r["v"]] if kind in ("haf", "lhaf") else r["v"]
        # magnitude scale: hafnian of the absolute values
        absM = [[[math.hypot(*x), 0] for x in row] for row in c["M"]]
        absD = None if diag is None else [[math.hypot(*x), 0] for x in diag]
        bad = None
        if len(got) != len(refs):
            bad = "length %d != %d" % (len(got), len(refs))
        else:
            for k, (gv, rv) in enumerate(zip(got, refs)):
                n = sum(c["occ"]) + (k if len(refs) > 1 else 0)
                # the power-trace algorithm has addends of the size of the hafnian of |A| times 2^(n/2)
                occ = list(c["occ"])
                if len(refs) > 1:
                    occ[-1] += k
                S = float(_abs_haf(absM, occ, absD))
                base = 1e-9 if c["prec"] == "d" else 2e-4
                tol = base * (1 + float(abs(rv[0]) + abs(rv[1]))) + 64 * max(1, n) * EPS[c["prec"]] * S * 2 ** (n / 2.0)
                if not _close_c(gv, rv, tol):
                    bad = "entry %d: got %s, defining sum %s" % (k, gv, [float(rv[0]), float(rv[1])])
                    break
        if bad:
            chk.violation("C04:%s:value:%s" % (call, c["prec"]), "%s differs from the sum over matchings: %s" % (call, bad),
                          dict(wit, returned=got, expected=[[float(a), float(b)] for a, b in refs]))
        elif len(samples) < 2 and nt:
            samples.append({"call": call, "occ": c["occ"], "got": got[:2], "exact": [str(refs[0][0]), str(refs[0][1])]})
    for call in sorted(unsupported_f32):
        notes.append("%s does not accept complex64 input (numba TypingError: complex64/complex128 unification); complex64 is treated as an unsupported precision for it, complex128 is checked" % call)
    chk.stream("hafnian / loop hafnian with reduction (+ batched) vs the sum over matchings (Python fractions; Coq haf_def/lhaf_def agree exactly on the cases with total <= 8)",
               n_eval, len(distinct), samples=samples, kind="search")

    # ------------------------------------------------ Pfaffian / torontonians: fresh native + shipped
    lines = []
    for c in real_cases:
        toks = [c["kind"], c["prec"], str(len(c["M"]))] + [repr(float(x)) for row in c["M"] for x in row]
        if c["kind"] == "ltor":
            toks += [repr(float(x)) for x in c["y"]]
        lines.append(" ".join(toks))
    nat_out, _ = run_native(plain_exe, lines)
    san_sel = [i for i, c in enumerate(real_cases) if c["prec"] == "d"]
    san_out, san_err = run_native(san_exe, [lines[i] for i in san_sel], san=True)
    san = {i: (o, e) for i, o, e in zip(san_sel, san_out, san_err)}
    n_eval = 0
    distinct = set()
    samples = []
    shipped_div = 0
    for i, (c, r) in enumerate(zip(real_cases, impl["real"])):
        kind = c["kind"]
        fn = {"pf": "pfaffian_cpp", "tor": "torontonian_cpp", "ltor": "loop_torontonian_cpp"}[kind]
        wit = {"kernel": fn, "matrix": c["M"], "displacement": c.get("y"), "precision": c["prec"], "native_line": lines[i]}
        n = len(c["M"])
        n_eval += 1
        if kind == "pf":
            exact = pf_ref(c["M"])
            ref = float(exact)
            S = float(pf_ref_abs(c["M"]))
            if ("pf", i) in model and Fraction(model[("pf", i)][0]) != exact:
                corr_broken.append("Coq pf_def differs from the Python expansion at %s" % c["M"])
            nt = n >= 4
        else:
            Mq = [[Fraction(x) for x in row] for row in c["M"]]
            yq = [Fraction(x) for x in c["y"]] if kind == "ltor" else None
            terms = tor_terms(Mq, yq)
            ref = tor_value(terms)
            S = math.fsum(abs(math.exp(float(q) / 2) / math.sqrt(float(d))) for s, d, q in terms)
            if ("tor", i) in model:
                ints = model[("tor", i)]
                mt = sorted((ints[k], Fraction(ints[k + 1], ints[k + 2]), Fraction(ints[k + 3], ints[k + 4])) for k in range(0, len(ints), 5))
                pt = sorted((s, d, -q * d) for s, d, q in terms)
                if kind == "tor":
                    mt = [(s, d) for s, d, _ in mt]
                    pt = [(s, d) for s, d, _ in pt]
                if mt != pt:
                    corr_broken.append("Coq tor_data differs from the Python subset determinants at n=%d" % n)
            nt = n >= 4
        if nt:
            distinct.add((kind, json.dumps(c["M"])))
        base = 1e-9 if c["prec"] == "d" else 2e-4
        tol = base * (1 + abs(ref)) + 256 * max(1, n) ** 2 * EPS[c["prec"]] * S
        o = nat_out[i].split()
        got = float(o[1]) if o[0] == "ok" else None
        ub = san.get(i, (None, []))[1]
        if ub:
            chk.violation("C04:%s" % san_key(ub), "undefined behaviour in the native kernel %s (sanitizer): %s" % (fn, ub[-1][-200:]), dict(wit, ubsan=ub[:5]))
        ok = got is not None and not math.isnan(got) and abs(got - ref) <= tol
        if not ok:
            chk.violation("C04:%s:value:%s" % (fn, c["prec"]), "%s differs from its defining sum" % fn, dict(wit, returned=got, expected=ref, tolerance=tol))
        if "err" in r:
            notes.append("shipped %s entry point raised %s" % (kind, r["err"][:100]))
        else:
            if not (abs(r["v"] - ref) <= tol) and ok:
                shipped_div += 1
            if not r.get("input_unchanged", True) and kind != "pf":
                chk.violation("C04:piquasso._math.torontonian.%s:input-mutated" % kind, "the entry point changed the caller's array", wit)
        if len(samples) < 2 and nt:
            samples.append({"kernel": fn, "n": n, "native": got, "defining_sum": ref})
    if shipped_div:
        notes.append("shipped pfaffian/torontonian binaries differ from the defining sums where the fresh build is right: %d cases" % shipped_div)
    chk.stream("Pfaffian (first-row expansion, exact), torontonian / loop torontonian (subset sums with exact determinants): fresh native build + shipped binary",
               n_eval, len(distinct), samples=samples, kind="search",
               note="Coq pf_def / tor_data agree exactly with the Python references on every float64 case (torontonian: <= 3 modes)")


def _abs_haf(absM, occ, absD):
    """hafnian of the absolute values (floats are fine here: only a magnitude scale)"""
    A = [[x[0] for x in row] for row in absM]
    D = None if absD is None else [x[0] for x in absD]

    @lru_cache(maxsize=None)
    def f(c):
        if sum(c) == 0:
            return 1.0
        i = next(k for k, x in enumerate(c) if x)
        c1 = c[:i] + (c[i] - 1,) + c[i + 1:]
        acc = 0.0
        if D is not None:
            acc = D[i] * f(c1)
        for j, cj in enumerate(c1):
            if cj:
                acc += cj * A[i][j] * f(c1[:j] + (cj - 1,) + c1[j + 1:])
        return acc

    if sum(occ) % 2 and D is None:
        return 0.0
    return f(tuple(occ))


def pf_ref_abs(M):
    return pf_like_abs([[abs(x) for x in row] for row in M])


def pf_like_abs(M):
    n = len(M)
    if n % 2:
        return Fraction(0)

    def f(av):
        if not av:
            return 1
        i, rest = av[0], av[1:]
        return sum(M[i][j] * f(rest[:k] + rest[k + 1:]) for k, j in enumerate(rest) if M[i][j])

    return Fraction(f(tuple(range(n))))
