(* C03 - theorems about the executor model (ExecModel.v): shot accounting for every
   program, every oracle history and every shots >= 1. *)
From Coq Require Import ZArith QArith Qround Qfield List Bool Arith Lia Permutation.
From PV Require Import C03.ExecModel.
Import ListNotations.
Open Scope Z_scope.

(* ------------------------------------------------------------------ arithmetic *)
Lemma sumZ_app l1 l2 : sumZ (l1 ++ l2) = sumZ l1 + sumZ l2.
Proof. induction l1; simpl; lia. Qed.

Lemma sumQ_app l1 l2 : (sumQ (l1 ++ l2) == sumQ l1 + sumQ l2)%Q.
Proof. induction l1; simpl. ring. rewrite IHl1. ring. Qed.

Lemma Qtrunc_floor q : (0 <= q)%Q -> Qtrunc q = Qfloor q.
Proof.
  destruct q as [n d]. unfold Qle, Qtrunc, Qfloor; simpl. intros H.
  apply Z.quot_div_nonneg; lia.
Qed.

Lemma inject_Z_nonneg k : 0 <= k -> (0 <= inject_Z k)%Q.
Proof. unfold Qle; simpl; lia. Qed.

Lemma Qtrunc_int (q : Q) (k : Z) : 0 <= k -> (q == inject_Z k)%Q -> Qtrunc q = k.
Proof.
  intros Hk E. rewrite Qtrunc_floor.
  - rewrite E. apply Qfloor_Z.
  - rewrite E. now apply inject_Z_nonneg.
Qed.

Lemma Qred_inject_Z c : Qred (inject_Z c) = inject_Z c.
Proof.
  unfold Qred, inject_Z.
  generalize (Z.ggcd_gcd c 1) (Z.ggcd_correct_divisors c 1).
  destruct (Z.ggcd c 1) as (g,(aa,bb)). simpl. intros Hg [H1 H2].
  rewrite Z.gcd_1_r in Hg. subst g. rewrite Z.mul_1_l in H1, H2. subst. reflexivity.
Qed.

Lemma inject_Z_neq0 N : N <> 0 -> ~ (inject_Z N == 0)%Q.
Proof. unfold Qeq; simpl; lia. Qed.

(* the key step: int(Fraction(k, N) * N) = k; a float frequency would not give this *)
Lemma shots_of_count N f k : 0 < N -> 0 <= k -> (f == frac k N)%Q -> shots_of N f = k.
Proof.
  intros HN Hk E. unfold shots_of. apply Qtrunc_int; auto.
  rewrite E. unfold frac. field. apply inject_Z_neq0; lia.
Qed.

Lemma frac_chain c k N : k <> 0 -> N <> 0 -> (frac c k * frac k N == frac c N)%Q.
Proof. intros. unfold frac. field. split; apply inject_Z_neq0; auto. Qed.

Lemma frac_plus a b N : (frac (a + b) N == frac a N + frac b N)%Q.
Proof.
  unfold frac. rewrite inject_Z_plus. unfold Qdiv. ring.
Qed.

Lemma frac_same N : N <> 0 -> (frac N N == 1)%Q.
Proof. intros. unfold frac. field. now apply inject_Z_neq0. Qed.

(* ------------------------------------------------------------------ the invariant *)
(* every frequency is k/N with an integer k >= 1, and the k sum to N *)
Definition has_count (N : Z) (f : Q) (k : Z) : Prop := 1 <= k /\ (f == frac k N)%Q.
Definition counts_ok (N : Z) (fs : list Q) : Prop :=
  exists ks, Forall2 (has_count N) fs ks /\ sumZ ks = N.

Lemma has_counts_sumQ N fs ks :
  Forall2 (has_count N) fs ks -> (sumQ fs == frac (sumZ ks) N)%Q.
Proof.
  induction 1; simpl.
  - unfold frac, Qdiv. simpl. ring.
  - destruct H as [_ E]. rewrite frac_plus, IHForall2, E. ring.
Qed.

Lemma counts_ok_sum1 N fs : N <> 0 -> counts_ok N fs -> (sumQ fs == 1)%Q.
Proof.
  intros HN (ks & F & S). rewrite (has_counts_sumQ _ _ _ F), S. now apply frac_same.
Qed.

Lemma has_counts_nonneg N fs ks : Forall2 (has_count N) fs ks -> Forall (fun k => 1 <= k) ks.
Proof. induction 1; constructor; auto. apply H. Qed.

Lemma Forall2_app_inv_both {A B} (P : A -> B -> Prop) l1 l2 k1 k2 :
  Forall2 P l1 k1 -> Forall2 P l2 k2 -> Forall2 P (l1 ++ l2) (k1 ++ k2).
Proof. intros. now apply Forall2_app. Qed.

Lemma has_count_scale N k bf fs cs :
  k <> 0 -> N <> 0 -> (bf == frac k N)%Q ->
  Forall2 (has_count k) fs cs -> Forall2 (has_count N) (map (fun f => f * bf)%Q fs) cs.
Proof.
  intros Hk HN E. induction 1 as [|f c fs cs [Hc Ec] F IH]; simpl; constructor; auto.
  split; auto. rewrite Ec, E. now apply frac_chain.
Qed.

Section ExecutorProofs.
  Variables (St Ins Out : Type).
  Variable modes_of : Ins -> list nat.
  Variable is_meas : Ins -> bool.
  Variable none_ok : Ins -> bool.
  Variable cond_of : Ins -> list Out -> option bool.
  Variable step : St -> Ins -> list nat -> list Out -> option Z -> res (list (sub St Out)).

  Notation branch := (branch St Out).
  Notation apply_branch := (apply_branch St Ins Out is_meas cond_of step).
  Notation apply_all := (apply_all St Ins Out is_meas cond_of step).
  Notation apply_instruction := (apply_instruction St Ins Out is_meas none_ok cond_of step).
  Notation exec := (exec St Ins Out modes_of is_meas none_ok cond_of step).
  Notation execute := (execute St Ins Out modes_of is_meas none_ok cond_of step).

  (* A well-formed oracle: asked for k >= 1 shots it answers with frequencies c_i/k,
     c_i >= 1 integers summing to k (gates: one branch with frequency 1 = k/k).  This is the
     only thing assumed about the simulation steps; it is checked on every recorded call
     of the correspondence run. *)
  Definition wf_step : Prop :=
    forall s i ms o k subs, 1 <= k -> step s i ms o (Some k) = Ok subs ->
                            counts_ok k (map s_freq subs).

  Hypothesis step_wf : wf_step.

  Lemma apply_branch_counts i ms N b k bs' :
    0 < N -> has_count N (b_freq b) k ->
    apply_branch i ms (Some N) b = Ok bs' ->
    exists ks, Forall2 (has_count N) (map b_freq bs') ks /\ sumZ ks = k.
  Proof.
    intros HN [Hk E] H. unfold ExecModel.apply_branch in H.
    destruct (cond_of i (b_out b)) as [[|]|]; try discriminate.
    - rewrite (shots_of_count N (b_freq b) k) in H by (auto; lia).
      destruct (step (b_state b) i ms (b_out b) (Some k)) as [subs|] eqn:Es; try discriminate.
      inversion H; subst bs'; clear H.
      destruct (step_wf _ _ _ _ _ _ Hk Es) as (cs & F & S).
      exists cs. split; auto.
      rewrite map_map. simpl.
      rewrite <- (map_map s_freq (fun f => f * b_freq b)%Q).
      apply has_count_scale with (k := k); auto; lia.
    - inversion H; subst. exists [k]. split; simpl; try lia. constructor; auto. split; auto.
  Qed.

  Lemma apply_all_counts i ms N bs ks bs' :
    0 < N -> Forall2 (has_count N) (map b_freq bs) ks ->
    apply_all i ms (Some N) bs = Ok bs' ->
    exists ks', Forall2 (has_count N) (map b_freq bs') ks' /\ sumZ ks' = sumZ ks.
  Proof.
    intros HN. revert ks bs'. induction bs as [|b r IH]; intros ks bs' F H; simpl in *.
    - inversion H; subst. inversion F; subst. exists []. split; auto.
    - inversion F as [|f k fs ks0 Hb Fr]; subst.
      destruct (apply_branch i ms (Some N) b) as [l1|] eqn:E1; try discriminate.
      destruct (apply_all i ms (Some N) r) as [l2|] eqn:E2; try discriminate.
      inversion H; subst bs'; clear H.
      destruct (apply_branch_counts _ _ _ _ _ _ HN Hb E1) as (k1 & F1 & S1).
      destruct (IH _ _ Fr eq_refl) as (k2 & F2 & S2).
      exists (k1 ++ k2). rewrite map_app, sumZ_app. split.
      + now apply Forall2_app.
      + simpl. lia.
  Qed.

  Lemma exec_counts prog N active bs act' bs' :
    0 < N -> counts_ok N (map b_freq bs) ->
    exec prog (Some N) active bs = Ok (act', bs') ->
    counts_ok N (map b_freq bs').
  Proof.
    intros HN. revert active bs. induction prog as [|i rest IH]; intros active bs C H; simpl in H.
    - inversion H; subst; auto.
    - destruct (forallb _ _); try discriminate.
      destruct (ExecModel.apply_all _ _ _ _ _ _ _ _ _ bs) as [bs1|] eqn:E; try discriminate.
      destruct C as (ks & F & S).
      destruct (apply_all_counts _ _ _ _ _ _ HN F E) as (ks' & F' & S').
      eapply IH; eauto. exists ks'. split; auto. lia.
  Qed.

  (* ---- DESIGN C03 theorem 2 *)
  Theorem shots_invariant prog N s0 d act bs :
    1 <= N -> execute prog (Some N) s0 d = Ok (act, bs) ->
    counts_ok N (map b_freq bs) /\ (sumQ (map b_freq bs) == 1)%Q.
  Proof.
    intros HN H. unfold ExecModel.execute in H.
    destruct (negb (validate_active _ _ _ _ _)); [discriminate|].
    destruct (negb (shots_none_supported _ _ _ _ _)); [discriminate|].
    assert (C : counts_ok N (map b_freq bs)).
    { eapply exec_counts; eauto; try lia.
      exists [N]. split; simpl; try lia. constructor; auto. split; auto.
      symmetry. apply frac_same. lia. }
    split; auto. apply (counts_ok_sum1 N); auto. lia.
  Qed.

  (* ---- theorem 3: Result.samples has exactly N entries, whatever the shuffle does *)
  Lemma samples_pre_length N (bs : list branch) ks :
    0 < N -> Forall2 (has_count N) (map b_freq bs) ks ->
    length (samples_pre St Out N bs) = Z.to_nat (sumZ ks).
  Proof.
    intros HN. revert ks. induction bs as [|b r IH]; intros ks F; simpl in *.
    - inversion F; subst; reflexivity.
    - inversion F as [|f k fs ks0 Hb Fr]; subst. simpl.
      rewrite app_length, repeat_length, (IH _ Fr).
      destruct Hb as [Hk E]. rewrite (shots_of_count N _ k) by (auto; lia).
      pose proof (has_counts_nonneg _ _ _ Fr) as P.
      assert (0 <= sumZ ks0). { clear -P. induction P; simpl; lia. }
      lia.
  Qed.

  Theorem samples_length prog N s0 d act bs shuffled :
    1 <= N -> execute prog (Some N) s0 d = Ok (act, bs) ->
    Permutation (samples_pre St Out N bs) shuffled ->
    length shuffled = Z.to_nat N.
  Proof.
    intros HN H P. destruct (shots_invariant _ _ _ _ _ _ HN H) as [(ks & F & S) _].
    rewrite <- (Permutation_length P). rewrite (samples_pre_length N bs ks) by (auto; lia). now rewrite S.
  Qed.

  (* every sample is the outcome tuple of a branch *)
  Theorem samples_are_branch_outcomes N bs shuffled o :
    Permutation (samples_pre St Out N bs) shuffled -> In o shuffled ->
    exists b, In b bs /\ b_out b = o.
  Proof.
    intros P Hin. apply (Permutation_in _ (Permutation_sym P)) in Hin.
    unfold samples_pre in Hin. apply in_flat_map in Hin. destruct Hin as (b & Hb & Hr).
    apply repeat_spec in Hr. eauto.
  Qed.

  (* ---- theorem 4: the counts *)
  Variable key_eqb : list Out -> list Out -> bool.
  Notation get_counts := (get_counts St Out key_eqb).
  Notation get_counts_overwrite := (get_counts_overwrite St Out key_eqb).
  Notation dict_add := (dict_add Out key_eqb).

  Definition values (d : list (list Out * Z)) : list Z := map snd d.

  Lemma dict_add_sum k v d : sumZ (values (dict_add k v d)) = sumZ (values d) + v.
  Proof.
    induction d as [|[k' v'] r IH]; simpl; try lia.
    destruct (key_eqb k' k); simpl; unfold values in *; lia.
  Qed.

  Lemma get_counts_sum_shots N (bs : list branch) :
    sumZ (values (get_counts N bs)) = sumZ (map (fun b => shots_of N (b_freq b)) bs).
  Proof.
    unfold ExecModel.get_counts.
    assert (G : forall d, sumZ (values (fold_left (fun d b => dict_add (b_out b) (shots_of N (b_freq b)) d) bs d))
                          = sumZ (values d) + sumZ (map (fun b => shots_of N (b_freq b)) bs)).
    { induction bs as [|b r IH]; intros d; simpl; try lia. rewrite IH, dict_add_sum. lia. }
    rewrite G. simpl. lia.
  Qed.

  Lemma shots_sum N (bs : list branch) ks :
    0 < N -> Forall2 (has_count N) (map b_freq bs) ks ->
    sumZ (map (fun b => shots_of N (b_freq b)) bs) = sumZ ks.
  Proof.
    intros HN. revert ks. induction bs as [|b r IH]; intros ks F; simpl in *; inversion F; subst; simpl; auto.
    destruct H1 as [Hk E]. rewrite (shots_of_count N _ y) by (auto; lia). rewrite (IH _ H3). reflexivity.
  Qed.

  (* the counts of the (repaired) get_counts sum to N, for every program and history *)
  Theorem counts_sum prog N s0 d act bs :
    1 <= N -> execute prog (Some N) s0 d = Ok (act, bs) ->
    sumZ (values (get_counts N bs)) = N.
  Proof.
    intros HN H. destruct (shots_invariant _ _ _ _ _ _ HN H) as [(ks & F & S) _].
    rewrite get_counts_sum_shots, (shots_sum N bs ks); auto. lia.
  Qed.

  (* every count is positive: no outcome is listed with zero occurrences *)
  (* the overwriting get_counts is right when no two branches carry the same outcome *)
  Hypothesis key_eqb_sound : forall a b, key_eqb a b = true -> a = b.
  Notation dict_set := (dict_set Out key_eqb).

  Lemma dict_set_fresh (k : list Out) (v : Z) d :
    ~ In k (map fst d) -> dict_set k v d = d ++ [(k, v)].
  Proof.
    induction d as [|[k' v'] r IH]; simpl; intros H; auto.
    destruct (key_eqb k' k) eqn:E.
    - apply key_eqb_sound in E. tauto.
    - rewrite IH; auto.
  Qed.

  Lemma overwrite_fold_nodup N (bs : list branch) d :
    NoDup (map fst d ++ map b_out bs) ->
    fold_left (fun d b => dict_set (b_out b) (shots_of N (b_freq b)) d) bs d
    = d ++ map (fun b => (b_out b, shots_of N (b_freq b))) bs.
  Proof.
    revert d. induction bs as [|b r IH]; intros d ND; simpl.
    - now rewrite app_nil_r.
    - simpl in ND. rewrite dict_set_fresh.
      + rewrite IH. now rewrite <- app_assoc.
        rewrite map_app. simpl. rewrite <- app_assoc. simpl. exact ND.
      + apply NoDup_remove_2 in ND. intros Hin. apply ND. apply in_or_app. now left.
  Qed.

  Theorem counts_sum_overwrite_distinct_outcomes prog N s0 d act bs :
    1 <= N -> execute prog (Some N) s0 d = Ok (act, bs) ->
    NoDup (map b_out bs) ->
    sumZ (values (get_counts_overwrite N bs)) = N.
  Proof.
    intros HN H ND. destruct (shots_invariant _ _ _ _ _ _ HN H) as [(ks & F & S) _].
    unfold ExecModel.get_counts_overwrite. rewrite overwrite_fold_nodup by (simpl; auto).
    simpl. unfold values. rewrite map_map. simpl.
    rewrite (shots_sum N bs ks); auto. lia.
  Qed.

  (* ---- theorem 5 (accounting part): if every oracle answer is a distribution
     (frequencies sum to 1) the branch weights sum to 1 -- for shots = None as well *)
  Definition normalised_step : Prop :=
    forall s i ms o k subs, step s i ms o k = Ok subs -> (sumQ (map s_freq subs) == 1)%Q.

  Lemma sumQ_scale (f : Q) (l : list Q) : (sumQ (map (fun x => x * f) l) == sumQ l * f)%Q.
  Proof. induction l; simpl. ring. rewrite IHl. ring. Qed.

  Lemma apply_all_weight i ms shots bs bs' :
    normalised_step -> apply_all i ms shots bs = Ok bs' ->
    (sumQ (map b_freq bs') == sumQ (map b_freq bs))%Q.
  Proof.
    intros NS. revert bs'. induction bs as [|b r IH]; intros bs' H; simpl in *.
    - inversion H; subst. reflexivity.
    - destruct (apply_branch i ms shots b) as [l1|] eqn:E1; try discriminate.
      destruct (apply_all i ms shots r) as [l2|] eqn:E2; try discriminate.
      inversion H; subst bs'; clear H.
      rewrite map_app, sumQ_app, (IH _ eq_refl).
      apply Qplus_comp; try reflexivity.
      unfold ExecModel.apply_branch in E1.
      destruct (cond_of i (b_out b)) as [[|]|]; try discriminate.
      + destruct (step _ _ _ _ _) as [subs|] eqn:Es; try discriminate.
        inversion E1; subst l1. rewrite map_map. simpl.
        rewrite <- (map_map s_freq (fun x => x * b_freq b)%Q), sumQ_scale, (NS _ _ _ _ _ _ Es). ring.
      + inversion E1; subst. simpl. ring.
  Qed.

  Theorem weights_sum_preserved prog shots s0 d act bs :
    normalised_step -> execute prog shots s0 d = Ok (act, bs) ->
    (sumQ (map b_freq bs) == 1)%Q.
  Proof.
    intros NS. unfold ExecModel.execute.
    assert (G : forall active bs0, exec prog shots active bs0 = Ok (act, bs) ->
                                  (sumQ (map b_freq bs) == sumQ (map b_freq bs0))%Q).
    { induction prog as [|i rest IH]; intros active bs0 H; simpl in H.
      - inversion H; subst. reflexivity.
      - destruct (forallb _ _); try discriminate.
        destruct (apply_instruction i _ shots bs0) as [bs1|] eqn:E; try discriminate.
        rewrite (IH _ _ H).
        unfold ExecModel.apply_instruction in E.
        destruct shots.
        + eapply apply_all_weight; eauto.
        + destruct (is_meas i && negb (none_ok i)); try discriminate. eapply apply_all_weight; eauto. }
    intros H.
    destruct (negb (validate_active _ _ _ _ _)); [discriminate|].
    destruct (negb (shots_none_supported _ _ _ _ _)); [discriminate|].
    rewrite (G _ _ H). simpl. ring.
  Qed.
End ExecutorProofs.

(* ------------------------------------------------------------------ active modes (theorem 1) *)
Lemma memb_In m l : memb m l = true <-> In m l.
Proof.
  induction l as [|a r IH]; simpl. split; [discriminate|tauto].
  destruct (Nat.eqb_spec a m). split; auto. rewrite IH. split; auto. intros [|]; auto. contradiction.
Qed.

Lemma nth_index_of m l : In m l -> nth (index_of m l) l 0%nat = m.
Proof.
  induction l as [|a r IH]; simpl; intros H. contradiction.
  destruct (Nat.eqb_spec a m); auto. destruct H; auto. contradiction.
Qed.

Lemma index_of_lt m l : In m l -> (index_of m l < length l)%nat.
Proof.
  induction l as [|a r IH]; simpl; intros H. contradiction.
  destruct (Nat.eqb_spec a m). lia. destruct H. contradiction. apply IH in H. lia.
Qed.

Theorem remap_inverse active ms :
  incl ms active -> remap_modes_inverse active (remap_modes active ms) = ms.
Proof.
  intros H. unfold remap_modes_inverse, remap_modes. rewrite map_map.
  rewrite <- (map_id ms) at 2. apply map_ext_in. intros m Hm. apply nth_index_of. now apply H.
Qed.

(* after a measurement the active modes are exactly the unmeasured labels, order kept *)
Theorem delete_active_spec active ms :
  incl ms active ->
  delete_modes_from_active active (remap_modes active ms) = filter (fun m => negb (memb m ms)) active.
Proof. intros H. unfold delete_modes_from_active. now rewrite remap_inverse. Qed.

Lemma forallb_memb_incl ms active : forallb (fun m => memb m active) ms = true -> incl ms active.
Proof. rewrite forallb_forall. intros H m Hm. apply memb_In. now apply H. Qed.

(* ------------------------------------------------------------------ validation before evolution *)
Lemma forallb_memb_self l : forallb (fun m => memb m l) l = true.
Proof. apply forallb_forall. intros m Hm. now apply memb_In. Qed.

Lemma filter_not_self l : filter (fun m => negb (memb m l)) l = [].
Proof.
  assert (G : forall k, incl k l -> filter (fun m => negb (memb m l)) k = []).
  { induction k as [|a r IH]; intros H; simpl; auto.
    assert (E : memb a l = true) by (apply memb_In, H; now left). rewrite E. simpl.
    apply IH. intros x Hx. apply H. now right. }
  apply G, incl_refl.
Qed.

Section Validation.
  Variables (Ins : Type).
  Variable modes_of : Ins -> list nat.
  Variable is_meas : Ins -> bool.

  (* the register walk that the execution loop itself performs (its own membership test and
     its own _delete_modes_from_active o _remap_modes update) *)
  Fixpoint loop_checks (prog : list Ins) (active : list nat) : bool :=
    match prog with
    | [] => true
    | i :: rest =>
        let ms := match modes_of i with [] => active | l => l end in
        forallb (fun m => memb m active) ms &&
        loop_checks rest (if is_meas i then delete_modes_from_active active (remap_modes active ms)
                          else active)
    end.

  (* _validate_active_modes accepts exactly the programs whose every instruction passes the
     loop's own active-mode test: invalid programs are refused before any evolution and a
     validated program is never refused for inactive modes mid-run *)
  Theorem validate_active_agrees prog active :
    validate_active Ins modes_of is_meas prog active = loop_checks prog active.
  Proof.
    revert active. induction prog as [|i rest IH]; intros active; cbn [validate_active loop_checks]; auto.
    destruct (modes_of i) as [|m l] eqn:E.
    - cbn [forallb andb]. rewrite forallb_memb_self. cbn [andb]. rewrite IH. f_equal.
      destruct (is_meas i); auto.
      rewrite delete_active_spec by apply incl_refl. now rewrite filter_not_self.
    - destruct (forallb (fun m0 => memb m0 active) (m :: l)) eqn:F; cbn [andb]; auto.
      rewrite IH. f_equal. destruct (is_meas i); auto.
      rewrite delete_active_spec; auto. now apply forallb_memb_incl.
  Qed.
End Validation.

Section Labels.
  Variables (St Ins Out : Type).
  Variable modes_of : Ins -> list nat.
  Variable is_meas : Ins -> bool.
  Variable none_ok : Ins -> bool.
  Variable cond_of : Ins -> list Out -> option bool.
  Variable step : St -> Ins -> list nat -> list Out -> option Z -> res (list (sub St Out)).
  Notation exec := (exec St Ins Out modes_of is_meas none_ok cond_of step).
  Notation apply_all := (apply_all St Ins Out is_meas cond_of step).

  (* the register of every branch state is the executor's tuple of active modes *)
  Definition regs_are (active : list nat) (bs : list (branch St Out)) : Prop :=
    Forall (fun b => b_reg b = active) bs.

  Lemma apply_all_regs i ms shots active bs bs' :
    (is_meas i = true -> forall o, cond_of i o <> Some false) ->
    regs_are active bs -> apply_all i ms shots bs = Ok bs' ->
    regs_are (if is_meas i then delete_modes_from_active active ms else active) bs'.
  Proof.
    intros U. revert bs'. induction bs as [|b r IH]; intros bs' R H; simpl in *.
    - inversion H; subst. constructor.
    - inversion R; subst.
      destruct (apply_branch _ _ _ _ _ _ i ms shots b) as [l1|] eqn:E1; try discriminate.
      destruct (apply_all i ms shots r) as [l2|] eqn:E2; try discriminate.
      inversion H; subst bs'; clear H. apply Forall_app. split; [|now apply IH].
      unfold apply_branch in E1.
      destruct (cond_of i (b_out b)) as [[|]|] eqn:Ec; try discriminate.
      + destruct (step _ _ _ _ _) as [subs|]; try discriminate. inversion E1; subst l1.
        apply Forall_forall. intros x Hx. apply in_map_iff in Hx. destruct Hx as (s & <- & _). simpl.
        destruct (is_meas i); auto.
      + inversion E1; subst. constructor; auto.
        destruct (is_meas i) eqn:Em; auto. exfalso. eapply U; eauto.
  Qed.

  (* DESIGN theorem 1, with the input class of the finding
     C03:_do_execute_instructions:conditioned-measurement excluded by a visible hypothesis:
     no measurement of the program is skipped by its condition *)
  Theorem labels_invariant_except_conditioned_measurement prog shots active bs act' bs' :
    (forall i, In i prog -> is_meas i = true -> forall o, cond_of i o <> Some false) ->
    regs_are active bs -> exec prog shots active bs = Ok (act', bs') -> regs_are act' bs'.
  Proof.
    revert active bs. induction prog as [|i rest IH]; intros active bs U R H; simpl in H.
    - inversion H; subst; auto.
    - destruct (forallb _ _); try discriminate.
      destruct (apply_instruction _ _ _ _ _ _ _ i _ shots bs) as [bs1|] eqn:E; try discriminate.
      eapply IH; [| |exact H].
      + intros j Hj. apply U. now right.
      + unfold apply_instruction in E.
        destruct shots as [n|].
        * eapply apply_all_regs; eauto. apply U. now left.
        * destruct (is_meas i && negb (none_ok i)); try discriminate.
          eapply apply_all_regs; eauto. apply U. now left.
  Qed.

  (* and therefore each step acts on the positions of the instruction's original labels:
     the positions handed to the step, read back through the branch register, are the
     labels the user wrote *)
  Theorem positions_denote_labels active ms (b : branch St Out) :
    b_reg b = active -> forallb (fun m => memb m active) ms = true ->
    remap_modes_inverse (b_reg b) (remap_modes active ms) = ms.
  Proof. intros -> H. apply remap_inverse. now apply forallb_memb_incl. Qed.
End Labels.

(* ------------------------------------------------------------------ the concrete oracles *)
Section Oracles.
  Variable Out : Type.
  Variable key_eqb : list Out -> list Out -> bool.
  Notation bin := (bin Out key_eqb).
  Notation dict_add := (dict_add Out key_eqb).

  Lemma dict_add_pos k d : Forall (fun p => 1 <= snd p) d -> Forall (fun p : list Out * Z => 1 <= snd p) (dict_add k 1 d).
  Proof.
    induction 1 as [|[k' v'] r Hx Hr IH]; simpl.
    - constructor; [simpl; lia | constructor].
    - destruct (key_eqb k' k); constructor; simpl in *; auto; try lia.
  Qed.

  Lemma bin_fold samples d :
    Forall (fun p => 1 <= snd p) d ->
    Forall (fun p : list Out * Z => 1 <= snd p) (fold_left (fun d s => dict_add s 1 d) samples d)
    /\ sumZ (map snd (fold_left (fun d s => dict_add s 1 d) samples d))
       = sumZ (map snd d) + Z.of_nat (length samples).
  Proof.
    revert d. induction samples as [|s r IH]; intros d P; simpl.
    - split; auto; lia.
    - destruct (IH (dict_add s 1 d) (dict_add_pos s d P)) as [A B]. split; auto.
      rewrite B. change (map snd (dict_add s 1 d)) with (values Out (dict_add s 1 d)).
      rewrite dict_add_sum. unfold values. lia.
  Qed.

  Lemma has_count_list k (l : list (list Out * Z)) :
    Forall (fun p => 1 <= snd p) l ->
    Forall2 (has_count k) (map snd (map (fun p => (fst p, frac (snd p) k)) l)) (map snd l).
  Proof.
    induction 1; simpl; constructor; auto. split; simpl; auto. reflexivity.
  Qed.

  (* sample_from_probability_map (pure/mixed Fock, fermionic Fock; also the passive
     simulator's binned samples) is a well-formed oracle answer *)
  Theorem binning_wf samples k :
    Z.of_nat (length samples) = k ->
    counts_ok k (map snd (binning_freqs Out key_eqb samples k)).
  Proof.
    intros L. unfold binning_freqs. destruct (bin_fold samples [] (Forall_nil _)) as [P S].
    exists (map snd (bin samples)). split.
    - now apply has_count_list.
    - unfold ExecModel.bin. rewrite S. simpl. lia.
  Qed.

  (* one branch per shot with Fraction(1, shots) (Gaussian simulators) is well-formed too *)
  Theorem per_sample_wf samples k :
    Z.of_nat (length samples) = k ->
    counts_ok k (map snd (per_sample_freqs Out samples k)).
  Proof.
    intros L. exists (map (fun _ => 1) samples). unfold per_sample_freqs. split.
    - clear L. induction samples; simpl; constructor; auto. split; simpl; try lia. reflexivity.
    - rewrite <- L. clear L. induction samples as [|a r IH]; [reflexivity|].
      cbn [map sumZ length]. rewrite Nat2Z.inj_succ. lia.
  Qed.

  (* _get_imperfect_branch_frequencies: the multiplicity it recovers from a well-formed
     frequency is the count, so re-binning c detected outcomes gives counts over k again *)
  Theorem imperfect_multiplicity_is_count f c k :
    0 < k -> (f == frac c k)%Q -> imperfect_multiplicity f k = c.
  Proof.
    intros Hk E. unfold imperfect_multiplicity.
    assert (Q : (f * inject_Z k == inject_Z c)%Q).
    { rewrite E. unfold frac. field. apply inject_Z_neq0. lia. }
    apply Qred_complete in Q. rewrite Q, Qred_inject_Z. reflexivity.
  Qed.
End Oracles.
