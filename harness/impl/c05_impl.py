"""Implementation side of C05: builds PassiveState objects through PassiveSimulator programs
and queries every probability interface; runs the lossless dilation on PureFockSimulator;
exposes the bookkeeping helpers.  One JSON request on stdin, one JSON line on stdout."""
import json
import sys
import warnings
from fractions import Fraction

import numpy as np

warnings.filterwarnings("ignore")

import piquasso as pq  # noqa: E402
from piquasso.api.exceptions import NotImplementedCalculation  # noqa: E402
from piquasso._math.fock import get_postselected_fock_basis  # noqa: E402
from piquasso._simulators.passive import probabilities as pr  # noqa: E402
from piquasso._simulators.passive import sampling as sp  # noqa: E402
from piquasso._simulators.connectors import NumpyConnector  # noqa: E402


def fr(x):
    return float(Fraction(x))


def cmat(m):
    return np.array([[complex(fr(e[0]), fr(e[1])) for e in row] for row in m], dtype=complex)


def guarded(f):
    try:
        return {"ok": f()}
    except NotImplementedCalculation:
        return {"refused": "NotImplementedCalculation"}
    except Exception as e:  # noqa: BLE001
        return {"error": "%s: %s" % (type(e).__name__, str(e)[:200])}


def flt(x):
    x = complex(x)
    return [float(x.real), float(x.imag)]


def build_state(c):
    d = c["d"]
    s = c["s"]
    n = sum(s)
    instr = []
    ov = c.get("overlap")
    if ov is None:
        if c.get("prep", "number") == "statevector":
            instr.append(pq.StateVector(s))
        else:
            instr.append(pq.NumberState(s))
    elif isinstance(ov, list):
        instr.append(pq.DistinguishableNumberState(s, particle_overlap=cmat(ov)))
    else:
        instr.append(pq.DistinguishableNumberState(s, particle_overlap=fr(ov)))
    allm = tuple(range(d))
    b = c["build"]
    if b["kind"] == "sequence":
        # an explicit instruction sequence; mode labels are the user's (original) labels
        for ins in b["program"]:
            ms = tuple(ins["modes"])
            if ins["op"] == "U":
                instr.append(pq.Interferometer(cmat(ins["M"])).on_modes(*ms))
            elif ins["op"] == "uniform_loss":
                instr.append(pq.UniformLoss(transmissivity=fr(ins["tau"])).on_modes(*ms))
            elif ins["op"] == "loss":
                instr.append(pq.Loss(transmissivity=fr(ins["tau"])).on_modes(*ms))
            elif ins["op"] == "lossy_interferometer":
                instr.append(pq.LossyInterferometer(cmat(ins["M"])).on_modes(*ms))
            elif ins["op"] == "ps":
                instr.append(pq.PostSelectPhotons(photon_counts=tuple(ins["counts"])).on_modes(*ms))
            else:
                raise ValueError(ins["op"])
    elif b["kind"] == "interferometer":
        instr.append(pq.Interferometer(cmat(b["U"])).on_modes(*allm))
    elif b["kind"] == "lossy_interferometer":
        instr.append(pq.LossyInterferometer(cmat(b["T"])).on_modes(*allm))
    elif b["kind"] == "uniform":
        instr.append(pq.Interferometer(cmat(b["U"])).on_modes(*allm))
        instr.append(pq.UniformLoss(transmissivity=fr(b["tau"])).on_modes(*allm))
    elif b["kind"] == "svd":
        instr.append(pq.Interferometer(cmat(b["W"])).on_modes(*allm))
        for k, t in enumerate(b["tau"]):
            if Fraction(t) != 1 or b.get("all_loss"):
                instr.append(pq.Loss(transmissivity=fr(t)).on_modes(k))
        instr.append(pq.Interferometer(cmat(b["V"])).on_modes(*allm))
    else:
        raise ValueError(b["kind"])
    for modes, counts in c.get("ps", []):
        instr.append(pq.PostSelectPhotons(photon_counts=tuple(counts)).on_modes(*modes))
    cfg = pq.Config(cutoff=c["cutoff"]) if c.get("cutoff") is not None else pq.Config()
    sim = pq.PassiveSimulator(d=d, config=cfg)
    st = sim.execute(pq.Program(instructions=instr)).state
    # state-level post-selection calls (active numbering), as particle_number_measurement makes them
    for modes, counts in c.get("ps_state", []):
        st = st._copy_with_postselection(tuple(modes), tuple(counts))
    return st


def run_case(c):
    out = {"id": c["id"]}
    try:
        st = build_state(c)
    except Exception as e:  # noqa: BLE001
        out["build_error"] = "%s: %s" % (type(e).__name__, str(e)[:300])
        return out
    out["d_active"] = int(st.d)
    out["total"] = int(st.total_number_of_modes)
    out["cutoff"] = int(st._config.cutoff)
    out["active"] = [int(x) for x in st._get_active_modes()]
    out["ps_modes"] = [int(x) for x in st._get_postselected_modes()]
    out["ps_photons"] = [int(x) for x in st._get_postselected_photons()]
    out["is_lossy"] = bool(st.is_lossy)
    out["T"] = [[flt(x) for x in row] for row in np.asarray(st.interferometer)]
    # single-outcome interface, every requested outcome
    single = []
    for q in c.get("queries", []):
        single.append(guarded(lambda q=q: flt(st.get_particle_detection_probability(np.array(q, dtype=int)))))
    out["single"] = single
    out["table"] = guarded(lambda: [float(np.real(x)) for x in np.asarray(st.fock_probabilities)])
    out["table_map"] = guarded(
        lambda: [[[int(v) for v in k], float(np.real(p))] for k, p in st.fock_probabilities_map.items()]
    )
    out["norm"] = guarded(lambda: flt(st.norm))
    out["state_vector"] = guarded(lambda: [flt(x) for x in np.asarray(st.state_vector)])
    marg = []
    for modes in c.get("marginals", []):
        marg.append(
            guarded(
                lambda modes=modes: [
                    [[int(v) for v in k], float(p)]
                    for k, p in st.get_marginal_fock_probabilities(tuple(modes)).items()
                ]
            )
        )
    out["marginals"] = marg
    return out


def run_dilation(c):
    """The lossless dilation on PureFockSimulator: number state on 2d (or d) modes, the
    Gaussian-rational unitary, Fock probabilities of the whole register."""
    U = cmat(c["U"])
    m = len(U)
    s = list(c["s"]) + [0] * (m - len(c["s"]))
    n = sum(s)
    prog = pq.Program(instructions=[
        pq.StateVector(s),
        pq.Interferometer(U).on_modes(*range(m)),
    ])
    sim = pq.PureFockSimulator(d=m, config=pq.Config(cutoff=n + 1))
    st = sim.execute(prog).state
    res = []
    for k, p in st.fock_probabilities_map.items():
        if sum(k) == n:
            res.append([[int(v) for v in k], float(p)])
    return {"id": c["id"], "probs": res}


def run_seq_dilation(c):
    """An instruction sequence with every loss replaced by a unitary coupling to fresh
    environment modes, on PureFockSimulator; post-selection is applied by the caller."""
    mt = c["m_total"]
    s = list(c["s"]) + [0] * (mt - len(c["s"]))
    n = sum(s)
    instr = [pq.StateVector(s)]
    for ins in c["program"]:
        instr.append(pq.Interferometer(cmat(ins["M"])).on_modes(*ins["modes"]))
    st = pq.PureFockSimulator(d=mt, config=pq.Config(cutoff=n + 1)).execute(pq.Program(instructions=instr)).state
    return {"id": c["id"], "probs": [[[int(v) for v in k], float(p)] for k, p in st.fock_probabilities_map.items()
                                     if sum(k) == n and p != 0.0]}


def bookkeeping(req):
    out = {}
    out["map_to_original"] = [
        [int(x) for x in sp.map_to_original_modes(tuple(m), tuple(ps))] for m, ps in req.get("map_to_original", [])
    ]
    pb = []
    for d, cutoff, pm, pp in req.get("ps_basis", []):
        pb.append(guarded(lambda: get_postselected_fock_basis(d, cutoff, tuple(pm), tuple(pp)).tolist()))
    out["ps_basis"] = pb
    conn = NumpyConnector()
    sub = []
    for M in req.get("subset_sums", []):
        A = np.array(M, dtype=np.int64)
        sub.append(pr._precompute_subset_row_sums(A, conn).tolist())
    out["subset_sums"] = sub
    bits = []
    for k in req.get("bit_tricks", []):
        lsb = k & -k
        bits.append([lsb.bit_length() - 1, k ^ lsb, k.bit_count()])
    out["bit_tricks"] = bits
    norms = []
    for s, x in req.get("input_norms", []):
        norms.append(flt(pr._uniform_input_norm(np.array(s, dtype=int), fr(x), conn)))
    out["input_norms"] = norms
    return out


def main():
    req = json.load(sys.stdin)
    out = {"cases": [run_case(c) for c in req.get("cases", [])]}
    out["dilations"] = [guarded(lambda c=c: run_dilation(c)) for c in req.get("dilations", [])]
    out["seq_dilations"] = [guarded(lambda c=c: run_seq_dilation(c)) for c in req.get("seq_dilations", [])]
    out["book"] = bookkeeping(req.get("book", {}))
    print(json.dumps(out))


main()
