(* C02 — proofs about the post-selection loop model (PostselectModel.v):
   for every script, every number of photons/modes and every post-selection pattern, one pass of
   the repaired loop ends in the for-else branch exactly when the sample the unconditioned
   sampler would produce from the same draws satisfies the post-selection, and then returns that
   sample; an early `break` happens only on draws whose completed sample cannot satisfy it. *)
From Coq Require Import ZArith List Bool Arith Lia ZifyBool.
From PV Require Import C02.PostselectModel.
Import ListNotations.
Open Scope Z_scope.

Definition zipsub (a b : list Z) : list Z := map (fun xy : Z * Z => fst xy - snd xy) (combine a b).

Lemma length_inc : forall i l, length (inc i l) = length l.
Proof. intros i l; revert i; induction l; intros [|i]; simpl; auto. Qed.

Lemma nth_inc_eq : forall i l, (i < length l)%nat -> nth i (inc i l) 0 = nth i l 0 + 1.
Proof. intros i l; revert i; induction l; intros [|i] H; simpl in *; try lia. apply IHl; lia. Qed.

Lemma nth_inc_neq : forall i j l, i <> j -> nth j (inc i l) 0 = nth j l 0.
Proof.
  intros i j l; revert i j; induction l; intros [|i] [|j] H; simpl; auto; try congruence.
Qed.

Lemma nth_inc_ge : forall i j l, nth j l 0 <= nth j (inc i l) 0.
Proof.
  intros i j l. destruct (Nat.eq_dec i j) as [->|Hn].
  - destruct (Nat.lt_ge_cases j (length l)).
    + rewrite nth_inc_eq by auto. lia.
    + rewrite !nth_overflow; try lia. rewrite length_inc; lia.
  - rewrite nth_inc_neq by auto. lia.
Qed.

Lemma sumZ_inc : forall a l, (a < length l)%nat -> sumZ (inc a l) = sumZ l + 1.
Proof.
  intros a l; revert a; induction l as [|x l IH]; intros [|a] H; simpl in *; try lia.
  rewrite IH by lia. lia.
Qed.

Lemma zipsub_inc : forall ps a r, zipsub ps (inc a r) = dec a (zipsub ps r).
Proof.
  unfold zipsub. induction ps as [|p ps IH]; intros a r.
  - simpl. destruct a; reflexivity.
  - destruct r as [|x r]; destruct a as [|a]; simpl; auto.
    + f_equal. lia.
    + f_equal. apply IH.
Qed.

Lemma index_of_None : forall o ms, index_of o ms = None -> ~ In o ms.
Proof.
  induction ms as [|m r IH]; simpl; intros H; auto.
  destruct (Nat.eqb_spec o m); try discriminate.
  destruct (index_of o r); try discriminate.
  intros [E|I]; [congruence | exact (IH eq_refl I)].
Qed.

Lemma restrict_inc_notin : forall o ms s, ~ In o ms -> restrict ms (inc o s) = restrict ms s.
Proof.
  intros o ms s H. unfold restrict. apply map_ext_in. intros m Hm.
  apply nth_inc_neq. intros ->. auto.
Qed.

Lemma restrict_inc_in : forall o ms s a, NoDup ms -> index_of o ms = Some a ->
  (o < length s)%nat -> restrict ms (inc o s) = inc a (restrict ms s) /\ (a < length ms)%nat.
Proof.
  induction ms as [|m r IH]; simpl; intros s a ND H Ho; try discriminate.
  inversion ND as [|? ? Hnin ND']; subst.
  destruct (Nat.eqb_spec o m) as [->|Hne].
  - inversion H; subst. simpl. split; [|lia]. f_equal.
    + apply nth_inc_eq; auto.
    + apply restrict_inc_notin; auto.
  - destruct (index_of o r) as [a'|] eqn:E; try discriminate. inversion H; subst.
    destruct (IH s a' ND' eq_refl Ho) as [E1 E2]. simpl. split; [|lia]. f_equal; auto.
    apply nth_inc_neq; auto.
Qed.

Lemma length_restrict : forall ms s, length (restrict ms s) = length ms.
Proof. intros; unfold restrict; apply map_length. Qed.

Lemma any_neg_false : forall l, any_neg l = false <-> Forall (fun x => 0 <= x) l.
Proof.
  induction l; simpl; split; intros H; auto.
  - apply orb_false_iff in H. destruct H as [H1 H2]. constructor; [lia | apply IHl; auto].
  - inversion H; subst. apply orb_false_iff. split; [lia | apply IHl; auto].
Qed.

Lemma zipsub_nonneg_sum_ge : forall ps r,
  Forall (fun x => 0 <= x) (zipsub ps r) -> length ps = length r -> 0 <= sumZ ps - sumZ r.
Proof.
  unfold zipsub. induction ps as [|q ps IHps]; intros [|y r] HF HL; simpl in *; try lia.
  inversion HF as [|? ? Hq HF']; subst. simpl in Hq.
  assert (L : length ps = length r) by lia.
  specialize (IHps r HF' L). lia.
Qed.

Lemma zipsub_nonneg_sum : forall ps r, length ps = length r ->
  Forall (fun x => 0 <= x) (zipsub ps r) -> sumZ ps - sumZ r <= 0 -> r = ps.
Proof.
  induction ps as [|p ps IH]; intros [|x r] HL HF HS; simpl in *; try discriminate; auto.
  unfold zipsub in HF. simpl in HF.
  inversion HF as [|? ? H0 HF']; subst. simpl in H0.
  assert (L : length ps = length r) by lia.
  pose proof (zipsub_nonneg_sum_ge ps r HF' L) as Hrest.
  assert (x = p) by lia. subst. f_equal. apply IH; auto; lia.
Qed.

Lemma zipsub_mono_nonneg : forall ms f s, (forall m, nth m s 0 <= nth m f 0) ->
  Forall (fun x => 0 <= x) (zipsub (restrict ms f) (restrict ms s)).
Proof.
  unfold zipsub, restrict. induction ms; intros f s H; simpl; constructor; auto.
  simpl. specialize (H a). lia.
Qed.

Lemma length_plain : forall l s, length (plain l s) = length s.
Proof.
  unfold plain. induction l as [|e l IH]; intros s; simpl; auto.
  rewrite IH. destruct e; simpl; auto. apply length_inc.
Qed.

Lemma plain_mono : forall l s m, nth m s 0 <= nth m (plain l s) 0.
Proof.
  unfold plain. induction l as [|e l IH]; intros s m; simpl; try lia.
  eapply Z.le_trans; [|apply IH]. destruct e; simpl; try lia. apply nth_inc_ge.
Qed.

Lemma zl_eqb'_spec : forall a b, zl_eqb' a b = true <-> a = b.
Proof.
  unfold zl_eqb'. induction a as [|x a IH]; intros [|y b]; simpl; split; intros H; auto; try discriminate.
  - apply andb_true_iff in H. destruct H as [H1 H2]. apply andb_true_iff in H2. destruct H2 as [H2 H3].
    apply Z.eqb_eq in H2. subst. f_equal. apply IH. rewrite H1. simpl. exact H3.
  - inversion H; subst. destruct (IH b) as [_ IH']. specialize (IH' eq_refl).
    apply andb_true_iff in IH'. destruct IH' as [I1 I2]. rewrite I1, Z.eqb_refl, I2. reflexivity.
Qed.

Lemma sumZ_zeros : forall d, sumZ (zeros d) = 0.
Proof. unfold zeros. induction d as [|d IH]; simpl; auto. Qed.

Lemma sumZ_inc_le : forall o s, sumZ (inc o s) <= sumZ s + 1.
Proof. intros o s; revert o; induction s as [|x s IH]; intros [|k]; simpl; try lia. specialize (IH k). lia. Qed.

Lemma sumZ_plain_le : forall l s, sumZ (plain l s) <= sumZ s + Z.of_nat (length l).
Proof.
  unfold plain. induction l as [|e l IHl]; intros s; simpl fold_left; simpl length; try lia.
  specialize (IHl (step_sample s e)). destruct e as [|i o]; simpl step_sample in *; try lia.
  pose proof (sumZ_inc_le o s). lia.
Qed.

Definition ev_ok (d : nat) (e : ev) : Prop :=
  match e with Lost => True | Kept _ o => (o < d)%nat end.

Section Spec.
  Variable ps_modes : list nat.
  Variable ps_photons : list Z.
  Variable d : nat.
  Hypothesis ND : NoDup ps_modes.
  Hypothesis HL : length ps_photons = length ps_modes.

  Lemma sum_restrict_step : forall o s, (o < length s)%nat ->
    sumZ (restrict ps_modes (inc o s)) <= sumZ (restrict ps_modes s) + 1.
  Proof.
    intros o s Ho. destruct (index_of o ps_modes) as [a|] eqn:E.
    - destruct (restrict_inc_in o ps_modes s a ND E Ho) as [E1 E2].
      rewrite E1, sumZ_inc; try lia. rewrite length_restrict; auto.
    - rewrite restrict_inc_notin; try lia. apply index_of_None; auto.
  Qed.

  Lemma sum_restrict_plain : forall l s, length s = d -> Forall (ev_ok d) l ->
    sumZ (restrict ps_modes (plain l s)) <= sumZ (restrict ps_modes s) + Z.of_nat (length l).
  Proof.
    unfold plain. induction l as [|e l IH]; intros s Hs HF; simpl fold_left; simpl length; try lia.
    inversion HF as [|? ? He HF']; subst.
    destruct e as [|i o]; simpl step_sample.
    - specialize (IH s eq_refl HF'). lia.
    - simpl in He. assert (Hl : length (inc o s) = length s) by apply length_inc.
      specialize (IH (inc o s) Hl HF').
      pose proof (sum_restrict_step o s He). lia.
  Qed.

  (* the loop invariant: diff and photons_needed are functions of the sample *)
  Definition Inv (s : st) : Prop :=
    diff s = zipsub ps_photons (restrict ps_modes (sample s)) /\
    needed s = sumZ ps_photons - sumZ (restrict ps_modes (sample s)) /\
    Forall (fun x => 0 <= x) (diff s) /\
    length (sample s) = d.

  Lemma not_sat_of_neg : forall r s2, length s2 = d ->
    ~ Forall (fun x => 0 <= x) (zipsub ps_photons (restrict ps_modes s2)) ->
    ~ sat ps_modes ps_photons (plain r s2).
  Proof.
    intros r s2 Hs Hneg Hsat. apply Hneg. unfold sat in Hsat. rewrite <- Hsat.
    apply zipsub_mono_nonneg. intros m. apply plain_mono.
  Qed.

  Theorem loop_fixed_spec : forall l s, Forall (ev_ok d) l -> Inv s ->
    match loop true true ps_modes l s with
    | Done s' => sample s' = plain l (sample s) /\ sat ps_modes ps_photons (plain l (sample s))
    | Broke _ rest => ~ sat ps_modes ps_photons (plain l (sample s)) /\ (exists pre, l = pre ++ rest)
    end.
  Proof.
    induction l as [|e l IH]; intros s HF (Hd & Hn & Hnn & Hlen).
    - simpl. destruct (needed s >? 0) eqn:E; simpl.
      + split; [|exists []; reflexivity]. unfold sat. intros Hs. rewrite Hs in Hn. lia.
      + split; auto. unfold sat. apply zipsub_nonneg_sum.
        * rewrite length_restrict; auto.
        * rewrite <- Hd; auto.
        * lia.
    - inversion HF as [|? ? He HF']; subst. destruct e as [|i o].
      + simpl. specialize (IH s HF' (conj Hd (conj Hn (conj Hnn Hlen)))).
        destruct (loop true true ps_modes l s); auto.
        destruct IH as [H1 [pre H2]]. split; auto. exists (Lost :: pre). simpl. congruence.
      + simpl in He. rewrite <- Hlen in He.
        change (plain (Kept i o :: l) (sample s)) with (plain l (inc o (sample s))).
        assert (Hlen' : length (inc o (sample s)) = d) by (rewrite length_inc; auto).
        simpl loop. destruct (index_of o ps_modes) as [a|] eqn:Eidx.
        * destruct (restrict_inc_in o ps_modes (sample s) a ND Eidx He) as [E1 E2].
          assert (Hd' : dec a (diff s) = zipsub ps_photons (restrict ps_modes (inc o (sample s)))).
          { rewrite E1, zipsub_inc, Hd. reflexivity. }
          assert (Hn' : needed s - 1 = sumZ ps_photons - sumZ (restrict ps_modes (inc o (sample s)))).
          { rewrite E1, sumZ_inc; [lia | rewrite length_restrict; auto]. }
          cbn [diff needed sample].
          destruct (any_neg (dec a (diff s))) eqn:Eneg.
          { split; [|exists [Kept i o]; reflexivity]. apply not_sat_of_neg; auto.
            rewrite <- Hd'. intros HFa. apply any_neg_false in HFa. congruence. }
          apply any_neg_false in Eneg.
          destruct (needed s - 1 >? Z.of_nat (length l)) eqn:Etr.
          { split; [|exists [Kept i o]; reflexivity]. intros Hsat. unfold sat in Hsat.
            pose proof (sum_restrict_plain l (inc o (sample s)) Hlen' HF') as Hle.
            rewrite Hsat in Hle. lia. }
          assert (HI : Inv (mkst (inc o (sample s)) (dec a (diff s)) (needed s - 1))).
          { unfold Inv; cbn [diff needed sample]. auto. }
          specialize (IH _ HF' HI). cbn [sample] in IH.
          destruct (loop true true ps_modes l _); auto.
          destruct IH as [H1 [pre H2]]. split; auto. exists (Kept i o :: pre). simpl. congruence.
        * assert (Er : restrict ps_modes (inc o (sample s)) = restrict ps_modes (sample s)).
          { apply restrict_inc_notin. apply index_of_None; auto. }
          cbn [diff needed sample].
          destruct (needed s >? Z.of_nat (length l)) eqn:Etr.
          { split; [|exists [Kept i o]; reflexivity]. intros Hsat. unfold sat in Hsat.
            pose proof (sum_restrict_plain l (inc o (sample s)) Hlen' HF') as Hle.
            rewrite Hsat, Er in Hle. lia. }
          assert (HI : Inv (mkst (inc o (sample s)) (diff s) (needed s))).
          { unfold Inv; cbn [diff needed sample]. rewrite Er. auto. }
          specialize (IH _ HF' HI). cbn [sample] in IH.
          destruct (loop true true ps_modes l _); auto.
          destruct IH as [H1 [pre H2]]. split; auto. exists (Kept i o :: pre). simpl. congruence.
  Qed.

  Hypothesis Hpos : Forall (fun x => 0 <= x) ps_photons.

  Lemma zipsub_zeros_nonneg : forall ms ps, Forall (fun x => 0 <= x) ps ->
    Forall (fun x => 0 <= x) (zipsub ps (restrict ms (zeros d))).
  Proof.
    unfold zipsub, restrict. induction ms; intros [|p ps] H; simpl; auto.
    inversion H; subst. constructor; auto. simpl.
    assert (nth a (zeros d) 0 = 0).
    { unfold zeros. destruct (Nat.lt_ge_cases a d).
      - apply nth_repeat.
      - apply nth_overflow. rewrite repeat_length. lia. }
    lia.
  Qed.

  Lemma sum_restrict_zeros : forall ms, sumZ (restrict ms (zeros d)) = 0.
  Proof.
    unfold restrict. induction ms; simpl; auto. rewrite IHms.
    assert (nth a (zeros d) 0 = 0).
    { unfold zeros. destruct (Nat.lt_ge_cases a d).
      - apply nth_repeat.
      - apply nth_overflow. rewrite repeat_length. lia. }
    lia.
  Qed.

  Lemma Inv_init : Inv (mkst (zeros d) ps_photons (sumZ ps_photons)).
  Proof.
    unfold Inv; cbn [diff needed sample]. repeat split.
    - unfold zipsub. clear Hpos ND. revert ps_modes HL.
      induction ps_photons as [|p ps IH]; intros [|m ms] H; simpl in *; try discriminate; auto.
      f_equal.
      + assert (nth m (zeros d) 0 = 0).
        { unfold zeros. destruct (Nat.lt_ge_cases m d).
          - apply nth_repeat.
          - apply nth_overflow. rewrite repeat_length. lia. }
        lia.
      + apply IH. lia.
    - rewrite sum_restrict_zeros. lia.
    - auto.
    - apply repeat_length.
  Qed.

  (* one pass, seen from outside *)
  Definition pass_output (l : list ev) : option (list Z) :=
    match loop true true ps_modes l (mkst (zeros d) ps_photons (sumZ ps_photons)) with
    | Done s => Some (delete_modes ps_modes (sample s))
    | Broke _ _ => None
    end.

  (* the unconditioned sampler on the same draws, kept only when it satisfies the post-selection *)
  Definition post_output (l : list ev) : option (list Z) :=
    if satb ps_modes ps_photons (plain l (zeros d))
    then Some (delete_modes ps_modes (plain l (zeros d))) else None.

  Lemma satb_spec : forall s, satb ps_modes ps_photons s = true <-> sat ps_modes ps_photons s.
  Proof. intros s. unfold satb, sat. apply zl_eqb'_spec. Qed.

  Theorem pass_is_postselection : forall l, Forall (ev_ok d) l -> pass_output l = post_output l.
  Proof.
    intros l HF. unfold pass_output, post_output.
    pose proof (loop_fixed_spec l _ HF Inv_init) as H. cbn [sample] in H.
    destruct (loop true true ps_modes l _) as [s'|s' rest].
    - destruct H as [H1 H2]. apply satb_spec in H2. rewrite H2, H1. reflexivity.
    - destruct H as [H1 _]. destruct (satb ps_modes ps_photons (plain l (zeros d))) eqn:E; auto.
      apply satb_spec in E. contradiction.
  Qed.

  Lemma Forall_firstn : forall {A} (P : A -> Prop) n l, Forall P l -> Forall P (firstn n l).
  Proof. intros A P n l; revert n; induction l; intros [|n] H; simpl; auto. inversion H; auto. Qed.
  Lemma Forall_skipn : forall {A} (P : A -> Prop) n l, Forall P l -> Forall P (skipn n l).
  Proof. intros A P n l; revert n; induction l; intros [|n] H; simpl; auto. inversion H; auto. Qed.

  (* soundness of the whole retry loop, for every script and every bound on the trials *)
  Theorem run_accept_sound : forall n trials used script out used' rest,
    Forall (ev_ok d) script ->
    run_from true true ps_modes ps_photons d n trials used script = Accepted out used' rest ->
    exists s, out = delete_modes ps_modes s /\ sat ps_modes ps_photons s /\ length s = d /\
              sumZ s <= Z.of_nat n.
  Proof.
    intros n trials; induction trials as [|t IH]; intros used script out used' rest HF H;
      simpl in H; try discriminate.
    destruct (length script <? n)%nat; try discriminate.
    pose proof (loop_fixed_spec (firstn n script) _ (Forall_firstn _ n _ HF) Inv_init) as Hs.
    cbn [sample] in Hs.
    destruct (loop true true ps_modes (firstn n script) _) as [s'|s' r'].
    - inversion H; subst. destruct Hs as [H1 H2]. exists (sample s'). rewrite H1. repeat split; auto.
      + rewrite length_plain. apply repeat_length.
      + pose proof (sumZ_plain_le (firstn n script) (zeros d)) as G.
        rewrite sumZ_zeros, firstn_length in G. lia.
    - destruct Hs as [_ [pre Hpre]]. eapply IH; [|exact H].
      apply Forall_app. split.
      + pose proof (Forall_firstn _ n _ HF) as F. rewrite Hpre in F. apply Forall_app in F. tauto.
      + apply Forall_skipn; auto.
  Qed.

  (* completeness: a first pass whose unconditioned sample satisfies the post-selection is accepted
     at once, with that sample *)
  Theorem run_accept_complete : forall n t script,
    Forall (ev_ok d) script -> (n <= length script)%nat ->
    sat ps_modes ps_photons (plain (firstn n script) (zeros d)) ->
    run_from true true ps_modes ps_photons d n (S t) 0 script =
    Accepted (delete_modes ps_modes (plain (firstn n script) (zeros d))) 1 (skipn n script).
  Proof.
    intros n t script HF Hn Hsat. simpl.
    destruct (Nat.ltb_spec (length script) n); try lia.
    pose proof (loop_fixed_spec (firstn n script) _ (Forall_firstn _ n _ HF) Inv_init) as Hs.
    cbn [sample] in Hs.
    destruct (loop true true ps_modes (firstn n script) _) as [s'|s' r'].
    - destruct Hs as [H1 _]. rewrite H1. reflexivity.
    - destruct Hs as [H1 _]. contradiction.
  Qed.
End Spec.

(* the code as found: a lost photon skips the feasibility test and the for-else accepts *)
Theorem postselect_loss_refuted :
  exists script out used rest,
    run_from false true [0%nat] [1] 2 2 5 0 script = Accepted out used rest /\
    ~ sat [0%nat] [1] (plain (firstn 2 script) (zeros 2)).
Proof.
  exists [Lost; Lost], [0], 1%nat, []. split; [reflexivity|].
  unfold sat. vm_compute. discriminate.
Qed.

(* and with no photon at all (n = 0) the loop body never runs *)
Theorem postselect_vacuum_refuted :
  exists out used rest,
    run_from false true [0%nat] [1] 2 0 5 0 [] = Accepted out used rest /\
    ~ sat [0%nat] [1] (zeros 2).
Proof. exists [0], 1%nat, []. split; [reflexivity|]. unfold sat. vm_compute. discriminate. Qed.

(* non-vacuity of the repaired loop: an accepting and a rejecting script *)
Example postselect_accepts :
  run_from true true [0%nat] [1] 2 2 5 0 [Kept 0 1; Kept 0 0] = Accepted [1] 1%nat [].
Proof. reflexivity. Qed.
Example postselect_retries :
  run_from true true [0%nat] [1] 2 2 5 0 [Lost; Lost; Kept 0 0; Lost] = Accepted [0] 2%nat [].
Proof. reflexivity. Qed.
Example postselect_breaks_early :
  run_from true true [0%nat] [1] 2 2 5 0 [Kept 0 0; Kept 0 0; Kept 0 1; Kept 0 0; Kept 0 1] = Accepted [1] 2%nat [Kept 0 1].
Proof. reflexivity. Qed.
