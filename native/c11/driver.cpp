// C11 native driver: compiles the permanent kernels of the repository under test
// (path given by -I <repo>/src on the command line of the check) and runs them with
// std::thread::hardware_concurrency() forced to a chosen value.
//
// The symbol std::thread::hardware_concurrency is defined HERE, in the executable, so the
// kernels' call resolves to this definition (ELF interposition) instead of libstdc++'s.
//
// stdin, one case per line:
//   P <nrows> <ncols> <re im>*(nrows*ncols) <rows>*nrows <cols>*ncols <nhc> <hc>*nhc
//   G <ndigits> <limits>*ndigits <start> <steps>        (the Gray counter on its own)
// stdout per P case and hc: "P <case> <hc> <re> <im> | <re im>*ncols (laplace)" (%.17g)
// stdout per G case: "G <case> ok|fail <gray digits at start> ; <idx prev val>*steps"
#include <complex>
#include <cstdint>
#include <cstdio>
#include <cstring>
#include <iostream>
#include <sstream>
#include <string>
#include <thread>
#include <vector>

static unsigned int g_forced_hc = 1;
unsigned int std::thread::hardware_concurrency() noexcept { return g_forced_hc; }

#include "matrix.hpp"
#include "n_aryGrayCodeCounter.hpp"

template <typename T>
std::complex<T> permanent_cpp(Matrix<std::complex<T>> &A, Vector<int> &rows, Vector<int> &cols);
template <typename T>
Vector<std::complex<T>> permanent_laplace_cpp(Matrix<std::complex<T>> &A, Vector<int> &rows,
                                               Vector<int> &cols);

int main()
{
    std::string line;
    long case_idx = 0;
    while (std::getline(std::cin, line))
    {
        std::istringstream in(line);
        std::string kind;
        in >> kind;
        if (kind == "P")
        {
            size_t nr, nc;
            in >> nr >> nc;
            std::vector<std::complex<double>> a(nr * nc);
            for (auto &z : a)
            {
                double re, im;
                in >> re >> im;
                z = std::complex<double>(re, im);
            }
            std::vector<int> rows(nr), cols(nc);
            for (auto &x : rows) in >> x;
            for (auto &x : cols) in >> x;
            size_t nhc;
            in >> nhc;
            std::vector<unsigned int> hcs(nhc);
            for (auto &x : hcs) in >> x;
            for (unsigned int hc : hcs)
            {
                g_forced_hc = hc;
                // fresh copies: the kernels reassign their arguments
                Matrix<std::complex<double>> A(nr, nc);
                for (size_t i = 0; i < nr * nc; i++) A[i] = a[i];
                Vector<int> R(nr), C(nc);
                for (size_t i = 0; i < nr; i++) R[i] = rows[i];
                for (size_t i = 0; i < nc; i++) C[i] = cols[i];
                std::complex<double> p = permanent_cpp<double>(A, R, C);
                std::printf("P %ld %u %.17g %.17g |", case_idx, hc, p.real(), p.imag());
                Matrix<std::complex<double>> A2(nr, nc);
                for (size_t i = 0; i < nr * nc; i++) A2[i] = a[i];
                Vector<int> R2(nr), C2(nc);
                for (size_t i = 0; i < nr; i++) R2[i] = rows[i];
                for (size_t i = 0; i < nc; i++) C2[i] = cols[i];
                Vector<std::complex<double>> l = permanent_laplace_cpp<double>(A2, R2, C2);
                for (size_t i = 0; i < l.size(); i++)
                    std::printf(" %.17g %.17g", l[i].real(), l[i].imag());
                std::printf("\n");
            }
        }
        else if (kind == "G")
        {
            size_t nd;
            in >> nd;
            std::vector<int> lim(nd);
            for (auto &x : lim) in >> x;
            long long start, steps;
            in >> start >> steps;
            n_aryGrayCodeCounter ctr(lim.data(), nd, static_cast<int64_t>(start));
            std::printf("G %ld ok", case_idx);
            int *g = ctr.get();
            for (size_t i = 0; i < nd; i++) std::printf(" %d", g[i]);
            std::printf(" ;");
            for (long long s = 0; s < steps; s++)
            {
                int idx = 0, pv = 0, v = 0;
                if (ctr.next(idx, pv, v))
                {
                    std::printf(" end");
                    break;
                }
                std::printf(" %d %d %d", idx, pv, v);
            }
            std::printf(" ;");
            for (size_t i = 0; i < nd; i++) std::printf(" %d", g[i]);
            std::printf("\n");
        }
        case_idx++;
    }
    return 0;
}
