"""Rendering of the generated Coq table C18/BlackbirdGen.v (translator of DESIGN.md 2.2).

The table data come from the implementation runner (harness/impl/c18_impl.py, op "table"),
which reads `_BB_TO_PQ_MAP`, `inspect.signature` and the params dictionary of a
sentinel-instantiated object from the working tree.  Fail-closed: any problem reported by the
runner, or any name that is not a plain identifier, yields no file and a broken obligation."""
import os
import re

IDENT = re.compile(r"^[A-Za-z_][A-Za-z0-9_]*$")


def render(table):
    problems = list(table.get("problems", []))
    rows = table.get("rows", [])
    for r in rows:
        for s in [r["bb"], r["pq"]] + r["sig"] + [k for k, _ in r["src"]]:
            if not IDENT.match(s):
                problems.append("not an identifier: %r" % (s,))
        if r["nmodes"] is not None and not isinstance(r["nmodes"], int):
            problems.append("NUMBER_OF_MODES of %s not understood" % r["pq"])
    for c in table.get("all_classes", []):
        if not IDENT.match(c):
            problems.append("not an identifier: %r" % (c,))
    if problems:
        return None, problems

    def s(x):
        return '"%s"' % x

    def lst(xs):
        return "[" + "; ".join(xs) + "]"

    out = ["(* GENERATED on every run by harness/props/c18.py from piquasso/core/_blackbird.py",
           "   (_BB_TO_PQ_MAP), inspect.signature of the mapped classes and the params dictionary of a",
           "   sentinel-instantiated object.  Do not edit. *)",
           "From Coq Require Import String List ZArith.",
           "From PV Require Import C18.BlackbirdModel.",
           "Import ListNotations.",
           "Open Scope string_scope.",
           "",
           "Definition bb_table : list bb_row := ["]
    items = []
    for r in rows:
        items.append("  mkRow %s %s %s %s %s %s" % (
            s(r["bb"]), s(r["pq"]), lst(s(x) for x in r["sig"]),
            lst("true" if b else "false" for b in r["has_default"]),
            lst("(%s, %d%%nat)" % (s(k), j) for k, j in r["src"]),
            "None" if r["nmodes"] is None else "(Some %d%%Z)" % r["nmodes"]))
    out.append(";\n".join(items))
    out.append("].")
    out.append("")
    out.append("Definition all_instruction_classes : list string := %s." % lst(s(c) for c in table["all_classes"]))
    out.append("")
    return "\n".join(out), []


def write_if_changed(path, text):
    try:
        if open(path).read() == text:
            return False
    except FileNotFoundError:
        pass
    with open(path, "w") as f:
        f.write(text)
    return True
