(* C18 -- Config / Simulator code round trip, for every combination of constructor arguments *)
From Coq Require Import ZArith QArith List Bool Lia.
From PV Require Import C18.CodeModel.
Import ListNotations.
Open Scope Z_scope.

Lemma optz_eqb_refl o : optz_eqb o o = true.
Proof. destruct o; simpl; auto. apply Z.eqb_refl. Qed.
Lemma Qeq_bool_refl q : Qeq_bool q q = true.
Proof. apply Qeq_bool_iff. reflexivity. Qed.
Lemma Qeq_bool_sym_true a b : Qeq_bool a b = true -> Qeq_bool b a = true.
Proof. intros H. apply Qeq_bool_iff. symmetry. apply Qeq_bool_iff. exact H. Qed.

Ltac zcase x y := let E := fresh in destruct (x =? y) eqn:E; [apply Z.eqb_eq in E; subst|].

(* Config rebuilt from the emitted keyword list is == to the original, for every
   combination of constructor arguments *)
Section Fields.
Variable a : cfg_args.
Let c := construct a.
Let c' := exec_code (as_code (construct a)).

Lemma rt_seed : c_original_seed c' = a_seed a.
Proof. destruct a; reflexivity. Qed.
Lemma rt_cache : c_cache_size c' = if a_cache_size a =? 32 then 32 else a_cache_size a.
Proof. destruct a as [cut dt mc hb sd tor cs va dk tr]. cbv [a_cache_size]. unfold c'. cbv [exec_code as_code construct opt_kw dflt k_cache c_cache_size a_cache_size default_args]. destruct (cs =? 32); reflexivity. Qed.
Lemma rt_hbar : c_hbar c' = if Qeq_bool (a_hbar a) (2#1) then (2#1) else a_hbar a.
Proof. destruct a as [cut dt mc hb sd tor cs va dk tr]. unfold c'. cbv [exec_code as_code construct opt_kw dflt k_hbar c_hbar a_hbar default_args]. destruct (Qeq_bool hb (2#1)); reflexivity. Qed.
Lemma rt_tor : c_use_torontonian c' = a_use_torontonian a.
Proof. destruct a as [cut dt mc hb sd tor cs va dk tr]. destruct tor; reflexivity. Qed.
Lemma rt_explicit : c_cutoff_was_explicit c' = c_cutoff_was_explicit c.
Proof. destruct a as [cut dt mc hb sd tor cs va dk tr]. destruct cut; reflexivity. Qed.
Lemma rt_cutoff : c_cutoff c' = c_cutoff c.
Proof. destruct a as [cut dt mc hb sd tor cs va dk tr]. destruct cut; reflexivity. Qed.
Lemma rt_mcut : c_measurement_cutoff c' = if a_measurement_cutoff a =? 5 then 5 else a_measurement_cutoff a.
Proof. destruct a as [cut dt mc hb sd tor cs va dk tr]. unfold c'. cbv [exec_code as_code construct opt_kw dflt k_mcut c_measurement_cutoff a_measurement_cutoff default_args]. destruct (mc =? 5); reflexivity. Qed.
Lemma rt_dtype : c_dtype c' = c_dtype c.
Proof. destruct a as [cut dt mc hb sd tor cs va dk tr]. destruct dt; reflexivity. Qed.
Lemma rt_validate : c_validate c' = a_validate a.
Proof. destruct a as [cut dt mc hb sd tor cs va dk tr]. destruct va; reflexivity. Qed.
Lemma rt_dask : c_use_dask c' = a_use_dask a.
Proof. destruct a as [cut dt mc hb sd tor cs va dk tr]. destruct dk; reflexivity. Qed.
Lemma rt_trials : c_trials c' = if a_trials a =? 1000 then 1000 else a_trials a.
Proof. destruct a as [cut dt mc hb sd tor cs va dk tr]. unfold c'. cbv [exec_code as_code construct opt_kw dflt k_trials c_trials a_trials default_args]. destruct (tr =? 1000); reflexivity. Qed.
End Fields.

Lemma dtype_eqb_refl d : dtype_eqb d d = true.
Proof. destruct d; reflexivity. Qed.
Lemma bool_eqb_refl b : Bool.eqb b b = true.
Proof. destruct b; reflexivity. Qed.

(* Config rebuilt from the emitted keywords is == to the original, for every combination of
   constructor arguments *)
Theorem config_code_roundtrip : forall a : cfg_args,
  cfg_eqb (exec_code (as_code (construct a))) (construct a) = true.
Proof.
  intros a. unfold cfg_eqb.
  rewrite rt_seed, rt_cache, rt_hbar, rt_tor, rt_explicit, rt_cutoff, rt_mcut, rt_dtype,
    rt_validate, rt_dask, rt_trials.
  destruct a as [cut dt mc hb sd tor cs va dk tr].
  cbv [construct c_original_seed c_cache_size c_hbar c_use_torontonian c_cutoff_was_explicit
       c_cutoff c_measurement_cutoff c_dtype c_validate c_use_dask c_trials
       a_cutoff a_dtype a_measurement_cutoff a_hbar a_seed a_use_torontonian a_cache_size
       a_validate a_use_dask a_trials].
  rewrite optz_eqb_refl, !bool_eqb_refl, dtype_eqb_refl, !Z.eqb_refl.
  assert (H1 : ((if cs =? 32 then 32 else cs) =? cs) = true).
  { destruct (cs =? 32) eqn:E; [apply Z.eqb_eq in E; subst; reflexivity|apply Z.eqb_refl]. }
  assert (H2 : ((if mc =? 5 then 5 else mc) =? mc) = true).
  { destruct (mc =? 5) eqn:E; [apply Z.eqb_eq in E; subst; reflexivity|apply Z.eqb_refl]. }
  assert (H3 : ((if tr =? 1000 then 1000 else tr) =? tr) = true).
  { destruct (tr =? 1000) eqn:E; [apply Z.eqb_eq in E; subst; reflexivity|apply Z.eqb_refl]. }
  assert (H4 : Qeq_bool (if Qeq_bool hb (2#1) then (2#1) else hb) hb = true).
  { destruct (Qeq_bool hb (2#1)) eqn:E; [apply Qeq_bool_sym_true; exact E|apply Qeq_bool_refl]. }
  rewrite H1, H2, H3, H4. reflexivity.
Qed.

Lemma optz_eqb_sym x y : optz_eqb x y = true -> optz_eqb y x = true.
Proof. destruct x, y; simpl; auto. rewrite Z.eqb_sym. auto. Qed.
Lemma dtype_eqb_sym x y : dtype_eqb x y = true -> dtype_eqb y x = true.
Proof. destruct x, y; auto. Qed.
Lemma bool_eqb_sym x y : Bool.eqb x y = true -> Bool.eqb y x = true.
Proof. destruct x, y; auto. Qed.
Lemma zeqb_sym x y : (x =? y) = true -> (y =? x) = true.
Proof. rewrite Z.eqb_sym. auto. Qed.

(* == of configurations is symmetric *)
Lemma cfg_eqb_sym x y : cfg_eqb x y = true -> cfg_eqb y x = true.
Proof.
  unfold cfg_eqb. intros H.
  repeat (apply andb_prop in H; let H' := fresh in destruct H as [H H']).
  repeat (apply andb_true_intro; split);
    first [apply optz_eqb_sym; assumption | apply zeqb_sym; assumption
          | apply Qeq_bool_sym_true; assumption | apply bool_eqb_sym; assumption
          | apply dtype_eqb_sym; assumption].
Qed.

(* the same for the simulator line: d and the configuration come back *)
Theorem simulator_code_roundtrip : forall (d : option Z) (a : cfg_args),
  let r := sim_exec_code (sim_as_code d (construct a)) in
  fst r = d /\ cfg_eqb (snd r) (construct a) = true.
Proof.
  intros d a. unfold sim_exec_code, sim_as_code. cbv zeta. split; [reflexivity|].
  cbn [snd]. destruct (cfg_eqb (construct a) (construct default_args)) eqn:E.
  - (* `config=` omitted: Config() is == to the original by symmetry *)
    apply cfg_eqb_sym. exact E.
  - apply config_code_roundtrip.
Qed.

(* `cutoff` is emitted exactly when it was given explicitly (even when the explicit value is
   the default 4), and the seed exactly when one was given (even 0) *)
Theorem cutoff_and_seed_emitted_iff_given : forall a,
  k_cutoff (as_code (construct a)) = a_cutoff a /\ k_seed (as_code (construct a)) = a_seed a.
Proof. intros [cut dt mc hb sd tor cs va dk tr]. split; [destruct cut|]; reflexivity. Qed.

(* non-vacuity: a configuration that differs from the default in every field *)
Example config_all_fields_example :
  kw_list (as_code (construct (mkArgs (Some 4) DtFloat32 6 (3#1) (Some 0) true 16 false true 10)))
  = [KSeed 0; KCache 16; KHbar (3#1); KTor true; KCutoff 4; KMcut 6; KDtype F32;
     KValidate false; KDask true; KTrials 10].
Proof. reflexivity. Qed.
