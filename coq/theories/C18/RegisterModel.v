(* C18 -- registers, mode mapping and nested registration (definitions only).
   Transcribes piquasso/api/mode.py (Q.__init__, Q.__or__), piquasso/api/program.py
   (Program._map_modes, Program._apply_to_program_on_register) and
   piquasso/api/instruction.py (modes getter/setter, _validate_modes, on_modes,
   Instruction._apply_to_program_on_register, copy).

   Mutation through references is explicit: instruction objects live on a heap
   (a list indexed by object id), a program is the list of the ids it holds. *)
From Coq Require Import ZArith List Bool.
Import ListNotations.
Open Scope Z_scope.

Inductive res (A : Type) : Type :=
| Ok (a : A)
| ErrInvalidModes      (* api/exceptions.py:InvalidModes, raised by Q.__init__ *)
| ErrIndex             (* IndexError of tuple indexing in _map_modes *)
| ErrInvalidProgram.   (* InvalidProgram, raised by _validate_modes *)
Arguments Ok {A} a.
Arguments ErrInvalidModes {A}.
Arguments ErrIndex {A}.
Arguments ErrInvalidProgram {A}.

Definition bind {A B} (r : res A) (f : A -> res B) : res B :=
  match r with
  | Ok a => f a
  | ErrInvalidModes => ErrInvalidModes
  | ErrIndex => ErrIndex
  | ErrInvalidProgram => ErrInvalidProgram
  end.
Notation "'do' x <- r ; k" := (bind r (fun x => k)) (at level 200, x pattern, r at level 100, k at level 200).

(* Python tuple indexing t[m]: negative m counts from the end; out of range = IndexError *)
Definition py_index (r : list Z) (m : Z) : option Z :=
  let n := Z.of_nat (length r) in
  if 0 <=? m then (if m <? n then nth_error r (Z.to_nat m) else None)
  else if (- n) <=? m then nth_error r (Z.to_nat (m + n)) else None.

Fixpoint mapM {A B} (f : A -> option B) (l : list A) : option (list B) :=
  match l with
  | [] => Some []
  | a :: r => match f a, mapM f r with
              | Some b, Some bs => Some (b :: bs)
              | _, _ => None
              end
  end.

Fixpoint memZ (x : Z) (l : list Z) : bool :=
  match l with [] => false | y :: r => (x =? y) || memZ x r end.
Fixpoint distinctZ (l : list Z) : bool :=
  match l with [] => true | x :: r => negb (memZ x r) && distinctZ r end.

(* mode.py:Q.__init__  (Q(all) and Q() both give the empty register) *)
Definition q_init (ms : list Z) : res (list Z) :=
  if existsb (fun m => m <? 0) ms then ErrInvalidModes
  else if negb (distinctZ ms) then ErrInvalidModes
  else Ok ms.

(* program.py:Program._map_modes -- the three cases *)
Definition map_modes (reg ins : list Z) : res (list Z) :=
  match reg with
  | [] => Ok ins
  | _ => match ins with
         | [] => Ok reg
         | _ => match mapM (py_index reg) ins with
                | Some l => Ok l
                | None => ErrIndex
                end
         end
  end.

(* An instruction object: its class (an opaque tag), NUMBER_OF_MODES of the class, the
   `_modes` attribute (None: attribute not set yet) and its parameters (an opaque tag). *)
Record instr := mkInstr {
  i_cls : Z;
  i_nmodes : option Z;
  i_modes : option (list Z);
  i_params : Z
}.

(* instruction.py:Instruction.modes (getter): getattr(self, "_modes", tuple()) *)
Definition modes_of (i : instr) : list Z :=
  match i_modes i with Some m => m | None => [] end.

(* instruction.py:_validate_modes + modes setter *)
Definition set_modes (i : instr) (ms : list Z) : res instr :=
  match i_nmodes i with
  | Some n => if Z.of_nat (length ms) =? n
              then Ok (mkInstr (i_cls i) (i_nmodes i) (Some ms) (i_params i))
              else ErrInvalidProgram
  | None => Ok (mkInstr (i_cls i) (i_nmodes i) (Some ms) (i_params i))
  end.

(* instruction.py:on_modes -- `if modes is not tuple()`: only a non-empty argument list
   is assigned *)
Definition on_modes (i : instr) (ms : list Z) : res instr :=
  match ms with [] => Ok i | _ => set_modes i ms end.

Definition heap := list instr.

Fixpoint set_nth {A} (l : list A) (n : nat) (a : A) : list A :=
  match l, n with
  | [], _ => []
  | _ :: r, O => a :: r
  | x :: r, S k => x :: set_nth r k a
  end.

(* mode.py:Q.__or__ with an Instruction on the right:
   instruction.py:Instruction._apply_to_program_on_register --
   program.instructions.append(self.on_modes( *register.modes)): the object itself is
   modified and appended (no copy). *)
Definition register_instr (h : heap) (target : list nat) (id : nat) (reg : list Z)
  : res (heap * list nat) :=
  match nth_error h id with
  | None => ErrIndex
  | Some i => do i' <- on_modes i reg; Ok (set_nth h id i', target ++ [id])
  end.

(* program.py:Program._apply_to_program_on_register -- one iteration of the loop:
   copy (deepcopy -> a fresh object), Q( *_map_modes(register, instruction)),
   then the copy's Instruction._apply_to_program_on_register. *)
Definition apply_one (reg : list Z) (st : heap * list nat) (id : nat) : res (heap * list nat) :=
  let '(h, target) := st in
  match nth_error h id with
  | None => ErrIndex
  | Some i =>
      let fresh := length h in
      let h1 := h ++ [i] in
      do mapped <- map_modes reg (modes_of i);
      do q <- q_init mapped;
      do i' <- on_modes i q;
      Ok (set_nth h1 fresh i', target ++ [fresh])
  end.

Fixpoint apply_program (reg : list Z) (st : heap * list nat) (src : list nat)
  : res (heap * list nat) :=
  match src with
  | [] => Ok st
  | id :: r => do st' <- apply_one reg st id; apply_program reg st' r
  end.

(* `with pq.Program() as outer: pq.Q( *reg) | inner` for a fresh outer program *)
Definition nest_once (h : heap) (src : list nat) (reg : list Z) : res (heap * list nat) :=
  do q <- q_init reg; apply_program q (h, []) src.

(* k-fold nesting: regs are listed innermost first; level j+1 registers the program built
   at level j on register regs[j] inside a fresh program. *)
Fixpoint nest (h : heap) (src : list nat) (regs : list (list Z)) : res (heap * list nat) :=
  match regs with
  | [] => Ok (h, src)
  | reg :: rest => do st <- nest_once h src reg; nest (fst st) (snd st) rest
  end.

(* the modes a chain of registers gives to an instruction with modes m (pure) *)
Fixpoint compose_regs (regs : list (list Z)) (m : list Z) : res (list Z) :=
  match regs with
  | [] => Ok m
  | reg :: rest => do m' <- map_modes reg m; compose_regs rest m'
  end.

(* what is observable of a program: for each instruction class tag, modes, parameter tag *)
Definition view (h : heap) (p : list nat) : list (option (Z * list Z * Z)) :=
  map (fun id => match nth_error h id with
                 | Some i => Some (i_cls i, modes_of i, i_params i)
                 | None => None end) p.
