(* C02 — model of the Clifford–Clifford sampling loops of
   piquasso/_simulators/passive/sampling.py as deterministic functions of their
   random script.  Definitions only.

   One loop iteration of `_generate_sample` / `_generate_sample_with_postselect`
   draws, in this order:
     reject_condition()            -> a Boolean ("lost")
     rng.choice(len(to_shrink))    -> position of the input photon taken next
     rng.choice(arange(d), p=pmf)  -> output mode of that photon
   so a script is a list of events.  The pmf handed to the last draw does not
   influence the control flow; the tie records it on the implementation side. *)
From Coq Require Import ZArith List Bool Arith.
Import ListNotations.
Local Open Scope Z_scope.

Inductive ev : Type :=
| Lost : ev                                  (* reject_condition() returned True *)
| Kept : nat -> nat -> ev.                   (* position in to_shrink, output mode *)

Definition sumZ (l : list Z) : Z := fold_right Z.add 0 l.

(* sample[index] += 1 *)
Fixpoint inc (i : nat) (l : list Z) : list Z :=
  match l, i with
  | [], _ => []
  | x :: r, O => (x + 1) :: r
  | x :: r, S j => x :: inc j r
  end.

(* diff[a] -= 1 *)
Fixpoint dec (i : nat) (l : list Z) : list Z :=
  match l, i with
  | [], _ => []
  | x :: r, O => (x - 1) :: r
  | x :: r, S j => x :: dec j r
  end.

(* np.delete(to_shrink, i) *)
Fixpoint del {A} (i : nat) (l : list A) : list A :=
  match l, i with
  | [], _ => []
  | _ :: r, O => r
  | x :: r, S j => x :: del j r
  end.

(* tuple(postselect_modes).index(index);  `index in postselect_modes` is [Some _] *)
Fixpoint index_of (o : nat) (ms : list nat) : option nat :=
  match ms with
  | [] => None
  | m :: r => if Nat.eqb o m then Some O
              else match index_of o r with Some a => Some (S a) | None => None end
  end.

(* sample[postselect_modes] *)
Definition restrict (ms : list nat) (s : list Z) : list Z := map (fun m => nth m s 0) ms.

(* np.delete(sample, postselect_modes) *)
Fixpoint delete_modes_from (k : nat) (ms : list nat) (s : list Z) : list Z :=
  match s with
  | [] => []
  | x :: r => if existsb (Nat.eqb k) ms then delete_modes_from (S k) ms r
              else x :: delete_modes_from (S k) ms r
  end.
Definition delete_modes := delete_modes_from 0.

Definition any_neg (l : list Z) : bool := existsb (fun x => x <? 0) l.

Definition zeros (d : nat) : list Z := repeat 0 d.

(* sampling.py:_grow_current_input — (current_input, to_shrink) after taking position i *)
Definition grow (cur : list Z) (shrink : list nat) (i : nat) : list Z * list nat :=
  (inc (nth i shrink O) cur, del i shrink).

(* ---- sampling.py:_generate_sample : no post-selection, all events consumed *)
Definition step_sample (s : list Z) (e : ev) : list Z :=
  match e with Lost => s | Kept _ o => inc o s end.
Definition plain (l : list ev) (s : list Z) : list Z := fold_left step_sample l s.

(* the same loop with the bookkeeping the tie looks at: the sequence of
   current_input vectors handed to _calculate_pmf *)
Fixpoint plain_trace (l : list ev) (cur : list Z) (shrink : list nat) : list (list Z) :=
  match l with
  | [] => []
  | Lost :: r => plain_trace r cur shrink
  | Kept i _ :: r => let '(c, sh) := grow cur shrink i in c :: plain_trace r c sh
  end.

Definition generate_sample (d : nat) (fq_input : list nat) (script : list ev) : list Z :=
  plain (firstn (length fq_input) script) (zeros d).

(* ---- sampling.py:_generate_sample_with_postselect, one pass of the `for k` loop.
   State carried by the loop body. *)
Record st : Type := mkst { sample : list Z; diff : list Z; needed : Z }.

Inductive loop_result : Type :=
| Done : st -> loop_result                   (* the `for ... else` branch: retry = False *)
| Broke : st -> list ev -> loop_result.      (* `break` (or, repaired, the else-branch keeps
                                                retry = True): unread part of the pass *)

Section Loop.
  (* fixed = true: the repaired code (fixes/C02-postselect-loss.diff): the else-branch
       sets `retry = track_photons_needed and photons_needed > 0`;
     fixed = false: the code as found, whose else-branch sets `retry = False`
       unconditionally although `continue` on a lost photon skipped the feasibility test. *)
  Variable fixed : bool.
  Variable track : bool.                     (* track_photons_needed *)
  Variable ps_modes : list nat.              (* postselect_modes *)

  (* [l] holds the events of iterations k .. n, so that n - k = length of the tail *)
  Fixpoint loop (l : list ev) (s : st) : loop_result :=
    match l with
    | [] => if fixed && track && (needed s >? 0) then Broke s [] else Done s
    | Lost :: r => loop r s                                              (* continue *)
    | Kept _ o :: r =>
        let smp := inc o (sample s) in
        match index_of o ps_modes with
        | Some a =>
            let s' := mkst smp (dec a (diff s)) (needed s - 1) in
            if any_neg (diff s') then Broke s' r
            else if track && (needed s' >? Z.of_nat (length r)) then Broke s' r
            else loop r s'
        | None =>
            let s' := mkst smp (diff s) (needed s) in
            if track && (needed s' >? Z.of_nat (length r)) then Broke s' r
            else loop r s'
        end
    end.
End Loop.

Inductive run_result : Type :=
| Accepted : list Z -> nat -> list ev -> run_result   (* returned sample, trials used, unread script *)
| TooManyTrials : run_result                           (* InvalidSimulation *)
| OutOfScript : run_result.

(* the `while retry` loop; [trials] = max_sample_generation_trials *)
Fixpoint run_from (fixed track : bool) (ps_modes : list nat) (ps_photons : list Z)
         (d n : nat) (trials used : nat) (script : list ev) : run_result :=
  match trials with
  | O => TooManyTrials
  | S t =>
      if (length script <? n)%nat then OutOfScript else
      let init := mkst (zeros d) ps_photons (sumZ ps_photons) in
      match loop fixed track ps_modes (firstn n script) init with
      | Done s =>
          Accepted (if track then delete_modes ps_modes (sample s) else sample s)
                   (S used) (skipn n script)
      | Broke _ rest =>
          (* a pass that stops early leaves its unread draws in the stream *)
          run_from fixed track ps_modes ps_photons d n t (S used) (rest ++ skipn n script)
      end
  end.

Definition generate_sample_with_postselect fixed track ps_modes ps_photons d n trials script :=
  run_from fixed track ps_modes ps_photons d n trials 0 script.

(* "the post-selection is satisfied" *)
Definition sat (ps_modes : list nat) (ps_photons : list Z) (s : list Z) : Prop :=
  restrict ps_modes s = ps_photons.

Definition zl_eqb' (a b : list Z) : bool :=
  (length a =? length b)%nat && forallb (fun '(x, y) => x =? y) (combine a b).
Definition satb ps_modes ps_photons s := zl_eqb' (restrict ps_modes s) ps_photons.

(* ---- sampling.py:_separate_particles: one draw K_j per occupied input mode *)
Fixpoint separate (occ : list Z) (draws : list Z) : list Z * list Z :=
  match occ with
  | [] => ([], [])
  | nj :: r =>
      if nj =? 0 then let '(i, dd) := separate r draws in (0 :: i, 0 :: dd)
      else match draws with
           | [] => let '(i, dd) := separate r [] in (0 :: i, nj :: dd)
           | k :: dr => let '(i, dd) := separate r dr in (k :: i, (nj - k) :: dd)
           end
  end.

(* ---- sampling.py:_sample_distinguishable_particles: for every particle a mode is drawn
   first and reject_condition() is asked afterwards *)
Fixpoint sample_dist (script : list (nat * bool)) (out : list Z) : list Z :=
  match script with
  | [] => out
  | (o, lost) :: r => sample_dist r (if lost then out else inc o out)
  end.

(* ---- sampling.py:generate_lossy_samples: input doubled and zero padded, output trimmed *)
Definition expand_input (input : list Z) : list Z := input ++ map (fun _ => 0) input.
Definition trim_output (d : nat) (s : list Z) : list Z := firstn d s.

(* ---- sampling.py:map_to_original_modes *)
Definition bump (p : nat) (ms : list nat) : list nat :=
  map (fun m => if (p <=? m)%nat then S m else m) ms.
Fixpoint insert_sorted (x : nat) (l : list nat) : list nat :=
  match l with [] => [x] | y :: r => if (x <=? y)%nat then x :: l else y :: insert_sorted x r end.
Definition sort_nat (l : list nat) : list nat := fold_right insert_sorted [] l.
Definition map_to_original_modes (modes ps : list nat) : list nat :=
  fold_left (fun ms p => bump p ms) (sort_nat ps) modes.
