(* C08 — Every reachable state is a physical quantum state.
   Only statements closed by [exact]; proofs live in C08/. *)
From Coq Require Import Reals List.
From PV Require Import C08.PhysModel C08.PhysProofs C08.FockRunModel C08.FockProofs C08.GdyneProofs.
Import ListNotations.
Open Scope R_scope.

(* symplectic congruence preserves symmetry and sigma/hbar + i Omega >= 0 *)
Theorem C08_gauss_gate_preserves_phys : forall d hbar S F,
  symplF d S -> PhysF d hbar F -> PhysF d hbar (fcong ROps (2 * d) S F).
Proof. exact gauss_gate_preserves_phys. Qed.
Print Assumptions C08_gauss_gate_preserves_phys.

(* Y + i Omega - i X Omega X^T >= 0  ->  X sigma X^T + hbar Y is physical *)
Theorem C08_channel_preserves_phys : forall d hbar X Y F,
  0 <= hbar -> chan_ok d X Y -> PhysF d hbar F ->
  PhysF d hbar (fadd ROps (fcong ROps (2 * d) X F) (fscale ROps hbar Y)).
Proof. exact channel_preserves_phys. Qed.
Print Assumptions C08_channel_preserves_phys.

(* thermal covariances diag(2 nbar + 1), nbar >= 0, are physical *)
Theorem C08_thermal_phys : forall d (nbar : nat -> R),
  (forall k, (k < d)%nat -> 0 <= nbar k) ->
  PhysF d 1 (fun i j => if Nat.eqb i j then 2 * nbar (Nat.div2 i) + 1 else 0).
Proof. exact thermal_phys. Qed.
Print Assumptions C08_thermal_phys.

(* after EVERY instruction of any valid Gaussian program, for every hbar > 0 *)
Theorem C08_gauss_program_phys : forall d hbar p,
  0 < hbar -> Forall (valid_instr d) p ->
  Forall (fun s => Phys d hbar (snd s)) (grun ROps d hbar p).
Proof. exact gauss_program_phys. Qed.
Print Assumptions C08_gauss_program_phys.

(* the matrix identity evaluated by the check implies the hypothesis used above *)
Theorem C08_symplectic_matrix_form : forall d S,
  (forall i j, (i < 2 * d)%nat -> (j < 2 * d)%nat ->
     fcong ROps (2 * d) S (omegaF ROps) i j = omegaF ROps i j) -> symplF d S.
Proof. exact symplF_of_matrix. Qed.
Print Assumptions C08_symplectic_matrix_form.

(* general-dyne conditional state (block form of _get_generaldyne_evolved_state):
   [[A + i hbar Omega, C],[C^T, B]] >= 0, B K = 1, K symmetric  ->  A - C K C^T is physical *)
Theorem C08_generaldyne_conditional_phys : forall (d_o k : nat) (hbar : R) (A C B K : nat -> nat -> R),
  symF (2 * d_o) A -> symF k K ->
  (forall j l, (j < k)%nat -> (l < k)%nat -> fmul ROps k B K j l = fid ROps j l) ->
  (forall uo vo um vm,
     0 <= bil ROps (2 * d_o) A uo uo + bil ROps (2 * d_o) A vo vo - 2 * hbar * omg ROps d_o uo vo
          + 2 * (bilr (2 * d_o) k C uo um + bilr (2 * d_o) k C vo vm)
          + (bil ROps k B um um + bil ROps k B vm vm)) ->
  PhysF d_o hbar (schur k A C K).
Proof. exact generaldyne_conditional_phys. Qed.
Print Assumptions C08_generaldyne_conditional_phys.

(* ---- Fock side *)
(* diagonal gates with unit-modulus coefficients leave every probability, hence the norm, unchanged *)
Theorem C08_diag_phase_norm : forall coef psi,
  Forall (fun c => cabs2 ROps c = 1) coef -> length coef = length psi ->
  norm2 ROps (apply_diag ROps coef psi) = norm2 ROps psi.
Proof. exact diag_phase_norm. Qed.
Print Assumptions C08_diag_phase_norm.

(* ... after every instruction of any program of Kerr/cross-Kerr/SNAP/phase-shift gates *)
Theorem C08_fock_diag_program_probs : forall d c p psi,
  length psi = length (space d c) -> Forall diag_valid p ->
  Forall (fun s => probs ROps s = probs ROps psi) (ftrace ROps d c psi p).
Proof. exact fock_diag_program_probs. Qed.
Print Assumptions C08_fock_diag_program_probs.

(* projection on a measurement outcome cannot increase the norm *)
Theorem C08_projection_norm_le : forall index psi,
  NoDup index -> Forall (fun i => (i < length psi)%nat) index ->
  norm2 ROps (project ROps index psi) <= norm2 ROps psi.
Proof. exact projection_norm_le. Qed.
Print Assumptions C08_projection_norm_le.

(* the post-measurement branch has norm one when its probability is positive *)
Theorem C08_branch_norm : forall proj,
  0 < norm2 ROps proj -> norm2 ROps (cscale ROps (sqrt (1 / norm2 ROps proj)) proj) = 1.
Proof. exact branch_norm. Qed.
Print Assumptions C08_branch_norm.

(* probabilities of a state with norm <= 1 lie in [0,1] *)
Theorem C08_probabilities_in_unit_interval : forall psi,
  norm2 ROps psi <= 1 -> Forall (fun q => 0 <= q <= 1) (probs ROps psi).
Proof. exact probabilities_in_unit_interval. Qed.
Print Assumptions C08_probabilities_in_unit_interval.

(* attenuator: the weights that redistribute the population of level n sum to one *)
Theorem C08_attenuator_weights_sum : forall c2 t2 n,
  c2 * (1 + t2) = 1 -> sumn ROps (S n) (fun k => att_weight ROps c2 t2 n k) = 1.
Proof. exact attenuator_weights_sum. Qed.
Print Assumptions C08_attenuator_weights_sum.

(* a norm-preserving (unitary, in real form) sector map preserves the norm *)
Theorem C08_passive_rep_norm : forall n W x,
  orthF n W -> dot n (tmv ROps n W x) (tmv ROps n W x) = dot n x x.
Proof. exact passive_rep_norm. Qed.
Print Assumptions C08_passive_rep_norm.

(* ---- fermionic Gaussian states: passive gates keep 0 <= Gamma <= 1 *)
Theorem C08_fermionic_occupation_bounds : forall n W G,
  orthF n W -> occF n G -> occF n (fcong ROps n W G).
Proof. exact fermionic_occupation_bounds. Qed.
Print Assumptions C08_fermionic_occupation_bounds.

Theorem C08_fermionic_basis_state_bounds : forall n (c : nat -> R),
  (forall i, (i < n)%nat -> 0 <= c i <= 1) -> occF n (fun i j => if Nat.eqb i j then c i else 0).
Proof. exact diag_occ. Qed.
Print Assumptions C08_fermionic_basis_state_bounds.

Theorem C08_orthogonal_matrix_form : forall n W,
  (forall i j, (i < n)%nat -> (j < n)%nat -> fcong ROps n W (fid ROps) i j = fid ROps i j) -> orthF n W.
Proof. exact orthF_of_matrix. Qed.
Print Assumptions C08_orthogonal_matrix_form.

(* non-vacuity *)
Example C08_vacuum_is_phys : Phys 1 2 (snd (gvac ROps 1 2)).
Proof. exact vacuum_is_phys. Qed.
Example C08_half_vacuum_not_phys : ~ PhysF 1 2 (fscale ROps 1 (fid ROps)).
Proof. exact half_vacuum_not_phys. Qed.
