"""C12, implementation side: the shipped simulators under fault injection, the matrix entry
points with assorted buffers, and the writers of the process-global `random` state."""
import hashlib
import random
import re
import warnings

import numpy as np

warnings.simplefilter("ignore")

import piquasso as pq  # noqa: E402
from piquasso.core import _expressions  # noqa: E402


class Injected(Exception):
    pass


class Ctl:
    """Counts the external calls of a run and raises at the chosen one."""

    def __init__(self):
        self.count = 0
        self.fault_at = None
        self.kinds = []
        self.caller_state = None
        self.probed = False
        self.shared = []

    def reset(self, fault_at):
        self.count = 0
        self.fault_at = fault_at
        self.kinds = []

    def tick(self, kind):
        k = self.count
        self.count += 1
        self.kinds.append(kind)
        if self.fault_at is not None and k == self.fault_at:
            raise Injected("%s call %d" % (kind, k))


CTL = Ctl()

LAMBDAS = {
    0: lambda x: 0.1 + 0.05 * float(sum(x)),
    1: lambda x: 0.3 * float(x[0]) if len(x) else 0.2,
    2: lambda x: 0.25,
}
COND_LAMBDAS = {
    0: lambda x: True,
    1: lambda x: float(x[0]) >= 1 if len(x) else True,
    2: lambda x: float(x[-1]) < 1 if len(x) else False,
}


class UserCallable:
    """The caller's callable: counts as an external call (fault position)."""

    def __init__(self, kind, f, label=""):
        self.kind = kind
        self.f = f
        self.label = "%s#%s" % (kind, label)

    def __call__(self, x):
        CTL.tick(self.kind)
        return self.f(x)

    def __deepcopy__(self, memo):
        return self


_orig_expr_call = _expressions.Expression.__call__


def _counted_expr_call(self, x=None):
    CTL.tick("expression")
    return _orig_expr_call(self, x)


def unitary(n, seed):
    r = np.random.default_rng(seed)
    m = r.normal(size=(n, n)) + 1j * r.normal(size=(n, n))
    q, _ = np.linalg.qr(m)
    return q


DT = {"float64": np.float64, "float32": np.float32, "complex128": np.complex128, "complex64": np.complex64}


def array_values(kind, n, seed):
    """Values that make normalisations non-trivial (columns summing to 1 only up to an ulp)."""
    if kind == "unitary":
        return unitary(n, seed)
    if kind == "lossy":
        return unitary(n, seed) @ np.diag(np.linspace(0.95, 0.8, n))
    if kind == "detector":
        # columns sum to 1 only up to an ulp (accepted by _validate, which uses np.isclose)
        if n == 2:
            x = next(a for a in np.arange(0.01, 0.99, 0.01) if a + np.nextafter(1 - a, 0) != 1.0)
            return np.array([[1.0, x], [0.0, np.nextafter(1 - x, 0)]])
        cols = [[1.0, 0.0, 0.0, 0.0], [0.29, 0.35, 0.36, 0.0], [0.3, 0.35, 0.35, 0.0], [0.1, 0.3, 0.3, 0.3]]
        m = np.array([c[:n] for c in cols[:n]]).T
        assert m[:, 1].sum() != 1.0 and m[:, 2].sum() != 1.0
        return m
    if kind == "zeros":
        return np.zeros((n, n))
    if kind == "adjacency":
        a = (np.random.default_rng(seed).random((n, n)) < 0.6).astype(float)
        a = np.triu(a, 1)
        return a + a.T
    if kind == "cov":
        g = np.random.default_rng(seed).normal(size=(n, n)) * 0.1
        return 2.0 * (1.3 * np.eye(n) + g @ g.T)
    if kind == "eye":
        return np.eye(n)
    if kind == "overlap":
        return 0.4 * np.ones((n, n)) + 0.6 * np.eye(n)
    if kind == "vector":
        return np.linspace(0.3, 0.9, n) + 1e-9 / 3
    raise ValueError(kind)


def make_array(spec):
    a = np.asarray(array_values(spec["kind"], spec["n"], spec.get("seed", 1)))
    if spec.get("scale") is not None:
        a = a * spec["scale"]
    dt = DT[spec["dtype"]]
    if (np.iscomplexobj(a) or spec.get("complex")) and not np.issubdtype(dt, np.complexfloating):
        dt = {np.float64: np.complex128, np.float32: np.complex64}[dt]
    a = a.astype(dt)
    layout = spec.get("layout", "C")
    if layout == "C":
        return np.ascontiguousarray(a)
    if layout == "F":
        return np.asfortranarray(a)
    if layout == "strided":
        big = np.zeros(tuple(2 * k for k in a.shape), dtype=a.dtype)
        sl = tuple(slice(None, None, 2) for _ in a.shape)
        big[sl] = a
        return big[sl]
    if layout == "readonly":
        a = np.ascontiguousarray(a)
        a.setflags(write=False)
        return a
    if layout == "list":
        return a.tolist()
    raise ValueError(layout)


HANDED = []      # (instruction index, keyword, object) of every ndarray handed to a constructor


def make_param(p):
    tag, val = p
    if tag == 6:
        return make_array(val)
    if tag == 7:
        return {tuple(k): v for k, v in val}
    if tag == 0:
        return float(val)
    if tag == 1:
        return str(val)
    if tag == 2:
        return _expressions.Expression(str(val))
    if tag == 3:
        return UserCallable("param", LAMBDAS[val], val)
    if tag == 4:
        return unitary(val[0], val[1])
    if tag == 5:
        return tuple(val)
    raise ValueError(tag)


def build(spec, remember=True):
    instrs = []
    if remember:
        del HANDED[:]
    for idx, isp in enumerate(spec):
        cls = getattr(pq, isp["cls"])
        kwargs = {k: make_param(v) for k, v in isp["params"].items()}
        if remember:
            HANDED.extend((idx, k, v) for k, v in kwargs.items() if isinstance(v, np.ndarray))
        ins = cls(**kwargs)
        if isp["modes"]:
            ins = ins.on_modes(*isp["modes"])
        c = isp.get("cond")
        if c is not None:
            ins.when(c[1] if c[0] == 1 else UserCallable("condition", COND_LAMBDAS[c[1]], c[1]))
        instrs.append(ins)
    return pq.Program(instructions=instrs)


_IDS = {}


def _ident(obj):
    """A run-independent number for object identity (first-seen order)."""
    return _IDS.setdefault(id(obj), len(_IDS))


def pv(v):
    if isinstance(v, np.ndarray):
        return ["ndarray", str(v.dtype), list(v.shape), hashlib.sha1(np.ascontiguousarray(v).tobytes()).hexdigest()[:12]]
    if isinstance(v, str):
        return ["str", v]
    if isinstance(v, _expressions.Expression):
        return ["Expression", v._src]
    if isinstance(v, UserCallable):
        return ["callable", v.label, _ident(v)]
    if callable(v):
        return ["othercallable", type(v).__name__, _ident(v)]
    return [type(v).__name__, repr(v)]


def snap_prog(prog):
    out = []
    for i in prog.instructions:
        c = i.condition
        out.append([type(i).__name__, [int(m) for m in i.modes],
                    [[k, pv(v)] for k, v in i.params.items()],
                    None if c is None else pv(c)])
    return out


def snap_handed():
    """byte-for-byte content (and flags) of every ndarray the caller handed to a constructor"""
    return [[idx, k, str(v.dtype), list(v.shape), hashlib.sha1(v.tobytes()).hexdigest()[:16]] for idx, k, v in HANDED]


def deep_arrays(obj, path="", depth=0, out=None, seen=None):
    """every ndarray reachable from an object's attributes (lists, tuples, dicts included)"""
    if out is None:
        out, seen = [], set()
    if id(obj) in seen or depth > 4:
        return out
    seen.add(id(obj))
    if isinstance(obj, np.ndarray):
        out.append((path, obj))
    elif isinstance(obj, (list, tuple)):
        for k, v in enumerate(obj[:50]):
            deep_arrays(v, "%s[%d]" % (path, k), depth + 1, out, seen)
    elif isinstance(obj, dict):
        for k, v in list(obj.items())[:50]:
            deep_arrays(v, "%s[%r]" % (path, k), depth + 1, out, seen)
    elif isinstance(obj, (pq.State, pq.Config)):
        for k, v in sorted(obj.__dict__.items()):
            if k not in ("_connector", "rng", "_python_rng"):
                deep_arrays(v, "%s.%s" % (path, k), depth + 1, out, seen)
    return out


def snap_state(st):
    if st is None:
        return None
    out = [[p] + pv(a) for p, a in deep_arrays(st)]
    for k, v in sorted(st.__dict__.items()):
        if isinstance(v, pq.Config):
            out.append([k, snap_cfg(v)])
        elif isinstance(v, (int, float, complex, str, tuple, type(None))):
            out.append([k, repr(v)])
    return out


def snap_cfg(cfg):
    return sorted((k, repr(v)) for k, v in cfg.__dict__.items() if k != "rng")


SIMS = {
    "purefock": lambda: pq.PureFockSimulator,
    "sampling": lambda: pq.SamplingSimulator,
    "gaussian": lambda: pq.GaussianSimulator,
    "fock": lambda: pq.FockSimulator,
}
_WRAPPED = {}


def wrapped_sim_class(name):
    """The shipped simulator with every simulation step wrapped by a counter (fault position)."""
    if name in _WRAPPED:
        return _WRAPPED[name]
    base = SIMS[name]()
    orig_map = base._instruction_map

    def wrap(step):
        def w(state, instruction, shots):
            CTL.tick("step:" + type(instruction).__name__)
            if CTL.caller_state is not None and not CTL.probed:
                # the state the first step works on must own fresh arrays (State.copy)
                CTL.probed = True
                mine = deep_arrays(CTL.caller_state)
                for p, a in deep_arrays(state):
                    for q, b in mine:
                        if a.size and b.size and np.shares_memory(a, b):
                            CTL.shared.append([p, q])
            return step(state, instruction, shots)
        return w

    if isinstance(orig_map, property):
        def imap(self, _g=orig_map.fget):
            return {k: wrap(v) for k, v in _g(self).items()}
        cls = type(base.__name__, (base,), {"_instruction_map": property(imap)})
    else:
        cls = type(base.__name__, (base,), {"_instruction_map": {k: wrap(v) for k, v in orig_map.items()}})
    _WRAPPED[name] = cls
    return cls


_VALIDATE_PATCHED = set()


def patch_validate(prog):
    for i in prog.instructions:
        c = type(i)
        if c in _VALIDATE_PATCHED:
            continue
        _VALIDATE_PATCHED.add(c)
        orig = c._validate

        def v(self, connector, _o=orig):
            CTL.tick("validate:" + type(self).__name__)
            return _o(self, connector)

        c._validate = v


def state_arrays(st):
    return [np.array(a, copy=True) for _, a in deep_arrays(st)] if st is not None else []


def run_case(case):
    """Clean run, then a run with a fault at every (or the last three) call positions; every
    object the caller handed in is snapshotted before and compared after."""
    simcls = wrapped_sim_class(case["sim"])
    cfg_dtype = DT[case.get("dtype", "float64")]

    def one(fault_at, rerun):
        ucfg = pq.Config(seed_sequence=case["seed"], cutoff=case.get("cutoff"),
                         validate=case.get("validate", True), dtype=cfg_dtype)
        sim = simcls(d=case["d"], config=ucfg)
        init = None
        CTL.caller_state = None
        if case.get("prep"):
            CTL.reset(None)
            init = sim.execute(build(case["prep"], remember=False)).state
        prog = build(case["prog"])
        patch_validate(prog)
        before = (snap_prog(prog), snap_state(init), snap_cfg(ucfg), snap_handed())
        rng_before = repr(ucfg.rng.bit_generator.state)
        rnd = random.getstate()
        CTL.reset(fault_at)
        CTL.caller_state, CTL.probed, CTL.shared = init, False, []
        rec = {"fault_at": fault_at}
        first_state = None
        try:
            res = sim.execute(prog, shots=case["shots"], initial_state=init)
            rec["result"] = ["ok", [[repr(o) for o in b.outcome] for b in res.branches][:40]]
            first_state = [state_arrays(b.state) for b in res.branches[:4]]
            if init is not None and res.branches:
                # which arrays of a state do the steps change at all?
                fin = dict(deep_arrays(res.branches[0].state))
                rec["changed_paths"] = sorted(p for p, a in deep_arrays(init)
                                              if p in fin and fin[p].shape == a.shape and not np.array_equal(fin[p], a, equal_nan=True))
        except Exception as e:  # noqa: BLE001
            rec["result"] = ["raise", type(e).__name__, re.sub(r"0x[0-9a-f]+", "0x..", str(e))[:120]]
        rec["ncalls"] = CTL.count
        rec["kinds"] = list(CTL.kinds)
        rec["shared_with_initial_state"] = list(CTL.shared)
        CTL.caller_state = None
        after = (snap_prog(prog), snap_state(init), snap_cfg(ucfg), snap_handed())
        rec["prog_before"], rec["prog_after"] = before[0], after[0]
        rec["state_same"] = before[1] == after[1]
        if not rec["state_same"]:
            rec["state_diff"] = [x for x, y in zip(before[1], after[1]) if x != y][:3]
        rec["config_same"] = before[2] == after[2]
        rec["handed_same"] = before[3] == after[3]
        if not rec["handed_same"]:
            rec["handed_diff"] = [[x, y] for x, y in zip(before[3], after[3]) if x != y][:3]
        rec["params_identity"] = all(prog.instructions[i].params.get(k) is v for i, k, v in HANDED)
        rec["user_rng_advanced"] = rng_before != repr(ucfg.rng.bit_generator.state)
        rec["global_random_same"] = random.getstate() == rnd
        if rerun:
            # a second, fault-free execution on the same objects
            CTL.reset(None)
            try:
                res2 = sim.execute(prog, shots=case["shots"], initial_state=init)
                rec["rerun"] = ["ok"]
                if fault_at is None and first_state is not None and case.get("deterministic"):
                    second = [state_arrays(b.state) for b in res2.branches[:4]]
                    rec["rerun_same_state"] = len(first_state) == len(second) and all(
                        len(x) == len(y) and all(p.shape == q.shape and np.allclose(p, q, atol=1e-10, equal_nan=True) for p, q in zip(x, y))
                        for x, y in zip(first_state, second))
            except Exception as e:  # noqa: BLE001
                rec["rerun"] = ["raise", type(e).__name__, re.sub(r"0x[0-9a-f]+", "0x..", str(e))[:120]]
            rec["rerun_prog"] = snap_prog(prog)
            rec["rerun_state_same"] = snap_state(init) == before[1]
            rec["rerun_handed_same"] = snap_handed() == before[3]
        # the other entry points of the property on the same objects
        rnd2 = random.getstate()
        other = {}
        pb = (snap_prog(prog), snap_handed())
        for name, f in (("validate", lambda: sim.validate(prog)), ("copy", lambda: prog.copy()),
                        ("to_blackbird_code", lambda: prog.to_blackbird_code()),
                        ("as_code", lambda: pq.as_code(prog, sim, shots=1))):
            if fault_at is not None or case.get("no_other"):
                break
            try:
                f()
                r = "ok"
            except Exception as e:  # noqa: BLE001
                r = "raise " + type(e).__name__
            other[name] = [r, (snap_prog(prog), snap_handed()) == pb, random.getstate() == rnd2]
            rnd2 = random.getstate()
        rec["other"] = other
        return rec

    clean = one(None, bool(case.get("rerun_clean")))
    runs = [clean]
    n = clean["ncalls"]
    tail = {"all": n, "tail3": 3, "tail2": 2, "tail1": 1, "none": 0}[case.get("faults", "all")]
    positions = range(max(0, n - tail), n)
    for k in positions:
        runs.append(one(k, True))
    return {"runs": runs}


def real_section(cases):
    _expressions.Expression.__call__ = _counted_expr_call
    return [run_case(case) for case in cases]


# ----------------------------------------------------------------------------- initial_state x every step
A = lambda kind, n, **kw: [6, dict(kind=kind, n=n, dtype=kw.pop("dtype", "float64"), **kw)]  # noqa: E731

DEFAULT_KW = {
    "Annihilate": {}, "Attenuator": {"theta": [0, 0.3]}, "Beamsplitter": {"theta": [0, 0.4], "phi": [0, 0.2]},
    "Beamsplitter5050": {}, "ControlledX": {"s": [0, 0.2]}, "ControlledZ": {"s": [0, 0.2]},
    "Covariance": {"cov": A("cov", 4)}, "Create": {}, "CrossKerr": {"xi": [0, 0.7]}, "CubicPhase": {"gamma": [0, 0.1]},
    "DensityMatrix": {"ket": [5, [1, 0]], "bra": [5, [1, 0]]},
    "DeterministicGaussianChannel": {"X": A("eye", 2, scale=0.9), "Y": A("eye", 2, scale=0.5)},
    "Displacement": {"r": [0, 0.2], "phi": [0, 0.1]},
    "DistinguishableNumberState": {"occupation_numbers": [5, [1, 1]], "particle_overlap": A("overlap", 2)},
    "FockStateVector": {"fock_amplitude_map": [7, [[[1, 0], 0.6], [[0, 1], 0.8]]]}, "Fourier": {},
    "GaussianTransform": {"passive": A("unitary", 2, seed=3), "active": A("zeros", 2, dtype="complex128")},
    "GeneraldyneMeasurement": {"detection_covariance": A("eye", 2)}, "Graph": {"adjacency_matrix": A("adjacency", 2)},
    "HeterodyneMeasurement": {}, "HomodyneMeasurement": {},
    "ImperfectParticleNumberMeasurement": {"detector_efficiency_matrix": A("detector", 3)},
    "ImperfectPostSelectPhotons": {"photon_counts": [5, [1]], "detector_efficiency_matrix": A("detector", 3)},
    "Interferometer": {"matrix": A("unitary", 2, seed=5)}, "Kerr": {"xi": [0, 0.3]},
    "Loss": {"transmissivity": A("vector", 2)}, "LossyInterferometer": {"matrix": A("lossy", 2, seed=5)},
    "MachZehnder": {"int_": [0, 0.3], "ext": [0, 0.2]}, "Mean": {"mean": A("vector", 4)},
    "MomentumDisplacement": {"p": [0, 0.2]}, "NumberState": {"occupation_numbers": [5, [1, 0]]},
    "ParticleNumberMeasurement": {}, "Phaseshifter": {"phi": [0, 0.3]}, "PositionDisplacement": {"x": [0, 0.2]},
    "PostSelectPhotons": {"photon_counts": [5, [1]]}, "QuadraticPhase": {"s": [0, 0.2]},
    "SNAP": {"theta": A("vector", 4)}, "Squeezing": {"r": [0, 0.2], "phi": [0, 0.1]},
    "Squeezing2": {"r": [0, 0.2], "phi": [0, 0.1]}, "StateVector": {"occupation_numbers": [5, [1, 0]]},
    "Thermal": {"mean_photon_numbers": A("vector", 2)}, "ThresholdMeasurement": {}, "UniformLoss": {"transmissivity": [0, 0.9]},
    "Vacuum": {},
}
SIMS["passive"] = lambda: pq.PassiveSimulator
PREPS = {
    "purefock": [{"cls": "NumberState", "modes": [0, 1], "params": {"occupation_numbers": [5, [1, 1]]}},
                 {"cls": "Beamsplitter", "modes": [0, 1], "params": {"theta": [0, 0.6], "phi": [0, 0.3]}}],
    "fock": [{"cls": "Vacuum", "modes": [], "params": {}},
             {"cls": "Squeezing", "modes": [0], "params": {"r": [0, 0.3]}},
             {"cls": "Beamsplitter", "modes": [0, 1], "params": {"theta": [0, 0.6], "phi": [0, 0.3]}}],
    "gaussian": [{"cls": "Vacuum", "modes": [], "params": {}},
                 {"cls": "Squeezing", "modes": [0], "params": {"r": [0, 0.3]}},
                 {"cls": "Displacement", "modes": [1], "params": {"r": [0, 0.2]}},
                 {"cls": "Beamsplitter", "modes": [0, 1], "params": {"theta": [0, 0.6], "phi": [0, 0.3]}}],
    "sampling": [{"cls": "NumberState", "modes": [0, 1], "params": {"occupation_numbers": [5, [1, 1]]}},
                 {"cls": "Beamsplitter", "modes": [0, 1], "params": {"theta": [0, 0.6], "phi": [0, 0.3]}}],
}
PREPS["passive"] = PREPS["sampling"]


def initstate_cases(req):
    """For every simulator and every instruction class of its _instruction_map (introspection):
    the prepared state is handed in as initial_state of [that instruction, an ordinary gate]."""
    from piquasso.api.instruction import Measurement
    out = []
    for sim in req["sims"]:
        smap = SIMS[sim]()(d=2)._instruction_map
        for cls in smap:
            name = cls.__name__
            if name not in DEFAULT_KW:
                out.append({"skip": [sim, name]})
                continue
            nm = cls.NUMBER_OF_MODES
            meas = issubclass(cls, Measurement)
            modes = [0] if nm == 1 else ([0, 1] if nm == 2 or not meas else [1])
            if name in ("ImperfectParticleNumberMeasurement", "ParticleNumberMeasurement", "ThresholdMeasurement",
                        "HeterodyneMeasurement", "HomodyneMeasurement", "GeneraldyneMeasurement",
                        "PostSelectPhotons", "ImperfectPostSelectPhotons"):
                modes = [1]
            first = {"cls": name, "modes": modes, "params": DEFAULT_KW[name]}
            follow = {"cls": "Phaseshifter", "modes": [0], "params": {"phi": [0, 0.25]}}
            out.append({"sim": sim, "d": 2, "cutoff": 4, "seed": req["seed"], "shots": 1 if not meas else 3,
                        "prep": PREPS[sim], "prog": [first] if meas else [first, follow], "rerun_clean": True,
                        "deterministic": not meas, "faults": req.get("faults", "tail1"), "no_other": True, "first": name})
    return out


def initstate_section(req):
    _expressions.Expression.__call__ = _counted_expr_call
    res = []
    for case in initstate_cases(req):
        if "skip" in case:
            res.append({"skip": case["skip"]})
            continue
        try:
            r = run_case(case)
        except Exception as e:  # noqa: BLE001
            res.append({"case": case, "error": type(e).__name__ + ": " + str(e)[:200]})
            continue
        r["case"] = case
        res.append(r)
    return res


# ----------------------------------------------------------------------------- arrays
def variants(a):
    a = np.asarray(a)
    out = {"C": np.ascontiguousarray(a.copy()), "F": np.asfortranarray(a.copy())}
    big = np.zeros(tuple(2 * s for s in a.shape), dtype=a.dtype)
    big[tuple(slice(None, None, 2) for _ in a.shape)] = a
    out["strided"] = big[tuple(slice(None, None, 2) for _ in a.shape)]
    ro = np.ascontiguousarray(a.copy())
    ro.setflags(write=False)
    out["readonly"] = ro
    return out


def arrays_section(req):
    from piquasso._math.pfaffian import pfaffian
    from piquasso._math.permanent import permanent, permanent_laplace
    from piquasso._math.torontonian import torontonian, loop_torontonian
    from piquasso._math.hafnian import (hafnian_with_reduction, loop_hafnian_with_reduction)
    from piquasso._math.decompositions import takagi, williamson
    from piquasso.decompositions.clements import clements

    conn = pq.NumpyConnector()
    out = []
    for t in req["tests"]:
        n = t["n"]
        r = np.random.default_rng(t["seed"])
        ints = np.array(t["ints"], dtype=float).reshape(n, n) if "ints" in t else r.integers(-4, 5, size=(n, n)).astype(float)
        skew = ints - ints.T
        cplx = r.normal(size=(n, n)) + 1j * r.normal(size=(n, n))
        sym = cplx + cplx.T
        g = r.normal(size=(n, n))
        spd = g @ g.T
        spd = spd / (np.linalg.norm(spd, 2) * 1.5)
        occ = r.integers(0, 3, size=n).astype(np.int32)
        vec = r.normal(size=n)
        u = unitary(n, t["seed"])
        ev = 1.0 + np.arange(1, 2 * ((n + 1) // 2) + 1, dtype=float)
        gg = r.normal(size=(len(ev), len(ev)))
        posdef = gg @ np.diag(ev) @ gg.T + np.eye(len(ev))
        calls = [
            ("piquasso._math.pfaffian.pfaffian", pfaffian, [skew]),
            ("piquasso._math.pfaffian.pfaffian[float32]", pfaffian, [skew.astype(np.float32)]),
            ("connector.pfaffian", conn.pfaffian, [skew]),
            ("connector.permanent", conn.permanent, [cplx, occ, occ]),
            ("connector.permanent_laplace", conn.permanent_laplace, [cplx, occ, occ]),
            ("piquasso._math.permanent.permanent", permanent, [cplx, occ, occ]),
            ("piquasso._math.permanent.permanent_laplace", permanent_laplace, [cplx, occ, occ]),
            ("piquasso._math.torontonian.torontonian", torontonian, [spd]),
            ("piquasso._math.torontonian.loop_torontonian", loop_torontonian, [spd, vec]),
            ("connector.hafnian", conn.hafnian, [sym, occ.astype(np.int64)]),
            ("connector.loop_hafnian", conn.loop_hafnian, [sym, vec + 0j, occ.astype(np.int64)]),
            ("hafnian_with_reduction", hafnian_with_reduction, [sym, occ.astype(np.int64)]),
            ("loop_hafnian_with_reduction", loop_hafnian_with_reduction, [sym, vec + 0j, occ.astype(np.int64)]),
            ("connector.sqrtm", conn.sqrtm, [spd]),
            ("connector.logm", conn.logm, [spd + np.eye(n)]),
            ("connector.expm", conn.expm, [g]),
            ("connector.polar", conn.polar, [g]),
            ("connector.svd", conn.svd, [g]),
            ("connector.schur", conn.schur, [g]),
            ("connector.powm", conn.powm, [g, 2]),
            ("connector.block_diag", conn.block_diag, [g, g]),
            ("takagi", lambda m: takagi(m, conn), [sym]),
            ("williamson", lambda m: williamson(m, conn), [posdef]),
            ("clements", lambda m: clements(m, conn), [u]),
        ]
        for name, f, args in calls:
            for vname in ("C", "F", "strided", "readonly"):
                vs = [variants(a)[vname] if isinstance(a, np.ndarray) else a for a in args]
                before = [v.tobytes() if isinstance(v, np.ndarray) else None for v in vs]
                try:
                    val = f(*vs)
                    err = None
                except Exception as e:  # noqa: BLE001
                    val = None
                    err = type(e).__name__
                after = [v.tobytes() if isinstance(v, np.ndarray) else None for v in vs]
                rec = {"call": name, "layout": vname, "n": n, "seed": t["seed"], "same": before == after, "error": err}
                if name.startswith("piquasso._math.pfaffian.pfaffian") or name == "connector.pfaffian":
                    rec["input"] = skew.tolist()
                    rec["after"] = np.asarray(vs[0], dtype=float).tolist()
                    rec["value"] = None if val is None else float(val)
                out.append(rec)
    return out


# ----------------------------------------------------------------------------- global random
def globals_section(req):
    out = []

    def probe(name, f):
        st = random.getstate()
        try:
            f()
            err = None
        except Exception as e:  # noqa: BLE001
            err = type(e).__name__
        out.append({"call": name, "same": random.getstate() == st, "error": err})

    cfg = pq.Config(seed_sequence=3)
    sim = pq.PureFockSimulator(d=2, config=cfg)
    prog = pq.Program(instructions=[pq.Vacuum(), pq.Phaseshifter(phi=0.1).on_modes(0)])
    state = sim.execute(prog).state
    probe("Config()", lambda: pq.Config())
    probe("Config(seed_sequence=3)", lambda: pq.Config(seed_sequence=3))
    probe("config.seed_sequence = 5", lambda: setattr(pq.Config(seed_sequence=3), "seed_sequence", 5) if False else setattr(cfg.copy(), "seed_sequence", 5))
    probe("config.copy()", lambda: cfg.copy())
    probe("repr(config)", lambda: repr(cfg))
    probe("PureFockSimulator(d=2)", lambda: pq.PureFockSimulator(d=2))
    probe("PureFockSimulator(d=2, config=config)", lambda: pq.PureFockSimulator(d=2, config=cfg))
    probe("repr(simulator)", lambda: repr(sim))
    probe("repr(state)", lambda: repr(state))
    probe("state.copy()", lambda: state.copy())
    probe("simulator.validate(program)", lambda: sim.validate(prog))
    probe("simulator.execute(program) [gates only]", lambda: sim.execute(prog))
    unknown = type("C12Unknown", (pq.Gate,), {})
    probe("simulator.execute(unsupported instruction) [the error message formats the simulator]",
          lambda: sim.execute(pq.Program(instructions=[pq.Vacuum(), unknown().on_modes(0)])))
    meas = pq.Program(instructions=[pq.StateVector([1, 1]), pq.Beamsplitter(theta=0.7).on_modes(0, 1),
                                    pq.ParticleNumberMeasurement()])
    sim2 = pq.PureFockSimulator(d=2, config=pq.Config(seed_sequence=3, cutoff=3))
    probe("PureFockSimulator.execute(ParticleNumberMeasurement, shots=5)", lambda: sim2.execute(meas, shots=5))
    sim3 = pq.FockSimulator(d=2, config=pq.Config(seed_sequence=3, cutoff=3))
    meas3 = pq.Program(instructions=[pq.Vacuum(), pq.Squeezing(r=0.4).on_modes(0), pq.ParticleNumberMeasurement()])
    probe("FockSimulator.execute(ParticleNumberMeasurement, shots=5)", lambda: sim3.execute(meas3, shots=5))
    probe("pq.as_code(program, simulator)", lambda: pq.as_code(prog, sim))
    probe("program.copy()", lambda: prog.copy())
    gates = pq.Program(instructions=[pq.Phaseshifter(phi=0.1).on_modes(0), pq.Beamsplitter(theta=0.2).on_modes(0, 1)])
    probe("program.to_blackbird_code()", lambda: gates.to_blackbird_code())
    return out
