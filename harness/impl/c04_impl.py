"""C04 implementation runner: the Python entry points of the matrix-function kernels.

Reads one JSON request on stdin: {"perm": [...], "haf": [...], "pf": [...], "tor": [...]}.
permanent/permanent_laplace/torontonian/pfaffian go through the shipped pybind binaries
(piquasso._math.permanent etc. -- they cannot be rebuilt in this sandbox; the fresh C++
sources are exercised by /verif/native/c04/driver.cpp), the hafnian family is the numba code
of the repo under test.  Prints one JSON line.
"""
import json
import sys
import traceback

import numpy as np


def cplx(M, dtype):
    a = np.array([[complex(x[0], x[1]) for x in row] for row in M], dtype=dtype)
    if a.ndim == 1:
        a = a.reshape((len(M), 0))
    return a


def layout(a, strided):
    """contiguous, or a non-contiguous view with the same values"""
    if not strided:
        return np.ascontiguousarray(a)
    big = np.full((2 * a.shape[0] + 1, 2 * a.shape[1] + 1), 777 - 555j if np.iscomplexobj(a) else 777.0, dtype=a.dtype)
    big[1::2, 1::2] = a
    v = big[1::2, 1::2]
    assert not v.flags["C_CONTIGUOUS"] or a.size <= 1
    return v


def out_c(z):
    z = complex(z)
    return [z.real, z.imag]


def main():
    req = json.load(sys.stdin)
    res = {}
    from piquasso._math.permanent import permanent, permanent_laplace
    from piquasso._math.pfaffian import pfaffian
    from piquasso._math.torontonian import torontonian, loop_torontonian
    from piquasso._simulators.connectors import NumpyConnector

    conn = NumpyConnector()

    out = []
    for c in req.get("perm", []):
        dt = np.complex64 if c["prec"] == "f" else np.complex128
        try:
            A = layout(cplx(c["M"], dt), c.get("strided", False))
            if A.shape[1] == 0 and len(c["cols"]) != 0:
                A = np.zeros((len(c["rows"]), len(c["cols"])), dtype=dt)
            rows = np.array(c["rows"], dtype=np.int64 if c.get("int64") else np.int32)
            cols = np.array(c["cols"], dtype=np.int64 if c.get("int64") else np.int32)
            before = A.copy()
            if c["kind"] == "perm":
                f = conn.permanent if c.get("via") == "connector" else permanent
                r = {"v": out_c(f(A, rows, cols))}
            else:
                f = conn.permanent_laplace if c.get("via") == "connector" else permanent_laplace
                v = f(A, rows, cols)
                r = {"v": [out_c(x) for x in np.asarray(v).ravel()]}
            r["dtype"] = str(np.asarray(f(A, rows, cols)).dtype)
            r["input_unchanged"] = bool(np.array_equal(A, before))
        except BaseException as e:  # noqa
            r = {"err": type(e).__name__ + ": " + str(e)[:200]}
        out.append(r)
    res["perm"] = out

    out = []
    if req.get("haf"):
        from piquasso._math.hafnian import (hafnian_with_reduction, hafnian_with_reduction_batch,
                                            loop_hafnian_with_reduction,
                                            loop_hafnian_with_reduction_batch)
    for c in req.get("haf", []):
        dt = np.complex64 if c["prec"] == "f" else np.complex128
        try:
            A = layout(cplx(c["M"], dt), c.get("strided", False))
            occ = np.array(c["occ"], dtype=np.int64)
            k = c["kind"]
            if k == "haf":
                f = conn.hafnian if c.get("via") == "connector" else hafnian_with_reduction
                r = {"v": out_c(f(A, occ))}
            elif k == "lhaf":
                d = np.array([complex(x[0], x[1]) for x in c["diag"]], dtype=dt)
                f = conn.loop_hafnian if c.get("via") == "connector" else loop_hafnian_with_reduction
                r = {"v": out_c(f(A, d, occ))}
            elif k == "haf_batch":
                r = {"v": [out_c(x) for x in hafnian_with_reduction_batch(A, occ, int(c["cutoff"]))]}
            elif k == "lhaf_batch":
                d = np.array([complex(x[0], x[1]) for x in c["diag"]], dtype=np.complex128)
                r = {"v": [out_c(x) for x in loop_hafnian_with_reduction_batch(
                    A.astype(np.complex128), d, occ, int(c["cutoff"]))]}
            else:
                r = {"err": "unknown kind"}
        except BaseException as e:  # noqa
            r = {"err": type(e).__name__ + ": " + str(e)[:300], "tb": traceback.format_exc()[-600:]}
        # which side of the branches of the reduction code this input falls on (census only)
        try:
            from piquasso._math.hafnian.utils import match_occupation_numbers as _mo
            occ2 = np.array(c["occ"], dtype=np.int64)
            A2 = cplx(c["M"], np.complex128)
            if occ2.sum() % 2 == 1:
                occ2 = np.concatenate([occ2, [1]]) if c["kind"].startswith("haf") else np.concatenate([[1], occ2])
                A2 = np.pad(A2, ((0, 1), (0, 1)) if c["kind"].startswith("haf") else ((1, 0), (1, 0)))
            if occ2.sum() >= 2:
                er, ei = _mo(occ2)
                red = A2[np.ix_(ei, ei)]
                r["n_edges"] = int(len(er))
                r["sum_reps"] = int(np.sum(er))
                r["red_norm2"] = float(np.sum(np.abs(red) ** 2))
        except BaseException:  # noqa
            pass
        out.append(r)
    res["haf"] = out

    out = []
    for c in req.get("real", []):
        dt = np.float32 if c["prec"] == "f" else np.float64
        try:
            A = layout(np.array(c["M"], dtype=dt).reshape((len(c["M"]), len(c["M"]))), c.get("strided", False))
            before = A.copy()
            k = c["kind"]
            if k == "pf":
                f = conn.pfaffian if c.get("via") == "connector" else pfaffian
                r = {"v": float(f(A))}
            elif k == "tor":
                r = {"v": float(torontonian(A))}
            else:
                y = np.array(c["y"], dtype=dt)
                r = {"v": float(loop_torontonian(A, y))}
            r["input_unchanged"] = bool(np.array_equal(A, before))
        except BaseException as e:  # noqa
            r = {"err": type(e).__name__ + ": " + str(e)[:200]}
        out.append(r)
    res["real"] = out
    # the pure integer functions of the hafnian reduction
    if req.get("mo") or req.get("kept"):
        from piquasso._math.hafnian.utils import get_kept_edges, match_occupation_numbers
        out = []
        for occ in req.get("mo", []):
            try:
                er, ei = match_occupation_numbers(np.array(occ, dtype=np.int64))
                out.append({"reps": [int(x) for x in er], "idx": [int(x) for x in ei]})
            except BaseException as e:  # noqa
                out.append({"err": type(e).__name__ + ": " + str(e)[:200]})
        res["mo"] = out
        out = []
        for reps in req.get("kept", []):
            try:
                arr = np.array(reps, dtype=np.int64)
                size = int(np.prod(arr + 1)) if len(reps) else 1
                out.append([[int(x) for x in get_kept_edges(arr, k)] for k in range(size)])
            except BaseException as e:  # noqa
                out.append({"err": type(e).__name__ + ": " + str(e)[:200]})
        res["kept"] = out
    print(json.dumps(res))


if __name__ == "__main__":
    main()
