#!/bin/bash
# Build the framework from files on disk only (offline): full .vo build of the Coq
# development, forbidden-vernacular scan, native drivers.
set -e
cd "$(dirname "$0")"
mkdir -p evidence .run
if grep -rnE '\b(Admitted|admit|Axiom|Parameter|Conjecture)\b|Unset Guard Checking|bypass_check|Admit Obligations' coq/theories --include='*.v' | grep -v '^\S*:\s*[0-9]*:\s*(\*' ; then
  echo "setup: forbidden vernacular found" >&2; exit 1
fi
if ! coq/build.sh > .run/setup_build.log 2>&1; then
  tail -30 .run/setup_build.log >&2
  echo "setup: Coq build failed" >&2; exit 1
fi
tail -3 .run/setup_build.log
[ -x native/build.sh ] && native/build.sh || true
echo "setup done"
