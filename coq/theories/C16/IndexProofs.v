(* C16 - proofs about the index lists: entry formula for modes in any order, and the
   flattened index list is a permutation of [0, dim). *)
From Coq Require Import ZArith List Bool Lia ZifyBool Permutation.
From PV Require Import Comb.FockModel Comb.Binom Comb.FockProofs C16.IndexModel.
Import ListNotations.
Open Scope Z_scope.

(* ------------------------------------------------------------------ upd / scatter / gather *)
Lemma upd_length {X} (l : list X) : forall i x, length (upd l i x) = length l.
Proof. induction l; intros [|i] x; simpl; auto. Qed.

Lemma nth_upd_eq {X} (l : list X) : forall i x d, (i < length l)%nat -> nth i (upd l i x) d = x.
Proof. induction l; intros [|i] x d H; simpl in *; try lia; auto. apply IHl. lia. Qed.

Lemma nth_upd_neq {X} (l : list X) : forall i j x d, i <> j -> nth j (upd l i x) d = nth j l d.
Proof.
  induction l; intros [|i] [|j] x d H; simpl; auto; try congruence.
Qed.

Lemma upd_nth_id {X} (l : list X) : forall i d, upd l i (nth i l d) = l.
Proof. induction l; intros [|i] d; simpl; auto. now rewrite IHl. Qed.

Lemma scatter_cons {X} (buf : list X) m ms x vals :
  scatter buf (m :: ms) (x :: vals) = scatter (upd buf m x) ms vals.
Proof. reflexivity. Qed.

Lemma scatter_nil_r {X} (buf : list X) ms : scatter buf ms [] = buf.
Proof. destruct ms; reflexivity. Qed.

Lemma scatter_length {X} ms : forall (buf vals : list X), length (scatter buf ms vals) = length buf.
Proof.
  induction ms as [|m ms IH]; intros buf [|x vals]; try reflexivity.
  rewrite scatter_cons, IH. apply upd_length.
Qed.

Lemma nth_scatter_notin {X} ms : forall (buf vals : list X) i d,
  ~ In i ms -> nth i (scatter buf ms vals) d = nth i buf d.
Proof.
  induction ms as [|m ms IH]; intros buf vals i d Hn; [reflexivity|].
  destruct vals as [|x vals]; [reflexivity|].
  rewrite scatter_cons, IH by (simpl in Hn; tauto).
  apply nth_upd_neq. simpl in Hn. intros ->. tauto.
Qed.

Lemma nth_scatter_in {X} ms : forall (buf vals : list X) j d,
  NoDup ms -> length vals = length ms -> (j < length ms)%nat ->
  (nth j ms 0 < length buf)%nat ->
  nth (nth j ms 0%nat) (scatter buf ms vals) d = nth j vals d.
Proof.
  induction ms as [|m ms IH]; intros buf vals j d Hnd Hlen Hj Hb; [simpl in Hj; lia|].
  destruct vals as [|x vals]; [discriminate|]. rewrite scatter_cons.
  inversion Hnd; subst. destruct j as [|j].
  - simpl. rewrite nth_scatter_notin by assumption. apply nth_upd_eq. exact Hb.
  - simpl. apply IH; auto; simpl in *; try lia. now rewrite upd_length.
Qed.

Lemma nth_gather {X} (dflt : X) v ms j :
  (j < length ms)%nat -> nth j (gather dflt v ms) dflt = nth (nth j ms 0%nat) v dflt.
Proof.
  intros H. unfold gather.
  rewrite (nth_indep _ dflt ((fun m => nth m v dflt) 0%nat)) by (now rewrite map_length).
  apply (map_nth (fun m => nth m v dflt)).
Qed.

Lemma gather_length {X} (dflt : X) v ms : length (gather dflt v ms) = length ms.
Proof. apply map_length. Qed.

Lemma gather_scatter_same {X} (dflt : X) ms buf vals :
  NoDup ms -> length vals = length ms -> Forall (fun m => (m < length buf)%nat) ms ->
  gather dflt (scatter buf ms vals) ms = vals.
Proof.
  intros Hnd Hlen Hb. apply (nth_ext _ _ dflt dflt).
  - now rewrite gather_length.
  - intros j Hj. rewrite gather_length in Hj. rewrite nth_gather by assumption.
    apply nth_scatter_in; auto.
    rewrite Forall_forall in Hb. apply Hb. now apply nth_In.
Qed.

Lemma gather_scatter_other {X} (dflt : X) ms ms' buf vals :
  (forall m, In m ms' -> ~ In m ms) ->
  gather dflt (scatter buf ms vals) ms' = gather dflt buf ms'.
Proof.
  intros H. unfold gather. apply map_ext_in. intros m Hm.
  apply nth_scatter_notin. now apply H.
Qed.

Lemma scatter_gather_id {X} (dflt : X) ms : forall v, scatter v ms (gather dflt v ms) = v.
Proof.
  induction ms as [|m ms IH]; intros v; [reflexivity|].
  cbn [gather map]. rewrite scatter_cons, upd_nth_id. apply IH.
Qed.

Lemma Forall_upd {X} (P : X -> Prop) l : forall i x, Forall P l -> P x -> Forall P (upd l i x).
Proof.
  induction l; intros [|i] x Hl Hx; simpl; auto; inversion Hl; subst; constructor; auto.
Qed.

Lemma Forall_scatter {X} (P : X -> Prop) ms : forall buf vals,
  Forall P buf -> Forall P vals -> Forall P (scatter buf ms vals).
Proof.
  induction ms as [|m ms IH]; intros buf [|x vals] Hb Hv; try exact Hb.
  rewrite scatter_cons. inversion Hv; subst. apply IH; auto. now apply Forall_upd.
Qed.

Lemma Forall_gather {X} (P : X -> Prop) dflt v ms :
  Forall P v -> Forall (fun m => (m < length v)%nat) ms -> Forall P (gather dflt v ms).
Proof.
  intros Hv Hm. unfold gather. rewrite Forall_forall in *. intros x Hx.
  apply in_map_iff in Hx. destruct Hx as [m [<- Hin]]. apply Hv. apply nth_In. now apply Hm.
Qed.

(* ------------------------------------------------------------------ auxiliary modes *)
Lemma mem_nat_In i ms : mem_nat i ms = true <-> In i ms.
Proof.
  unfold mem_nat. rewrite existsb_exists. split.
  - intros [x [Hx He]]. apply Nat.eqb_eq in He. now subst.
  - intros H. exists i. split; [exact H | apply Nat.eqb_refl].
Qed.

Lemma aux_modes_In d ms i : In i (aux_modes d ms) <-> (i < d)%nat /\ ~ In i ms.
Proof.
  unfold aux_modes. rewrite filter_In, in_seq, negb_true_iff. split.
  - intros [H1 H2]. split; [lia|]. intros Hc. apply mem_nat_In in Hc. congruence.
  - intros [H1 H2]. split; [lia|]. destruct (mem_nat i ms) eqn:E; [|reflexivity].
    apply mem_nat_In in E. tauto.
Qed.

Lemma aux_modes_NoDup d ms : NoDup (aux_modes d ms).
Proof. apply NoDup_filter, seq_NoDup. Qed.

Lemma NoDup_app' {X} (l1 l2 : list X) :
  NoDup l1 -> NoDup l2 -> (forall x, In x l1 -> In x l2 -> False) -> NoDup (l1 ++ l2).
Proof.
  induction l1 as [|a l1 IH]; intros H1 H2 H; [exact H2|].
  inversion H1; subst. simpl. constructor.
  - rewrite in_app_iff. intros [Hc|Hc]; [tauto|]. apply (H a); simpl; auto.
  - apply IH; auto. intros x Hx. apply H. now right.
Qed.

Definition modes_ok (d : nat) (ms : list nat) : Prop :=
  NoDup ms /\ Forall (fun m => (m < d)%nat) ms.

Lemma modes_aux_perm d ms : modes_ok d ms -> Permutation (ms ++ aux_modes d ms) (seq 0 d).
Proof.
  intros [Hnd Hlt]. apply NoDup_Permutation.
  - apply NoDup_app'; auto using aux_modes_NoDup.
    intros x H1 H2. apply aux_modes_In in H2. tauto.
  - apply seq_NoDup.
  - intros x. rewrite in_app_iff, aux_modes_In, in_seq. rewrite Forall_forall in Hlt. split.
    + intros [H|[H _]]; [apply Hlt in H|]; lia.
    + intros H. destruct (in_dec Nat.eq_dec x ms); [left; auto | right; split; [lia|auto]].
Qed.

Lemma aux_modes_length d ms : modes_ok d ms -> length (aux_modes d ms) = (d - length ms)%nat.
Proof.
  intros H. apply modes_aux_perm in H. apply Permutation_length in H.
  rewrite app_length, seq_length in H. lia.
Qed.

Lemma modes_length_le d ms : modes_ok d ms -> (length ms <= d)%nat.
Proof.
  intros H. apply modes_aux_perm in H. apply Permutation_length in H.
  rewrite app_length, seq_length in H. lia.
Qed.

Lemma aux_modes_lt d ms : Forall (fun m => (m < d)%nat) (aux_modes d ms).
Proof. rewrite Forall_forall. intros x H. apply aux_modes_In in H. tauto. Qed.

(* ------------------------------------------------------------------ sums *)
Lemma sumZ_perm l l' : Permutation l l' -> sumZ l = sumZ l'.
Proof. induction 1; unfold sumZ in *; simpl; lia. Qed.

Lemma gz_seq v : gz v (seq 0 (length v)) = v.
Proof.
  apply (nth_ext _ _ 0 0).
  - unfold gz. now rewrite gather_length, seq_length.
  - intros n Hn. unfold gz in *. rewrite gather_length, seq_length in Hn.
    rewrite nth_gather by (now rewrite seq_length). now rewrite seq_nth.
Qed.

Lemma sum_split d ms v : modes_ok d ms -> length v = d ->
  sumZ v = sumZ (gz v ms) + sumZ (gz v (aux_modes d ms)).
Proof.
  intros Hok Hlen. rewrite <- sumZ_app. unfold gz, gather. rewrite <- map_app.
  rewrite <- (gz_seq v) at 1. rewrite Hlen. apply sumZ_perm. unfold gz, gather.
  apply Permutation_map. apply Permutation_sym. now apply modes_aux_perm.
Qed.

(* ------------------------------------------------------------------ merge *)
Section Merge.
  Variables (d : nat) (ms : list nat).
  Hypothesis Hok : modes_ok d ms.
  Let aux := aux_modes d ms.
  Let k := length ms.

  Lemma zeros_length : length (zeros d) = d.
  Proof. apply repeat_length. Qed.

  Lemma aux_disjoint : forall m, In m aux -> ~ In m ms.
  Proof. intros m H. apply aux_modes_In in H. tauto. Qed.

  Lemma ms_not_aux : forall m, In m ms -> ~ In m aux.
  Proof. intros m H Hc. apply aux_modes_In in Hc. tauto. Qed.

  Lemma merge_length u w : length (merge d ms u w) = d.
  Proof. unfold merge. now rewrite !scatter_length, zeros_length. Qed.

  (* two buffers of length d give the same result once every position is overwritten *)
  Lemma scatter2_ext (buf buf' u w : list Z) :
    length buf = d -> length buf' = d -> length u = k -> length w = (d - k)%nat ->
    scatter (scatter buf aux w) ms u = scatter (scatter buf' aux w) ms u.
  Proof.
    intros Hb Hb' Hu Hw. destruct Hok as [Hnd Hlt].
    pose proof (aux_modes_length d ms Hok) as Hal.
    pose proof (aux_modes_NoDup d ms) as Hand.
    unfold aux, k in *.
    apply (nth_ext _ _ 0 0); [now rewrite !scatter_length, Hb, Hb'|].
    intros i Hi. rewrite !scatter_length, Hb in Hi.
    destruct (in_dec Nat.eq_dec i ms) as [Hin|Hnin].
    - destruct (In_nth _ _ 0%nat Hin) as [j [Hj Hij]]. subst i.
      rewrite (nth_scatter_in ms (scatter buf (aux_modes d ms) w)); auto;
        [|rewrite scatter_length; lia].
      rewrite (nth_scatter_in ms (scatter buf' (aux_modes d ms) w)); auto.
      rewrite scatter_length; lia.
    - rewrite (nth_scatter_notin ms (scatter buf (aux_modes d ms) w)) by assumption.
      rewrite (nth_scatter_notin ms (scatter buf' (aux_modes d ms) w)) by assumption.
      assert (Hia : In i (aux_modes d ms)) by (apply aux_modes_In; auto).
      destruct (In_nth _ _ 0%nat Hia) as [j [Hj Hij]]. subst i.
      rewrite (nth_scatter_in (aux_modes d ms) buf); auto; try lia.
      rewrite (nth_scatter_in (aux_modes d ms) buf'); auto; try lia.
  Qed.

  Lemma merge_buf (buf u w : list Z) :
    length buf = d -> length u = k -> length w = (d - k)%nat ->
    scatter (scatter buf aux w) ms u = merge d ms u w.
  Proof. intros. unfold merge. apply scatter2_ext; auto using zeros_length. Qed.

  Lemma merge_gather v : length v = d -> merge d ms (gz v ms) (gz v aux) = v.
  Proof.
    intros Hv. rewrite <- (merge_buf v); auto.
    - unfold gz. now rewrite !scatter_gather_id.
    - apply gather_length.
    - unfold gz. rewrite gather_length. now apply aux_modes_length.
  Qed.

  Lemma gather_merge_ms u w : length u = k -> gz (merge d ms u w) ms = u.
  Proof.
    intros Hu. destruct Hok as [Hnd Hlt]. unfold merge, gz. apply gather_scatter_same; auto.
    rewrite scatter_length, zeros_length. exact Hlt.
  Qed.

  Lemma gather_merge_aux u w : length w = (d - k)%nat -> gz (merge d ms u w) aux = w.
  Proof.
    intros Hw. unfold merge, gz. rewrite gather_scatter_other by apply aux_disjoint.
    apply gather_scatter_same.
    - apply aux_modes_NoDup.
    - rewrite Hw. symmetry. now apply aux_modes_length.
    - rewrite zeros_length. apply aux_modes_lt.
  Qed.

  Lemma merge_sum u w : length u = k -> length w = (d - k)%nat ->
    sumZ (merge d ms u w) = sumZ u + sumZ w.
  Proof.
    intros Hu Hw. rewrite (sum_split d ms) by (auto using merge_length).
    fold aux. now rewrite gather_merge_ms, gather_merge_aux.
  Qed.

  Lemma merge_nonneg u w :
    Forall (fun x => 0 <= x) u -> Forall (fun x => 0 <= x) w ->
    Forall (fun x => 0 <= x) (merge d ms u w).
  Proof.
    intros Hu Hw. unfold merge. apply Forall_scatter; auto. apply Forall_scatter; auto.
    unfold zeros. rewrite Forall_forall. intros x Hx. apply repeat_spec in Hx. lia.
  Qed.
End Merge.

(* ------------------------------------------------------------------ list facts *)
Lemma NoDup_concat_map {X Y} (f : X -> list Y) l :
  NoDup l -> (forall x, In x l -> NoDup (f x)) ->
  (forall x y z, In x l -> In y l -> In z (f x) -> In z (f y) -> x = y) ->
  NoDup (concat (map f l)).
Proof.
  induction l as [|a l IH]; intros Hnd H1 H2; simpl; [constructor|].
  inversion Hnd; subst. apply NoDup_app'.
  - apply H1. now left.
  - apply IH; auto.
    + intros x Hx. apply H1. now right.
    + intros x y z Hx Hy. apply H2; now right.
  - intros z Hz Hc. apply in_concat in Hc. destruct Hc as [l' [Hl' Hz']].
    apply in_map_iff in Hl'. destruct Hl' as [y [<- Hy]].
    assert (a = y) by (apply (H2 a y z); simpl; auto). subst. tauto.
Qed.

Lemma NoDup_map_in {X Y} (g : X -> Y) l :
  NoDup l -> (forall x y, In x l -> In y l -> g x = g y -> x = y) -> NoDup (map g l).
Proof.
  induction l as [|a l IH]; intros Hnd H; simpl; [constructor|].
  inversion Hnd; subst. constructor.
  - intros Hc. apply in_map_iff in Hc. destruct Hc as [y [He Hy]].
    assert (y = a) by (apply H; simpl; auto). subst. tauto.
  - apply IH; auto. intros x y Hx Hy. apply H; now right.
Qed.

Lemma NoDup_app_tail {X} (l1 l2 : list X) : NoDup (l1 ++ l2) -> NoDup l2.
Proof. induction l1; simpl; auto. intros H. inversion H; auto. Qed.

Lemma sector_nodup k n : NoDup (sector k n).
Proof.
  pose proof (basis_nodup k (S n)) as H. rewrite basis_S in H.
  now apply NoDup_app_tail in H.
Qed.

Lemma firstn_length_app {X} (l1 l2 : list X) : firstn (length l1) (l1 ++ l2) = l1.
Proof. induction l1; simpl; [now destruct l2 | now f_equal]. Qed.

Lemma skipn_length_app {X} (l1 l2 : list X) : skipn (length l1) (l1 ++ l2) = l2.
Proof. induction l1; simpl; auto. Qed.

Lemma basis_prefix k n c : (n <= c)%nat ->
  basis k c = basis k n ++ concat (map (sector k) (seq n (c - n))).
Proof.
  intros H. unfold basis. replace c with (n + (c - n))%nat at 1 by lia.
  now rewrite seq_app, map_app, concat_app.
Qed.

(* cutoff_fock_space_dim equals the size of the enumerated basis, also on zero modes *)
Lemma dim_length k c : cutoff_dim (Z.of_nat c) (Z.of_nat k) = Z.of_nat (length (basis k c)).
Proof.
  destruct k as [|k].
  - destruct c as [|c]; [reflexivity|]. rewrite basis_0_length.
    unfold cutoff_dim.
    replace (Z.of_nat 0 + Z.of_nat (S c) - 1) with (Z.of_nat c) by lia.
    rewrite comb_nat. now rewrite binom_n_0.
  - apply cutoff_dim_length. lia.
Qed.

Lemma slice_sector k n c : (n < c)%nat ->
  slice (basis k c) (cutoff_dim (Z.of_nat n) (Z.of_nat k)) (cutoff_dim (Z.of_nat n + 1) (Z.of_nat k))
  = sector k n.
Proof.
  intros H. unfold slice.
  replace (Z.of_nat n + 1) with (Z.of_nat (S n)) by lia.
  rewrite !dim_length, !Nat2Z.id.
  rewrite (basis_prefix k (S n) c) by lia. rewrite firstn_length_app.
  rewrite basis_S. apply skipn_length_app.
Qed.

Lemma firstn_basis k m c : (m <= c)%nat ->
  firstn (Z.to_nat (cutoff_dim (Z.of_nat m) (Z.of_nat k))) (basis k c) = basis k m.
Proof.
  intros H. rewrite dim_length, Nat2Z.id, (basis_prefix k m c) by lia. apply firstn_length_app.
Qed.

Lemma sector_len k n u : In u (sector k n) -> length u = k.
Proof. intros H. now destruct (sector_valid _ _ _ H). Qed.

Lemma basis_len k c w : In w (basis k c) -> length w = k.
Proof. intros H. apply basis_complete in H. tauto. Qed.

(* ------------------------------------------------------------------ the loops compute the specification *)
Section Loops.
  Variables (d : nat) (ms : list nat).
  Hypothesis Hok : modes_ok d ms.
  Let aux := aux_modes d ms.
  Let k := length ms.

  Lemma column_loop_spec w : forall us buf,
    length w = (d - k)%nat -> (forall u, In u us -> length u = k) ->
    length buf = d -> gz buf aux = w ->
    snd (column_loop fock_index ms buf us) = map (fun u => fock_index (merge d ms u w)) us /\
    length (fst (column_loop fock_index ms buf us)) = d /\
    gz (fst (column_loop fock_index ms buf us)) aux = w.
  Proof.
    intros us. induction us as [|u us IH]; intros buf Hw Hus Hb Hg; [simpl; auto|].
    cbn [column_loop].
    assert (Hu : length u = k) by (apply Hus; now left).
    assert (E : scatter buf ms u = merge d ms u w).
    { rewrite <- (merge_buf d ms Hok buf) by assumption.
      fold aux. rewrite <- Hg. unfold gz. now rewrite scatter_gather_id. }
    destruct (IH (scatter buf ms u)) as [I1 [I2 I3]]; auto.
    - intros u' Hu'. apply Hus. now right.
    - now rewrite scatter_length.
    - unfold gz. rewrite gather_scatter_other; [exact Hg|]. apply (aux_disjoint d ms).
    - destruct (column_loop fock_index ms (scatter buf ms u) us) as [b col]. simpl in *.
      split; [|auto]. now rewrite E, I1.
  Qed.

  Lemma matrix_loop_spec us : forall ws buf,
    (forall u, In u us -> length u = k) -> (forall w, In w ws -> length w = (d - k)%nat) ->
    length buf = d ->
    snd (matrix_loop fock_index ms aux buf us ws)
      = map (fun w => map (fun u => fock_index (merge d ms u w)) us) ws /\
    length (fst (matrix_loop fock_index ms aux buf us ws)) = d.
  Proof.
    intros ws. induction ws as [|w ws IH]; intros buf Hus Hws Hb; [simpl; auto|].
    cbn [matrix_loop].
    assert (Hw : length w = (d - k)%nat) by (apply Hws; now left).
    destruct (column_loop_spec w us (scatter buf aux w)) as [C1 [C2 C3]]; auto.
    - now rewrite scatter_length.
    - unfold gz. apply gather_scatter_same.
      + apply aux_modes_NoDup.
      + rewrite Hw. symmetry. now apply aux_modes_length.
      + rewrite Hb. apply aux_modes_lt.
    - destruct (column_loop fock_index ms (scatter buf aux w) us) as [b2 col]. simpl in *.
      assert (Hws' : forall w', In w' ws -> length w' = (d - k)%nat)
        by (intros w' Hw'; apply Hws; now right).
      destruct (IH b2 Hus Hws' C2) as [I1 I2].
      destruct (matrix_loop fock_index ms aux b2 us ws) as [b cols]. simpl in *.
      split; [|auto]. now rewrite C1, I1.
  Qed.

  Lemma n_loop_spec c : forall ns buf,
    (forall n, In n ns -> (n < c)%nat) -> length buf = d ->
    n_loop fock_index basis cutoff_dim ms aux k (d - k) c buf ns
    = map (fun n => map (fun w => map (fun u => fock_index (merge d ms u w)) (sector k n))
                        (basis (d - k) (c - n))) ns.
  Proof.
    intros ns. induction ns as [|n ns IH]; intros buf Hns Hb; [reflexivity|].
    cbn [n_loop map].
    assert (Hn : (n < c)%nat) by (apply Hns; now left).
    rewrite slice_sector by assumption.
    replace (Z.of_nat c - Z.of_nat n) with (Z.of_nat (c - n)) by lia.
    rewrite firstn_basis by lia.
    destruct (matrix_loop_spec (sector k n) (basis (d - k) (c - n)) buf
                (fun u => sector_len k n u) (fun w => basis_len (d - k) (c - n) w) Hb) as [M1 M2].
    destruct (matrix_loop fock_index ms aux buf (sector k n) (basis (d - k) (c - n))) as [b m].
    simpl in M1, M2. subst m. f_equal. apply IH; [|exact M2].
    intros n' Hn'. apply Hns. now right.
  Qed.

  (* ENTRY FORMULA: for modes in any order, the loops with the shared buffer produce, at
     (n, column w, row u), the Fock index of the vector having u on the addressed modes
     and w on the auxiliary modes *)
  Theorem index_list_entry c : index_list ms d c = index_list_spec ms d c.
  Proof.
    unfold index_list, index_list_gen, index_list_spec. fold aux. fold k.
    apply n_loop_spec.
    - intros n Hn. apply in_seq in Hn. lia.
    - apply zeros_length.
  Qed.
End Loops.

(* ------------------------------------------------------------------ partition of [0, dim) *)
Definition vector_list (ms : list nat) (d c : nat) : list (list (list (list Z))) :=
  let k := length ms in
  map (fun n => map (fun w => map (fun u => merge d ms u w) (sector k n))
                    (basis (d - k) (c - n))) (seq 0 c).

Lemma map_flatten3 {X Y} (f : X -> Y) l : map f (flatten3 l) = flatten3 (map (map (map f)) l).
Proof. unfold flatten3. now rewrite !concat_map. Qed.

Lemma index_list_spec_vectors ms d c :
  flatten3 (index_list_spec ms d c) = map fock_index (flatten3 (vector_list ms d c)).
Proof.
  rewrite map_flatten3. unfold index_list_spec, vector_list. f_equal.
  rewrite map_map. apply map_ext. intros n. rewrite map_map. apply map_ext. intros w.
  now rewrite map_map.
Qed.

Lemma in_flatten3 {X} (x : X) l :
  In x (flatten3 l) <-> exists m col, In m l /\ In col m /\ In x col.
Proof.
  unfold flatten3. rewrite in_concat. split.
  - intros [col [Hc Hx]]. apply in_concat in Hc. destruct Hc as [m [Hm Hc]]. eauto.
  - intros [m [col [Hm [Hc Hx]]]]. exists col. split; [|exact Hx]. apply in_concat. eauto.
Qed.

Lemma concat_concat_map {X Y} (F : X -> list (list Y)) l :
  concat (concat (map F l)) = concat (map (fun n => concat (F n)) l).
Proof. induction l; simpl; [reflexivity|]. rewrite concat_app. now f_equal. Qed.

Section Partition.
  Variables (d : nat) (ms : list nat).
  Hypothesis Hok : modes_ok d ms.
  Let aux := aux_modes d ms.
  Let k := length ms.

  Lemma vector_list_in c v : In v (flatten3 (vector_list ms d c)) <-> In v (basis d c).
  Proof.
    pose proof (modes_length_le d ms Hok) as Hkd. fold k in Hkd.
    rewrite in_flatten3. unfold vector_list. fold k. split.
    - intros [m [col [Hm [Hc Hv]]]].
      apply in_map_iff in Hm. destruct Hm as [n [<- Hn]]. apply in_seq in Hn.
      apply in_map_iff in Hc. destruct Hc as [w [<- Hw]].
      apply in_map_iff in Hv. destruct Hv as [u [<- Hu]].
      destruct (sector_valid _ _ _ Hu) as [U1 [U2 U3]].
      apply basis_complete in Hw. destruct Hw as [W1 [W2 W3]].
      apply basis_complete. repeat split.
      + now apply merge_length.
      + now apply merge_nonneg.
      + rewrite merge_sum by auto. lia.
    - intros Hv. apply basis_complete in Hv. destruct Hv as [V1 [V2 V3]].
      pose proof (sum_split d ms v Hok V1) as Hs. fold aux in Hs.
      assert (Hlt : Forall (fun m => (m < length v)%nat) ms) by (rewrite V1; apply Hok).
      assert (Hlta : Forall (fun m => (m < length v)%nat) aux) by (rewrite V1; apply aux_modes_lt).
      assert (G1 : Forall (fun x => 0 <= x) (gz v ms)) by (now apply Forall_gather).
      assert (G2 : Forall (fun x => 0 <= x) (gz v aux)) by (now apply Forall_gather).
      pose proof (sumZ_nonneg _ G1) as S1. pose proof (sumZ_nonneg _ G2) as S2.
      set (n := Z.to_nat (sumZ (gz v ms))).
      exists (map (fun w => map (fun u => merge d ms u w) (sector k n)) (basis (d - k) (c - n))).
      exists (map (fun u => merge d ms u (gz v aux)) (sector k n)).
      split; [|split].
      + apply in_map_iff. exists n. split; [reflexivity|]. apply in_seq. lia.
      + apply in_map_iff. exists (gz v aux). split; [reflexivity|].
        apply basis_complete. repeat split; auto.
        * unfold gz. rewrite gather_length. now apply aux_modes_length.
        * lia.
      + apply in_map_iff. exists (gz v ms). split; [now apply merge_gather|].
        apply sector_complete. repeat split; auto.
        * apply gather_length.
        * lia.
  Qed.

  Lemma vector_list_nodup c : NoDup (flatten3 (vector_list ms d c)).
  Proof.
    unfold flatten3, vector_list. fold k.
    (* outer: over n *)
    assert (KEY : forall n w u, In w (basis (d - k) (c - n)) -> In u (sector k n) ->
              gz (merge d ms u w) ms = u /\ gz (merge d ms u w) aux = w /\ sumZ u = Z.of_nat n).
    { intros n w u Hw Hu. destruct (sector_valid _ _ _ Hu) as [U1 [U2 U3]].
      apply basis_len in Hw. repeat split; auto.
      - now apply gather_merge_ms. - now apply gather_merge_aux. }
    set (F := fun n => map (fun w => map (fun u => merge d ms u w) (sector k n)) (basis (d - k) (c - n))).
    change (NoDup (concat (concat (map F (seq 0 c))))).
    rewrite concat_concat_map.
    apply NoDup_concat_map.
    - apply seq_NoDup.
    - intros n Hn. unfold F. apply NoDup_concat_map.
      + apply basis_nodup.
      + intros w Hw. apply NoDup_map_in; [apply sector_nodup|].
        intros u u' Hu Hu' E.
        destruct (KEY n w u Hw Hu) as [A1 _]. destruct (KEY n w u' Hw Hu') as [A2 _].
        rewrite <- A1, <- A2. now rewrite E.
      + intros w w' z Hw Hw' Hz Hz'.
        apply in_map_iff in Hz. destruct Hz as [u [<- Hu]].
        apply in_map_iff in Hz'. destruct Hz' as [u' [E Hu']].
        destruct (KEY n w u Hw Hu) as [_ [A1 _]]. destruct (KEY n w' u' Hw' Hu') as [_ [A2 _]].
        rewrite <- A1, <- A2. now rewrite E.
    - intros n n' z Hn Hn' Hz Hz'. unfold F in *.
      apply in_concat in Hz. destruct Hz as [col [Hc Hz]].
      apply in_map_iff in Hc. destruct Hc as [w [<- Hw]].
      apply in_map_iff in Hz. destruct Hz as [u [<- Hu]].
      apply in_concat in Hz'. destruct Hz' as [col' [Hc' Hz']].
      apply in_map_iff in Hc'. destruct Hc' as [w' [<- Hw']].
      apply in_map_iff in Hz'. destruct Hz' as [u' [E Hu']].
      destruct (KEY n w u Hw Hu) as [A1 [_ A3]]. destruct (KEY n' w' u' Hw' Hu') as [B1 [_ B3]].
      assert (u = u') by (rewrite <- A1, <- B1; now rewrite E). subst. lia.
  Qed.

  Theorem vector_list_perm c : Permutation (flatten3 (vector_list ms d c)) (basis d c).
  Proof.
    apply NoDup_Permutation.
    - apply vector_list_nodup.
    - apply basis_nodup.
    - intros v. apply vector_list_in.
  Qed.

  (* PARTITION: for every duplicate-free mode tuple (any order), the index matrices,
     flattened, are a permutation of 0 .. dim-1 *)
  Theorem index_list_partition c :
    Permutation (flatten3 (index_list ms d c)) (map Z.of_nat (seq 0 (length (basis d c)))).
  Proof.
    rewrite (index_list_entry d ms Hok), index_list_spec_vectors, <- index_enum.
    apply Permutation_map, vector_list_perm.
  Qed.

  Corollary index_list_nodup c : NoDup (flatten3 (index_list ms d c)).
  Proof.
    eapply Permutation_NoDup; [apply Permutation_sym, index_list_partition|].
    apply FinFun.Injective_map_NoDup; [|apply seq_NoDup]. intros x y. lia.
  Qed.
End Partition.
