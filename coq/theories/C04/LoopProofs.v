(* C04 -- the invariants of the Gray loop of permanent_cpp / permanent_laplace_cpp
   (column sums, integer weight, parity), for every commutative ring, matrix, multiplicity
   vector and Gray step. *)
From Coq Require Import ZArith List Bool Lia ZifyBool Ring InitialRing Setoid.
From PV Require Import Comb.Binom C04.PermModel C04.PermProofs.
Import ListNotations.
Local Close Scope Z_scope.
Local Open Scope nat_scope.

Section LoopInv.
Variable A : Type.
Variables (rO rI : A) (radd rmul rsub : A -> A -> A) (ropp : A -> A).
Hypothesis Rth : ring_theory rO rI radd rmul rsub ropp (@eq A).
Add Ring Aring : Rth.
Variable wb : Z.

Notation ofZ' := (ofZ A rO rI radd rmul ropp).
Notation vadd' := (vadd A radd).
Notation vscale' := (vscale A rmul).
Notation colsum' := (colsum_init A rO rI radd rmul ropp).
Notation term' := (glynn_term A rO rI radd rmul ropp).

Lemma ofZ_add x y : ofZ' (x + y) = radd (ofZ' x) (ofZ' y).
Proof. unfold ofZ. apply (gen_phiZ_add (Eqsth A) (Eq_ext radd rmul ropp) Rth). Qed.

Lemma ofZ_mul x y : ofZ' (x * y) = rmul (ofZ' x) (ofZ' y).
Proof. unfold ofZ. apply (gen_phiZ_mul (Eqsth A) (Eq_ext radd rmul ropp) Rth). Qed.

Lemma ofZ_2 : ofZ' 2 = radd rI rI.
Proof. reflexivity. Qed.

(* ---- vectors *)
Lemma vadd_swap : forall u v x, vadd' (vadd' u v) x = vadd' (vadd' u x) v.
Proof.
  induction u as [|a u IH]; intros [|b v] [|c x]; cbn; try reflexivity.
  f_equal; [ring | apply IH].
Qed.

Lemma vadd_scale_combine : forall u v a b c,
  vadd' (vadd' u (vscale' a v)) (vscale' b (vscale' c v)) = vadd' u (vscale' (radd a (rmul b c)) v).
Proof.
  induction u as [|x u IH]; intros [|y v] a b c; cbn; try reflexivity.
  f_equal; [ring | apply IH].
Qed.

Lemma colsum_init_vadd : forall rest acc v r g,
  colsum' (vadd' acc v) rest r g = vadd' (colsum' acc rest r g) v.
Proof.
  induction rest as [|row rest IH]; intros acc v r g; [reflexivity|].
  destruct r as [|ri r]; [reflexivity|]. destruct g as [|gi g]; [reflexivity|].
  cbn [colsum_init]. rewrite vadd_swap. apply IH.
Qed.

(* column sums after one Gray digit moved: colsum += 2 a_idx (prev - value) *)
Lemma colsum_init_set : forall rest row0 r g idx nv,
  idx < length rest -> idx < length r -> idx < length g ->
  colsum' row0 rest r (set_nth idx nv g) =
  vadd' (colsum' row0 rest r g)
        (vscale' (ofZ' (Z.of_nat (nth idx g 0) - Z.of_nat nv)) (vscale' (radd rI rI) (nth idx rest []))).
Proof.
  induction rest as [|row rest IH]; intros row0 r g idx nv H1 H2 H3; [cbn in H1; lia|].
  destruct r as [|ri r]; [cbn in H2; lia|]. destruct g as [|gi g]; [cbn in H3; lia|].
  destruct idx as [|idx].
  - cbn [set_nth nth colsum_init].
    rewrite <- colsum_init_vadd. f_equal.
    rewrite vadd_scale_combine. f_equal. f_equal.
    replace (Z.of_nat ri - 2 * Z.of_nat nv)%Z
      with ((Z.of_nat ri - 2 * Z.of_nat gi) + (Z.of_nat gi - Z.of_nat nv) * 2)%Z by lia.
    rewrite ofZ_add, ofZ_mul, ofZ_2. reflexivity.
  - cbn [set_nth nth colsum_init]. cbn in H1, H2, H3. apply IH; lia.
Qed.

(* ---- parity *)
Lemma sum_nat_set_nth : forall g idx nv, idx < length g ->
  sum_nat (set_nth idx nv g) + nth idx g 0 = sum_nat g + nv.
Proof.
  unfold sum_nat.
  induction g as [|x g IH]; intros [|idx] nv H; cbn in *; try lia.
  specialize (IH idx nv ltac:(lia)). lia.
Qed.

Lemma odd_flip g idx pv nv : idx < length g -> nth idx g 0 = pv ->
  (nv = S pv \/ pv = S nv) ->
  Nat.odd (sum_nat (set_nth idx nv g)) = negb (Nat.odd (sum_nat g)).
Proof.
  intros H Hpv Hm. pose proof (sum_nat_set_nth g idx nv H) as Hs. rewrite Hpv in Hs.
  destruct Hm as [->| ->].
  - replace (sum_nat (set_nth idx (S pv) g)) with (S (sum_nat g)) by lia.
    now rewrite Nat.odd_succ, Nat.negb_odd.
  - replace (sum_nat g) with (S (sum_nat (set_nth idx nv g))) by lia.
    now rewrite Nat.odd_succ, <- Nat.negb_odd, negb_involutive.
Qed.

(* ---- the loop invariant *)
Definition Inv (row0 : list A) (rest : list (list A)) (r g : list nat) (st : pstate A) : Prop :=
  p_colsum A st = colsum' row0 rest r g /\
  p_binom A st = binom_prod r g /\
  p_par A st = Nat.odd (sum_nat g).

(* every iteration of the Gray loop preserves the invariant, never overflows under the size
   bound, divides exactly, and adds exactly the Glynn addend of the new Gray code *)
Theorem gray_step_invariant w F row0 rest r g st idx pv nv :
  idx < length rest -> length r = length rest -> length g = length rest ->
  nth idx g 0 = pv ->
  ((nv = S pv /\ nv <= nth idx r 0) \/ (pv = S nv /\ pv <= nth idx r 0)) ->
  (2 ^ Z.of_nat (sum_nat r) * Z.of_nat (sum_nat r) < 2 ^ (w - 1))%Z ->
  Inv row0 rest r g st ->
  exists st',
    job_step A rO rI radd rmul ropp w F rest r st (idx, pv, nv) = Ok st' /\
    Inv row0 rest r (set_nth idx nv g) st' /\
    p_acc A st' = vadd' (p_acc A st) (term' F row0 rest r (set_nth idx nv g)).
Proof.
  intros Hi Hr Hg Hpv Hm Hfit (Hc & Hb & Hp).
  assert (Hm' : nv = S pv \/ pv = S nv) by (destruct Hm as [[? _]|[? _]]; auto).
  unfold job_step. rewrite Hb.
  rewrite (binom_step_spec w r g idx pv nv) by (auto; lia).
  cbn [obind]. eexists. split; [reflexivity|].
  assert (Hcs : vadd' (p_colsum A st)
                  (vscale' (ofZ' (Z.of_nat pv - Z.of_nat nv)) (vscale' (radd rI rI) (nth idx rest [])))
                = colsum' row0 rest r (set_nth idx nv g)).
  { rewrite colsum_init_set by lia. rewrite Hc, Hpv. reflexivity. }
  assert (Hpar : negb (p_par A st) = Nat.odd (sum_nat (set_nth idx nv g))).
  { rewrite Hp. symmetry. apply (odd_flip g idx pv nv); auto; lia. }
  split; [split; [|split]|]; cbn [p_colsum p_binom p_par p_acc].
  - exact Hcs.
  - reflexivity.
  - exact Hpar.
  - unfold glynn_term. rewrite Hcs, Hpar. reflexivity.
Qed.

(* ---- the state before the loop *)
Lemma binom_init_spec w : forall r g acc,
  Forall (fun ri => Z.of_nat ri < wb - 1 /\ Z.of_nat ri * Z.of_nat ri < 2 ^ (wb - 1))%Z r ->
  (0 <= acc)%Z -> (acc * 2 ^ Z.of_nat (sum_nat r) < 2 ^ (w - 1))%Z ->
  binom_init wb w acc r g = Ok (acc * binom_prod r g)%Z.
Proof.
  induction r as [|ri r IH]; intros g acc Hall Hacc Hfit.
  - cbn. f_equal. lia.
  - destruct g as [|gi g]; [cbn; f_equal; lia|].
    inversion Hall as [|? ? [H1 H2] Hall']; subst.
    cbn [binom_init]. rewrite binomialCoeff_spec by assumption. cbn [obind].
    cbn [sum_nat fold_right] in Hfit. fold (sum_nat r) in Hfit.
    rewrite Nat2Z.inj_add, Z.pow_add_r in Hfit by lia.
    pose proof (binom_le_pow2 ri gi) as Hb. pose proof (binom_nonneg ri gi) as Hb0.
    assert (Hp : (1 <= 2 ^ Z.of_nat (sum_nat r))%Z).
    { pose proof (Z.pow_pos_nonneg 2 (Z.of_nat (sum_nat r)) ltac:(lia) ltac:(lia)). lia. }
    assert (HX : (0 <= acc * binom ri gi <= acc * 2 ^ Z.of_nat ri)%Z) by (apply mul_bound; lia).
    set (X := (acc * binom ri gi)%Z) in *.
    set (p := (2 ^ Z.of_nat (sum_nat r))%Z) in *.
    assert (HXp : (X * p <= acc * 2 ^ Z.of_nat ri * p)%Z) by (apply Z.mul_le_mono_nonneg_r; lia).
    assert (HX1 : (X <= X * p)%Z) by nia.
    rewrite chk_ok by lia. cbn [obind].
    rewrite (IH g X Hall') by lia.
    f_equal. rewrite binom_prod_cons. unfold X. ring.
Qed.

Definition weight_ok (w : Z) (r : list nat) : Prop :=
  (Z.of_nat (sum_nat r) < wb - 1 /\
   Z.of_nat (sum_nat r) * Z.of_nat (sum_nat r) < 2 ^ (wb - 1) /\
   2 ^ Z.of_nat (sum_nat r) * (Z.of_nat (sum_nat r) + 1) < 2 ^ (w - 1))%Z.

Lemma weight_ok_all w r : weight_ok w r ->
  Forall (fun ri => Z.of_nat ri < wb - 1 /\ Z.of_nat ri * Z.of_nat ri < 2 ^ (wb - 1))%Z r.
Proof.
  intros (H1 & H2 & _). apply Forall_forall. intros x Hx.
  destruct (In_nth r x 0 Hx) as (i & _ & <-).
  pose proof (nth_le_sum r i). split; [lia|nia].
Qed.

Theorem job_init_invariant w F row0 rest r g : weight_ok w r ->
  exists st,
    job_init A rO rI radd rmul ropp wb w F row0 rest r g = Ok st /\
    Inv row0 rest r g st /\
    p_acc A st = term' F row0 rest r g.
Proof.
  intros Hw. pose proof (weight_ok_all w r Hw) as Hall. destruct Hw as (_ & _ & H3).
  assert (Hp : (0 < 2 ^ Z.of_nat (sum_nat r))%Z) by (apply Z.pow_pos_nonneg; lia).
  unfold job_init. rewrite (binom_init_spec w r g 1%Z Hall) by nia.
  cbn [obind]. rewrite Z.mul_1_l. eexists. split; [reflexivity|].
  split; [split; [|split]|]; reflexivity.
Qed.

Lemma weight_ok_step w r : weight_ok w r ->
  (2 ^ Z.of_nat (sum_nat r) * Z.of_nat (sum_nat r) < 2 ^ (w - 1))%Z.
Proof.
  intros (_ & _ & H).
  assert (Hp : (0 < 2 ^ Z.of_nat (sum_nat r))%Z) by (apply Z.pow_pos_nonneg; lia). nia.
Qed.

End LoopInv.
