"""Implementation side of C15 (certificate check and failing-input search): runs the real
takagi / williamson / euler / graph embedding / clements on random and structured-degenerate
float inputs, with a recording connector, and reports residuals of
  * the contracts of the library routines on their actual outputs (hypotheses of the glue
    lemmas of coq/theories/C15/GlueProofs.v), and
  * the reconstruction the property demands.
It does not decide: the caller thresholds.  Deterministic for a given seed."""
import itertools
import json
import sys
import time

import numpy as np
import scipy.linalg as sl

import piquasso as pq
from piquasso._math import decompositions as dc
from piquasso._math.symplectic import xp_symplectic_form
from piquasso.decompositions import clements as cl


class Recording(pq.NumpyConnector):
    """NumpyConnector whose LAPACK/SciPy entry points record their inputs and outputs."""

    def __init__(self):
        super().__init__()
        self.calls = []

    def _rec(self, name, args, kwargs):
        out = getattr(pq.NumpyConnector, name)(self, *args, **kwargs)
        self.calls.append((name, args, kwargs, out))
        return out

    def svd(self, *a, **k):
        return self._rec("svd", a, k)

    def schur(self, *a, **k):
        return self._rec("schur", a, k)

    def sqrtm(self, *a, **k):
        return self._rec("sqrtm", a, k)

    def logm(self, *a, **k):
        return self._rec("logm", a, k)

    def polar(self, *a, **k):
        return self._rec("polar", a, k)


def mx(x):
    x = np.asarray(x)
    if x.size == 0:
        return 0.0
    v = float(np.max(np.abs(x)))
    return v if np.isfinite(v) else 1e300


def dag(x):
    return np.conj(x).T


def eye_res(x):
    return mx(x - np.identity(len(x)))


# ------------------------------------------------------------------ generators
class Gen:
    def __init__(self, seed):
        self.rng = np.random.default_rng(seed)

    def haar(self, d):
        z = self.rng.normal(size=(d, d)) + 1j * self.rng.normal(size=(d, d))
        q, r = np.linalg.qr(z)
        ph = np.diag(r) / np.abs(np.diag(r))
        return q * ph

    def orth(self, d):
        q, r = np.linalg.qr(self.rng.normal(size=(d, d)))
        return q * np.sign(np.diag(r))


def cycle(n):
    A = np.zeros((n, n))
    for i in range(n):
        A[i, (i + 1) % n] = A[(i + 1) % n, i] = 1.0
    return A


def path(n):
    A = np.zeros((n, n))
    for i in range(n - 1):
        A[i, i + 1] = A[i + 1, i] = 1.0
    return A


def complete(n):
    return np.ones((n, n)) - np.identity(n)


def bipartite(a, b):
    A = np.zeros((a + b, a + b))
    A[:a, a:] = 1.0
    A[a:, :a] = 1.0
    return A


def petersen():
    A = np.zeros((10, 10))
    for i in range(5):
        for (a, b) in ((i, (i + 1) % 5), (5 + i, 5 + (i + 2) % 5), (i, 5 + i)):
            A[a, b] = A[b, a] = 1.0
    return A


def hypercube3():
    H = np.array([[0.0, 1.0], [1.0, 0.0]])
    I = np.identity(2)
    return np.kron(np.kron(H, I), I) + np.kron(np.kron(I, H), I) + np.kron(np.kron(I, I), H)


def graphs(dmax):
    out = []
    for n in range(3, dmax + 1):
        out.append(("cycle", "cycle C%d" % n, cycle(n)))
    for n in range(2, dmax + 1):
        out.append(("path", "path P%d" % n, path(n)))
        out.append(("complete", "complete K%d" % n, complete(n)))
        out.append(("star", "star K1,%d" % (n - 1), bipartite(1, n - 1)))
    for a in range(2, dmax):
        for b in range(a, dmax - a + 1):
            out.append(("complete-bipartite", "K%d,%d" % (a, b), bipartite(a, b)))
    for n in (2, 3):
        if 2 * n <= dmax:
            out.append(("two-copies", "2 x K%d (block diagonal)" % n, sl.block_diag(complete(n), complete(n))))
            out.append(("two-copies", "2 x P%d (block diagonal)" % n, sl.block_diag(path(n), path(n))))
    if dmax >= 6:
        out.append(("two-copies", "2 x C3", sl.block_diag(cycle(3), cycle(3))))
    if dmax >= 8:
        out.append(("hypercube", "Q3", hypercube3()))
        out.append(("two-copies", "2 x C4", sl.block_diag(cycle(4), cycle(4))))
    if dmax >= 10:
        out.append(("petersen", "Petersen", petersen()))
    one = np.zeros((4, 4))
    one[0, 1] = one[1, 0] = 1.0
    out.append(("one-edge", "4 vertices, one edge", one))
    return out


def sym_perms(d):
    for p in itertools.permutations(range(d)):
        P = np.identity(d)[list(p)]
        if np.array_equal(P, P.T):
            yield p, P


# ------------------------------------------------------------------ takagi
def takagi_case(A):
    A = np.array(A)  # dtype kept: real-dtype inputs take a different SciPy path
    d = len(A)
    con = Recording()
    s, U = dc.takagi(A, con)
    s = np.asarray(s)
    recon = {
        "rec": mx(U @ np.diag(s) @ U.T - A),
        "unitary": eye_res(dag(U) @ U),
        "nonneg": float(max(0.0, -np.min(np.real(s)))) if d else 0.0,
        "real_s": mx(np.imag(s)),
    }
    hyp = {}
    svds = [c for c in con.calls if c[0] == "svd"]
    V, sig, Wh = svds[0][3]
    W = dag(Wh)
    hyp["svd_rec"] = mx(V @ np.diag(sig) @ Wh - A)
    hyp["svd_V_unitary"] = eye_res(dag(V) @ V)
    hyp["svd_W_unitary"] = eye_res(dag(W) @ W)
    bad = 0.0
    if d:
        bad = max(0.0, -float(np.min(sig)))
        if d > 1:
            bad = max(bad, float(np.max(np.diff(sig))))
    hyp["svd_sorted_nonneg"] = max(bad, 0.0)
    sr = su = st = so = 0.0
    for c in con.calls:
        if c[0] != "schur":
            continue
        Zb = np.asarray(c[1][0])
        D, Qs = c[3]
        sr = max(sr, mx(Qs @ D @ dag(Qs) - Zb))
        su = max(su, eye_res(dag(Qs) @ Qs))
        st = max(st, mx(np.tril(D, -1)))
        so = max(so, mx(np.triu(D, 1)))
    hyp.update({"schur_rec": sr, "schur_unitary": su, "schur_triangular": st, "schur_offdiag": so})
    Q = np.conj(dag(V) @ U)
    # symmetry is needed (and holds in exact arithmetic) only where sigma != 0
    hyp["Q_symmetric_on_support"] = mx(np.diag(sig) @ (Q - Q.T))
    hyp["VtW_commutes_sigma"] = mx((V.T @ W) @ np.diag(sig) - np.diag(sig) @ (V.T @ W))
    hyp["Q_unitary"] = eye_res(Q @ dag(Q))
    hyp["Q_commutes_sigma"] = mx(Q @ np.diag(sig) - np.diag(sig) @ Q)
    hyp["Q_squared_is_VtW"] = mx(Q @ Q - V.T @ W)
    return hyp, recon


def takagi_inputs(g, dmax, reps):
    out = []
    rng = g.rng
    for d in range(1, dmax + 1):
        I = np.identity(d)
        out += [("identity", "np.eye(%d)" % d, I), ("minus-identity", "-np.eye(%d)" % d, -I),
                ("i-identity", "1j*np.eye(%d)" % d, 1j * I), ("two-identity", "2*np.eye(%d)" % d, 2 * I),
                ("zero", "np.zeros((%d,%d))" % (d, d), np.zeros((d, d))),
                ("eye-plus-ones", "np.eye(%d)+np.ones((%d,%d))" % (d, d, d), I + np.ones((d, d))),
                ("ones", "np.ones((%d,%d))" % (d, d), np.ones((d, d)))]
        for rep in range(reps):
            Z = rng.normal(size=(d, d)) + 1j * rng.normal(size=(d, d))
            out.append(("random-complex-symmetric", "Z+Z.T, Z complex normal, d=%d" % d, Z + Z.T))
            U = g.haar(d)
            O = g.orth(d)
            for k in range(d + 1):
                s = np.array([1.0] * k + [0.0] * (d - k))
                out.append(("haar-rank-k", "U diag(1^%d,0^%d) U^T, U Haar" % (k, d - k), U @ np.diag(s) @ U.T))
                s = np.array([2.0] * k + [0.5] * (d - k))
                out.append(("haar-two-groups", "U diag(2^%d,.5^%d) U^T, U Haar" % (k, d - k), U @ np.diag(s) @ U.T))
                lam = np.array([1.0] * k + [-1.0] * (d - k))
                out.append(("real-symmetric-orthogonal", "O diag(1^%d,-1^%d) O^T, O real orthogonal" % (k, d - k),
                            O @ np.diag(lam) @ O.T))
                lam = np.array([3.0] * k + [1.0] * (d - k))
                out.append(("real-repeated-positive", "O diag(3^%d,1^%d) O^T" % (k, d - k), O @ np.diag(lam) @ O.T))
                lam = np.array([-3.0] * k + [-1.0] * (d - k))
                out.append(("real-repeated-negative", "O diag(-3^%d,-1^%d) O^T" % (k, d - k), O @ np.diag(lam) @ O.T))
                lam = np.array([2.0] * k + [-2.0] * (d - k))
                out.append(("real-repeated-abs", "O diag(2^%d,-2^%d) O^T" % (k, d - k), O @ np.diag(lam) @ O.T))
            al = rng.uniform(0, 2 * np.pi)
            lam = np.array([2.0] * (d // 2) + [1.0] * (d - d // 2))
            out.append(("phase-times-real-repeated", "exp(i a) O diag(2..,1..) O^T",
                        np.exp(1j * al) * (O @ np.diag(lam) @ O.T)))
            v = rng.normal(size=d) + 1j * rng.normal(size=d)
            out.append(("rank-one", "v v^T", np.outer(v, v)))
            for eps in (1e-6, 1e-9, 1e-13):
                s = 1.0 + eps * np.arange(d)
                out.append(("near-degenerate", "U diag(1+%g k) U^T" % eps, U @ np.diag(s) @ U.T))
                out.append(("near-degenerate-real", "O diag(1+%g k) O^T" % eps, O @ np.diag(s) @ O.T))
            if d >= 2:
                B = g.haar(d // 2) if d // 2 else np.zeros((0, 0))
                blk = B @ np.diag(np.arange(1, d // 2 + 1.0)) @ B.T
                rest = np.identity(d - 2 * (d // 2))
                out.append(("block-diagonal-repeated", "blockdiag(B, B, 1..) with B = W diag(1..) W^T",
                            sl.block_diag(blk, blk, rest)))
        if d <= 4:
            for p, P in sym_perms(d):
                out.append(("symmetric-permutation", "permutation %s" % (p,), P))
        else:
            for rep in range(3):
                p = list(range(d))
                for i in range(0, d - 1, 2):
                    if rng.random() < 0.6:
                        p[i], p[i + 1] = p[i + 1], p[i]
                out.append(("symmetric-permutation", "permutation %s" % (tuple(p),), np.identity(d)[p]))
    out.append(("rounding-noise-identity", "[[1,1e-16],[1e-16,1]]", np.array([[1, 1e-16], [1e-16, 1]])))
    out.append(("reflection", "[[0.6,0.8],[0.8,-0.6]]", np.array([[0.6, 0.8], [0.8, -0.6]])))
    for z, nm in ((0, "0"), (1, "1"), (-1, "-1"), (1j, "1j"), (0.3 - 0.7j, "0.3-0.7j")):
        out.append(("d1", "[[%s]]" % nm, np.array([[z]], dtype=complex)))
    for fam, desc, A in graphs(max(dmax, 6)):
        out.append(("graph-" + fam, desc, A))
    return out


# ------------------------------------------------------------------ williamson
def real_form(U):
    """xxpp real symplectic-orthogonal matrix of a unitary."""
    return np.block([[U.real, -U.imag], [U.imag, U.real]])


def williamson_case(M):
    M = np.array(M, dtype=float)
    d = len(M) // 2
    con = Recording()
    S, D = dc.williamson(M, con)
    om = xp_symplectic_form(d)
    dd = np.diag(D)
    recon = {
        "rec": mx(S @ D @ S.T - M),
        "symplectic": mx(S @ om @ S.T - om),
        "real_S": mx(np.imag(S)),
        "D_offdiag": mx(D - np.diag(dd)),
        "D_positive": float(max(0.0, -np.min(np.real(dd)))),
        "D_paired": mx(dd[:d] - dd[d:]),
    }
    hyp = {}
    raw = [c for c in con.calls if c[0] == "sqrtm"][0][3]
    R = np.real(raw)
    hyp["sqrtm_sq"] = mx(R @ R - M)
    hyp["sqrtm_imag"] = mx(np.imag(raw))
    hyp["sqrtm_sym"] = mx(R - R.T)
    c = [c for c in con.calls if c[0] == "schur"][0]
    X = np.asarray(c[1][0])
    T, K = c[3]
    hyp["schur_rec"] = mx(K @ T @ K.T - X)
    hyp["schur_orthogonal"] = eye_res(K.T @ K)
    mask = np.kron(np.identity(d), np.ones((2, 2))) == 0
    hyp["schur_block_form"] = max(mx(T[mask]), mx(np.diag(T)))
    hyp["schur_antisym"] = mx(T + T.T)
    hyp["input_antisym"] = mx(X + X.T)
    return hyp, recon


def random_symplectic(g, d, rmax=1.0):
    U1, U2 = g.haar(d), g.haar(d)
    r = g.rng.uniform(-rmax, rmax, size=d)
    return real_form(U1) @ np.diag(np.concatenate([np.exp(-r), np.exp(r)])) @ real_form(U2)


def williamson_inputs(g, dmax, reps):
    out = []
    rng = g.rng
    for d in range(1, dmax + 1):
        n = 2 * d
        out += [("identity", "np.eye(%d)" % n, np.identity(n)),
                ("scaled-identity", "3.7*np.eye(%d)" % n, 3.7 * np.identity(n))]
        nu = np.arange(1.0, d + 1.0)
        out.append(("thermal-distinct", "diag(nu,nu), nu=1..d", np.diag(np.concatenate([nu, nu]))))
        nu2 = np.array([2.0] * (d // 2) + [5.0] * (d - d // 2))
        out.append(("thermal-repeated", "diag(nu,nu), nu=(2..,5..)", np.diag(np.concatenate([nu2, nu2]))))
        r = np.linspace(0.2, 0.9, d)
        out.append(("squeezed-vacuum", "diag(exp(-2r),exp(2r))", np.diag(np.concatenate([np.exp(-2 * r), np.exp(2 * r)]))))
        r = np.full(d, 0.5)
        out.append(("squeezed-vacuum-equal", "diag(exp(-1)^d,exp(1)^d)", np.diag(np.concatenate([np.exp(-2 * r), np.exp(2 * r)]))))
        for rep in range(reps):
            B = rng.normal(size=(n, n))
            out.append(("random-positive-definite", "B B^T + I", B @ B.T + np.identity(n)))
            S0 = random_symplectic(g, d)
            for nm, nus in (("pure", np.ones(d)), ("all-equal", np.full(d, 2.5)),
                            ("two-groups", np.array([1.5] * (d // 2) + [4.0] * (d - d // 2))),
                            ("one-pure-rest-mixed", np.array([1.0] + [3.0] * (d - 1))),
                            ("distinct", np.arange(1.0, d + 1.0) + 0.5)):
                out.append(("symplectic-spectrum-" + nm, "S0 diag(nu,nu) S0^T, nu=%s" % nus.tolist(),
                            S0 @ np.diag(np.concatenate([nus, nus])) @ S0.T))
            O = real_form(g.haar(d))
            out.append(("passive-rotated-thermal-repeated", "O diag(nu,nu) O^T, O orthogonal symplectic",
                        O @ np.diag(np.concatenate([nu2, nu2])) @ O.T))
            if d >= 2 and d % 2 == 0:
                h = d // 2
                S1 = random_symplectic(g, h)
                M1 = S1 @ np.diag(np.concatenate([np.arange(1.0, h + 1), np.arange(1.0, h + 1)])) @ S1.T
                # two identical subsystems in xxpp ordering
                M = np.zeros((n, n))
                for (a, b) in ((0, 0), (1, 1)):
                    idx = np.concatenate([np.arange(a * h, a * h + h), d + np.arange(a * h, a * h + h)])
                    M[np.ix_(idx, idx)] = M1
                out.append(("two-identical-subsystems", "block-diagonal, same h-mode state twice", M))
    return out


# ------------------------------------------------------------------ euler
def passive(X):
    d = len(X)
    Z = np.zeros((d, d))
    return np.block([[X, Z], [Z, np.conj(X)]])


def squeeze(r, sign=-1.0):
    r = np.asarray(r, dtype=float)
    return np.block([[np.diag(np.cosh(r)), sign * np.diag(np.sinh(r))],
                     [sign * np.diag(np.sinh(r)), np.diag(np.cosh(r))]])


def euler_case(S):
    S = np.array(S, dtype=complex)
    d = len(S) // 2
    con = Recording()
    U, D, V = dc.euler(S, con)
    D = np.asarray(D)
    # convention of the caller (fock/pure/simulation_steps linear): passive V first, then
    # Squeezing(r=D, phi=0) (passive cosh r, active -sinh r), then passive U
    recon = {
        "rec": mx(passive(U) @ squeeze(np.real(D), -1.0) @ passive(V) - S),
        "U_unitary": eye_res(dag(U) @ U),
        "V_unitary": eye_res(dag(V) @ V),
        "D_nonneg": float(max(0.0, -np.min(np.real(D)))),
        "D_real": mx(np.imag(D)),
    }
    hyp = {}
    Uo, R = [c for c in con.calls if c[0] == "polar"][0][3]
    hyp["polar_rec"] = mx(R @ Uo - S)
    hyp["polar_unitary"] = eye_res(dag(Uo) @ Uo)
    hyp["polar_hermitian"] = mx(R - dag(R))
    hyp["polar_U_passive"] = max(mx(Uo[:d, d:]), mx(Uo[d:, :d]))
    Lg = [c for c in con.calls if c[0] == "logm"][0][3]
    hyp["logm_exp"] = mx(sl.expm(Lg) - R)
    hyp["logm_diag_blocks"] = max(mx(Lg[:d, :d]), mx(Lg[d:, d:]))
    Z = -Lg[:d, d:]
    hyp["Z_symmetric"] = mx(Z - Z.T)
    # premises of C15_euler_glue, block by block, on the actual library outputs
    u = Uo[:d, :d]
    hyp["polar_P_block"] = mx(S[:d, :d] - R[:d, :d] @ u)           # P = Rp u
    hyp["polar_A_block"] = mx(S[:d, d:] - R[:d, d:] @ np.conj(u))  # A = Ra conj(u)
    hyp["polar_u_unitary"] = eye_res(dag(u) @ u)
    zero = np.zeros((d, d))
    Lo = np.block([[zero, -Z], [-np.conj(Z), zero]])
    hyp["exp_offdiag_blocks"] = mx(sl.expm(Lo) - R)                # R = exp [[0,-Z],[-conj Z,0]]
    hyp["logm_lower_is_conj_upper"] = mx(Lg[d:, :d] - np.conj(Lg[:d, d:]))
    hyp["takagi_rec"] = mx(U @ np.diag(D) @ U.T - Z)               # Z = U D U^T
    hyp["takagi_U_unitary"] = max(eye_res(dag(U) @ U), eye_res(U @ dag(U)))
    hyp["Rp_is_U_coshD_Udag"] = mx(R[:d, :d] - U @ np.diag(np.cosh(np.real(D))) @ dag(U))
    hyp["Ra_is_minus_U_sinhD_Ut"] = mx(R[:d, d:] + U @ np.diag(np.sinh(np.real(D))) @ U.T)
    return hyp, recon


def euler_inputs(g, dmax, reps):
    out = []
    rng = g.rng
    for d in range(1, dmax + 1):
        I = np.identity(d)
        out.append(("identity", "np.eye(%d)" % (2 * d), np.identity(2 * d, dtype=complex)))
        out.append(("passive-only", "Pass(U)", passive(g.haar(d))))
        out.append(("equal-squeezing", "Sq(0.5,...,0.5)", squeeze(np.full(d, 0.5)).astype(complex)))
        out.append(("distinct-squeezing", "Sq(0.1..)", squeeze(np.linspace(0.1, 1.0, d)).astype(complex)))
        out.append(("negative-squeezing", "Sq(-0.4,...)", squeeze(np.full(d, -0.4)).astype(complex)))
        for rep in range(reps):
            U1, U2 = g.haar(d), g.haar(d)
            for nm, r in (("random", rng.uniform(0.05, 1.0, size=d)), ("all-equal", np.full(d, 0.7)),
                          ("some-zero", np.array([0.0] * (d // 2) + [0.6] * (d - d // 2))),
                          ("two-groups", np.array([0.3] * (d // 2) + [0.9] * (d - d // 2))),
                          ("all-zero", np.zeros(d))):
                out.append(("pass-sq-pass-" + nm, "Pass(U1) Sq(%s) Pass(U2)" % np.round(r, 3).tolist(),
                            passive(U1) @ squeeze(r) @ passive(U2)))
            O1, O2 = g.orth(d), g.orth(d)
            out.append(("real-orthogonal-equal-squeezing", "Pass(O1) Sq(0.5..) Pass(O2), O real",
                        passive(O1.astype(complex)) @ squeeze(np.full(d, 0.5)) @ passive(O2.astype(complex))))
            out.append(("real-orthogonal-squeezing", "Pass(O1) Sq(0.2..0.8) Pass(O1^T), O real",
                        passive(O1.astype(complex)) @ squeeze(np.linspace(0.2, 0.8, d)) @ passive(O1.T.astype(complex))))
            if d >= 2:
                # two-mode squeezing (pairs): repeated singular values by construction
                r = 0.6
                P = np.identity(d) * 1.0
                Aa = np.zeros((d, d))
                P[0, 0] = P[1, 1] = np.cosh(r)
                Aa[0, 1] = Aa[1, 0] = np.sinh(r)
                out.append(("two-mode-squeezing", "Squeezing2(r=0.6) on modes 0,1",
                            np.block([[P, Aa], [np.conj(Aa), np.conj(P)]]).astype(complex)))
    return out


# ------------------------------------------------------------------ graph embedding
def graph_case(A, n):
    A = np.array(A)
    d = len(A)
    con = Recording()
    r, U = dc.decompose_adjacency_matrix_into_circuit(A, n, con)
    r = np.asarray(r)
    t = np.tanh(np.real(r))
    B = U @ np.diag(t) @ U.T
    den = np.vdot(A, A)
    c = np.vdot(A, B) / den if abs(den) > 0 else 0.0
    recon = {
        "mean_photon": abs(float(np.mean(np.sinh(np.real(r)) ** 2)) - n),
        "rec": mx(B - c * A),
        "unitary": eye_res(dag(U) @ U),
        "r_real": mx(np.imag(r)),
        "scaling_positive": 0.0 if np.real(c) > 0 and abs(np.imag(c)) < 1e-9 else 1.0,
    }
    with pq.Program() as p:
        pq.Q(*range(d)) | pq.Graph(A, mean_photon_number=n)
    state = pq.GaussianSimulator(d=d).execute(p).state
    recon["state_mean_photon"] = abs(float(np.real(state.mean_photon_number())) - n * d)
    try:
        state.validate()
        recon["state_valid"] = 0.0
    except Exception:  # noqa
        recon["state_valid"] = 1.0
    return {}, recon


def graph_inputs(g, dmax):
    out = []
    for fam, desc, A in graphs(dmax):
        out.append((fam, desc, A))
    rng = g.rng
    for d in range(1, min(dmax, 6) + 1):
        out.append(("identity", "np.eye(%d)" % d, np.identity(d)))
        out.append(("eye-plus-ones", "np.eye(%d)+np.ones" % d, np.identity(d) + np.ones((d, d))))
        B = rng.normal(size=(d, d))
        out.append(("weighted-real", "B+B^T real normal", B + B.T))
        Z = rng.normal(size=(d, d)) + 1j * rng.normal(size=(d, d))
        out.append(("complex-symmetric", "Z+Z^T complex normal", Z + Z.T))
        if d >= 2:
            G = (rng.random((d, d)) < 0.5).astype(float)
            G = np.triu(G, 1)
            G = G + G.T
            if G.any():
                out.append(("random-graph", "G(%d,1/2)" % d, G))
    out.append(("d1", "[[1.0]]", np.array([[1.0]])))
    return out


# ------------------------------------------------------------------ clements on floats
def clements_case(U):
    U = np.array(U, dtype=np.complex128)
    d = len(U)
    con = pq.NumpyConnector()
    config = pq.Config()
    dec = cl.clements(U.copy(), con)
    recon = {"rec": mx(cl.inverse_clements(dec, con, np.complex128) - U)}
    M = np.identity(d, dtype=np.complex128)
    for ins in cl.instructions_from_decomposition(dec):
        E = np.identity(d, dtype=np.complex128)
        modes = list(ins.modes)
        E[np.ix_(modes, modes)] = ins._get_passive_block(con, config)
        M = E @ M
    recon["instr_rec"] = mx(M - U)
    w = cl.get_weights_from_interferometer(U.copy(), con)
    recon["weights_rec"] = mx(cl.get_interferometer_from_weights(w, d, con, np.complex128) - U)
    recon["weights_len"] = float(abs(len(w) - d * d))
    recon["n_bs"] = float(abs(len(dec.beamsplitters) - d * (d - 1) // 2))
    recon["adjacent"] = 0.0 if all(b.modes[1] == b.modes[0] + 1 and 0 <= b.modes[0] and b.modes[1] < d
                                   for b in dec.beamsplitters) else 1.0
    ident = cl.clements(np.identity(d), con)
    recon["schedule_same_as_identity"] = 0.0 if [tuple(b.modes) for b in dec.beamsplitters] == \
        [tuple(b.modes) for b in ident.beamsplitters] else 1.0
    recon["ps_modes"] = 0.0 if [p.mode for p in dec.phaseshifters] == list(range(d)) else 1.0
    return {}, recon


def givens(d, i, j, th, ph):
    G = np.identity(d, dtype=complex)
    G[i, i] = np.exp(1j * ph) * np.cos(th)
    G[i, j] = -np.sin(th)
    G[j, i] = np.exp(1j * ph) * np.sin(th)
    G[j, j] = np.cos(th)
    return G


def clements_inputs(g, dmax, reps):
    out = []
    rng = g.rng
    for d in range(1, dmax + 1):
        out.append(("identity", "np.eye(%d)" % d, np.identity(d)))
        out.append(("diagonal-phases", "diag(exp(i phi))", np.diag(np.exp(1j * rng.uniform(0, 2 * np.pi, d)))))
        F = np.exp(2j * np.pi * np.outer(np.arange(d), np.arange(d)) / d) / np.sqrt(d)
        out.append(("dft", "DFT(%d)" % d, F))
        if d <= 4:
            for p in itertools.permutations(range(d)):
                out.append(("permutation", "permutation %s" % (p,), np.identity(d)[list(p)]))
        else:
            for rep in range(6):
                p = rng.permutation(d)
                out.append(("permutation", "permutation %s" % (tuple(int(x) for x in p),), np.identity(d)[p]))
        for rep in range(reps):
            U = g.haar(d)
            out.append(("haar", "Haar(%d)" % d, U))
            out.append(("real-orthogonal", "orthogonal(%d)" % d, g.orth(d).astype(complex)))
            if d >= 2:
                k = int(rng.integers(1, d))
                out.append(("block-diagonal", "blockdiag(Haar(%d),Haar(%d))" % (k, d - k),
                            sl.block_diag(g.haar(k), g.haar(d - k))))
                P = np.identity(d)[rng.permutation(d)]
                out.append(("permuted-block-diagonal", "P blockdiag(Haar,Haar)",
                            P @ sl.block_diag(g.haar(k), g.haar(d - k))))
                # few Givens rotations: many exact zeros to eliminate
                G = np.identity(d, dtype=complex)
                for _ in range(int(rng.integers(1, d + 1))):
                    i = int(rng.integers(0, d - 1))
                    G = givens(d, i, i + 1, rng.uniform(0, np.pi / 2), rng.uniform(0, 2 * np.pi)) @ G
                out.append(("few-givens", "product of a few adjacent Givens rotations", G))
                th = [0.0, np.pi / 2, np.pi / 4][int(rng.integers(0, 3))]
                out.append(("trivial-angle-givens", "Givens with theta in {0, pi/2, pi/4} times Haar block",
                            givens(d, 0, 1, th, 0.3) @ sl.block_diag(np.identity(1), g.haar(d - 1))))
                for eps in (1e-9, 1e-12):
                    # an entry to eliminate that is tiny but not zero
                    T = givens(d, d - 2, d - 1, eps, 0.7)
                    out.append(("tiny-entry", "Givens(theta=%g) @ diag phases" % eps,
                                T @ np.diag(np.exp(1j * rng.uniform(0, 2 * np.pi, d)))))
    for ph in (0.0, np.pi, 1.234):
        out.append(("d1", "[[exp(%gj)]]" % ph, np.array([[np.exp(1j * ph)]])))
    return out


# ------------------------------------------------------------------ driver
def to_json_matrix(A):
    A = np.asarray(A)
    if np.iscomplexobj(A):
        return [[[float(x.real), float(x.imag)] for x in row] for row in A]
    return [[float(x) for x in row] for row in A]


def main():
    req = json.load(sys.stdin)
    t0 = time.time()
    seed = int(req.get("seed", 0))
    thorough = req.get("tier") == "thorough"
    only = req.get("only")
    g = Gen(seed)
    dmax = 8 if thorough else 6
    reps = 6 if thorough else 1
    tak = []
    for fam, desc, A in takagi_inputs(g, dmax, reps):
        A = np.asarray(A)
        if np.iscomplexobj(A):
            tak.append((fam, desc, A))
        else:
            tak.append((fam + "/real-dtype", desc + " (float64 array)", A.astype(float)))
            tak.append((fam + "/complex-dtype", desc + " (complex128 array)", A.astype(complex)))
    plan = [
        ("takagi", takagi_case, tak),
        ("williamson", williamson_case, williamson_inputs(g, 6, reps)),
        ("euler", euler_case, euler_inputs(g, 6, reps)),
        ("clements", clements_case, clements_inputs(g, dmax, reps + 1)),
    ]
    ginp = graph_inputs(g, 10 if thorough else 8)
    cases = []
    counts = {}
    runners = {"takagi": takagi_case, "williamson": williamson_case, "euler": euler_case,
               "clements": clements_case}
    # corpus of past failing inputs, run first
    for c in req.get("corpus", []):
        A = np.array([[complex(*x) if isinstance(x, list) else x for x in row] for row in c["input"]])
        A = A.astype(complex) if c.get("complex", False) else np.real(A).astype(float)
        fn = c["fn"]
        rec = {"fn": fn, "family": "corpus:" + c.get("name", "?"), "d": int(len(A) if fn in ("takagi", "clements", "graph") else len(A) // 2),
               "desc": c.get("desc", ""), "scale": max(1.0, mx(A)), "exc": None, "hyp": {}, "recon": {},
               "input": to_json_matrix(A)}
        try:
            if fn == "graph":
                rec["hyp"], rec["recon"] = graph_case(A, c.get("n", 1.0))
            else:
                rec["hyp"], rec["recon"] = runners[fn](A)
        except Exception as e:  # noqa
            rec["exc"] = repr(e)
        cases.append(rec)
    for fn, run, inputs in plan:
        if only and fn not in only:
            continue
        for fam, desc, A in inputs:
            A = np.asarray(A)
            rec = {"fn": fn, "family": fam, "d": int(len(A) if fn in ("takagi", "clements") else len(A) // 2),
                   "desc": desc, "scale": max(1.0, mx(A)), "exc": None, "hyp": {}, "recon": {}}
            try:
                rec["hyp"], rec["recon"] = run(A)
            except Exception as e:  # noqa
                rec["exc"] = repr(e)
            worst = max(list(rec["hyp"].values()) + list(rec["recon"].values()) + [0.0])
            if len(A) <= 3 or rec["exc"] or worst > 1e-8 * (1 + rec["scale"]):
                rec["input"] = to_json_matrix(A)
            counts.setdefault(fn, {}).setdefault(fam, 0)
            counts[fn][fam] += 1
            cases.append(rec)
    if not only or "graph" in only:
        for fam, desc, A in ginp:
            for n in ((0.1, 1.0, 2.5) if thorough else (1.0, 2.5)):
                rec = {"fn": "graph", "family": fam, "d": int(len(A)), "desc": "%s, mean_photon_number=%g" % (desc, n),
                       "scale": max(1.0, mx(A)), "exc": None, "hyp": {}, "recon": {}, "n": n}
                try:
                    rec["hyp"], rec["recon"] = graph_case(A, n)
                except Exception as e:  # noqa
                    rec["exc"] = repr(e)
                worst = max(list(rec["recon"].values()) + [0.0])
                if len(A) <= 3 or rec["exc"] or worst > 1e-8 * (1 + rec["scale"]):
                    rec["input"] = to_json_matrix(A)
                counts.setdefault("graph", {}).setdefault(fam, 0)
                counts["graph"][fam] += 1
                cases.append(rec)
    print(json.dumps({"cases": cases, "counts": counts, "wall_s": round(time.time() - t0, 2),
                      "file": dc.__file__}))


main()
