(* C07 — the real-quadrature reading: if the complex moment matrix transforms by the congruence
   K' = S K S^dagger with S = [[Pf, Af], [conj Af, conj Pf]], then the xxpp covariance matrix
   sigma = hbar (2 [[Re(G+C), Im(G+C)], [Im(G-C), Re(C-G)]] + I) transforms by the real matrix
   Sr = [[Re(Pf+Af), -Im(Pf-Af)], [Im(Pf+Af), Re(Pf-Af)]]:  sigma' = Sr sigma Sr^T, and the xxpp mean
   by Sr.  Over a commutative ring with involution containing i and 1/2. *)
From Coq Require Import List Arith Bool Lia Ring Setoid Morphisms.
From PV Require Import C07.CxBase C07.MomentsModel C07.SumLemmas C07.MatF C07.StepK.
Import ListNotations.

Section Quad.
  Context {A : Type} (co : COps A).
  Local Notation "0" := (z0 co).
  Local Notation "1" := (z1 co).
  Local Infix "+" := (zadd co).
  Local Infix "*" := (zmul co).
  Local Notation "- x" := (zopp co x).
  Local Notation conj := (zconj co).
  Local Notation sumn := (sumn co).

  Hypothesis Ath : ring_theory 0 1 (zadd co) (zmul co) (zsub co) (zopp co) eq.
  Hypothesis conj_0 : conj 0 = 0.
  Hypothesis conj_1 : conj 1 = 1.
  Hypothesis conj_add : forall x y, conj (x + y) = conj x + conj y.
  Hypothesis conj_mul : forall x y, conj (x * y) = conj x * conj y.
  Hypothesis conj_conj : forall x, conj (conj x) = x.
  Add Ring Aring6 : Ath.

  Variables ii half : A.
  Local Notation two := (1 + 1).
  Local Notation m1 := (zopp co 1).
  Hypothesis Hii : ii * ii = m1.
  Hypothesis conj_ii : conj ii = - ii.
  Hypothesis Hhalf : two * half = 1.

  Variable d : nat.
  Local Notation n2 := (Nat.add d d).
  Local Notation I := (idf co).
  Local Notation Z := (zerof co).
  Local Notation ad := (addf co).
  Local Notation tr := (trf (A := A)).
  Local Notation cj := (cjf co).

  Lemma conj_opp : forall x, conj (- x) = - conj x.
  Proof.
    intros x. assert (H : conj x + conj (- x) = 0).
    { rewrite <- conj_add. replace (x + - x) with 0 by ring. apply conj_0. }
    replace (conj (- x)) with ((conj x + conj (- x)) + - conj x) by ring.
    rewrite H. ring.
  Qed.

  (* ---- scalar multiples *)
  Definition sclf (a : A) (X : @fmat A) : @fmat A := fun i j => a * X i j.
  Definition oppf (X : @fmat A) : @fmat A := fun i j => - X i j.
  Global Instance sclf_proper n a : Proper (eqm n ==> eqm n) (sclf a).
  Proof. intros X Y H i j Hi Hj. unfold sclf. rewrite H by assumption. reflexivity. Qed.
  Global Instance oppf_proper n : Proper (eqm n ==> eqm n) oppf.
  Proof. intros X Y H i j Hi Hj. unfold oppf. rewrite H by assumption. reflexivity. Qed.

  Lemma mmf_sclf_l : forall n a X Y, eqm n (mmf co n (sclf a X) Y) (sclf a (mmf co n X Y)).
  Proof.
    intros n a X Y i j _ _. unfold mmf, sclf. rewrite <- (sumn_mul_l co Ath).
    apply (sumn_ext co). intros; ring.
  Qed.
  Lemma mmf_sclf_r : forall n a X Y, eqm n (mmf co n X (sclf a Y)) (sclf a (mmf co n X Y)).
  Proof.
    intros n a X Y i j _ _. unfold mmf, sclf. rewrite <- (sumn_mul_l co Ath).
    apply (sumn_ext co). intros; ring.
  Qed.
  Lemma sclf_sclf : forall n a b X, eqm n (sclf a (sclf b X)) (sclf (a * b) X).
  Proof. intros n a b X i j _ _. unfold sclf. ring. Qed.
  Lemma sclf_addf : forall n a X Y, eqm n (sclf a (ad X Y)) (ad (sclf a X) (sclf a Y)).
  Proof. intros n a X Y i j _ _. unfold sclf, addf. ring. Qed.
  Lemma sclf_one : forall n X, eqm n (sclf 1 X) X.
  Proof. intros n X i j _ _. unfold sclf. ring. Qed.
  Lemma trf_sclf : forall n a X, eqm n (tr (sclf a X)) (sclf a (tr X)).
  Proof. intros n a X i j _ _. reflexivity. Qed.
  Lemma sclf_eq : forall n a b X, a = b -> eqm n (sclf a X) (sclf b X).
  Proof. intros n a b X ->. reflexivity. Qed.

  (* ---- blocks *)
  Lemma trf_blk : forall X11 X12 X21 X22,
    eqm n2 (tr (blk d X11 X12 X21 X22)) (blk d (tr X11) (tr X21) (tr X12) (tr X22)).
  Proof.
    intros X11 X12 X21 X22 i j _ _. unfold trf, blk.
    destruct (Nat.ltb i d); destruct (Nat.ltb j d); reflexivity.
  Qed.
  Lemma cjf_blk : forall X11 X12 X21 X22,
    eqm n2 (cj (blk d X11 X12 X21 X22)) (blk d (cj X11) (cj X12) (cj X21) (cj X22)).
  Proof.
    intros X11 X12 X21 X22 i j _ _. unfold cjf, blk.
    destruct (Nat.ltb i d); destruct (Nat.ltb j d); reflexivity.
  Qed.
  Lemma addf_blk : forall X11 X12 X21 X22 Y11 Y12 Y21 Y22,
    eqm n2 (ad (blk d X11 X12 X21 X22) (blk d Y11 Y12 Y21 Y22))
      (blk d (ad X11 Y11) (ad X12 Y12) (ad X21 Y21) (ad X22 Y22)).
  Proof.
    intros X11 X12 X21 X22 Y11 Y12 Y21 Y22 i j _ _. unfold addf, blk.
    destruct (Nat.ltb i d); destruct (Nat.ltb j d); reflexivity.
  Qed.
  Lemma sclf_blk : forall a X11 X12 X21 X22,
    eqm n2 (sclf a (blk d X11 X12 X21 X22)) (blk d (sclf a X11) (sclf a X12) (sclf a X21) (sclf a X22)).
  Proof.
    intros a X11 X12 X21 X22 i j _ _. unfold sclf, blk.
    destruct (Nat.ltb i d); destruct (Nat.ltb j d); reflexivity.
  Qed.
  Lemma idf_blk : eqm n2 I (blk d I Z Z I).
  Proof.
    intros i j Hi Hj. unfold idf, blk, zerof.
    destruct (Nat.ltb_spec i d); destruct (Nat.ltb_spec j d); try reflexivity.
    - destruct (Nat.eqb_spec i j); [lia|reflexivity].
    - destruct (Nat.eqb_spec i j); [lia|reflexivity].
    - destruct (Nat.eqb_spec i j); destruct (Nat.eqb_spec (i - d) (j - d)); try reflexivity; lia.
  Qed.

  (* ---- the change of basis  (a, a^dagger) = V (x, p) / sqrt(2 hbar) *)
  Definition V : @fmat A := blk d I (sclf ii I) I (sclf (- ii) I).
  Definition Vd : @fmat A := blk d I I (sclf (- ii) I) (sclf ii I).

  Lemma adjf_sclf_I : forall a, eqm d (adjf co (sclf a I)) (sclf (conj a) I).
  Proof.
    intros a i j _ _. unfold adjf, trf, cjf, sclf, idf. rewrite conj_mul. rewrite (Nat.eqb_sym j i).
    destruct (Nat.eqb i j); [rewrite conj_1|rewrite conj_0]; reflexivity.
  Qed.
  Lemma adjf_V : eqm n2 (adjf co V) Vd.
  Proof.
    unfold V, Vd. rewrite (adjf_blk co d). apply blk_proper.
    - apply (adjf_idf co conj_0 conj_1).
    - apply (adjf_idf co conj_0 conj_1).
    - rewrite adjf_sclf_I. apply sclf_eq. exact conj_ii.
    - rewrite adjf_sclf_I. apply sclf_eq. rewrite conj_opp, conj_ii. ring.
  Qed.
  Lemma adjf_Vd : eqm n2 (adjf co Vd) V.
  Proof. rewrite <- adjf_V. apply (adjf_adjf co conj_conj). Qed.

  Ltac simp_I := repeat (rewrite (mmf_addf_l co Ath d) || rewrite (mmf_addf_r co Ath d)
                         || rewrite (mmf_sclf_l d) || rewrite (mmf_sclf_r d)
                         || rewrite (mmf_idf_l co Ath d) || rewrite (mmf_idf_r co Ath d)).

  (* V^dagger X V in blocks *)
  Definition conjVexpr (X11 X12 X21 X22 : @fmat A) : @fmat A :=
    blk d (ad (ad (ad X11 X12) X21) X22)
          (sclf ii (ad (ad (ad X11 (oppf X12)) X21) (oppf X22)))
          (sclf ii (ad (ad (ad (oppf X11) (oppf X12)) X21) X22))
          (ad (ad (ad X11 (oppf X12)) (oppf X21)) X22).
  Lemma conjV : forall X11 X12 X21 X22,
    eqm n2 (mmf co n2 (mmf co n2 Vd (blk d X11 X12 X21 X22)) V) (conjVexpr X11 X12 X21 X22).
  Proof.
    intros. unfold V, Vd, conjVexpr. rewrite (mmf_blk co Ath d). rewrite (mmf_blk co Ath d).
    apply blk_proper; simp_I; intros i j _ _; unfold addf, sclf, oppf.
    - ring.
    - ring.
    - ring.
    - transitivity ((- (ii * ii)) * (X11 i j + - X12 i j + - X21 i j + X22 i j)); [ring|].
      rewrite Hii. ring.
  Qed.

  Lemma V_Vd : eqm n2 (mmf co n2 V Vd) (sclf two I).
  Proof.
    rewrite idf_blk. rewrite sclf_blk. unfold V, Vd. rewrite (mmf_blk co Ath d).
    apply blk_proper; simp_I; intros i j _ _; unfold addf, sclf, zerof.
    - transitivity (idf co i j + (- (ii * ii)) * idf co i j); [ring|]. rewrite Hii. ring.
    - transitivity ((1 + ii * ii) * idf co i j); [ring|]. rewrite Hii. ring.
    - transitivity ((1 + ii * ii) * idf co i j); [ring|]. rewrite Hii. ring.
    - transitivity (idf co i j + (- (ii * ii)) * idf co i j); [ring|]. rewrite Hii. ring.
  Qed.
  Lemma V_Vd_l : forall X, eqm n2 (mmf co n2 V (mmf co n2 Vd X)) (sclf two X).
  Proof.
    intros. rewrite <- (mmf_assoc co Ath n2). rewrite V_Vd. rewrite (mmf_sclf_l n2).
    rewrite (mmf_idf_l co Ath n2). reflexivity.
  Qed.

  Definition Mof (X : @fmat A) : @fmat A := mmf co n2 (mmf co n2 Vd X) V.
  Global Instance Mof_proper : Proper (eqm n2 ==> eqm n2) Mof.
  Proof. intros X Y H. unfold Mof. rewrite H. reflexivity. Qed.

  (* congruence in the (x, p) basis:  M(S K S^dagger) * 4 = M(S) M(K) M(S)^dagger *)
  Lemma Mof_cong : forall S K,
    eqm n2 (mmf co n2 (mmf co n2 (Mof S) (Mof K)) (adjf co (Mof S)))
           (sclf (two * two) (Mof (cong co n2 S K))).
  Proof.
    intros S K. unfold Mof, cong.
    rewrite !(adjf_mmf co Ath conj_0 conj_add conj_mul n2). rewrite adjf_V, adjf_Vd.
    rewrite !(mmf_assoc co Ath n2). rewrite !V_Vd_l.
    repeat (rewrite (mmf_sclf_r n2)). rewrite (sclf_sclf n2). reflexivity.
  Qed.

  (* ---- twice the real and imaginary parts *)
  Definition re2f (X : @fmat A) : @fmat A := ad X (cj X).
  Definition im2f (X : @fmat A) : @fmat A := sclf (- ii) (ad X (oppf (cj X))).

  (* xxpp_covariance_matrix / hbar = 2 [[Re(G+C), Im(G+C)], [Im(G-C), Re(C-G)]] + I *)
  Definition sig0 (Cf Gf : @fmat A) : @fmat A :=
    ad (blk d (re2f (ad Gf Cf)) (im2f (ad Gf Cf)) (im2f (ad Gf (oppf Cf))) (re2f (ad Cf (oppf Gf))))
       (blk d I Z Z I).   (* the 2d x 2d identity, in blocks *)
  (* twice the real symplectic matrix of a -> Pf a + Af a^dagger in the xxpp basis *)
  Definition SrD (Pf Af : @fmat A) : @fmat A :=
    blk d (re2f (ad Pf Af)) (oppf (im2f (ad Pf (oppf Af)))) (im2f (ad Pf Af)) (re2f (ad Pf (oppf Af))).
  Definition Sr (Pf Af : @fmat A) : @fmat A := sclf half (SrD Pf Af).

  Lemma sym_blk : forall a X11 X12 X21 X22 Y11 Y12 Y21 Y22,
    eqm d (ad X11 (tr X11)) (sclf a Y11) -> eqm d (ad X12 (tr X21)) (sclf a Y12) ->
    eqm d (ad X21 (tr X12)) (sclf a Y21) -> eqm d (ad X22 (tr X22)) (sclf a Y22) ->
    eqm n2 (ad (blk d X11 X12 X21 X22) (tr (blk d X11 X12 X21 X22))) (sclf a (blk d Y11 Y12 Y21 Y22)).
  Proof.
    intros a X11 X12 X21 X22 Y11 Y12 Y21 Y22 H11 H12 H21 H22.
    rewrite trf_blk, addf_blk, sclf_blk. apply blk_proper; assumption.
  Qed.

  Lemma sig_of_K : forall Cf Gf, eqm d (tr (cj Cf)) Cf -> eqm d (tr Gf) Gf ->
    eqm n2 (ad (Mof (Kblocks co d Cf Gf)) (tr (Mof (Kblocks co d Cf Gf)))) (sclf two (sig0 Cf Gf)).
  Proof.
    intros Cf Gf HC HG.
    assert (HM : eqm n2 (Mof (Kblocks co d Cf Gf))
                   (conjVexpr (ad (tr Cf) I) Gf (tr (cj Gf)) Cf)) by (unfold Mof, Kblocks; apply conjV).
    etransitivity; [apply addf_proper; [exact HM|apply trf_proper; exact HM]|].
    etransitivity; [|apply sclf_proper; symmetry; unfold sig0; apply addf_blk].
    unfold conjVexpr.
    apply sym_blk; intros i j Hi Hj;
      assert (E1 : Cf j i = conj (Cf i j)) by (symmetry; apply (HC j i Hj Hi));
      assert (E2 : Gf j i = Gf i j) by (apply (HG i j Hi Hj));
      assert (E3 : idf co j i = idf co i j) by (unfold idf; rewrite Nat.eqb_sym; reflexivity);
      unfold addf, sclf, oppf, trf, cjf, re2f, im2f, zerof, addf, sclf, oppf, cjf;
      rewrite ?E1, ?E2, ?E3, ?conj_add, ?conj_opp, ?conj_conj.
    all: ring.
  Qed.

  Lemma SrD_is_M : forall Pf Af, eqm n2 (Mof (Sof co d Pf Af)) (SrD Pf Af).
  Proof.
    intros Pf Af. unfold Mof, Sof. rewrite conjV. unfold conjVexpr, SrD.
    apply blk_proper; intros i j _ _;
      unfold addf, sclf, oppf, cjf, re2f, im2f, addf, sclf, oppf, cjf;
      rewrite ?conj_add, ?conj_opp; ring.
  Qed.
  Lemma SrD_real : forall Pf Af, eqm n2 (cj (SrD Pf Af)) (SrD Pf Af).
  Proof.
    intros Pf Af. unfold SrD. rewrite cjf_blk.
    apply blk_proper; intros i j _ _;
      unfold addf, sclf, oppf, cjf, re2f, im2f, addf, sclf, oppf, cjf;
      repeat (rewrite conj_opp || rewrite conj_mul || rewrite conj_add || rewrite conj_conj || rewrite conj_ii).
    all: ring.
  Qed.

  Lemma cov_doubled : forall S K K',
    eqm n2 K' (cong co n2 S K) -> eqm n2 (cj (Mof S)) (Mof S) ->
    eqm n2 (sclf (two * two) (ad (Mof K') (tr (Mof K'))))
           (mmf co n2 (mmf co n2 (Mof S) (ad (Mof K) (tr (Mof K)))) (tr (Mof S))).
  Proof.
    intros S K K' HK Hreal. rewrite HK. rewrite (sclf_addf n2). rewrite <- (trf_sclf n2).
    rewrite <- (Mof_cong S K).
    assert (Hadj : eqm n2 (adjf co (Mof S)) (tr (Mof S))) by (unfold adjf; rewrite Hreal; reflexivity).
    rewrite Hadj.
    rewrite (trf_mmf co Ath n2), (trf_mmf co Ath n2), (trf_trf n2).
    rewrite (mmf_addf_r co Ath n2), (mmf_addf_l co Ath n2).
    rewrite !(mmf_assoc co Ath n2). reflexivity.
  Qed.

  Lemma half3 : (half * half * half) * (two * two * two) = 1.
  Proof.
    transitivity ((two * half) * (two * half) * (two * half)); [ring|]. rewrite Hhalf. ring.
  Qed.

  (* the covariance matrix transforms by the real symplectic matrix Sr, for every scale hb (= hbar) *)
  Theorem quad_cov : forall (hb : A) Pf Af Cf Gf C' G',
    eqm d (tr (cj Cf)) Cf -> eqm d (tr Gf) Gf -> eqm d (tr (cj C')) C' -> eqm d (tr G') G' ->
    eqm n2 (Kblocks co d C' G') (cong co n2 (Sof co d Pf Af) (Kblocks co d Cf Gf)) ->
    eqm n2 (sclf hb (sig0 C' G'))
           (mmf co n2 (mmf co n2 (Sr Pf Af) (sclf hb (sig0 Cf Gf))) (tr (Sr Pf Af))).
  Proof.
    intros hb Pf Af Cf Gf C' G' HC HG HC' HG' HK.
    pose proof (cov_doubled _ _ _ HK) as D.
    assert (Hreal : eqm n2 (cj (Mof (Sof co d Pf Af))) (Mof (Sof co d Pf Af)))
      by (rewrite SrD_is_M; apply SrD_real).
    specialize (D Hreal).
    rewrite (sig_of_K C' G' HC' HG'), (sig_of_K Cf Gf HC HG), SrD_is_M in D.
    rewrite (sclf_sclf n2) in D.
    rewrite (mmf_sclf_r n2), (mmf_sclf_l n2) in D.
    unfold Sr. rewrite (trf_sclf n2).
    repeat (rewrite (mmf_sclf_l n2) || rewrite (mmf_sclf_r n2) || rewrite (sclf_sclf n2)).
    set (Y := mmf co n2 (mmf co n2 (SrD Pf Af) (sig0 Cf Gf)) (tr (SrD Pf Af))) in *.
    intros i j Hi Hj. specialize (D i j Hi Hj). unfold sclf in *.
    transitivity (hb * (half * half * half) * ((two * two * two) * sig0 C' G' i j)).
    - transitivity (hb * ((half * half * half) * (two * two * two)) * sig0 C' G' i j); [|ring].
      rewrite half3. ring.
    - rewrite D. transitivity (hb * half * half * ((two * half) * Y i j)); [ring|].
      rewrite Hhalf. ring.
  Qed.

  (* ---- the mean *)
  Definition sclv (a : A) (v : @fvec A) : @fvec A := fun i => a * v i.
  Global Instance sclv_proper n a : Proper (eqv n ==> eqv n) (sclv a).
  Proof. intros u v H i Hi. unfold sclv. rewrite H by assumption. reflexivity. Qed.
  Lemma mvf_sclf : forall n a X v, eqv n (mvf co n (sclf a X) v) (sclv a (mvf co n X v)).
  Proof.
    intros n a X v i _. unfold mvf, sclf, sclv. rewrite <- (sumn_mul_l co Ath).
    apply (sumn_ext co). intros; ring.
  Qed.
  Lemma mvf_sclv : forall n a X v, eqv n (mvf co n X (sclv a v)) (sclv a (mvf co n X v)).
  Proof.
    intros n a X v i _. unfold mvf, sclv. rewrite <- (sumn_mul_l co Ath).
    apply (sumn_ext co). intros; ring.
  Qed.

  (* (x, p) components: Vd (u, v) = (u + v, -i u + i v); for (u, v) = (m, conj m): (2 Re m, 2 Im m) *)
  Lemma Vd_blkv : forall u v,
    eqv n2 (mvf co n2 Vd (blkv d u v))
           (blkv d (addv co u v) (fun i => (- ii) * u i + ii * v i)).
  Proof.
    intros u v. unfold Vd. rewrite (mvf_blk co Ath d).
    apply blkv_proper; intros i Hi; unfold addv.
    - rewrite (mvf_idf co Ath d u i Hi), (mvf_idf co Ath d v i Hi). reflexivity.
    - rewrite (mvf_sclf d (- ii) I u i Hi), (mvf_sclf d ii I v i Hi). unfold sclv.
      rewrite (mvf_idf co Ath d u i Hi), (mvf_idf co Ath d v i Hi). reflexivity.
  Qed.

  (* mu_c' = S mu_c + delta  ==>  (x,p)' = Sr (x,p) + Vd delta   (all in the doubled convention) *)
  Theorem quad_mean : forall Pf Af (mu mu' delta : @fvec A),
    eqv n2 mu' (addv co (mvf co n2 (Sof co d Pf Af) mu) delta) ->
    eqv n2 (mvf co n2 Vd mu')
           (addv co (mvf co n2 (Sr Pf Af) (mvf co n2 Vd mu)) (mvf co n2 Vd delta)).
  Proof.
    intros Pf Af mu mu' delta H. rewrite H. rewrite (mvf_addv co Ath n2).
    apply addv_proper; [|reflexivity].
    unfold Sr. rewrite <- SrD_is_M. unfold Mof. rewrite (mvf_sclf n2).
    rewrite !(mvf_mmf co Ath n2).
    rewrite <- (mvf_mmf co Ath n2 V Vd mu). rewrite V_Vd. rewrite (mvf_sclf n2).
    rewrite (mvf_idf co Ath n2). rewrite !(mvf_sclv n2).
    intros i _. unfold sclv.
    transitivity ((two * half) * mvf co n2 Vd (mvf co n2 (Sof co d Pf Af) mu) i); [|ring].
    rewrite Hhalf. ring.
  Qed.

  (* ================= symplecticity of the embedded map, complex and real ================= *)
  Lemma mmf_zerof_r : forall n X, eqm n (mmf co n X Z) Z.
  Proof. intros n X i j _ _. unfold mmf, zerof. exact (sum_zero_r co Ath n (fun k => X i k)). Qed.
  Lemma mmf_zerof_l : forall n Y, eqm n (mmf co n Z Y) Z.
  Proof. intros n Y i j _ _. unfold mmf, zerof. exact (sum_zero_l co Ath n (fun k => Y k j)). Qed.
  Lemma mmf_oppf_r : forall n X Y, eqm n (mmf co n X (oppf Y)) (oppf (mmf co n X Y)).
  Proof.
    intros n X Y i j _ _. unfold mmf, oppf.
    rewrite (sumn_ext co n _ (fun k => m1 * (X i k * Y k j))) by (intros; ring).
    rewrite (sumn_mul_l co Ath). ring.
  Qed.
  Lemma mmf_oppf_l : forall n X Y, eqm n (mmf co n (oppf X) Y) (oppf (mmf co n X Y)).
  Proof.
    intros n X Y i j _ _. unfold mmf, oppf.
    rewrite (sumn_ext co n _ (fun k => m1 * (X i k * Y k j))) by (intros; ring).
    rewrite (sumn_mul_l co Ath). ring.
  Qed.
  Lemma addf_zerof_r : forall n X, eqm n (ad X Z) X.
  Proof. intros n X i j _ _. unfold addf, zerof. ring. Qed.
  Lemma addf_zerof_l : forall n X, eqm n (ad Z X) X.
  Proof. intros n X i j _ _. unfold addf, zerof. ring. Qed.

  (* the complex symplectic form diag(I, -I) and the real one [[0, I], [-I, 0]] (xxpp ordering) *)
  Definition Omc : @fmat A := blk d I Z Z (oppf I).
  Definition Om : @fmat A := blk d Z I (oppf I) Z.

  Ltac simp_blocks :=
    repeat (rewrite (mmf_idf_r co Ath d) || rewrite (mmf_zerof_r d) || rewrite (mmf_zerof_l d)
            || rewrite (mmf_oppf_r d) || rewrite (mmf_oppf_l d)
            || rewrite (addf_zerof_r d) || rewrite (addf_zerof_l d)).

  (* embed_symplectic: if Pf Pf^dagger = I + Af Af^dagger and Pf Af^T = Af Pf^T then
     S = [[Pf, Af], [conj Af, conj Pf]] satisfies S diag(I,-I) S^dagger = diag(I,-I) *)
  Theorem S_symplectic : forall Pf Af,
    eqm d (mmf co d Pf (tr (cj Pf))) (ad I (mmf co d Af (tr (cj Af)))) ->
    eqm d (mmf co d Pf (tr Af)) (mmf co d Af (tr Pf)) ->
    eqm n2 (cong co n2 (Sof co d Pf Af) Omc) Omc.
  Proof.
    intros Pf Af H1 H2.
    assert (H1c : eqm d (mmf co d (cj Pf) (tr Pf)) (ad I (mmf co d (cj Af) (tr Af)))).
    { intros i j Hi Hj. pose proof (H1 i j Hi Hj) as E. apply (f_equal conj) in E.
      unfold mmf, addf, trf, cjf, idf in *. rewrite conj_add in E.
      rewrite !(sumn_conj co conj_0 conj_add) in E.
      rewrite (sumn_ext co d _ (fun k => conj (Pf i k * conj (Pf j k)))) by (intros; rewrite conj_mul, conj_conj; reflexivity).
      rewrite E. f_equal.
      - destruct (Nat.eqb i j); [apply conj_1|apply conj_0].
      - apply (sumn_ext co). intros. rewrite conj_mul, conj_conj. reflexivity. }
    assert (H2c : eqm d (mmf co d (cj Pf) (tr (cj Af))) (mmf co d (cj Af) (tr (cj Pf)))).
    { intros i j Hi Hj. pose proof (H2 i j Hi Hj) as E. apply (f_equal conj) in E.
      unfold mmf, trf, cjf in *. rewrite !(sumn_conj co conj_0 conj_add) in E.
      rewrite (sumn_ext co d _ (fun k => conj (Pf i k * Af j k))) by (intros; rewrite conj_mul; reflexivity).
      rewrite E. apply (sumn_ext co). intros. rewrite conj_mul. reflexivity. }
    unfold cong, Sof, Omc. rewrite (adjf_blk co d). unfold adjf.
    rewrite (mmf_blk co Ath d). rewrite (mmf_blk co Ath d).
    apply blk_proper; simp_blocks; rewrite ?(cjf_cjf co conj_conj d).
    - rewrite H1. intros i j _ _. unfold addf, oppf. ring.
    - rewrite H2. intros i j _ _. unfold addf, oppf, zerof. ring.
    - rewrite <- H2c. intros i j _ _. unfold addf, oppf, zerof. ring.
    - rewrite H1c. intros i j _ _. unfold addf, oppf. ring.
  Qed.

  Lemma Mof_Omc : eqm n2 (Mof Omc) (sclf (two * ii) Om).
  Proof.
    unfold Mof, Omc, Om. rewrite conjV. unfold conjVexpr.
    etransitivity; [|symmetry; apply sclf_blk].
    apply blk_proper; intros i j _ _; unfold addf, sclf, oppf, zerof; ring.
  Qed.

  Lemma ii_half : ((- ii) * half * half * half) * (two * ii) = half * half.
  Proof.
    transitivity ((- (ii * ii)) * (half * half) * (two * half)); [ring|]. rewrite Hii, Hhalf. ring.
  Qed.

  (* ... and then the real matrix Sr of the xxpp basis is symplectic: Sr Om Sr^T = Om *)
  Theorem Sr_symplectic : forall Pf Af,
    eqm d (mmf co d Pf (tr (cj Pf))) (ad I (mmf co d Af (tr (cj Af)))) ->
    eqm d (mmf co d Pf (tr Af)) (mmf co d Af (tr Pf)) ->
    eqm n2 (mmf co n2 (mmf co n2 (Sr Pf Af) Om) (tr (Sr Pf Af))) Om.
  Proof.
    intros Pf Af H1 H2.
    pose proof (Mof_cong (Sof co d Pf Af) Omc) as D.
    rewrite (S_symplectic Pf Af H1 H2) in D.
    assert (Hadj : eqm n2 (adjf co (Mof (Sof co d Pf Af))) (tr (SrD Pf Af))).
    { unfold adjf. rewrite SrD_is_M. rewrite SrD_real. reflexivity. }
    rewrite Hadj in D. rewrite SrD_is_M, Mof_Omc in D.
    rewrite (mmf_sclf_r n2), (mmf_sclf_l n2) in D.
    unfold Sr. rewrite (trf_sclf n2).
    repeat (rewrite (mmf_sclf_l n2) || rewrite (mmf_sclf_r n2) || rewrite (sclf_sclf n2)).
    set (Y := mmf co n2 (mmf co n2 (SrD Pf Af) Om) (tr (SrD Pf Af))) in *.
    intros i j Hi Hj. specialize (D i j Hi Hj). unfold sclf in *.
    transitivity ((((- ii) * half * half * half) * (two * ii)) * Y i j).
    - rewrite ii_half. ring.
    - transitivity (((- ii) * half * half * half) * ((two * ii) * Y i j)); [ring|].
      rewrite D.
      transitivity ((((- ii) * half * half * half) * (two * ii)) * (two * two) * Om i j); [ring|].
      rewrite ii_half.
      transitivity (((two * half) * (two * half)) * Om i j); [ring|].
      rewrite Hhalf. ring.
  Qed.
End Quad.
