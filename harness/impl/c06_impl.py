"""Implementation side of C06: runs piquasso's combinatorics on the requested inputs."""
import json
import sys

import numpy as np

from piquasso._math import combinatorics as cb
from piquasso._math import fock as fk
from piquasso._math import indices as ix
from piquasso.fermionic import _utils as fu


def main():
    req = json.load(sys.stdin)
    out = {}
    # bosonic exhaustive
    bos = []
    for d, c in req.get("bosonic", []):
        basis = fk.nb_get_fock_space_basis(d, c)
        rec = {
            "d": d,
            "c": c,
            "basis": basis.tolist(),
            "dim": int(fk.cutoff_fock_space_dim(c, d)),
            "cards": [int(fk.symmetric_subspace_cardinality(d, n)) for n in range(c)],
            "partitions": [cb.partitions(d, n).tolist() for n in range(c)],
            "index": [int(ix.get_index_in_fock_space(b)) for b in basis],
            "subindex": [int(ix.get_index_in_fock_subspace(b)) for b in basis],
            "index_arr": [int(x) for x in ix.get_index_in_fock_space_array(basis)],
            "subindex_arr": [int(x) for x in ix.get_index_in_fock_subspace_array(basis)],
            "dim_arr": [int(x) for x in fk.cutoff_fock_space_dim_array(np.arange(0, c + 1), d)],
        }
        bos.append(rec)
    out["bosonic"] = bos
    # comb on a grid
    out["comb"] = [[n, k, int(cb.comb(n, k))] for n, k in req.get("comb", [])]
    out["arr_comb"] = [
        [n, k, int(cb.arr_comb(np.array([n], dtype=np.int32), k)[0])]
        for n, k in req.get("arr_comb", [])
    ]
    # random vectors: every dtype a caller may pass, each function called twice on the same
    # array (the index must be a function of the vector: same answer, input left alone)
    vec = []
    dtypes = [np.int32, np.int64, np.int16, np.uint8]
    for k, v in enumerate(req.get("vectors", [])):
        dt = dtypes[k % len(dtypes)]
        if max(v, default=0) > np.iinfo(dt).max:
            dt = np.int64
        a = np.array(v, dtype=dt)
        b = a.reshape(1, -1).copy()
        rec = {
            "v": v,
            "dtype": np.dtype(dt).name,
            "index": int(ix.get_index_in_fock_space(a)),
            "index_arr": int(ix.get_index_in_fock_space_array(b)[0]),
            "subindex": int(ix.get_index_in_fock_subspace(a)),
            "subindex_arr": int(ix.get_index_in_fock_subspace_array(b)[0]),
        }
        rec["second_call"] = [
            int(ix.get_index_in_fock_space(a)),
            int(ix.get_index_in_fock_space_array(b)[0]),
            int(ix.get_index_in_fock_subspace(a)),
            int(ix.get_index_in_fock_subspace_array(b)[0]),
        ]
        rec["input_after"] = [a.tolist(), b[0].tolist()]
        vec.append(rec)
    out["vectors"] = vec
    # batches: several vectors of equal length in one int64 / int32 array
    batches = []
    for vs in req.get("batches", []):
        for dt in (np.int64, np.int32):
            arr = np.array(vs, dtype=dt)
            first = [int(x) for x in ix.get_index_in_fock_space_array(arr)]
            sfirst = [int(x) for x in ix.get_index_in_fock_subspace_array(arr)]
            second = [int(x) for x in ix.get_index_in_fock_space_array(arr)]
            batches.append({"vs": vs, "dtype": np.dtype(dt).name, "index": first, "subindex": sfirst,
                            "index_again": second, "input_after": arr.tolist()})
    out["batches"] = batches
    # dimension arrays on arbitrary (non-consecutive, repeated, unsorted) cutoff arrays
    dims = []
    for d, cs in req.get("dim_arrays", []):
        c = np.array(cs, dtype=np.int64)
        dims.append({"d": d, "cutoffs": cs,
                     "bosonic": [int(x) for x in fk.cutoff_fock_space_dim_array(c, d)],
                     "fermionic": [int(x) for x in fu.cutoff_fock_space_dim_array(c, d)],
                     "bosonic_scalar": [int(fk.cutoff_fock_space_dim(int(x), d)) for x in cs],
                     "fermionic_scalar": [int(fu.get_cutoff_fock_space_dimension(d, int(x))) for x in cs]})
    out["dim_arrays"] = dims
    # fermionic
    fer = []
    for d in req.get("fermionic", []):
        basis = fu.get_fock_space_basis(d, d + 1)
        rec = {
            "d": d,
            "basis": basis.tolist(),
            "dims": [int(fu.get_cutoff_fock_space_dimension(d, c)) for c in range(d + 2)],
            "index": [int(fu.get_fock_space_index(b)) for b in basis],
            "subindex": [int(fu.get_fock_subspace_index(b)) for b in basis],
            "b2f": [int(x) for x in fu.binary_to_fock_indices(d)],
            "f2b": [int(x) for x in fu.fock_to_binary_indices(d)],
        }
        fer.append(rec)
    out["fermionic"] = fer
    # first/second quantisation helpers
    out["fq"] = []
    for v in req.get("fq", []):
        a = np.array(v, dtype=np.int64)
        fq = ix.to_first_quantized(a)
        out["fq"].append(
            {"v": v, "fq": fq.tolist(), "sq": ix.to_second_quantized(fq, len(v)).tolist()}
        )
    print(json.dumps(out))


main()
