(* C20 — the Python [ast] of [ast.parse(src, mode="eval")] (CPython 3.12) as an inductive type.
   Definitions only.

   One constructor per node class that piquasso/core/_expressions.py handles, plus
   [Other] for every remaining class; the operator enumerations contain ALL Python
   operators so that "rejected" is a statement about them.  Operator nodes and
   expression-context nodes are AST nodes too ([ast.walk] visits them): they are kept
   as fields and looked up in the whitelist by [validate]. *)
From Coq Require Import ZArith List String SpecFloat.
Import ListNotations.

(* ast.operator subclasses *)
Inductive binop :=
| Add | Sub | Mult | MatMult | Div | Mod | Pow | LShift | RShift | BitOr | BitXor | BitAnd | FloorDiv.
(* ast.unaryop subclasses *)
Inductive unaryop := Invert | Not | UAdd | USub.
(* ast.boolop subclasses *)
Inductive boolop := And | Or.
(* ast.cmpop subclasses *)
Inductive cmpop := Eq | NotEq | Lt | LtE | Gt | GtE | Is | IsNot | In_ | NotIn.
(* ast.expr_context subclasses the 3.12 parser can attach *)
Inductive ctx := Load | Store | Del.

(* The payload of ast.Constant, by Python type of [node.value].  Floats are carried as
   [spec_float] (an ordinary inductive: sign, mantissa, exponent), so the abstract
   theorems do not mention the primitive float type. *)
Inductive const :=
| CInt (z : Z) | CBool (b : bool) | CFloat (f : spec_float)
| CComplex | CStr | CBytes | CNone | CEllipsis.

(* Every concrete node class, other than the modelled ones, that can occur in (or be named
   next to) an eval-mode tree.  [OIndex]/[OExtSlice] exist as classes in 3.12 but the parser
   has not produced them since 3.9. *)
Inductive otherclass :=
| ONamedExpr | OLambda | OIfExp | ODict | OSet | OListComp | OSetComp | ODictComp
| OGeneratorExp | OAwait | OYield | OYieldFrom | OCall | OFormattedValue | OJoinedStr
| OAttribute | OStarred
| OComprehension | OArguments | OArg | OKeyword
| OIndex | OExtSlice.

(* A class that can be a member of ALLOWED. *)
Inductive cls :=
| KExpression | KBoolOp | KUnaryOp | KBinOp | KCompare | KName | KSubscript | KSlice
| KConstant | KList | KTuple
| KOther (o : otherclass)
| KBin (o : binop) | KUn (o : unaryop) | KBool (o : boolop) | KCmp (o : cmpop) | KCtx (c : ctx).

(* The functions of the [operator] module (and the two builtins) that appear as values of
   the tables BINOPS / UNARYOPS / BOOLOPS / CMPOPS, or that the language reference gives as
   the meaning of an operator ("Mapping Operators to Functions"). *)
Inductive opfun :=
| op_add | op_sub | op_mul | op_matmul | op_truediv | op_mod | op_pow | op_lshift | op_rshift
| op_or | op_xor | op_and | op_floordiv
| op_invert | op_not | op_pos | op_neg
| op_eq | op_ne | op_lt | op_le | op_gt | op_ge | op_is | op_is_not | op_contains_rev | op_not_contains_rev
| bi_all | bi_any.

Inductive expr :=
| Constant (c : const)
| Name (id : string) (cx : ctx)
| Tuple (elts : list expr) (cx : ctx)
| EList (elts : list expr) (cx : ctx)
| UnaryOp (op : unaryop) (operand : expr)
| BinOp (left : expr) (op : binop) (right : expr)
| BoolOp (op : boolop) (values : list expr)
| Compare (left : expr) (ops : list cmpop) (comparators : list expr)
| Subscript (value : expr) (slice : expr) (cx : ctx)
| Slice (lower upper step : option expr)
| Other (k : otherclass) (children : list expr).

(* ---- decidable equalities on the enumerations (used by the table lookups) *)
Definition binop_eqb (a b : binop) : bool :=
  match a, b with
  | Add, Add | Sub, Sub | Mult, Mult | MatMult, MatMult | Div, Div | Mod, Mod | Pow, Pow
  | LShift, LShift | RShift, RShift | BitOr, BitOr | BitXor, BitXor | BitAnd, BitAnd
  | FloorDiv, FloorDiv => true
  | _, _ => false
  end.
Definition unaryop_eqb (a b : unaryop) : bool :=
  match a, b with
  | Invert, Invert | Not, Not | UAdd, UAdd | USub, USub => true
  | _, _ => false
  end.
Definition boolop_eqb (a b : boolop) : bool :=
  match a, b with And, And | Or, Or => true | _, _ => false end.
Definition cmpop_eqb (a b : cmpop) : bool :=
  match a, b with
  | Eq, Eq | NotEq, NotEq | Lt, Lt | LtE, LtE | Gt, Gt | GtE, GtE | Is, Is | IsNot, IsNot
  | In_, In_ | NotIn, NotIn => true
  | _, _ => false
  end.
Definition ctx_eqb (a b : ctx) : bool :=
  match a, b with Load, Load | Store, Store | Del, Del => true | _, _ => false end.
Definition otherclass_eqb (a b : otherclass) : bool :=
  match a, b with
  | ONamedExpr, ONamedExpr | OLambda, OLambda | OIfExp, OIfExp | ODict, ODict | OSet, OSet
  | OListComp, OListComp | OSetComp, OSetComp | ODictComp, ODictComp
  | OGeneratorExp, OGeneratorExp | OAwait, OAwait | OYield, OYield | OYieldFrom, OYieldFrom
  | OCall, OCall | OFormattedValue, OFormattedValue | OJoinedStr, OJoinedStr
  | OAttribute, OAttribute | OStarred, OStarred | OComprehension, OComprehension
  | OArguments, OArguments | OArg, OArg | OKeyword, OKeyword | OIndex, OIndex
  | OExtSlice, OExtSlice => true
  | _, _ => false
  end.
Definition cls_eqb (a b : cls) : bool :=
  match a, b with
  | KExpression, KExpression | KBoolOp, KBoolOp | KUnaryOp, KUnaryOp | KBinOp, KBinOp
  | KCompare, KCompare | KName, KName | KSubscript, KSubscript | KSlice, KSlice
  | KConstant, KConstant | KList, KList | KTuple, KTuple => true
  | KOther x, KOther y => otherclass_eqb x y
  | KBin x, KBin y => binop_eqb x y
  | KUn x, KUn y => unaryop_eqb x y
  | KBool x, KBool y => boolop_eqb x y
  | KCmp x, KCmp y => cmpop_eqb x y
  | KCtx x, KCtx y => ctx_eqb x y
  | _, _ => false
  end.

(* dict.get on an association list *)
Fixpoint assoc {K V} (eqb : K -> K -> bool) (k : K) (l : list (K * V)) : option V :=
  match l with
  | [] => None
  | (k', v) :: r => if eqb k k' then Some v else assoc eqb k r
  end.
