(* C11 (b) — proofs about the Gray-code counter model (GrayModel.v). *)
From Coq Require Import ZArith List Bool Lia ZifyBool.
From PV Require Import C11.GrayModel.
Import ListNotations.
Open Scope Z_scope.

Definition lims_ok (lims : list Z) : Prop := Forall (fun n => 1 <= n) lims.

Lemma lims_ok_cons n ls : lims_ok (n :: ls) <-> 1 <= n /\ lims_ok ls.
Proof. unfold lims_ok. split; intro H. - inversion H; auto. - destruct H; constructor; auto. Qed.

Lemma prodZ_pos lims : lims_ok lims -> 1 <= prodZ lims.
Proof.
  induction lims as [|n ls IH]; simpl; intros H; [lia|].
  apply lims_ok_cons in H. destruct H as [Hn Hl]. specialize (IH Hl). nia.
Qed.

(* division facts for o = n*h + c *)
Lemma divmod_split n o : 1 <= n -> 0 <= o ->
  o = n * (o / n) + o mod n /\ 0 <= o mod n < n /\ 0 <= o / n.
Proof.
  intros Hn Ho. split; [apply Z.div_mod; lia|]. split; [apply Z.mod_pos_bound; lia|].
  apply Z.div_pos; lia.
Qed.

Lemma div_lt_prod n P o : 1 <= n -> 0 <= o < n * P -> 0 <= o / n < P.
Proof.
  intros Hn Ho. split; [apply Z.div_pos; lia|]. apply Z.div_lt_upper_bound; lia.
Qed.

Lemma divmod_unique n h c : 0 <= c < n -> (n * h + c) / n = h /\ (n * h + c) mod n = c.
Proof.
  intros Hc. split.
  - symmetry. apply Z.div_unique with c; lia.
  - symmetry. apply Z.mod_unique with h; lia.
Qed.

(* ------------------------------------------------------------------ gray_from = gcode *)
Lemma odd_refl_digit n h c : Z.odd (n * h + c) =
  xorb (Z.odd h) (Z.odd (if Z.odd h then n - 1 - c else c)).
Proof.
  rewrite Z.odd_add, Z.odd_mul.
  destruct (Z.odd h) eqn:Eh; simpl.
  - rewrite !Z.odd_sub. simpl. destruct (Z.odd n), (Z.odd c); reflexivity.
  - rewrite andb_false_r. reflexivity.
Qed.

Theorem gray_from_spec : forall lims, lims_ok lims -> forall o, 0 <= o < prodZ lims ->
  gray_from lims (chain_of lims o) = (gcode lims o, Z.odd o).
Proof.
  induction lims as [|n ls IH]; intros Hok o Ho; simpl in *.
  - assert (o = 0) by lia. subst. reflexivity.
  - apply lims_ok_cons in Hok. destruct Hok as [Hn Hl].
    destruct (divmod_split n o Hn ltac:(lia)) as (Heq & Hc & Hh).
    pose proof (div_lt_prod n (prodZ ls) o Hn Ho) as Hhr.
    rewrite (IH Hl (o / n) Hhr).
    pose proof (odd_refl_digit n (o / n) (o mod n)) as Hodd.
    rewrite <- Heq in Hodd. rewrite Hodd. reflexivity.
Qed.

(* ------------------------------------------------------------------ bijection *)
Theorem ungray_gcode : forall lims, lims_ok lims -> forall o, 0 <= o < prodZ lims ->
  ungray lims (gcode lims o) = o.
Proof.
  induction lims as [|n ls IH]; intros Hok o Ho; simpl in *; [lia|].
  apply lims_ok_cons in Hok. destruct Hok as [Hn Hl].
  destruct (divmod_split n o Hn ltac:(lia)) as (Heq & Hc & Hh).
  pose proof (div_lt_prod n (prodZ ls) o Hn Ho) as Hhr.
  rewrite (IH Hl (o / n) Hhr).
  destruct (Z.odd (o / n)); lia.
Qed.

Theorem gcode_in_box : forall lims, lims_ok lims -> forall o, 0 <= o < prodZ lims ->
  in_box lims (gcode lims o).
Proof.
  induction lims as [|n ls IH]; intros Hok o Ho; simpl in *; [exact I|].
  apply lims_ok_cons in Hok. destruct Hok as [Hn Hl].
  destruct (divmod_split n o Hn ltac:(lia)) as (Heq & Hc & Hh).
  pose proof (div_lt_prod n (prodZ ls) o Hn Ho) as Hhr.
  split; [destruct (Z.odd (o / n)); lia | apply IH; auto].
Qed.

Theorem gcode_ungray : forall lims, lims_ok lims -> forall g, in_box lims g ->
  0 <= ungray lims g < prodZ lims /\ gcode lims (ungray lims g) = g.
Proof.
  induction lims as [|n ls IH]; intros Hok g Hb; destruct g as [|x gs]; simpl in *;
    try contradiction; [split; [lia|reflexivity]|].
  apply lims_ok_cons in Hok. destruct Hok as [Hn Hl].
  destruct Hb as [Hx Hb]. destruct (IH Hl gs Hb) as [Hr Hg].
  set (h := ungray ls gs) in *.
  set (y := if Z.odd h then n - 1 - x else x).
  assert (Hy : 0 <= y < n) by (unfold y; destruct (Z.odd h); lia).
  replace (y + n * h) with (n * h + y) by lia.
  destruct (divmod_unique n h y Hy) as [Hd Hm].
  split; [nia|]. rewrite Hd, Hm, Hg. f_equal.
  unfold y. destruct (Z.odd h); lia.
Qed.

Lemma in_box_length : forall lims g, in_box lims g -> length g = length lims.
Proof.
  induction lims as [|n ls IH]; destruct g; simpl; intros H; try contradiction; auto.
  destruct H. f_equal. auto.
Qed.

Lemma gcode_length : forall lims o, length (gcode lims o) = length lims.
Proof. induction lims; simpl; intros; auto. Qed.

Lemma chain_of_length : forall lims o, length (chain_of lims o) = length lims.
Proof. induction lims; simpl; intros; auto. Qed.

(* injectivity on the range, as a corollary *)
Corollary gcode_injective lims : lims_ok lims -> forall o1 o2,
  0 <= o1 < prodZ lims -> 0 <= o2 < prodZ lims -> gcode lims o1 = gcode lims o2 -> o1 = o2.
Proof.
  intros Hok o1 o2 H1 H2 E.
  rewrite <- (ungray_gcode lims Hok o1 H1), <- (ungray_gcode lims Hok o2 H2), E. reflexivity.
Qed.

(* ------------------------------------------------------------------ upd / nth *)
Lemma upd_length : forall l i v, length (upd l i v) = length l.
Proof. induction l; destruct i; simpl; intros; auto. Qed.

Lemma nth_upd_same : forall l i v, (i < length l)%nat -> nth i (upd l i v) 0 = v.
Proof. induction l; destruct i; simpl; intros; try lia; auto. apply IHl. lia. Qed.

Lemma upd_upd : forall l i v w, upd (upd l i v) i w = upd l i w.
Proof. induction l; destruct i; simpl; intros; auto. f_equal. auto. Qed.

Lemma upd_nth_id : forall l i, upd l i (nth i l 0) = l.
Proof. induction l; destruct i; simpl; intros; auto. f_equal. auto. Qed.

(* ------------------------------------------------------------------ one step *)
(* consecutive offsets: exactly one digit changes, by +1 or -1 *)
Theorem gray_step : forall lims, lims_ok lims -> forall o, 0 <= o -> o + 1 < prodZ lims ->
  exists i d, (i < length lims)%nat /\ (d = 1 \/ d = -1) /\
    gcode lims (o + 1) = upd (gcode lims o) i (nth i (gcode lims o) 0 + d).
Proof.
  induction lims as [|n ls IH]; intros Hok o Ho Ho1; simpl in *; [lia|].
  apply lims_ok_cons in Hok. destruct Hok as [Hn Hl].
  destruct (divmod_split n o Hn Ho) as (Heq & Hc & Hh).
  set (h := o / n) in *. set (c := o mod n) in *.
  destruct (Z_lt_dec c (n - 1)) as [Hlt|Hge].
  - (* no carry: digit 0 moves *)
    assert (E : o + 1 = n * h + (c + 1)) by lia.
    destruct (divmod_unique n h (c + 1) ltac:(lia)) as [Hd Hm].
    rewrite E, Hd, Hm.
    exists O, (if Z.odd h then -1 else 1). split; [lia|]. split; [destruct (Z.odd h); auto|].
    simpl. f_equal. destruct (Z.odd h); lia.
  - (* carry: digit 0 stays (reflection flips), a higher digit moves *)
    assert (Hcn : c = n - 1) by lia.
    assert (E : o + 1 = n * (h + 1) + 0) by lia.
    destruct (divmod_unique n (h + 1) 0 ltac:(lia)) as [Hd Hm].
    assert (Hh1 : h + 1 < prodZ ls) by nia.
    destruct (IH Hl h Hh Hh1) as (i & d & Hi & Hdd & Hg).
    rewrite E, Hd, Hm.
    exists (S i), d. split; [lia|]. split; [auto|].
    simpl. rewrite Hg. f_equal.
    replace (h + 1) with (Z.succ h) by lia. rewrite Z.odd_succ, <- Z.negb_odd.
    destruct (Z.odd h); simpl; lia.
Qed.

(* the carry loop of ::next computes the counter chain of the next offset *)
Theorem incr_chain : forall lims, lims_ok lims -> forall o, 0 <= o -> o + 1 < prodZ lims ->
  incr lims (chain_of lims o) = chain_of lims (o + 1).
Proof.
  induction lims as [|n ls IH]; intros Hok o Ho Ho1; simpl in *; [lia|].
  apply lims_ok_cons in Hok. destruct Hok as [Hn Hl].
  destruct (divmod_split n o Hn Ho) as (Heq & Hc & Hh).
  set (h := o / n) in *. set (c := o mod n) in *.
  destruct (c <? n - 1) eqn:E1.
  - assert (E : o + 1 = n * h + (c + 1)) by lia.
    destruct (divmod_unique n h (c + 1) ltac:(lia)) as [Hd Hm].
    rewrite E, Hd, Hm. reflexivity.
  - assert (Hcn : c = n - 1) by lia.
    replace (c =? n - 1) with true by lia.
    assert (E : o + 1 = n * (h + 1) + 0) by lia.
    destruct (divmod_unique n (h + 1) 0 ltac:(lia)) as [Hd Hm].
    assert (Hh1 : h + 1 < prodZ ls) by nia.
    rewrite E, Hd, Hm. f_equal. apply IH; auto.
Qed.

(* the scan-with-break of ::next: if the stored code differs from the recomputed one in at
   most one digit, the scan repairs exactly that digit and reports it *)
Lemma scan_same : forall lims ch i0, length ch = length lims ->
  scan lims ch (fst (gray_from lims ch)) i0 =
    (fst (gray_from lims ch), snd (gray_from lims ch), None).
Proof.
  induction lims as [|n ls IH]; intros ch i0 Hlen; destruct ch as [|c cs]; simpl in *;
    try discriminate; auto.
  destruct (gray_from ls cs) as [g p] eqn:E. simpl.
  specialize (IH cs (S i0) ltac:(lia)). rewrite E in IH. simpl in IH. rewrite IH.
  rewrite Z.eqb_refl. reflexivity.
Qed.

Lemma scan_one : forall lims ch i0 i x, length ch = length lims ->
  (i < length lims)%nat -> x <> nth i (fst (gray_from lims ch)) 0 ->
  exists p, scan lims ch (upd (fst (gray_from lims ch)) i x) i0 =
    (fst (gray_from lims ch), p, Some ((i0 + i)%nat, x, nth i (fst (gray_from lims ch)) 0)).
Proof.
  induction lims as [|n ls IH]; intros ch i0 i x Hlen Hi Hx; destruct ch as [|c cs];
    simpl in *; try discriminate; try lia.
  destruct (gray_from ls cs) as [g p] eqn:E. simpl in *.
  destruct i as [|i].
  - simpl in *. pose proof (scan_same ls cs (S i0) ltac:(lia)) as Hs.
    rewrite E in Hs. simpl in Hs. rewrite Hs.
    destruct ((if p then n - 1 - c else c) =? x) eqn:Eq; [lia|].
    eexists. rewrite Nat.add_0_r. reflexivity.
  - simpl in *. destruct (IH cs (S i0) i x ltac:(lia) ltac:(lia)) as [p' Hs].
    { rewrite E. simpl. exact Hx. }
    rewrite E in Hs. simpl in Hs. rewrite Hs.
    eexists. repeat f_equal. lia.
Qed.

(* the state of the counter at offset o *)
Definition counter_at (lims : list Z) (o om : Z) : counter :=
  mkCounter lims (chain_of lims o) (gcode lims o) o om.

Theorem construct_spec bits lims o : lims_ok lims -> 0 <= o < prodZ lims -> o <= int_max bits ->
  construct bits lims o = Some (counter_at lims o (prodZ lims - 1)).
Proof.
  intros Hok Ho Hi. unfold construct, initialize, cast_int.
  replace ((o <? 0) || (prodZ lims - 1 <? o)) with false by lia.
  replace ((0 <=? o) && (o <=? int_max bits)) with true by lia.
  rewrite (gray_from_spec lims Hok o Ho). reflexivity.
Qed.

(* ::next moves the counter from offset o to o+1, reports the digit that moved, its old
   and new value, and these differ by one *)
Theorem next_spec lims o om : lims_ok lims -> 0 <= o -> o + 1 < prodZ lims -> o < om ->
  exists i pv v,
    next (counter_at lims o om) = Some (counter_at lims (o + 1) om, i, pv, v) /\
    (i < length lims)%nat /\ pv = nth i (gcode lims o) 0 /\ (v = pv + 1 \/ v = pv - 1) /\
    gcode lims (o + 1) = upd (gcode lims o) i v.
Proof.
  intros Hok Ho Ho1 Hom.
  destruct (gray_step lims Hok o Ho Ho1) as (i & d & Hi & Hd & Hg).
  set (g0 := gcode lims o) in *. set (g1 := gcode lims (o + 1)) in *.
  assert (Hlen0 : length g0 = length lims) by apply gcode_length.
  assert (Hn1 : nth i g1 0 = nth i g0 0 + d) by (rewrite Hg; apply nth_upd_same; lia).
  assert (Hback : g0 = upd g1 i (nth i g0 0)) by (rewrite Hg, upd_upd, upd_nth_id; reflexivity).
  exists i, (nth i g0 0), (nth i g1 0).
  split; [|split; [auto|split; [auto|split; [lia|]]]].
  - unfold next, counter_at. simpl.
    replace (om <=? o) with false by lia.
    rewrite (incr_chain lims Hok o Ho Ho1).
    pose proof (gray_from_spec lims Hok (o + 1) ltac:(lia)) as Hgf.
    destruct (scan_one lims (chain_of lims (o + 1)) 0 i (nth i g0 0)) as [p Hs].
    { apply chain_of_length. } { exact Hi. }
    { rewrite Hgf. simpl. fold g1. lia. }
    rewrite Hgf in Hs. simpl in Hs. fold g1 in Hs. fold g0. rewrite Hback at 1. rewrite Hs.
    reflexivity.
  - rewrite Hn1, Hg. reflexivity.
Qed.

(* iterating ::next *)
Fixpoint next_n (k : nat) (c : counter) : option counter :=
  match k with
  | O => Some c
  | S m => match next c with Some (c', _, _, _) => next_n m c' | None => None end
  end.

Theorem next_n_spec lims om : lims_ok lims -> forall k o, 0 <= o ->
  o + Z.of_nat k < prodZ lims -> o + Z.of_nat k <= om ->
  next_n k (counter_at lims o om) = Some (counter_at lims (o + Z.of_nat k) om).
Proof.
  intros Hok. induction k as [|k IH]; intros o Ho Hp Hom; simpl next_n.
  - f_equal. f_equal. lia.
  - destruct (next_spec lims o om Hok Ho ltac:(lia) ltac:(lia)) as (i & pv & v & Hn & _).
    rewrite Hn. rewrite IH by lia. f_equal. f_equal. lia.
Qed.

(* initialize(o) = next^o(initialize(0)) *)
Theorem gray_init_eq_iter bits lims o : lims_ok lims -> 0 <= o < prodZ lims -> o <= int_max bits ->
  match construct bits lims 0 with
  | Some c0 => next_n (Z.to_nat o) c0
  | None => None
  end = construct bits lims o.
Proof.
  intros Hok Ho Hi. pose proof (prodZ_pos lims Hok).
  rewrite (construct_spec bits lims 0 Hok) by lia.
  rewrite (construct_spec bits lims o Hok Ho Hi).
  rewrite (next_n_spec lims (prodZ lims - 1) Hok (Z.to_nat o) 0) by lia.
  f_equal. f_equal. lia.
Qed.
