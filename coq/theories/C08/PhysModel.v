(* C08 — model (definitions only).
   Polymorphic over a carrier [A] with ring operations [Ops A]: the theorems of
   PhysProofs.v instantiate it at R ("all real parameters"), the check runs the very same
   definitions at Q (exact) against piquasso.

   Gaussian simulator: the state is (mu/sqrt hbar, sigma) in xpxp order;
   piquasso/_simulators/gaussian/simulation_steps.py:
     passive_linear / linear   -> GLinear S   (mu := S mu, sigma := S sigma S^T)
     displacement              -> GDisp
     vacuum                    -> GVacuum
     covariance (also Thermal) -> GCov
     mean                      -> GMean
     deterministic_gaussian_channel (also Attenuator) -> GChannel X Y
     _get_generaldyne_evolved_state -> gdyne
   piquasso/_simulators/gaussian/state.py:validate -> Phys (PhysProofs.v) / physb (here, at Q).
   Fock simulators: amplitudes as lists of pairs; kerr / cross_kerr / snap (diagonal
   phases), project_to_subspace, attenuator on the diagonal of the density matrix.
   Fermionic Gaussian: passive gate on the correlation matrix (complex congruence). *)
From Coq Require Import List Arith Bool ZArith QArith.
Import ListNotations.

Record Ops (A : Type) := mkOps {
  o0 : A; o1 : A;
  oadd : A -> A -> A; omul : A -> A -> A; osub : A -> A -> A; oopp : A -> A }.
Arguments o0 {A}. Arguments o1 {A}. Arguments oadd {A}. Arguments omul {A}.
Arguments osub {A}. Arguments oopp {A}.

Section Gen.
Context {A : Type} (T : Ops A).
Local Notation "0" := (o0 T).
Local Notation "1" := (o1 T).
Local Infix "+" := (oadd T).
Local Infix "*" := (omul T).
Local Infix "-" := (osub T).

Definition fmat := nat -> nat -> A.
Definition fvec := nat -> A.

(* sum_{i<n} f i *)
Fixpoint sumn (n : nat) (f : nat -> A) : A :=
  match n with O => 0 | S k => sumn k f + f k end.

(* --- matrices as functions (what the proofs talk about) *)
Definition fid : fmat := fun i j => if Nat.eqb i j then 1 else 0.
Definition fzero : fmat := fun _ _ => 0.
Definition fmul (n : nat) (F G : fmat) : fmat := fun i j => sumn n (fun k => F i k * G k j).
Definition ftr (F : fmat) : fmat := fun i j => F j i.
Definition fadd (F G : fmat) : fmat := fun i j => F i j + G i j.
Definition fsub (F G : fmat) : fmat := fun i j => F i j - G i j.
Definition fscale (c : A) (F : fmat) : fmat := fun i j => c * F i j.
(* S F S^T, written as the code does: embedded_X @ cov @ embedded_X.T *)
Definition fcong (n : nat) (Sm F : fmat) : fmat := fmul n (fmul n Sm F) (ftr Sm).
Definition mv (n : nat) (F : fmat) (u : fvec) : fvec := fun i => sumn n (fun k => F i k * u k).
Definition tmv (n : nat) (F : fmat) (u : fvec) : fvec := fun k => sumn n (fun i => F i k * u i).
Definition bil (n : nat) (F : fmat) (u v : fvec) : A :=
  sumn n (fun i => sumn n (fun j => u i * F i j * v j)).
(* symplectic form in xpxp order, as a bilinear form: sum_k u_{2k} v_{2k+1} - u_{2k+1} v_{2k} *)
Definition omg (d : nat) (u v : fvec) : A :=
  sumn d (fun k => u (2 * k)%nat * v (2 * k + 1)%nat - u (2 * k + 1)%nat * v (2 * k)%nat).
(* _math/symplectic.py:symplectic_form  (block_diag of [[0,1],[-1,0]]) *)
Definition omegaF : fmat := fun i j =>
  if Nat.even i && Nat.eqb j (i + 1) then 1
  else if Nat.odd i && Nat.eqb i (j + 1) then oopp T 1 else 0.

(* --- matrices as lists (what is executed); [get (mk n m f)] is [f] inside the bounds *)
Definition mk (n m : nat) (f : fmat) : list (list A) :=
  map (fun i => map (fun j => f i j) (seq 0 m)) (seq 0 n).
Definition vmk (n : nat) (f : fvec) : list A := map f (seq 0 n).
Definition get (M : list (list A)) : fmat := fun i j => nth j (nth i M nil) 0.
Definition vget (v : list A) : fvec := fun i => nth i v 0.

Definition lcong n (Sm M : list (list A)) := mk n n (fcong n (get Sm) (get M)).
Definition lmul n (M N : list (list A)) := mk n n (fmul n (get M) (get N)).
Definition ladd n (M N : list (list A)) := mk n n (fadd (get M) (get N)).
Definition lscale n c (M : list (list A)) := mk n n (fscale c (get M)).
Definition lmv n (M : list (list A)) (v : list A) := vmk n (mv n (get M) (vget v)).

(* position of i in a list of indices *)
Fixpoint pos (i : nat) (l : list nat) : option nat :=
  match l with
  | nil => None
  | a :: r => if Nat.eqb a i then Some O else option_map S (pos i r)
  end.
(* simulation_steps.py:_map_modes_to_xpxp_indices *)
Definition xp_indices (modes : list nat) : list nat :=
  flat_map (fun m => [2 * m; 2 * m + 1])%nat modes.
(* embedded_X = identity; embedded_X[ix_(indices,indices)] = X *)
Definition embedF (idx : list nat) (L : fmat) (dflt : fmat) : fmat := fun i j =>
  match pos i idx, pos j idx with
  | Some a, Some b => L a b
  | _, _ => dflt i j
  end.
Definition embed_id n (modes : list nat) (L : list (list A)) :=
  mk n n (embedF (xp_indices modes) (get L) fid).
Definition embed_zero n (modes : list nat) (L : list (list A)) :=
  mk n n (embedF (xp_indices modes) (get L) fzero).

(* real xpxp matrix of  a -> P a + A a^dagger  (P = Pr + i Pi, A = Ar + i Ai):
   x' = Re(P+A) x - Im(P-A) p,  p' = Im(P+A) x + Re(P-A) p *)
Definition s_of_PA (Pr Pi Ar Ai : list (list A)) : fmat := fun i j =>
  let a := Nat.div2 i in let b := Nat.div2 j in
  match Nat.even i, Nat.even j with
  | true, true => get Pr a b + get Ar a b
  | true, false => get Ai a b - get Pi a b
  | false, true => get Pi a b + get Ai a b
  | false, false => get Pr a b - get Ar a b
  end.
Definition gate_matrix (d : nat) (modes : list nat) (Pr Pi Ar Ai : list (list A)) :=
  let k2 := (2 * length modes)%nat in
  embed_id (2 * d) modes (mk k2 k2 (s_of_PA Pr Pi Ar Ai)).

(* --- Gaussian programs *)
Inductive ginstr :=
| GVacuum
| GCov (c : list (list A))           (* Covariance(c) and Thermal: sigma := hbar * c *)
| GMean (m : list A)                 (* Mean(m): mu := sqrt hbar * m *)
| GLinear (Sm : list (list A))       (* full 2d x 2d real matrix of a linear gate *)
| GDisp (delta : list A)             (* mu/sqrt hbar += delta *)
| GChannel (X Y : list (list A)).    (* embedded X, embedded Y (before the factor hbar) *)

Definition gstate := (list A * list (list A))%type.

Definition gvac (d : nat) (hbar : A) : gstate :=
  (vmk (2 * d) (fun _ => 0), mk (2 * d) (2 * d) (fscale hbar fid)).

Definition gstep (d : nat) (hbar : A) (st : gstate) (i : ginstr) : gstate :=
  let n := (2 * d)%nat in
  let '(mu, sg) := st in
  match i with
  | GVacuum => gvac d hbar
  | GCov c => (mu, lscale n hbar c)
  | GMean m => (vmk n (vget m), sg)
  | GLinear Sm => (lmv n Sm mu, lcong n Sm sg)
  | GDisp dl => (vmk n (fun k => vget mu k + vget dl k), sg)
  | GChannel X Y => (lmv n X mu, ladd n (lcong n X sg) (lscale n hbar Y))
  end.

(* the state after every instruction (the executor starts from the vacuum: GaussianState.__init__ -> reset) *)
Fixpoint gtrace (d : nat) (hbar : A) (st : gstate) (p : list ginstr) : list gstate :=
  match p with
  | nil => nil
  | i :: r => let st' := gstep d hbar st i in st' :: gtrace d hbar st' r
  end.
Definition grun d hbar p := gtrace d hbar (gvac d hbar) p.

(* simulation_steps.py:_get_generaldyne_evolved_state; [K] is the inverse of
   cov_measured + hbar*blockdiag(detection_covariance) (supplied; checked where it is run);
   [sample] is the outcome divided by sqrt hbar *)
Definition gdyne (d : nat) (hbar : A) (st : gstate) (modes : list nat) (outer : list nat)
           (sm : list (list A)) (K : list (list A)) (sample : list A) : gstate :=
  let '(mu, sg) := st in
  let idx := xp_indices modes in
  let oidx := xp_indices outer in
  let k := length idx in let o := length oidx in
  let at_ l i := nth i l O in
  let C : fmat := fun a b => get sg (at_ oidx a) (at_ idx b) in            (* cov_correlation *)
  let CK : fmat := fmul k C (get K) in
  let covo : fmat := fun a b => get sg (at_ oidx a) (at_ oidx b) in
  let newcov := mk o o (fsub covo (fmul k CK (ftr C))) in
  let diff : fvec := fun b => vget sample b - vget mu (at_ idx b) in
  let newmu := vmk o (fun a => vget mu (at_ oidx a) + mv k CK diff a) in
  (newmu, newcov).
(* cov_measured + full_detection_covariance *)
Definition gdyne_B (hbar : A) (st : gstate) (modes : list nat) (sm : list (list A)) :=
  let idx := xp_indices modes in
  let k := length idx in
  mk k k (fun a b => get (snd st) (nth a idx O) (nth b idx O)
                      + hbar * (if Nat.eqb (Nat.div2 a) (Nat.div2 b)
                                then get sm (Nat.modulo a 2) (Nat.modulo b 2) else 0)).

(* --- Fock side: amplitudes are pairs (re, im) *)
Definition cplx := (A * A)%type.
Definition cmul (a b : cplx) : cplx :=
  (fst a * fst b - snd a * snd b, fst a * snd b + snd a * fst b).
Definition cabs2 (a : cplx) : A := fst a * fst a + snd a * snd a.
Fixpoint lsum (l : list A) : A := match l with nil => 0 | a :: r => a + lsum r end.
(* BaseFockState.norm = sum(fock_probabilities); PureFockState.fock_probabilities = |psi_i|^2 *)
Definition probs (psi : list cplx) : list A := map cabs2 psi.
Definition norm2 (psi : list cplx) : A := lsum (probs psi).
Fixpoint cpow (z : cplx) (k : nat) : cplx :=
  match k with O => (1, 0) | S j => cmul z (cpow z j) end.
Fixpoint map2 {X Y Z} (f : X -> Y -> Z) (l1 : list X) (l2 : list Y) : list Z :=
  match l1, l2 with a :: r1, b :: r2 => f a b :: map2 f r1 r2 | _, _ => nil end.
(* diagonal gate: state_vector * coefficients *)
Definition apply_diag (coef psi : list cplx) : list cplx := map2 cmul coef psi.
(* pure/simulation_steps:kerr — coefficient exp(i xi n_mode^2) = z^(n^2), z = exp(i xi) *)
Definition kerr_coef (z : cplx) (mode : nat) (space : list (list nat)) : list cplx :=
  map (fun b => cpow z (nth mode b O * nth mode b O)) space.
(* cross_kerr — exp(i xi n_a n_b) *)
Definition crosskerr_coef (z : cplx) (ma mb : nat) (space : list (list nat)) : list cplx :=
  map (fun b => cpow z (nth ma b O * nth mb b O)) space.
(* snap — exp(i theta[n_mode]); zs = the unit numbers exp(i theta_k) *)
Definition snap_coef (zs : list cplx) (mode : nat) (space : list (list nat)) : list cplx :=
  map (fun b => nth (nth mode b O) zs (1, 0)) space.
(* utils.py:_get_remaining_state_vector — state_vector[index] *)
Definition project (index : list nat) (psi : list cplx) : list cplx :=
  map (fun i => nth i psi (0, 0)) index.
Definition cscale (c : A) (psi : list cplx) : list cplx :=
  map (fun a => (c * fst a, c * snd a)) psi.

(* fock/simulation_steps.py:attenuator restricted to the diagonal of a single-mode density
   matrix: p'_{n-k} += p_n * C(n,k) cos^{2n} tan^{2k};  c2 = cos^2, t2 = tan^2 *)
Fixpoint apow (x : A) (k : nat) : A := match k with O => 1 | S j => x * apow x j end.
Fixpoint binom (n k : nat) : nat :=
  match n, k with
  | _, O => 1%nat
  | O, S _ => O
  | S n', S k' => (binom n' k' + binom n' k)%nat
  end.
Fixpoint ofnat (n : nat) : A := match n with O => 0 | S k => ofnat k + 1 end.
Definition att_weight (c2 t2 : A) (n k : nat) : A :=
  ofnat (binom n k) * (apow c2 n * apow t2 k).
(* new diagonal entry j = sum_{n >= j} p_n * w(n, n-j) *)
Definition att_diag (c2 t2 : A) (p : list A) : list A :=
  let N := length p in
  map (fun j => sumn N (fun n => if Nat.leb j n then nth n p 0 * att_weight c2 t2 n (n - j) else 0))
      (seq 0 N).

(* fermionic Gaussian state (piquasso/fermionic/gaussian): correlation matrix
   Gamma = [[D, E], [-conj E, 1 - conj D]] (2d x 2d complex, Hermitian), kept here in its
   real form [[Re, -Im], [Im, Re]] (4d x 4d real symmetric).
   simulation_steps.py:passive_linear_gate:  Gamma -> W Gamma W^dagger,  W = diag(conj U, U)
   with U embedded on the gate's modes; in real form  G -> What G What^T. *)
Definition fermi_W (d : nat) (modes : list nat) (Ur Ui : list (list A)) : list (list A) :=
  let n := (2 * d)%nat in
  let ur := embedF modes (get Ur) fid in
  let ui := embedF modes (get Ui) fzero in
  let wr : fmat := fun i j =>
    if Nat.ltb i d then (if Nat.ltb j d then ur i j else 0)
    else (if Nat.ltb j d then 0 else ur (i - d)%nat (j - d)%nat) in
  let wi : fmat := fun i j =>
    if Nat.ltb i d then (if Nat.ltb j d then 0 - ui i j else 0)
    else (if Nat.ltb j d then 0 else ui (i - d)%nat (j - d)%nat) in
  mk (2 * n) (2 * n) (fun i j =>
    match Nat.ltb i n, Nat.ltb j n with
    | true, true => wr i j
    | true, false => 0 - wi i (j - n)%nat
    | false, true => wi (i - n)%nat j
    | false, false => wr (i - n)%nat (j - n)%nat
    end).
(* fermionic state_vector/NumberState preparation of a basis state: D = diag(occ), E = 0 *)
Definition fermi_G0 (d : nat) (occ : list nat) : list (list A) :=
  let n := (2 * d)%nat in
  mk (2 * n) (2 * n) (fun i j =>
    if Nat.eqb i j then
      let c := Nat.modulo i n in
      if Nat.ltb c d then ofnat (nth c occ O) else 1 - ofnat (nth (c - d) occ O)
    else 0).
Definition fermi_passive (d : nat) (W G : list (list A)) := lcong (4 * d) W G.
End Gen.

Arguments GVacuum {A}. Arguments GCov {A}. Arguments GMean {A}. Arguments GLinear {A}.
Arguments GDisp {A}. Arguments GChannel {A}.

(* ------------------------------------------------------------------ running at Q *)
Definition QOps : Ops Q :=
  mkOps Q 0%Q 1%Q (fun a b => Qred (a + b)) (fun a b => Qred (a * b))
        (fun a b => Qred (a - b)) (fun a => Qred (- a)).

Definition qzero (a : Q) : bool := Z.eqb (Qnum a) 0.
Definition qpos (a : Q) : bool := Z.ltb 0 (Qnum a).
Definition qle0 (a : Q) : bool := Z.leb 0 (Qnum a).

Definition qmat_eqb (n : nat) (M N : list (list Q)) : bool :=
  forallb (fun i => forallb (fun j => Qeq_bool (get QOps M i j) (get QOps N i j)) (seq 0 n)) (seq 0 n).
Definition qsymb (n : nat) (M : list (list Q)) : bool :=
  forallb (fun i => forallb (fun j => Qeq_bool (get QOps M i j) (get QOps M j i)) (seq 0 n)) (seq 0 n).
Definition omegaM (d : nat) : list (list Q) := mk (2 * d) (2 * d) (omegaF QOps).
(* S Omega S^T = Omega *)
Definition symplecticb (d : nat) (Sm : list (list Q)) : bool :=
  qmat_eqb (2 * d) (lcong QOps (2 * d) Sm (omegaM d)) (omegaM d).

(* exact positive-semidefiniteness of a symmetric rational matrix by symmetric
   elimination (LDL^T): pivot > 0 -> eliminate; pivot = 0 -> its row must vanish; < 0 -> no *)
Fixpoint psd_go (fuel : nat) (n : nat) (M : fmat (A:=Q)) (k : nat) : bool :=
  match fuel with
  | O => true
  | S f =>
    if Nat.leb n k then true else
    let p := M k k in
    if qpos p then
      let M' : list (list Q) :=
        mk n n (fun i j => if Nat.leb i k || Nat.leb j k then M i j
                           else Qred (M i j - M i k * M k j / p)) in
      psd_go f n (get QOps M') (S k)
    else if qzero p then
      forallb (fun j => Nat.leb j k || qzero (M k j)) (seq 0 n) && psd_go f n M (S k)
    else false
  end.
Definition psdb (n : nat) (M : list (list Q)) : bool :=
  qsymb n M && psd_go n n (get QOps M) 0.

(* real form of the Hermitian matrix H + iK (H symmetric, K antisymmetric): [[H,-K],[K,H]] *)
Definition herm_real (n : nat) (H K : fmat (A:=Q)) : list (list Q) :=
  mk (2 * n) (2 * n) (fun i j =>
    match Nat.ltb i n, Nat.ltb j n with
    | true, true => H i j
    | true, false => Qred (- K i (j - n)%nat)
    | false, true => K (i - n)%nat j
    | false, false => H (i - n)%nat (j - n)%nat
    end).
(* state.py:_validate_cov decided exactly: symmetric and sigma/hbar + i Omega >= 0 *)
Definition physb (d : nat) (hbar : Q) (sg : list (list Q)) : bool :=
  let n := (2 * d)%nat in
  qsymb n sg &&
  psdb (2 * n) (herm_real n (fun i j => Qred (get QOps sg i j / hbar)) (omegaF QOps)).
(* the Gaussian-channel condition  Y + i Omega - i X Omega X^T >= 0  decided exactly *)
Definition chanb (d : nat) (X Y : list (list Q)) : bool :=
  let n := (2 * d)%nat in
  qsymb n Y &&
  psdb (2 * n) (herm_real n (get QOps Y)
                  (fsub QOps (omegaF QOps) (fcong QOps n (get QOps X) (omegaF QOps)))).
(* channels.py:DeterministicGaussianChannel._validate as written in the repository *)
Definition chanb_code (d : nat) (X Y : list (list Q)) : bool :=
  let n := (2 * d)%nat in
  psdb (2 * n) (herm_real n (get QOps Y)
                  (fsub QOps (fun i j => Qred (- omegaF QOps i j))
                        (fcong QOps n (get QOps X) (omegaF QOps)))).


(* exact inverse over Q (Gauss-Jordan on [M | I]); stands for np.linalg.inv in
   _get_generaldyne_evolved_state; the result is re-checked (M * K = I) where it is used *)
Fixpoint find_pivot (M : fmat (A:=Q)) (k : nat) (cands : list nat) : option nat :=
  match cands with
  | nil => None
  | r :: rest => if qzero (M r k) then find_pivot M k rest else Some r
  end.
Fixpoint qinv_go (fuel n : nat) (M : list (list Q)) (k : nat) : option (list (list Q)) :=
  match fuel with
  | O => Some M
  | S f =>
    let g := get QOps M in
    match find_pivot g k (seq k (n - k)) with
    | None => None
    | Some r =>
      let sw : fmat := fun i j => if Nat.eqb i k then g r j else if Nat.eqb i r then g k j else g i j in
      let p := sw k k in
      let M' := mk n (2 * n) (fun i j => if Nat.eqb i k then Qred (sw k j / p)
                                         else Qred (sw i j - sw i k * sw k j / p)) in
      qinv_go f n M' (S k)
    end
  end.
Definition qinv (n : nat) (M : list (list Q)) : option (list (list Q)) :=
  match qinv_go n n (mk n (2 * n) (fun i j => if Nat.ltb j n then get QOps M i j
                                              else if Nat.eqb (j - n)%nat i then 1%Q else 0%Q)) 0 with
  | None => None
  | Some R => Some (mk n n (fun i j => get QOps R i (j + n)%nat))
  end.
Definition qidb (n : nat) (M : list (list Q)) : bool := qmat_eqb n M (mk n n (fid QOps)).
Definition b2z (b : bool) : Z := if b then 1%Z else 0%Z.


(* W W^T = 1 *)
Definition orthb (n : nat) (W : list (list Q)) : bool :=
  qidb n (lmul QOps n W (mk n n (ftr (get QOps W)))).
(* 0 <= G <= 1 decided exactly *)
Definition occb (n : nat) (G : list (list Q)) : bool :=
  psdb n G && psdb n (mk n n (fsub QOps (fid QOps) (get QOps G))).

(* flatten a state for printing: numerators and denominators *)
Definition qflat (l : list Q) : list Z := flat_map (fun q => [Qnum (Qred q); Zpos (Qden (Qred q))]) l.
Definition gflat (st : gstate (A:=Q)) : list Z := qflat (fst st) ++ qflat (concat (snd st)).
