(* C03 - the executor model instantiated for the correspondence run: states are the
   identifiers the harness gave to the objects returned by the real simulation steps,
   outcomes are exact rationals, and the oracle is the table of recorded answers.
   Conditions and outcome-dependent parameters come from a small expression language whose
   Python rendering (string or lambda) the harness generates.  Definitions only. *)
From Coq Require Import ZArith QArith Qabs List Bool Arith.
From PV Require Import Base.CasesLib C03.ExecModel.
Import ListNotations.
Open Scope Z_scope.

Inductive cmp := CLt | CLe | CGt | CGe | CEq | CNe.
Inductive cond :=
| CTrue
| CCmp (idx : Z) (c : cmp) (v : Q)     (* x[idx] <c> v *)
| CAnd (a b : cond) | COr (a b : cond) | CNot (a : cond).

(* Python tuple indexing: negative indices count from the end, out of range raises *)
Definition py_index {A} (l : list A) (i : Z) : option A :=
  let n := Z.of_nat (length l) in
  let j := if i <? 0 then i + n else i in
  if (0 <=? j) && (j <? n) then nth_error l (Z.to_nat j) else None.

Definition cmp_eval (c : cmp) (a b : Q) : bool :=
  match c with
  | CLt => negb (Qle_bool b a) | CLe => Qle_bool a b
  | CGt => negb (Qle_bool a b) | CGe => Qle_bool b a
  | CEq => Qeq_bool a b | CNe => negb (Qeq_bool a b)
  end.

(* short-circuit [and] / [or] as in core/_expressions.py:Expression._eval and in Python *)
Fixpoint cond_eval (c : cond) (x : list Q) : option bool :=
  match c with
  | CTrue => Some true
  | CCmp i op v => match py_index x i with Some a => Some (cmp_eval op a v) | None => None end
  | CAnd a b => match cond_eval a x with
                | Some true => cond_eval b x | Some false => Some false | None => None end
  | COr a b => match cond_eval a x with
               | Some false => cond_eval b x | Some true => Some true | None => None end
  | CNot a => option_map negb (cond_eval a x)
  end.

(* an outcome-dependent parameter: a * x[idx] + b *)
Inductive pexpr := PFixed | PLin (a : Q) (idx : Z) (b : Q).
Definition pexpr_eval (p : pexpr) (x : list Q) : option (option Q) :=
  match p with
  | PFixed => Some None
  | PLin a i b => match py_index x i with Some v => Some (Some (a * v + b)%Q) | None => None end
  end.

Record instr := mkI { i_id : nat; i_modes : list nat; i_meas : bool; i_none_ok : bool;
                      i_cond : cond; i_param : pexpr }.

(* one recorded call of a simulation step *)
Record call := mkC { c_state : nat; c_instr : nat; c_modes : list nat; c_param : option Q;
                     c_shots : option Z; c_result : res (list (sub nat Q)) }.

Definition nl_eqb := list_eqb Nat.eqb.

(* the oracle that replays the recorded answers; codes 90/91: the model asks for a call the
   implementation did not make / made with other modes, parameter value or shots *)
Definition table_step (tbl : list call) (s : nat) (i : instr) (ms : list nat) (o : list Q)
           (k : option Z) : res (list (sub nat Q)) :=
  match pexpr_eval (i_param i) o with
  | None => Err (EStep 1)
  | Some pv =>
      match find (fun c => Nat.eqb (c_state c) s && Nat.eqb (c_instr c) (i_id i)) tbl with
      | None => Err (EStep 90)
      | Some c =>
          if nl_eqb (c_modes c) ms && opt_eqb Qeq_bool (c_param c) pv && opt_eqb Z.eqb (c_shots c) k
          then c_result c else Err (EStep 91)
      end
  end.

Definition run (tbl : list call) (prog : list instr) (shots : option Z) (d : nat) :=
  execute nat instr Q i_modes i_meas i_none_ok (fun i => cond_eval (i_cond i)) (table_step tbl)
          prog shots 0%nat d.

(* fixes/C03-conditioned-mid-circuit-measurement.diff: _validate_measurements_at_end refuses
   (InvalidSimulation) a conditioned measurement that is not the last instruction, before
   any evolution.  [strict] says whether the tree under test carries that validation (the
   harness probes it), so that the same model ties both the current and the repaired tree *)
Definition has_cond (i : instr) : bool := match i_cond i with CTrue => false | _ => true end.
Fixpoint cond_meas_mid (prog : list instr) : bool :=
  match prog with
  | [] => false
  | i :: rest => match rest with
                 | [] => false
                 | _ => (i_meas i && has_cond i) || cond_meas_mid rest
                 end
  end.
Definition run_strict (strict : bool) (tbl : list call) (prog : list instr) (shots : option Z) (d : nat) :=
  if strict && cond_meas_mid prog then Err (EStep 4) else run tbl prog shots d.

(* ---- comparison with what the implementation returned *)
Definition err_code (e : error) : Z :=
  match e with EInactiveModes => -1 | ECondition => -2 | EShotsNone => -3 | EStep c => c end.

Definition q_close (a b : Q) : bool :=   (* |a-b| <= 1e-12 (1+|a|) : shots=None weights are floats *)
  Qle_bool (Qabs (a - b)) ((1 # 1000000000000) * (1 + Qabs a)).

Definition ql_eq := list_eqb Qeq_bool.

(* expected final branch: state id, outcome, frequency, state.d (None: the step returned no
   state object, as the Gaussian particle-number steps do) *)
Definition branch_ok (exact : bool) (b : branch nat Q) (e : nat * list Q * Q * option nat) : bool :=
  let '(s, o, f, d) := e in
  Nat.eqb (b_state b) s && ql_eq (b_out b) o &&
  (if exact then Qeq_bool (b_freq b) f else q_close (b_freq b) f) &&
  match d with Some n => Nat.eqb (length (b_reg b)) n | None => true end.

Fixpoint list_ok {A B} (p : A -> B -> bool) (l1 : list A) (l2 : list B) : bool :=
  match l1, l2 with
  | [], [] => true
  | a :: r1, b :: r2 => p a b && list_ok p r1 r2
  | _, _ => false
  end.

Definition kv_ok {V} (veq : V -> V -> bool) (a b : list Q * V) : bool :=
  ql_eq (fst a) (fst b) && veq (snd a) (snd b).

(* what the implementation produced for one program *)
Record observed := mkObs {
  o_error : option Z;                                  (* exception class code, if it raised *)
  o_branches : list (nat * list Q * Q * option nat);
  o_samples : list (list Q);                           (* un-shuffled by the harness *)
  o_counts : option (list (list Q * Z));               (* None: get_counts not applicable *)
  o_outcome_map : list (list Q * Q) }.

Definition exact_of (shots : option Z) := match shots with Some _ => true | None => false end.

(* 0 = agree; 1 = executor disagrees; 2 = samples disagree; 3 = get_counts disagrees with the
   repaired definition but equals the overwriting one; 4 = get_counts disagrees otherwise;
   5 = outcome_map disagrees *)
Definition compare_case (strict : bool) (tbl : list call) (prog : list instr) (shots : option Z)
           (d : nat) (obs : observed) : Z :=
  match run_strict strict tbl prog shots d, o_error obs with
  | Err e, Some c => if err_code e =? c then 0 else 1
  | Err _, None => 1
  | Ok _, Some _ => 1
  | Ok (_, bs), None =>
      if negb (list_ok (branch_ok (exact_of shots)) bs (o_branches obs)) then 1 else
      match shots with
      | None => 0
      | Some N =>
          if negb (list_eqb ql_eq (samples_pre nat Q N bs) (o_samples obs)) then 2 else
          if negb (list_ok (kv_ok (if exact_of shots then Qeq_bool else q_close)) (outcome_map nat Q ql_eq bs)
                           (o_outcome_map obs)) then 5 else
          match o_counts obs with
          | None => 0
          | Some cs =>
              if list_ok (kv_ok Z.eqb) (get_counts nat Q ql_eq N bs) cs then 0
              else if list_ok (kv_ok Z.eqb) (get_counts_overwrite nat Q ql_eq N bs) cs then 3 else 4
          end
      end
  end.

(* the hypothesis [wf_step] of the theorems, decided on one recorded answer *)
Definition sub_count (k : Z) (s : sub nat Q) : Z := Qnum (Qred (s_freq s * inject_Z k)).
Definition wf_answer (c : call) : bool :=
  match c_shots c, c_result c with
  | Some k, Ok subs =>
      forallb (fun s => Qeq_bool (s_freq s) (frac (sub_count k s) k) && (1 <=? sub_count k s)) subs
      && (sumZ (map (sub_count k) subs) =? k)
  | _, _ => true
  end.
Definition wf_table (tbl : list call) : bool := forallb wf_answer tbl.
