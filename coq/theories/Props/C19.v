(* C19 — Dual-rail translation preserves qubit-circuit statistics.
   Only statements closed by [exact]; proofs live in C19/.  Everything below is about the model
   DRModel.v instantiated with EncodeGen.v, which the check regenerates from the repository on
   every run (emitted instruction lists, gates.py blocks, the two fixed CZ angles). *)
From Coq Require Import ZArith QArith List Bool Arith Ring Reals Qreals.
From PV Require Import C19.DRBase C19.EncodeGen C19.DRModel C19.RunInst C19.DRProofs C19.HomProofs C19.KLMProofs C19.RealInst C19.BoundProofs.
Import ListNotations.
Open Scope nat_scope.

Definition is_ring {A} (O : ops A) : Prop :=
  ring_theory (o0 O) (o1 O) (oadd O) (omul O) (fun x y => oadd O x (oopp O y)) (oopp O) (@eq A).

(* 1. every single-qubit gate (h,x,y,z,rx,ry,rz,u,p), every qubit, every value of the angle
      symbols, every commutative ring of scalars: the gates.py blocks of the emitted instructions
      multiply to the Qiskit matrix exactly (no global phase) *)
Theorem C19_encode_gate_matrix : forall A (O : ops A), is_ring O ->
  forall q g, encoded_gate_matrix O q g = Some (gate_matrix O g).
Proof. exact (@encode_gate_matrix). Qed.
Print Assumptions C19_encode_gate_matrix.

(* ... in particular at the reals *)
Theorem C19_encode_gate_matrix_real : forall q g, encoded_gate_matrix Rops q g = Some (gate_matrix Rops g).
Proof. exact (encode_gate_matrix Rops Rops_ring). Qed.
Print Assumptions C19_encode_gate_matrix_real.

(* 2. The encoding is a homomorphism on the code space.
   2a/2b: executing, in order, the instructions emitted for gate g (for a whole block body) on the
   rails of qubit q, on ANY n-qubit code state psi, is the qubit gate (gate sequence) on qubit q. *)
Theorem C19_encoded_gate_acts : forall A (O : ops A), is_ring O -> forall q g,
  exists l, instantiate O [2 * q; 2 * q + 1] (gsyms O g) (emitted_of g) = Some l /\
            forall psi, run_ops O l psi = Some (apply1 O q (gate_matrix O g) psi).
Proof. exact (@encoded_gate_acts). Qed.
Print Assumptions C19_encoded_gate_acts.

Theorem C19_encoded_block_acts : forall A (O : ops A), is_ring O -> forall q body,
  exists l, encode_gates O q body = Some l /\
            forall psi, run_ops O l psi = Some (apply_gates O q body psi).
Proof. exact (@encode_gates_acts). Qed.
Print Assumptions C19_encoded_block_acts.

(* 2c: program level, by induction over the instruction list: for every program of single-qubit
   gates, measurements and conditioned blocks on any number of qubits, every list of measurement
   answers, every state: the encoder succeeds and the photonic run of the encoded program (branch
   outcome tuple as in api/simulator.py, conditions reading outcome positions 2k, 2k+1 through
   get_bosonic_qubit_samples) equals the qubit run (classical bits, conditions on bit k).
   Visible restriction wf_prog: the k-th measurement writes classical bit k and a block reads a bit
   already written -- the input class of the open finding
   C19:condition:reads-outcome-position-of-clbit-index is excluded; blocks with an else part or on
   several qubits (the two if_else findings) are not expressible in qop. *)
Theorem C19_encode_homomorphism_except_clbit_order : forall A (O : ops A), is_ring O ->
  forall k1 k2 n p m idx, wf_prog m p ->
  exists l, encode_body O k1 k2 n idx p = Some l /\
    forall os outs cr psi, outs_inv m outs cr ->
      run_p O l os outs psi = Some (run_q O p os cr psi).
Proof. exact (@encode_homomorphism). Qed.
Print Assumptions C19_encode_homomorphism_except_clbit_order.

(* 2d: the outcome tuple (1,0)/(0,1) per measurement decodes to the qubit answers *)
Theorem C19_outcomes_decode : forall o os,
  get_bosonic_qubit_samples [enc_outcomes (o :: os)] = Some [o :: os].
Proof. exact samples_enc_outcomes. Qed.
Print Assumptions C19_outcomes_decode.

(* 2e: cx.  The list emitted for cx is [h on the target] ++ [the list emitted for cz on the two
   |1> rails with the same ancillas] ++ [h on the target] (all modes, all symbols); the h part acts
   as H on the target on every code state; and H.CZ.H = CX on qubit states (2*hh*hh = 1). *)
Theorem C19_encoded_cx_is_h_cz_h : forall A (O : ops A), is_ring O -> forall k1 k2 c t a0 a1,
  exists lh lz,
    instantiate O ([2 * c; 2 * c + 1; 2 * t; 2 * t + 1] ++ [a0; a1]) (ksyms k1 k2) emitted_cx = Some (lh ++ lz ++ lh) /\
    instantiate O ([2 * c + 1; 2 * t + 1] ++ [a0; a1]) (ksyms k1 k2) emitted_cz = Some lz /\
    (forall psi, run_ops O lh psi = Some (apply1 O t (gate_matrix O GH) psi)).
Proof. exact (@encoded_cx_is_h_cz_h). Qed.
Print Assumptions C19_encoded_cx_is_h_cz_h.

Theorem C19_h_cz_h_is_cx : forall A (O : ops A), is_ring O ->
  oadd O (omul O (ohh O) (ohh O)) (omul O (ohh O) (ohh O)) = o1 O ->
  forall c t psi x, c <> t -> t < length x ->
  apply1 O t (gate_matrix O GH) (apply_cz O c t (apply1 O t (gate_matrix O GH) psi)) x = apply_cx c t psi x.
Proof. exact (@h_cz_h_is_cx). Qed.
Print Assumptions C19_h_cz_h_is_cx.

(* 3a. the CZ block emitted by _cz_on_two_bosonic_qubits, as a 4-mode network with the ancillas
       found in (1,1): its transition amplitudes (permanents) are these polynomials in the
       (cos, sin) of the two fixed angles, over every commutative ring *)
Theorem C19_klm_network_poly : forall A (O : ops A), is_ring O -> forall c1 s1 c2 s2 x y a b,
  In (x, y, a, b) klm_cases ->
  klm_amp O c1 s1 c2 s2 x y a b = Some (klm_poly O c1 s1 c2 s2 x y a b, o0 O).
Proof. exact (@klm_network_poly). Qed.
Print Assumptions C19_klm_network_poly.

(* 3b. exact KLM angles: sqrt 6/9 * diag(1,1,1,-1) on the code states, all leakage amplitudes 0 *)
Theorem C19_klm_cz_exact : forall c1 s1 c2 s2 r2 r3 r6 : R,
  (r2 * r2 = 2 -> r3 * r3 = 3 -> r6 = r2 * r3 ->
  3 * (c1 * c1) = 1 -> 3 * (s1 * s1) = 2 -> 3 * (c1 * s1) = r2 ->
  6 * (c2 * c2) = 3 + r6 -> 6 * (s2 * s2) = 3 - r6 -> 6 * (c2 * s2) = r3 ->
  forall x y a b, In (x, y, a, b) klm_cases ->
  exists p, klm_amp Rops c1 s1 c2 s2 x y a b = Some (p, 0) /\ 9 * p = r6 * klm_target x y a b)%R.
Proof. exact klm_cz_exact. Qed.
Print Assumptions C19_klm_cz_exact.

(* non-vacuity of 3b: the premises are satisfied by real numbers (cos, sin of first-quadrant angles) *)
Example C19_klm_exact_angles_exist : exists c1 s1 c2 s2 r2 r3 r6 : R,
  (r2 * r2 = 2 /\ r3 * r3 = 3 /\ r6 = r2 * r3 /\
  3 * (c1 * c1) = 1 /\ 3 * (s1 * s1) = 2 /\ 3 * (c1 * s1) = r2 /\
  6 * (c2 * c2) = 3 + r6 /\ 6 * (s2 * s2) = 3 - r6 /\ 6 * (c2 * s2) = r3 /\
  0 < c1 /\ 0 < s1 /\ 0 < c2 /\ 0 < s2)%R.
Proof. exact klm_exact_angles_exist. Qed.

(* 4. the angles the code uses (54.74 and 17.63 degrees): every amplitude within 1e-4 *)
Theorem C19_klm_cz_rounded : forall x y a b, In (x, y, a, b) klm_cases ->
  exists p, klm_amp Rops (cos klm_th1) (sin klm_th1) (cos klm_th2) (sin klm_th2) x y a b = Some (p, 0%R)
            /\ (Rabs (p - sqrt 6 / 9 * klm_target x y a b) <= 1 / 10000)%R.
Proof. exact klm_cz_rounded. Qed.
Print Assumptions C19_klm_cz_rounded.

Theorem C19_klm_angle_error :
  (Rabs (cos klm_th1 * cos klm_th1 - 1 / 3) <= 1 / 10000 /\
   Rabs (cos klm_th2 * cos klm_th2 - (3 + sqrt 6) / 6) <= 1 / 10000)%R.
Proof. exact klm_angle_error. Qed.
Print Assumptions C19_klm_angle_error.

(* non-vacuity: the cases are the eight photon-number conserving transitions *)
Example C19_klm_cases : klm_cases =
  [(0,0,0,0); (0,1,0,1); (0,1,1,0); (1,0,0,1); (1,0,1,0); (1,1,0,2); (1,1,1,1); (1,1,2,0)].
Proof. reflexivity. Qed.
Example C19_klm_target_cz : (klm_target 1 1 1 1 = -1 /\ klm_target 0 1 0 1 = 1 /\ klm_target 0 1 1 0 = 0)%R.
Proof. repeat split; reflexivity. Qed.

(* 5 (partial). circuit level, first order, with its constant.  For every pseudo-metric space of
   states and every list of steps: exact steps contractions, entangling steps within eps*N(u) of an
   ideal kappa-Lipschitz map => after k entangling steps the states differ by at most
   k*eps*(kappa+eps)^(k-1)*N(initial).  With kappa = sqrt 6/9, eps = sqrt 8/10000 (from theorem 4) this
   is at most k*1.05e-3*kappa^k for k <= 10, and an amplitude error eta gives a probability error
   at most 2 eta + eta^2.  Partial: that the simulator's Fock-space maps satisfy the premises is
   not proved (C07/C08 unitarity; operator norm from the entrywise bound). *)
Theorem C19_circuit_error_bound_partial :
  forall (V : Type) (dist : V -> V -> R) (N : V -> R),
  (forall u v w, dist u w <= dist u v + dist v w)%R -> (forall u v, 0 <= dist u v)%R ->
  (forall u, dist u u = 0%R) -> (forall u, 0 <= N u)%R ->
  forall kappa eps : R, (0 <= kappa)%R -> (0 <= eps)%R ->
  forall (l : list (step V)) (u : V), Forall (step_ok V dist N kappa eps) l ->
  (dist (run_real V l u) (run_ideal V l u) <= first_order kappa eps (n_ent V l) * N u)%R.
Proof. exact circuit_error_bound. Qed.
Print Assumptions C19_circuit_error_bound_partial.

Theorem C19_klm_first_order_constant : forall k, 1 <= k <= 10 ->
  (INR k * klm_eps * (klm_kappa + klm_eps) ^ (pred k) <= INR k * (105 / 100000) * klm_kappa ^ k)%R.
Proof. exact klm_first_order_constant. Qed.
Print Assumptions C19_klm_first_order_constant.

Theorem C19_probability_from_amplitude : forall a b w eta : R,
  (0 <= a -> 0 <= b -> b <= w -> 0 <= eta -> Rabs (a - b) <= eta * w ->
   Rabs (a * a - b * b) <= (2 * eta + eta * eta) * (w * w))%R.
Proof. exact probability_from_amplitude. Qed.
Print Assumptions C19_probability_from_amplitude.
