(* C19 — the executable instance of the model: scalars Q(sqrt 2) = { a + b*sqrt 2 }, pairs of
   rationals kept reduced.  Used only to RUN DRModel.v on the circuits of the correspondence
   check (generated cases files); definitions only. *)
From Coq Require Import ZArith QArith List Bool Arith.
From PV Require Import C19.DRBase C19.EncodeGen C19.DRModel.
Import ListNotations.
Open Scope nat_scope.

Definition S2 := (Q * Q)%type.
Definition s2add (x y : S2) : S2 := (Qred (fst x + fst y), Qred (snd x + snd y)).
Definition s2mul (x y : S2) : S2 :=
  (Qred (fst x * fst y + 2 * (snd x * snd y)), Qred (fst x * snd y + snd x * fst y)).
Definition s2opp (x : S2) : S2 := (Qred (- fst x), Qred (- snd x)).
Definition S2ops : ops S2 := mkops S2 (0, 0)%Q (1, 0)%Q s2add s2mul s2opp (0, 1 # 2)%Q.
Definition s2q (q : Q) : S2 := (Qred q, 0%Q).

Definition s2_eqb (x y : S2) : bool := Qeq_bool (fst x) (fst y) && Qeq_bool (snd x) (snd y).
Definition c_eqb (x y : @cplx S2) : bool := s2_eqb (fst x) (fst y) && s2_eqb (snd x) (snd y).

(* printing: a + b sqrt 2 as four integers *)
Definition s2_out (x : S2) : list Z :=
  let a := Qred (fst x) in let b := Qred (snd x) in
  [Qnum a; Zpos (Qden a); Qnum b; Zpos (Qden b)].

Fixpoint all_bits (n : nat) : list (list bool) :=
  match n with
  | 0 => [[]]
  | S k => flat_map (fun x => [false :: x; true :: x]) (all_bits k)
  end.

(* measured qubits, in program order *)
Fixpoint measured (p : list (@qop S2)) : list nat :=
  match p with
  | [] => []
  | QM q _ :: r => q :: measured r
  | _ :: r => measured r
  end.

(* joint probability of (answers of the measurements, final basis state): indexed by the bit
   string x; the answers are the bits of x at the measured qubits *)
Definition prob_table (n : nat) (p : list (@qop S2)) : list Z :=
  flat_map (fun x =>
    let os := map (getb x) (measured p) in
    s2_out (cnorm2 S2ops (run_q S2ops p os (fun _ => false) (basis0 S2ops) x))) (all_bits n).

(* markers standing for the two fixed CZ angles in the executable instance (they are not in
   Q(sqrt 2)); only used to print the encoded program *)
Definition K1mark : S2 * S2 := ((1000, 0)%Q, (1, 0)%Q).
Definition K2mark : S2 * S2 := ((2000, 0)%Q, (1, 0)%Q).

Definition cond_out (c : option (nat * bool)) : list Z :=
  match c with None => [-1; 0]%Z | Some (k, v) => [Z.of_nat k; if v then 1 else 0]%Z end.
Definition cs_out (cs : S2 * S2) : list Z := s2_out (fst cs) ++ s2_out (snd cs).
Definition pinstr_out (i : @pinstr S2) : list Z :=
  match pi_op i with
  | PPS m phi => [1; Z.of_nat m; -1]%Z ++ cond_out (pi_cond i) ++ cs_out phi
  | PBS m1 m2 th ph => [2; Z.of_nat m1; Z.of_nat m2]%Z ++ cond_out (pi_cond i) ++ cs_out th ++ cs_out ph
  | PPostSel m1 m2 n1 n2 => [3; Z.of_nat m1; Z.of_nat m2]%Z ++ cond_out (pi_cond i) ++ [Z.of_nat n1; Z.of_nat n2]
  | PMeasure m1 m2 => [4; Z.of_nat m1; Z.of_nat m2]%Z ++ cond_out (pi_cond i)
  end.
(* the encoded program: [vacuum modes; create modes; instr; instr; ...], or [] if the encoder fails *)
Definition encode_out (n : nat) (p : list (@qop S2)) : list (list Z) :=
  match encode S2ops K1mark K2mark n p with
  | None => []
  | Some pp => map Z.of_nat (pp_vacuum pp) :: map Z.of_nat (pp_create pp) :: map pinstr_out (pp_body pp)
  end.

(* model-internal cross-check, evaluated on every case: the photonic run of the encoded program
   equals the qubit run, amplitude by amplitude (1 = agree, 0 = differ, 2 = photonic semantics
   not defined: the circuit has an entangling gate) *)
Definition photonic_agrees (n : nat) (p : list (@qop S2)) : Z :=
  match encode S2ops K1mark K2mark n p with
  | None => 2%Z
  | Some pp =>
      if forallb (fun x =>
           let os := map (getb x) (measured p) in
           match run_p S2ops (pp_body pp) os [] (basis0 S2ops) with
           | None => false
           | Some phi => c_eqb (phi x) (run_q S2ops p os (fun _ => false) (basis0 S2ops) x)
           end) (all_bits n)
      then 1%Z
      else if existsb (fun o => match o with QCZ _ _ | QCX _ _ => true | _ => false end) p then 2%Z else 0%Z
  end.

Definition samples_out (l : list (list nat)) : list (list Z) :=
  match get_bosonic_qubit_samples l with
  | None => [[-1]%Z]
  | Some r => map (map (fun b : bool => if b then 1%Z else 0%Z)) r
  end.
