// C04 native driver: exercises the kernels of <repo>/src compiled fresh from the working tree.
// Protocol (stdin, whitespace separated tokens), one record per case:
//   perm  P T PAD nr nc  r_0..r_{nr-1}  c_0..c_{nc-1}  (re im) x nr*nc     -> "ok re im"
//   lap   P T PAD nr nc  rows cols entries                                  -> "ok k re_0 im_0 ..."
//   pf    P n   entries (n*n reals)                                         -> "ok v"
//   tor   P n   entries (n*n reals)                                         -> "ok v"
//   ltor  P n   entries (n*n reals) displacement (n reals)                  -> "ok v"
//   binom n k                                                               -> "ok v"   (binomialCoeff<int>)
// P = f|d (float32/float64), T = forced std::thread::hardware_concurrency(), PAD = extra stride.
#include <complex>
#include <cstdio>
#include <cstdlib>
#include <cstring>
#include <iostream>
#include <string>
#include <thread>
#include <vector>

#include "matrix.hpp"
#include "utils.hpp"
#include "permanent.hpp"
#include "permanent_laplace.hpp"
#include "pfaffian.hpp"
#include "torontonian.hpp"
#include "loop_torontonian.hpp"

static unsigned int g_forced_threads = 1;
// interposes libstdc++'s definition inside this executable
unsigned int std::thread::hardware_concurrency() noexcept { return g_forced_threads; }

template <typename T>
static void run_perm(bool laplace, int pad, size_t nr, size_t nc)
{
    using C = std::complex<T>;
    Vector<int> rows(nr), cols(nc);
    for (size_t i = 0; i < nr; i++) std::cin >> rows[i];
    for (size_t i = 0; i < nc; i++) std::cin >> cols[i];
    size_t stride = nc + (size_t)pad;
    Matrix<C> A(nr, stride);  // owns nr*stride entries
    for (size_t i = 0; i < nr * stride; i++) A[i] = C((T)777.0, (T)-555.0);  // poison in the padding
    A.cols = nc;
    A.stride = stride;
    for (size_t i = 0; i < nr; i++)
        for (size_t j = 0; j < nc; j++) {
            double re, im;
            std::cin >> re >> im;
            A(i, j) = C((T)re, (T)im);
        }
    try {
        if (!laplace) {
            C r = permanent_cpp<T>(A, rows, cols);
            printf("ok %.17g %.17g\n", (double)r.real(), (double)r.imag());
        } else {
            Vector<C> r = permanent_laplace_cpp<T>(A, rows, cols);
            printf("ok %zu", r.size());
            for (size_t i = 0; i < r.size(); i++) printf(" %.17g %.17g", (double)r[i].real(), (double)r[i].imag());
            printf("\n");
        }
    } catch (std::string &e) {
        printf("err %s\n", e.c_str());
    }
}

template <typename T>
static void run_real(const std::string &what, size_t n)
{
    Matrix<T> A(n, n);
    for (size_t i = 0; i < n * n; i++) { double x; std::cin >> x; A[i] = (T)x; }
    T r;
    if (what == "pf") r = pfaffian_cpp<T>(A);
    else if (what == "tor") r = torontonian_cpp<T>(A);
    else {
        Vector<T> y(n);
        for (size_t i = 0; i < n; i++) { double x; std::cin >> x; y[i] = (T)x; }
        r = loop_torontonian_cpp<T>(A, y);
    }
    printf("ok %.17g\n", (double)r);
}

int main()
{
    std::string what;
    long case_no = 0;
    while (std::cin >> what) {
        // marker on stderr: sanitizer reports are attributed to the case that follows it
        fprintf(stderr, "#case %ld\n", case_no++);
        fflush(stderr);
        if (what == "binom") {
            int n, k;
            std::cin >> n >> k;
            printf("ok %d\n", binomialCoeff<int>(n, k));
            continue;
        }
        std::string prec;
        std::cin >> prec;
        if (what == "perm" || what == "lap") {
            int pad; size_t nr, nc;
            std::cin >> g_forced_threads >> pad >> nr >> nc;
            if (prec == "f") run_perm<float>(what == "lap", pad, nr, nc);
            else run_perm<double>(what == "lap", pad, nr, nc);
        } else {
            size_t n;
            std::cin >> n;
            if (prec == "f") run_real<float>(what, n);
            else run_real<double>(what, n);
        }
        fflush(stdout);
    }
    return 0;
}
