(* hbar-invariance of the observables computed from the ladder moments: the ladder moments
   produced by the setters depend only on the normalised moments (cov/hbar, mean/sqrt hbar),
   and every observable modelled in ObsModel.v depends only on the ladder moments, whatever
   its numerical kernel is. *)
From Coq Require Import List Arith Bool Lia Ring.
From PV Require Import C14.ReprModel C14.IndexProofs C14.ReprProofs C14.ObsModel.
Import ListNotations.

(* two states with the same ladder moments *)
Definition st_eq {A} (s s' : gstate A) : Prop :=
  (forall k, gm s k = gm s' k) /\ (forall a b, gC s a b = gC s' a b) /\ (forall a b, gG s a b = gG s' a b).

Lemma st_eq_sym : forall A (s s' : gstate A), st_eq s s' -> st_eq s' s.
Proof. intros A s s' [H1 [H2 H3]]. repeat split; intros; symmetry; auto. Qed.
Lemma st_eq_trans : forall A (s s' s'' : gstate A), st_eq s s' -> st_eq s' s'' -> st_eq s s''.
Proof.
  intros A s s' s'' [H1 [H2 H3]] [G1 [G2 G3]]. repeat split; intros.
  - rewrite H1. apply G1.
  - rewrite H2. apply G2.
  - rewrite H3. apply G3.
Qed.

Section ObsProofs.
Variable A : Type.
Variable K : ops A.
Hypothesis Rth : ring_theory (o0 K) (o1 K) (oadd K) (omul K) (osub K) (oopp K) (@eq A).
Add Ring Aring2 : Rth.
Local Notation "1" := (o1 K).
Local Infix "+!" := (oadd K) (at level 50, left associativity).
Local Infix "*!" := (omul K) (at level 40, left associativity).
Local Infix "-!" := (osub K) (at level 50, left associativity).
Ltac rng := unfold r4, r2; ring.

(* ------------------------------------------------------------ the setters see only normalised moments *)
Section FromNormalised.
Variables (hbar ihbar rt2 sh isq irt2 i4 : A).
Hypothesis H_ihbar : ihbar *! hbar = 1.
Hypothesis H_isq : isq *! (rt2 *! sh) = 1.
Hypothesis H_irt2 : irt2 *! rt2 = 1.

Lemma sh_isq : forall x, (sh *! x) *! isq = x *! irt2.
Proof.
  intro x.
  transitivity ((x *! irt2) *! (isq *! (rt2 *! sh)) +! (x *! sh *! isq) *! (1 -! irt2 *! rt2)); [ring|].
  rewrite H_isq, H_irt2. ring.
Qed.

Lemma blocks_scaled : forall d (cov N : mat A), (forall i j, cov i j = hbar *! N i j) ->
  forall i j, set_xpxp_cov_blocks K ihbar i4 d cov i j = set_xpxp_cov_blocks K 1 i4 d N i j.
Proof.
  intros d cov N H i j. unfold set_xpxp_cov_blocks. rewrite H.
  transitivity (((N (p2x d i) (p2x d j) *! (ihbar *! hbar)) -! ident K i j) *! i4); [ring|].
  rewrite H_ihbar. ring.
Qed.

(* set at hbar of (sqrt(hbar) nu, hbar N)  =  set at hbar=1 of (nu, N) *)
Theorem ladder_from_normalised : forall d (mean nu : vec A) (cov N : mat A),
  (forall k, mean k = sh *! nu k) -> (forall i j, cov i j = hbar *! N i j) ->
  st_eq (set_xpxp K ihbar i4 isq d mean cov) (set_xpxp K 1 i4 irt2 d nu N).
Proof.
  intros d mean nu cov N Hm Hc. unfold st_eq, set_xpxp. simpl. repeat split.
  - intro k. unfold set_xpxp_mean. rewrite !Hm, !sh_isq. reflexivity.
  - intros a b. unfold set_xpxp_cov_C. rewrite !(blocks_scaled d cov N Hc). reflexivity.
  - intros a b. unfold set_xpxp_cov_G. rewrite !(blocks_scaled d cov N Hc). reflexivity.
Qed.
End FromNormalised.

(* ------------------------------------------------------------ observables see only the ladder moments *)
Lemma tab1_ext : forall (T : Type) n (u v : nat -> T), (forall k, u k = v k) -> tab1 n u = tab1 n v.
Proof. intros. unfold tab1. apply map_ext. assumption. Qed.
Lemma tab2_ext : forall (T : Type) n (M N : nat -> nat -> T), (forall i j, M i j = N i j) -> tab2 n M = tab2 n N.
Proof. intros. unfold tab2. apply map_ext. intro i. apply map_ext. intro j. auto. Qed.

Lemma complex_displacement_ext : forall d s s', st_eq s s' ->
  forall k, complex_displacement K d s k = complex_displacement K d s' k.
Proof. intros d s s' [H1 _] k. unfold complex_displacement, concat. rewrite !H1. reflexivity. Qed.
Lemma complex_cov_ext : forall d s s', st_eq s s' ->
  forall i j, complex_cov K d s i j = complex_cov K d s' i j.
Proof.
  intros d s s' [_ [H2 H3]] i j. unfold complex_cov, block.
  destruct (i <? d), (j <? d); rewrite ?H2, ?H3; reflexivity.
Qed.

Theorem density_model_ext : forall (R Occ : Type) kernel d s s' (occ : Occ), st_eq s s' ->
  density_model K R Occ kernel d s occ = density_model K R Occ kernel d s' occ.
Proof.
  intros R Occ kernel d s s' occ H. unfold density_model, density_args.
  rewrite (tab1_ext _ d (gm s) (gm s')) by (apply H).
  rewrite (tab1_ext _ (2 * d) _ _ (complex_displacement_ext d s s' H)).
  rewrite (tab2_ext _ (2 * d) _ _ (complex_cov_ext d s s' H)). reflexivity.
Qed.

Theorem parity_model_ext : forall (R : Type) kernel d s s', st_eq s s' ->
  parity_model K R kernel d s = parity_model K R kernel d s'.
Proof.
  intros R kernel d s s' H. unfold parity_model.
  rewrite (tab1_ext _ (2 * d) _ _ (complex_displacement_ext d s s' H)).
  rewrite (tab2_ext _ (2 * d) _ _ (complex_cov_ext d s s' H)). reflexivity.
Qed.

Theorem phaseshifter_model_ext : forall (R : Type) (kernel : list (list (Cx A)) -> list (Cx A) -> list (Cx A) -> R)
  i2 d s s' z, st_eq s s' ->
  phaseshifter_model K kernel i2 d s z = phaseshifter_model K kernel i2 d s' z.
Proof.
  intros R kernel i2 d s s' z H. unfold phaseshifter_model.
  rewrite (tab1_ext _ (2 * d) _ _ (complex_displacement_ext d s s' H)).
  rewrite (tab2_ext _ (2 * d) (ps_M K i2 d s z) (ps_M K i2 d s' z)).
  - reflexivity.
  - intros i j. unfold ps_M. rewrite (complex_cov_ext d s s' H). reflexivity.
Qed.

Lemma sumn_ext_all : forall n f g, (forall k, f k = g k) -> sumn K n f = sumn K n g.
Proof. intros. apply (sumn_ext A K). intros. auto. Qed.

Theorem mean_photon_number_ext : forall d s s', st_eq s s' ->
  mean_photon_number K d s = mean_photon_number K d s'.
Proof.
  intros d s s' [H1 [H2 _]]. unfold mean_photon_number. f_equal. f_equal; f_equal;
    apply sumn_ext_all; intro k; rewrite ?H1, ?H2; reflexivity.
Qed.

Theorem variance_photon_number_ext : forall d s s', st_eq s s' ->
  variance_photon_number K d s = variance_photon_number K d s'.
Proof.
  intros d s s' H. pose proof (mean_photon_number_ext d s s' H) as Hm.
  destruct H as [H1 [H2 H3]]. unfold variance_photon_number. rewrite Hm.
  f_equal. f_equal. f_equal.
  - f_equal; [f_equal|].
    + unfold csumn. f_equal; apply sumn_ext_all; intro k; f_equal; f_equal; apply sumn_ext_all; intro j;
        rewrite ?H1, ?H2, ?H3; reflexivity.
    + unfold csumn. f_equal; apply sumn_ext_all; intro k; f_equal; f_equal; apply sumn_ext_all; intro j;
        rewrite ?H1, ?H2, ?H3; reflexivity.
    + unfold csumn. f_equal; apply sumn_ext_all; intro k; f_equal; f_equal; apply sumn_ext_all; intro j;
        rewrite ?H1, ?H2, ?H3; reflexivity.
  - f_equal. f_equal. apply sumn_ext_all; intro i. apply sumn_ext_all; intro j. rewrite !H1. reflexivity.
Qed.

(* ------------------------------------------------------------ any two values of hbar *)
Section TwoHbar.
Variables (h ih sh isq h' ih' sh' isq' rt2 irt2 i4 : A).
Hypothesis H1 : ih *! h = 1.
Hypothesis H2 : isq *! (rt2 *! sh) = 1.
Hypothesis H1' : ih' *! h' = 1.
Hypothesis H2' : isq' *! (rt2 *! sh') = 1.
Hypothesis H3 : irt2 *! rt2 = 1.

(* the state with normalised moments (nu, N), represented under hbar = h and under hbar = h' *)
Definition prep (hb ihb s isq_ : A) (d : nat) (nu : vec A) (N : mat A) : gstate A :=
  set_xpxp K ihb i4 isq_ d (fun k => s *! nu k) (fun i j => hb *! N i j).

Theorem same_ladder_moments_at_any_two_hbar : forall d nu N,
  st_eq (prep h ih sh isq d nu N) (prep h' ih' sh' isq' d nu N).
Proof.
  intros d nu N. unfold prep.
  apply (st_eq_trans _ _ (set_xpxp K 1 i4 irt2 d nu N)).
  - apply (ladder_from_normalised h ih rt2 sh isq irt2 i4 H1 H2 H3); intros; reflexivity.
  - apply st_eq_sym. apply (ladder_from_normalised h' ih' rt2 sh' isq' irt2 i4 H1' H2' H3); intros; reflexivity.
Qed.

(* hence every function of the ladder moments has the same value *)
Theorem ladder_observable_same_at_any_two_hbar : forall (R : Type) (F : gstate A -> R),
  (forall s s', st_eq s s' -> F s = F s') ->
  forall d nu N, F (prep h ih sh isq d nu N) = F (prep h' ih' sh' isq' d nu N).
Proof. intros R F HF d nu N. apply HF. apply same_ladder_moments_at_any_two_hbar. Qed.

Theorem density_same_at_any_two_hbar : forall (R Occ : Type) kernel d nu N (occ : Occ),
  density_model K R Occ kernel d (prep h ih sh isq d nu N) occ
  = density_model K R Occ kernel d (prep h' ih' sh' isq' d nu N) occ.
Proof. intros. apply density_model_ext. apply same_ladder_moments_at_any_two_hbar. Qed.

Theorem parity_same_at_any_two_hbar : forall (R : Type) kernel d nu N,
  parity_model K R kernel d (prep h ih sh isq d nu N) = parity_model K R kernel d (prep h' ih' sh' isq' d nu N).
Proof. intros. apply parity_model_ext. apply same_ladder_moments_at_any_two_hbar. Qed.

Theorem phaseshifter_same_at_any_two_hbar : forall (R : Type)
  (kernel : list (list (Cx A)) -> list (Cx A) -> list (Cx A) -> R) i2 d nu N z,
  phaseshifter_model K kernel i2 d (prep h ih sh isq d nu N) z
  = phaseshifter_model K kernel i2 d (prep h' ih' sh' isq' d nu N) z.
Proof. intros. apply phaseshifter_model_ext. apply same_ladder_moments_at_any_two_hbar. Qed.

Theorem variance_same_at_any_two_hbar : forall d nu N,
  variance_photon_number K d (prep h ih sh isq d nu N) = variance_photon_number K d (prep h' ih' sh' isq' d nu N).
Proof. intros. apply variance_photon_number_ext. apply same_ladder_moments_at_any_two_hbar. Qed.
End TwoHbar.

(* ------------------------------------------------------------ purify *)
Section Purify.
Variables (hbar ihbar rt2 sh isq irt2 i4 : A).
Hypothesis H_ihbar : ihbar *! hbar = 1.
Hypothesis H_isq : isq *! (rt2 *! sh) = 1.
Hypothesis H_irt2 : irt2 *! rt2 = 1.

(* what purify hands to williamson does not depend on hbar *)
Theorem purify_williamson_arg_hbar_free : forall d s,
  purify_williamson_arg K hbar ihbar d s = purify_williamson_arg K 1 1 d s.
Proof.
  intros d s. unfold purify_williamson_arg. apply tab2_ext. intros i j.
  rewrite (normalised_cov_hbar_free A K Rth hbar ihbar H_ihbar). ring.
Qed.

(* the purification built under hbar has the ladder moments of the one built under hbar = 1,
   whatever williamson and the construction of beta compute *)
Theorem purify_hbar_free : forall (beta_kernel : list (list A) -> mat A) d s,
  st_eq (purify_model K beta_kernel hbar ihbar rt2 sh isq i4 d s)
        (purify_model K beta_kernel 1 1 rt2 1 irt2 i4 d s).
Proof.
  intros bk d s. unfold purify_model.
  rewrite purify_williamson_arg_hbar_free.
  set (beta := bk (purify_williamson_arg K 1 1 d s)).
  set (N := block (2 * d) (fun i j => xpxp_cov K 1 d s i j) beta beta (fun i j => xpxp_cov K 1 d s i j)).
  set (nu := concat (2 * d) (xpxp_mean K rt2 1 d s) (xpxp_mean K rt2 1 d s)).
  apply (st_eq_trans _ _ (set_xpxp K 1 i4 irt2 (2 * d) nu N)).
  - apply (ladder_from_normalised hbar ihbar rt2 sh isq irt2 i4 H_ihbar H_isq H_irt2).
    + intro k. unfold nu, concat. destruct (k <? 2 * d); apply (xpxp_mean_scales A K Rth).
    + intros i j. f_equal. unfold N, block.
      destruct (i <? 2 * d), (j <? 2 * d); try reflexivity;
        apply (normalised_cov_hbar_free A K Rth hbar ihbar H_ihbar).
  - apply st_eq_sym.
    assert (E1 : 1 *! 1 = 1) by ring.
    assert (E2 : irt2 *! (rt2 *! 1) = 1) by (transitivity (irt2 *! rt2); [ring|assumption]).
    apply (ladder_from_normalised 1 1 rt2 1 irt2 irt2 i4 E1 E2 H_irt2).
    + intro k. unfold nu, concat. destruct (k <? 2 * d); ring.
    + intros i j. f_equal. unfold N, block.
      destruct (i <? 2 * d), (j <? 2 * d); try reflexivity; ring.
Qed.
End Purify.

End ObsProofs.
