(* C12 - the caller's Config, initial_state and the process-global `random` state, seen as a
   small heap of cells.  Definitions only; proofs in HeapProofs.v.  Stdlib style.

   Objects live in stores (reference -> content) with an allocation counter; a reference
   below the counter is an existing object.  What piquasso does with them:
     api/config.py:Config.__init__ / seed_sequence setter   -> config_new
     api/config.py:Config.copy (deepcopy, then share rng)   -> config_copy
     api/simulator.py:Simulator.__init__                    -> sim_new
     api/state.py:State.__init__ (config.copy())            -> state_new
     api/state.py:State.copy (copy.deepcopy)                -> state_deepcopy
     api/simulator.py:execute_instructions                  -> exec_heap
   [fixed] selects the repair of the fixes branch ("seeded Fock measurements depended on (and
   reseeded) the global `random` state"): every Config owns a random.Random (_python_rng),
   created by the seed_sequence setter, shared by Config.copy like the numpy Generator, and
   the Fock measurements draw from state._config._python_rng; before the repair the setter
   called random.seed and the measurements drew from the `random` module. *)
From Coq Require Import ZArith List Bool Arith.
Import ListNotations.

Record config := mkC { c_fields : Z; c_rng : nat; c_py : nat }.   (* other attributes; rng; _python_rng *)
Record state := mkS { s_data : Z; s_cfg : nat }.       (* the arrays; the state's own Config *)

Record heap := mkH {
  h_rng : nat -> Z;      h_nrng : nat;     (* numpy Generator objects: their state *)
  h_py : nat -> Z;       h_npy : nat;      (* random.Random objects owned by Configs *)
  h_cfg : nat -> config; h_ncfg : nat;
  h_st : nat -> state;   h_nst : nat;
  h_global : Z           (* state of the `random` module: the caller's *)
}.

Definition upd {A} (f : nat -> A) (k : nat) (v : A) : nat -> A :=
  fun i => if Nat.eqb i k then v else f i.

(* random.seed(s): only before the repair *)
Definition seed_global (s : Z) (h : heap) : heap :=
  mkH (h_rng h) (h_nrng h) (h_py h) (h_npy h) (h_cfg h) (h_ncfg h) (h_st h) (h_nst h) s.

Definition alloc_rng (v : Z) (h : heap) : nat * heap :=
  (h_nrng h, mkH (upd (h_rng h) (h_nrng h) v) (S (h_nrng h)) (h_py h) (h_npy h) (h_cfg h) (h_ncfg h)
                 (h_st h) (h_nst h) (h_global h)).
Definition alloc_py (v : Z) (h : heap) : nat * heap :=
  (h_npy h, mkH (h_rng h) (h_nrng h) (upd (h_py h) (h_npy h) v) (S (h_npy h)) (h_cfg h) (h_ncfg h)
                (h_st h) (h_nst h) (h_global h)).
Definition alloc_cfg (c : config) (h : heap) : nat * heap :=
  (h_ncfg h, mkH (h_rng h) (h_nrng h) (h_py h) (h_npy h) (upd (h_cfg h) (h_ncfg h) c) (S (h_ncfg h))
                 (h_st h) (h_nst h) (h_global h)).
Definition alloc_st (s : state) (h : heap) : nat * heap :=
  (h_nst h, mkH (h_rng h) (h_nrng h) (h_py h) (h_npy h) (h_cfg h) (h_ncfg h)
                (upd (h_st h) (h_nst h) s) (S (h_nst h)) (h_global h)).

(* Config(seed_sequence=s): a new Generator and a new random.Random(s); before the repair
   random.seed(s) instead (the object in c_py is then never drawn from) *)
Definition config_new (fixed : bool) (s : Z) (h : heap) : nat * heap :=
  let '(r, h1) := alloc_rng s h in
  let '(p, h2) := alloc_py s h1 in
  let '(c, h3) := alloc_cfg (mkC s r p) h2 in
  (c, if fixed then h3 else seed_global s h3).

(* Config.copy: a new object with equal attributes that shares rng and _python_rng *)
Definition config_copy (c : nat) (h : heap) : nat * heap := alloc_cfg (h_cfg h c) h.

(* Simulator.__init__: config.copy() if a config is given, else Config() *)
Definition sim_new (fixed : bool) (uc : option nat) (urandom : Z) (h : heap) : nat * heap :=
  match uc with Some c => config_copy c h | None => config_new fixed urandom h end.

(* State.__init__(config=...) *)
Definition state_new (cfg : nat) (data : Z) (h : heap) : nat * heap :=
  let '(c, h1) := config_copy cfg h in alloc_st (mkS data c) h1.

(* State.copy = copy.deepcopy: arrays, Config and its Generator are all duplicated *)
Definition state_deepcopy (s : nat) (h : heap) : nat * heap :=
  let st := h_st h s in
  let cf := h_cfg h (s_cfg st) in
  let '(r, h1) := alloc_rng (h_rng h (c_rng cf)) h in
  let '(p, h2) := alloc_py (h_py h (c_py cf)) h1 in
  let '(c, h3) := alloc_cfg (mkC (c_fields cf) r p) h2 in
  alloc_st (mkS (s_data st) c) h3.

(* what a simulation step may do to the state it is handed *)
Inductive hev :=
| HWrite (v : Z)     (* in-place update of the state's arrays *)
| HDrawNp            (* state._config.rng.<draw> *)
| HDrawPy            (* random.choices resp. state._config._python_rng.choices *)
| HFork              (* a sub-branch: state.copy(), continue on the copy *)
| HNewFrom.          (* a new State object built with config=state._config, continue on it *)

Definition write_state (w : nat) (v : Z) (h : heap) : heap :=
  mkH (h_rng h) (h_nrng h) (h_py h) (h_npy h) (h_cfg h) (h_ncfg h)
      (upd (h_st h) w (mkS v (s_cfg (h_st h w)))) (h_nst h) (h_global h).
Definition draw_np (w : nat) (h : heap) : heap :=
  let r := c_rng (h_cfg h (s_cfg (h_st h w))) in
  mkH (upd (h_rng h) r (h_rng h r + 1)%Z) (h_nrng h) (h_py h) (h_npy h) (h_cfg h) (h_ncfg h)
      (h_st h) (h_nst h) (h_global h).
Definition draw_py (fixed : bool) (w : nat) (h : heap) : heap :=
  if fixed then
    let p := c_py (h_cfg h (s_cfg (h_st h w))) in
    mkH (h_rng h) (h_nrng h) (upd (h_py h) p (h_py h p + 1)%Z) (h_npy h) (h_cfg h) (h_ncfg h)
        (h_st h) (h_nst h) (h_global h)
  else
    mkH (h_rng h) (h_nrng h) (h_py h) (h_npy h) (h_cfg h) (h_ncfg h) (h_st h) (h_nst h)
        (h_global h + 1)%Z.

Fixpoint run_steps (fixed : bool) (w : nat) (evs : list hev) (h : heap) : nat * heap :=
  match evs with
  | [] => (w, h)
  | e :: r =>
    match e with
    | HWrite v => run_steps fixed w r (write_state w v h)
    | HDrawNp => run_steps fixed w r (draw_np w h)
    | HDrawPy => run_steps fixed w r (draw_py fixed w h)
    | HFork => let '(w', h') := state_deepcopy w h in run_steps fixed w' r h'
    | HNewFrom => let '(w', h') := state_new (s_cfg (h_st h w)) (s_data (h_st h w)) h in
                  run_steps fixed w' r h'
    end
  end.

(* Simulator(config=uc) ... .execute(program, initial_state=ui): the simulator's config, the
   working state (a copy of the caller's, or a fresh one), then whatever the steps do; a run
   that raises is a run with fewer events *)
Definition exec_heap (fixed : bool) (uc : option nat) (ui : option nat) (urandom : Z)
  (evs : list hev) (h : heap) : heap :=
  let '(sc, h1) := sim_new fixed uc urandom h in
  let '(w, h2) := match ui with
                  | Some s => state_deepcopy s h1
                  | None => state_new sc 0%Z h1
                  end in
  snd (run_steps fixed w evs h2).
